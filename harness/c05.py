"""C05 — returned results are mutually consistent and faithful to the model."""
import contextlib
import io
import json
import logging
import math
import os
import shutil
import struct
import tempfile
import time
from fractions import Fraction

import numpy as np

from . import c02, c03, c05_tables, core, py2lean

PROPS_MODULE = "NessaiVerif.Props.C05"
MANIFEST = dict(
    text="PARTIAL: the clause 'stored logL/logP equal the model evaluated at the sample' is oracle-only (only 'the sampler never "
         "alters or invents a stored likelihood' is proved); the importance-sampler estimator theorems are consequences of the "
         "model's definitions (definitional + algebra), tied to the code by the correspondence and the oracle; the result-table "
         "theorem compares source expressions syntactically, value equality is checked on real runs. "
         "Lean theorems about what a completed run returns. Standard sampler (executable bookkeeping model of "
         "populate_live_points / insert_live_point / consume_sample / finalise / nested_sampling_loop / birth_log_likelihoods, "
         "any linearly ordered likelihood type, any candidate streams, any iteration cap, any chain of nested_sampling_loop calls "
         "resumed at iteration boundaries, finished and capped runs run again included): the number of nested samples is iterations + nlive after finalisation and exactly iterations otherwise, "
         "which can only happen when the cap was reached; returned likelihoods are non-decreasing; every returned sample's "
         "birth likelihood logLs[it] exists and is strictly below its likelihood; the integral state saw exactly the returned "
         "likelihoods with live counts n..n,n,n-1..1, hence (with C02) the reported log-evidence and posterior weights are what "
         "the one-pass compute_weights returns for the returned samples and nlive alone (rectangle sum when cut short). "
         "Importance sampler (linear domain, any field): evidence = mean of L*W, posterior weights = L*W/Z (sum N), squared "
         "log-evidence error = (N*sum w^2/(sum w)^2 - 1)/(N-1), all invariant under any rearrangement of the returned "
         "samples; sample count = sum of per-level draws (C03) and likelihood order (C04) as corollaries. Result dictionaries: "
         "tables regenerated from the source by an AST translator on every run (key -> attribute read, forwarding properties "
         "inlined) and a decided theorem that every result-bearing key reads the expression FlowSampler / the sampler object "
         "expose (INS: with and without the independent set; after redrawing: the redrawn store). Tie: complete real runs "
         "through FlowSampler.run(save=True) (standard: rejection / tiny neural flows / tied likelihoods / constrained prior / "
         "iteration cap reached, reached together with convergence, never reached / killed at an arbitrary iteration and "
         "resumed / finished or capped run resumed again; importance: exactly-known and tiny neural flows, strict/soft, "
         "replace-all, variable draws, with/without independent set, killed after a level and resumed, finished run resumed) "
         "are replayed through the Lean model (likelihoods as order-preserving integer codes: nested samples, it fields, "
         "logLs, live-count schedule, births compared exactly); evidence / weights / uncertainty are recomputed from the "
         "returned samples alone by the exact Rat models (quad and res drivers) and an independent mpmath evaluation (1e-9); "
         "every translated table entry is evaluated on the real sampler object and compared with the real dictionary / "
         "FlowSampler attribute; the oracle demands the property on every run (counts, order, births, recomputation, "
         "logL/logP re-evaluated at every returned sample, dictionary = json result file = sampler attributes; every public quantity "
         "read again in several orders - effective sample size first, dictionary twice, weights/ESS/weights - must still be the "
         "recomputed value). The evidence state of the importance sampler is ALSO regenerated from the source on every run "
         "(pylogvec2lean: _INSIntegralState.update_evidence / logZ / log_posterior_weights and log_evidence_from_ins_samples -> "
         "Gen/InsState.lean; also compute_evidence_ratio and compute_uncertainty with sqrt/abs uninterpreted) and proved equal to the "
         "model's insWeights / insZ / insPostW / insRatio / insVar (ins_*_source_eq_model).",
    note="Resuming is the identity on the modelled state only for checkpoints written at iteration boundaries (periodic / final); "
         "checkpoints written inside consume_sample (signal window F4, checkpoint_on_training F25) are outside the theorems. "
         "'stored logL/logP equal the model evaluated at the sample' is a statement about user code; proved is only "
         "that the sampler never alters or invents a stored likelihood (stored_values_are_evaluated_values_partial); the "
         "re-evaluation itself is oracle-only. Stopping test and candidate streams are inputs of the model. The information H "
         "behind the standard sampler's uncertainty is recomputed numerically (the code's recursion at 60 digits from the "
         "returned samples), not modelled in Lean. exp() of the returned log-likelihoods enters the Rat models as 100-bit "
         "dyadics. Outside the domain: prior_sampling=True, and runs with redrawn final samples (draw_final_samples raises in "
         "this version: C20); for the latter only the table theorem speaks.",
    technique="Lean 4 proof (invariant by induction over iterations; field algebra; decided tables from an AST translator; INS "
              "evidence state translated from the source and proved equal to the model) + "
              "trace replay of real runs through the model + exact recomputation + oracle",
    ref="5/C05")

TOL = 1e-9
LBITS = 100       # mantissa bits of exp(logL) handed to the Rat models
TBITS = 96        # bits of exp(-1/n)
GEN_OK = {"ok": True}


# ================================================================================================ translator
def gen(ctx):
    """regenerate lean/NessaiVerif/Gen/Results.lean from core.REPO"""
    try:
        tables, used = c05_tables.build(core.REPO)
        text = c05_tables.render_file(tables, used)
        rewritten = py2lean.write_if_changed(core.LEAN / "NessaiVerif" / "Gen" / "Results.lean", text)
        ctx.extra["generated"] = dict(
            file="lean/NessaiVerif/Gen/Results.lean", rewritten=rewritten,
            entries={k: len(v) for k, v in tables.items()},
            sources=[dict(path=p, definition=n, lines=[a, b], sha256=s) for p, n, a, b, s in used])
    except (c05_tables.TableError, SyntaxError, OSError) as e:
        GEN_OK["ok"] = False
        ctx.broken(f"translator: result tables could not be regenerated from the current source: {e}",
                   "Gen/Results.lean was left as generated from an earlier tree; result_keys_read_sampler_attributes was "
                   "checked against that text only")


    gen_ins_state(ctx)


def gen_ins_state(ctx):
    """regenerate Gen/InsState.lean: _INSIntegralState.update_evidence, .logZ, .log_posterior_weights and
    log_evidence_from_ins_samples translated from the current source (harness/pylogvec2lean.py); C05.ins_*_source_eq_model are
    re-proved on every run."""
    from . import pylogvec2lean as V
    specs = [
        V.VecSpec(source="nessai/evidence.py", cls="_INSIntegralState", func="update_evidence", name="update_evidence", params=[],
                  rec_params={"nested_samples": ("nsL", "nsW")}, opt_rec_params={"live_points": "live"}, result="List K × K × Nat",
                  result_attrs=["_weights", "_logZ", "_n"], lsum="sumL",
                  doc="returns (`_weights`, `_logZ`, `_n`); a record array is its (`logL`, `logW`) columns"),
        V.VecSpec(source="nessai/evidence.py", cls="_INSIntegralState", func="logZ", name="logZ", params=[], result="K",
                  self_attrs={"_logZ": ("u_logZ", V.LOG), "_n": ("u_n", V.NAT)}, lsum="sumL"),
        V.VecSpec(source="nessai/evidence.py", cls="_INSIntegralState", func="log_posterior_weights", name="log_posterior_weights",
                  params=[], result="List K", lsum="sumL", extra_binders="(u_logZ : K) (u_n : Nat)",
                  self_attrs={"_weights": ("u_weights", V.VLOG), "logZ": ("(logZ u_logZ u_n)", V.LOG)}),
        V.VecSpec(source="nessai/evidence.py", func="log_evidence_from_ins_samples", name="log_evidence_from_ins_samples", params=[],
                  rec_params={"samples": ("sL", "sW")}, result="K", lsum="sumL"),
        # the quantities behind the `ratio` / `ratio_ns` stopping criteria (C15)
        V.VecSpec(source="nessai/evidence.py", cls="_INSIntegralState", func="log_evidence_live_points", name="log_evidence_live_points",
                  params=[], result="K", self_attrs={"_weights_lp": ("u_weights_lp", V.VLOG)}, lsum="sumL",
                  # the arm for a state without live points raises: outside the domain (the criteria are computed with live points)
                  delegate={"self._weights_lp is None": "raise RuntimeError('Live points are not set')"}),
        V.VecSpec(source="nessai/evidence.py", cls="_INSIntegralState", func="log_evidence_nested_samples", name="log_evidence_nested_samples",
                  params=[], result="K", self_attrs={"_weights_ns": ("u_weights_ns", V.VLOG)}, lsum="sumL"),
        V.VecSpec(source="nessai/evidence.py", cls="_INSIntegralState", func="compute_evidence_ratio", name="compute_evidence_ratio",
                  params=[("ns_only", "ns_only", V.BOOL)], result="K", lsum="sumL",
                  extra_binders="(u_weights_lp u_weights_ns : List K) (u_logZ : K) (u_n : Nat)",
                  self_attrs={"log_evidence_live_points": ("(log_evidence_live_points u_weights_lp)", V.LOG),
                              "log_evidence_nested_samples": ("(log_evidence_nested_samples u_weights_ns)", V.LOG),
                              "logZ": ("(logZ u_logZ u_n)", V.LOG)}),
        # the uncertainty (behind log_evidence_error and the Z_err / fractional_error criteria); sqrt and |.| stay uninterpreted
        V.VecSpec(source="nessai/evidence.py", cls="_INSIntegralState", func="compute_uncertainty", name="compute_uncertainty",
                  params=[("log_evidence", "log_evidence", V.BOOL)], result="K", lsum="sumL",
                  extra_binders="(sqrtOf absOf : K → K) (u_logZ : K)", real_fns={"np.sqrt": "sqrtOf", "np.abs": "absOf"},
                  self_attrs={"_weights": ("u_weights", V.VLOG), "_n": ("u_n", V.NAT), "logZ": ("(logZ u_logZ u_n)", V.LOG)}),
    ]
    parts, infos = [], {}
    try:
        for sp in specs:
            lean, info = V.translate(core.REPO, sp)
            parts.append(lean)
            infos[sp.func] = info
    except py2lean.TranslationError as e:
        ctx.broken(f"translator: {e}", "Gen/InsState.lean was left as it was (the theorems are about the last translatable source)")
        return
    except (OSError, SyntaxError) as e:
        ctx.broken(f"translator: cannot read/parse the source: {e}")
        return
    text = ("import NessaiVerif.Model.Quadrature\n"
            "/-\nGENERATED by harness/pylogvec2lean.py (harness/c05.py gen_ins_state) from the CURRENT nessai source — do not edit.\n"
            "C05 / C15: the evidence state of the importance sampler, log vectors -> linear domain.\n-/\n"
            "namespace NessaiVerif.Gen.InsState\nopen NessaiVerif NessaiVerif.Quad\n\n"
            "variable {K : Type} [Add K] [Sub K] [Mul K] [Div K] [OfNat K 0] [NatCast K]\n\n"
            + "\n".join(parts) + "\nend NessaiVerif.Gen.InsState\n")
    rewritten = py2lean.write_if_changed(core.LEAN / "NessaiVerif" / "Gen" / "InsState.lean", text)
    ctx.extra.setdefault("generated", {}).update(dict(ins_state=infos, ins_state_rewritten=rewritten))


# ================================================================================================ helpers
@contextlib.contextmanager
def quiet():
    prev = logging.root.manager.disable
    logging.disable(logging.CRITICAL)
    try:
        with contextlib.redirect_stderr(io.StringIO()), np.errstate(all="ignore"):
            yield
    finally:
        logging.disable(prev)


def fcode(x):
    """order-preserving integer code of a float64 (-0.0 and 0.0 coincide); NaN is not coded"""
    x = float(x)
    if math.isnan(x):
        raise ValueError("NaN log-likelihood")
    b = struct.unpack("<q", struct.pack("<d", x))[0]
    return b if b >= 0 else -(b & 0x7FFFFFFFFFFFFFFF)


def code_or_none(x):
    return "none" if (x == -math.inf) else str(fcode(x))


def make_model(dims, sigma=1.0, seed=0, ties=False, cut=False, offset=0.0, angle=False, lcut=False):
    """Gaussian likelihood in a [-4,4]^d box with a flat prior; unit-hypercube maps for the importance sampler.
    `ties`: outside radius 1 the likelihood is quantised (many exactly equal values among the early points);
    `cut`: the prior is zero on part of the box (x0 + x1 > 2): log_prior = -inf inside the bounds, a legal constrained model;
    `offset`: constant added to the log-likelihood (an un-normalised likelihood: log Z far outside the float64 exp range)"""
    from nessai.model import Model

    class Gauss(Model):
        def __init__(self):
            self.names = [f"x{i}" for i in range(dims)]
            self.bounds = {n: [-4.0, 4.0] for n in self.names}
            self.mu = [0.5 * (i + 1) - 0.25 * (seed % 3) for i in range(dims)]
            self.sigma = float(sigma)
            if angle:
                # the last parameter is an angle on [0, 2 pi] (run with the 'angle' reparameterisation, which adds an auxiliary
                # radial parameter with its own prior to the proposal's space: seeded change C05-d)
                self.bounds[self.names[-1]] = [0.0, 2.0 * math.pi]
                self.mu[-1] = 3.0

        def log_prior(self, x):
            ok = self.in_bounds(x)
            if cut:
                ok = ok & ((x[self.names[0]] + x[self.names[1]]) <= 2.0)
            lp = np.log(ok, dtype="float")
            if angle:
                return lp - (dims - 1) * math.log(8.0) - math.log(2.0 * math.pi)
            return lp - dims * math.log(8.0)

        def log_likelihood(self, x):
            out = np.zeros(x.size)
            for n, m in zip(self.names, self.mu):
                out = out - 0.5 * ((x[n] - m) / self.sigma) ** 2
            if ties:
                out = np.where(out < -0.5, -np.ceil(-out * 2.0) / 2.0, out)
            out = out - dims * math.log(self.sigma) + offset
            if lcut:
                # the likelihood is exactly zero on part of the prior support (a hard truncation): such samples are drawn,
                # counted and returned like any other (seeded change C05-eB: dropped at finalise)
                with np.errstate(all="ignore"):
                    out = np.where(x[self.names[0]] < -1.0, -np.inf, out)
            return out

        def to_unit_hypercube(self, x):
            y = x.copy()
            for n in self.names:
                y[n] = (x[n] + 4.0) / 8.0
            return y

        def from_unit_hypercube(self, x):
            y = x.copy()
            for n in self.names:
                y[n] = 8.0 * x[n] - 4.0
            return y

    return Gauss()


def mpf_dy(x, bits=LBITS):
    """`a@e` token of the mp number x >= 0 rounded down to `bits` mantissa bits"""
    M = c02.M()
    if x == 0:
        return "0@0"
    man, exp = M.mpf(x).man_exp
    man = int(man)
    extra = man.bit_length() - bits
    if extra > 0:
        man >>= extra
        exp += extra
    return f"{man}@{exp}"


def exp_tokens(logs, shift):
    """exp(log - shift) of float log-values as dyadic tokens (60-digit exp, then rounded to LBITS)"""
    M = c02.M()
    out = []
    for v in logs:
        v = float(v)
        out.append("0@0" if v == -math.inf else mpf_dy(M.exp(M.mpf(v) - shift)))
    return "[" + ",".join(out) + "]"


def close(real, exact, tol=TOL):
    return c02.close(real, exact, tol)


def same_array(a, b):
    """exact equality of two (possibly structured) arrays, NaN == NaN"""
    a, b = np.asarray(a), np.asarray(b)
    if a.shape != b.shape or a.dtype != b.dtype:
        return False
    if a.dtype.names:
        return all(same_array(a[n], b[n]) for n in a.dtype.names)
    if a.dtype.kind == "f":
        return bool(np.array_equal(a, b, equal_nan=True))
    return bool(np.array_equal(a, b))


def same_number(a, b):
    if a is None or b is None:
        return a is None and b is None
    a, b = float(a), float(b)
    return a == b or (math.isnan(a) and math.isnan(b))


def rows_of(arr):
    """what NessaiJSONEncoder writes for a structured array (list of rows), after a json round trip"""
    return json.loads(json.dumps(np.asarray(arr).tolist()))


def json_equal(a, b):
    if isinstance(a, float) and isinstance(b, float):
        return a == b or (math.isnan(a) and math.isnan(b))
    if isinstance(a, (list, tuple)) and isinstance(b, (list, tuple)):
        return len(a) == len(b) and all(json_equal(x, y) for x, y in zip(a, b))
    return a == b


# ================================================================================================ evaluating table entries
def eval_entry(tree, sampler):
    """value of a resolved table expression (JSON from the `res tab` op) on the real sampler object"""
    kind = tree[0]
    if kind == "root":
        return sampler
    if kind == "none":
        return None
    if kind == "attr":
        return getattr(eval_entry(tree[1], sampler), tree[2])
    if kind == "app":
        f, arg = tree[1], eval_entry(tree[2], sampler)
        if f.startswith("."):
            name, kws = f[1:].split("(", 1)
            kws = kws[:-1]
            kwargs = {}
            for part in [p for p in kws.split(",") if p]:
                k, v = part.split("=", 1)
                kwargs[k] = {"True": True, "False": False, "None": None}[v]
            return getattr(arg, name)(**kwargs)
        if f == "np.array":
            return np.array(arg)
        if f == "self.model.from_unit_hypercube":
            return sampler.model.from_unit_hypercube(arg)
        raise KeyError(f"callee {f}")
    if kind == "opaque" and tree[1].startswith("self."):
        return eval(tree[1], {"__builtins__": {}}, {"self": sampler, "np": np})   # noqa: S307 (source text of nessai itself)
    raise KeyError(f"expression kind {kind}")


def same_value(a, b):
    if isinstance(a, np.ndarray) or isinstance(b, np.ndarray) or isinstance(a, list) or isinstance(b, list):
        try:
            return same_array(np.asarray(a), np.asarray(b))
        except Exception:  # noqa
            return False
    try:
        return same_number(a, b)
    except (TypeError, ValueError):
        return a == b


STD_PAIRS = [("log_evidence", "fs:logZ"), ("log_evidence", "fsprop:log_evidence"), ("log_evidence", "ns:log_evidence"),
             ("log_evidence_error", "fs:logZ_error"), ("log_evidence_error", "fsprop:log_evidence_error"),
             ("log_evidence_error", "ns:log_evidence_error"), ("nested_samples", "fs:_nested_samples"),
             ("nested_samples", "fsprop:nested_samples"), ("nested_samples", "fs:posterior:samples"),
             ("log_posterior_weights", "fs:posterior:log_w"), ("log_posterior_weights", "ns:state.log_posterior_weights"),
             ("logL_birth", "ns:birth_log_likelihoods"), ("insertion_indices", "ns:insertion_indices"),
             ("information", "ns:information")]
INS_PAIRS = [("log_evidence", "fs:logZ"), ("log_evidence", "fsprop:log_evidence"), ("log_evidence", "ns:log_evidence"),
             ("log_evidence_error", "fs:logZ_error"), ("log_evidence_error", "fsprop:log_evidence_error"),
             ("log_evidence_error", "ns:log_evidence_error"), ("samples", "fs:_nested_samples"),
             ("samples", "fsprop:nested_samples"), ("samples", "ns:samples"),
             ("log_posterior_weights", "ns:log_posterior_weights")]


def flowsampler_value(fs, key):
    """the real FlowSampler-side value an `exposed` key stands for (None if it cannot be observed after the run)"""
    if key.startswith("fs:posterior"):
        return None
    if key.startswith("fs:"):
        return getattr(fs, key[3:])
    if key.startswith("fsprop:"):
        return getattr(fs, key[7:])
    return None


def tie_tables(ctx, fs, d, sampler_tag, pairs, iid, case):
    """every translated entry, resolved by the Lean evaluator under the run's configuration and evaluated on the real
    sampler object, must equal the real dictionary entry / FlowSampler attribute"""
    if not GEN_OK["ok"]:
        return
    ns = fs.ns
    cfgs = f"{int(bool(iid))} 0"
    keys_r = sorted({p[0] for p in pairs})
    keys_x = sorted({p[1] for p in pairs})
    lines = [f"res tab {sampler_tag} result {cfgs} {k}" for k in keys_r] + \
            [f"res tab {sampler_tag} exposed {cfgs} {k}" for k in keys_x] + \
            [f"res same {sampler_tag} {cfgs} {a} {b}" for a, b in pairs]
    outs = ctx.model(lines)
    vals, raised = {}, []
    for line, out, key, which in zip(lines, outs, keys_r + keys_x, ["r"] * len(keys_r) + ["x"] * len(keys_x)):
        if not out.startswith("ok "):
            ctx.disagree(f"result table: no entry for key {key}", {**case, "line": line, "model": out})
            continue
        try:
            vals[(which, key)] = eval_entry(json.loads(out[3:]), ns)
        except Exception as e:  # noqa
            if which == "r" and d is None:
                # the real get_result_dictionary raised as well: the translated entry reproduces the failure
                raised.append(key)
                continue
            ctx.disagree(f"result table: the translated source of `{key}` cannot be evaluated on the real sampler "
                         f"({type(e).__name__}: {e})", {**case, "line": line, "model": out})
    if d is None and not raised and not any(vals.get(("r", k)) is None for k in keys_r):
        ctx.disagree("result table: the real get_result_dictionary raised but every translated entry evaluates", case)
    if raised:
        ctx.hist["table entries that raise exactly as the real dictionary does"] += len(raised)
    for k in keys_r:
        if ("r", k) in vals and d is not None:
            if k not in d or not same_value(vals[("r", k)], d[k]):
                ctx.disagree(f"result table: get_result_dictionary()['{k}'] differs from the translated source evaluated on the sampler",
                             {**case, "key": k})
    for k in keys_x:
        if ("x", k) in vals:
            real = flowsampler_value(fs, k)
            if real is not None and not same_value(vals[("x", k)], real):
                ctx.disagree(f"result table: FlowSampler's `{k}` differs from the translated source evaluated on the sampler",
                             {**case, "key": k})
    for (a, b), out in zip(pairs, outs[len(keys_r) + len(keys_x):]):
        if out != "1":
            ctx.disagree(f"result table: `{a}` and `{b}` no longer resolve to the same source (contradicts "
                         "result_keys_read_sampler_attributes)", {**case, "model": out})
    ctx.hist["table entries evaluated on a real sampler"] += len(vals)


def kish_ess(log_w):
    """Kish effective sample size (sum w)^2 / sum w^2 of exact log-weights (mp numbers, -inf allowed)"""
    M = c02.M()
    fin = [x for x in log_w if x != M.ninf]
    if not fin:
        return M.mpf(0)
    top = max(fin)
    a = M.fsum(M.exp(x - top) for x in fin)
    b = M.fsum(M.exp(2 * (x - top)) for x in fin)
    return a * a / b


def repeated_reads(ctx, site, case, ns, weights_of, exact_z, z_ok, err_ok, exact_w):
    """the public quantities read again in several orders (effective sample size first, then the weights, then the result
    dictionary; the dictionary twice; weights, ESS, weights): every read must still be the value recomputed from the
    returned samples — reads are idempotent and order-independent"""
    ess_ref = kish_ess(exact_w)

    def snap(label, z, e, w):
        if z is None or e is None or w is None:
            ctx.oracle_fail(site + ":reads-not-idempotent:missing", f"{label}: evidence / error / weights missing", case)
            return
        w = np.asarray(w, dtype=float)
        if not z_ok(float(z)):
            ctx.oracle_fail(site + ":reads-not-idempotent:log_evidence", f"{label}: log-evidence read as {float(z)!r}, the returned "
                            f"samples give {float(exact_z)!r}", {**case, "read": label})
        if not err_ok(float(e)):
            ctx.oracle_fail(site + ":reads-not-idempotent:log_evidence_error", f"{label}: uncertainty read as {float(e)!r} is not the "
                            "value recomputed from the returned samples", {**case, "read": label})
        if len(w) != len(exact_w):
            ctx.oracle_fail(site + ":reads-not-idempotent:log_posterior_weights", f"{label}: {len(w)} weights for {len(exact_w)} samples",
                            {**case, "read": label})
        else:
            for i, x in enumerate(exact_w):
                if not close(w[i], x):
                    ctx.oracle_fail(site + ":reads-not-idempotent:log_posterior_weights",
                                    f"{label}: log posterior weight {i} read as {w[i]!r} but the returned samples give {float(x)!r} "
                                    "(an earlier read changed what later reads return)", {**case, "read": label, "sample": i})
                    break

    def ess_check(label, v):
        if not close(float(v), ess_ref):
            ctx.oracle_fail(site + ":reads-not-idempotent:effective_sample_size", f"{label}: posterior effective sample size read as "
                            f"{float(v)!r}, Kish's formula on the recomputed weights gives {float(ess_ref)!r}", {**case, "read": label})

    with quiet():
        ess_check("ESS read first", ns.posterior_effective_sample_size)
        snap("weights after reading the ESS", ns.log_evidence, ns.log_evidence_error, weights_of(ns))
        d1 = ns.get_result_dictionary()
        snap("result dictionary after reading the ESS", d1.get("log_evidence"), d1.get("log_evidence_error"), d1.get("log_posterior_weights"))
        d2 = ns.get_result_dictionary()
        d3 = ns.get_result_dictionary()
        snap("result dictionary, second read", d2.get("log_evidence"), d2.get("log_evidence_error"), d2.get("log_posterior_weights"))
        snap("result dictionary, third read", d3.get("log_evidence"), d3.get("log_evidence_error"), d3.get("log_posterior_weights"))
        w_a = np.array(weights_of(ns), dtype=float, copy=True)
        ess_check("ESS between two weight reads", ns.posterior_effective_sample_size)
        w_b = np.asarray(weights_of(ns), dtype=float)
        snap("weights, ESS, weights: last read", ns.log_evidence, ns.log_evidence_error, w_b)
        if not same_array(w_a, w_b):
            ctx.oracle_fail(site + ":reads-not-idempotent:log_posterior_weights", "two reads of the log posterior weights with a read of "
                            "the effective sample size in between returned different arrays", {**case, "read": "weights, ESS, weights"})
    ctx.hist["repeated / re-ordered reads checked"] += 6


# ================================================================================================ standard sampler
class Stop(Exception):
    pass


class Recorder:
    """class-level wrappers (removed afterwards) recording what the Lean model needs as inputs"""

    def __init__(self):
        self.steps, self.draws, self.pop, self.patched = [], [], None, []
        self.stop_at = None

    def install(self):
        from nessai.proposal.analytic import AnalyticProposal
        from nessai.proposal.flowproposal import FlowProposal
        from nessai.samplers.nestedsampler import NestedSampler as NS
        rec = self

        def wrap_draw(cls):
            orig = cls.draw

            def draw(self_, *a, **k):
                x = orig(self_, *a, **k)
                rec.draws.append((float(x["logP"]), float(x["logL"])))
                return x
            cls.draw = draw
            rec.patched.append((cls, "draw", orig))

        wrap_draw(AnalyticProposal)
        wrap_draw(FlowProposal)
        orig_consume, orig_pop = NS.consume_sample, NS.populate_live_points

        def consume_sample(self_):
            if rec.stop_at is not None and self_.iteration >= rec.stop_at:
                raise Stop()
            rec.draws = []
            orig_consume(self_)
            stream = [ll for lp, ll in rec.draws if lp != -math.inf and not math.isnan(ll)]
            rec.steps.append(dict(it=int(self_.iteration), stream=stream,
                                  below=bool(self_.condition <= self_.tolerance), logLmin=float(self_.logLmin)))
            rec.draws = []

        def populate_live_points(self_):
            orig_pop(self_)
            rec.pop = [float(v) for v in self_.live_points["logL"]]

        NS.consume_sample, NS.populate_live_points = consume_sample, populate_live_points
        self.patched += [(NS, "consume_sample", orig_consume), (NS, "populate_live_points", orig_pop)]

    def remove(self):
        for cls, name, orig in reversed(self.patched):
            setattr(cls, name, orig)
        self.patched = []


STD_KINDS = ["rejection", "flow", "cap", "resume-flow", "rejection-t", "resume-rejection", "cap-late", "flow-narrow",
             "rejection-ties", "cap-exact", "flow-ties", "rejection-cut", "resume-finished", "resume-cap",
             "rejection-offset", "flow-offset", "rejection-flat", "flow-angle", "rejection-interim", "flow-interim"]


def _interim_reader(sampler):
    """a `checkpoint_callback` that writes nothing and READS the interim results (a user monitoring a run): the final results must
    not depend on having been looked at before the run finished (seeded change C05-iA: birth_log_likelihoods cached its array and
    finalise did not invalidate it)"""
    d = sampler.get_result_dictionary()
    _ = (sampler.birth_log_likelihoods, d.get("log_evidence"), sampler.nested_samples[-1:] if len(sampler.nested_samples) else None)


def std_config(kind, seed, nlive, dims=2):
    kw = dict(nlive=nlive, plot=False, seed=seed, signal_handling=False, result_extension="json", checkpointing=False,
              flow_config=dict(n_blocks=2, n_neurons=4), training_config=dict(max_epochs=5, patience=3),
              stopping=[0.5, 0.1, 0.3][seed % 3])
    if "rejection" in kind or "cap" in kind or kind == "resume-finished":
        kw.update(maximum_uninformed=np.inf, uninformed_acceptance_threshold=0.0)
    else:
        kw.update(maximum_uninformed=nlive, poolsize=2 * nlive)
    if kind.endswith("-t"):
        kw.update(shrinkage_expectation="t")
    if kind.endswith("-angle"):
        # the model's LAST parameter is the angle (make_model)
        kw.update(reparameterisations={f"x{dims - 1}": {"reparameterisation": "angle"}})
    if kind in ("cap", "resume-cap"):
        kw.update(max_iteration=nlive + 7 + seed % 23)
    if kind == "cap-late":
        kw.update(max_iteration=100000)
    if kind in ("resume-flow", "resume-rejection"):
        kw.update(checkpointing=True, checkpoint_on_iteration=True, checkpoint_interval=max(7, nlive // 3))
    if kind.endswith("-interim"):
        kw.update(checkpointing=True, checkpoint_on_iteration=True, checkpoint_interval=1, checkpoint_callback=_interim_reader)
    return kw


def run_standard(kind, seed, nlive, dims=2):
    """one complete real run through FlowSampler.run(save=True); returns everything the checks need"""
    from nessai.flowsampler import FlowSampler
    out = tempfile.mkdtemp(prefix="c05-std-")
    rec = Recorder()
    sigma = 0.4 if kind == "flow-narrow" else (60.0 if kind.endswith("-flat") else 1.0)
    ties = kind.endswith("-ties")
    cut = kind.endswith("-cut")
    offset = [-1500.0, 800.0, -5000.0][seed % 3] if kind.endswith("-offset") else 0.0
    angle = kind.endswith("-angle")
    kw = std_config(kind, seed, nlive, dims)
    res = dict(kind=kind, seed=seed, nlive=nlive, dims=dims, segments=[], error=None, offset=offset)
    rec.install()
    try:
        with quiet():
            model = make_model(dims, sigma, seed, ties, cut, offset, angle)
            if kind in ("resume-flow", "resume-rejection"):
                # killed at an arbitrary iteration; resumed from the last periodic checkpoint (later iterations are lost)
                rec.stop_at = nlive + 5 + (seed % 17)
                fs = FlowSampler(model, output=out, resume=True, **kw)
                try:
                    fs.run(plot=False, save=True)
                except Stop:
                    pass
                first, rec.steps, rec.stop_at = rec.steps, [], None
                model = make_model(dims, sigma, seed, ties, cut, offset, angle)
                fs = FlowSampler(model, output=out, resume=True, **kw)
                res["resumed_at"] = int(fs.ns.iteration)
                res["resumed"] = bool(fs.ns.resumed)
                below0 = bool(fs.ns.condition <= fs.ns.tolerance)
                res["segments"].append(dict(type="killed", steps=[s for s in first if s["it"] <= fs.ns.iteration]))
                fs.run(plot=False, save=True)
                res["segments"].append(dict(type="loop", below0=below0, steps=rec.steps))
            else:
                if kind == "cap-exact":
                    # learn the length of the uncapped run, then cap the same seeded run at exactly that iteration:
                    # the cap and the stopping test are then met together
                    fs0 = FlowSampler(model, output=os.path.join(out, "probe"), resume=False, **kw)
                    fs0.run(plot=False, save=False)
                    kw["max_iteration"] = int(fs0.ns.iteration)
                    rec.steps, rec.pop = [], None
                    model = make_model(dims, sigma, seed, ties, cut, offset, angle)
                fs = FlowSampler(model, output=out, resume=False, **kw)
                fs.run(plot=False, save=True)
                res["segments"].append(dict(type="loop", below0=False, steps=rec.steps))
                if kind in ("resume-finished", "resume-cap"):
                    # the completed (or capped) run is resumed from its final checkpoint and run again
                    rec.steps = []
                    model = make_model(dims, sigma, seed, ties, cut, offset, angle)
                    fs = FlowSampler(model, output=out, resume=True, **kw)
                    res["resumed_at"] = int(fs.ns.iteration)
                    res["resumed"] = bool(fs.ns.resumed)
                    below0 = bool(fs.ns.condition <= fs.ns.tolerance)
                    fs.run(plot=False, save=True)
                    res["segments"].append(dict(type="loop", below0=below0, steps=rec.steps))
            res.update(fs=fs, model=model, pop=rec.pop, kw=kw)
            path = os.path.join(out, "result.json")
            res["file"] = json.load(open(path)) if os.path.exists(path) else None
            res["dict"] = fs.ns.get_result_dictionary()
    except Exception as e:  # noqa
        import traceback
        res["error"] = f"{type(e).__name__}: {e}"
        res["where"] = traceback.format_exc()[-700:]
    finally:
        rec.remove()
        shutil.rmtree(out, ignore_errors=True)
    return res


KEY_NEG_INFO = "_NSIntegralState.increment:first-dead-point-information-skipped:negative-information:nan-uncertainty"


def info_recursion(logLs, sched, mode):
    """the information H as `_NSIntegralState.increment` defines it (its recursion, skip rule included), evaluated at
    60 digits from the returned log-likelihoods and the live-count schedule alone"""
    M = c02.M()
    logZ, logw, info = M.ninf, M.mpf(0), M.mpf(0)
    n_info, last = 1, M.ninf          # len(state.info), state.logLs[-1]
    for v, n in zip(logLs, sched):
        v = float(v)
        logL = M.ninf if v == -math.inf else M.mpf(v)
        logt = (M.mpf(-1) / n) if mode == "logt" else -M.log1p(M.mpf(1) / n)
        Wt = logw + logL + M.log1p(-M.exp(logt)) if logL != M.ninf else M.ninf
        oldZ = logZ
        if Wt == M.ninf:
            logZ = oldZ
        elif oldZ == M.ninf:
            logZ = Wt
        else:
            hi, lo = (oldZ, Wt) if oldZ >= Wt else (Wt, oldZ)
            logZ = hi + M.log1p(M.exp(lo - hi))
        if oldZ != M.ninf and logZ != M.ninf and logL != M.ninf:
            prev = info
            if n_info == 1 and last != M.ninf:
                prev = last - oldZ        # the first point got no entry of its own (oldZ = -inf): log(L_1 / Z_1)
            info = M.exp(Wt - logZ) * logL + M.exp(oldZ - logZ) * (prev + oldZ) - logZ
            n_info += 1
        logw += logt
        last = logL
    return info


def check_standard(ctx, res):
    """oracle (the property on the real outputs) + tie (replay through the Lean models)"""
    case = dict(kind="standard:" + res["kind"], seed=res["seed"], nlive=res["nlive"], dims=res["dims"],
                loglikelihood_offset=res.get("offset", 0.0))
    site = "NestedSampler"
    if res["error"]:
        ctx.oracle_fail("FlowSampler.run:standard:raised", f"a supported standard-sampler run raised {res['error']}",
                        {**case, "where": res.get("where")})
        return
    fs, model, d, f = res["fs"], res["model"], res["dict"], res["file"]
    ns = fs.ns
    n = int(ns.nlive)
    nested = np.array(ns.nested_samples)
    ll = np.asarray(nested["logL"], dtype=float)
    k = int(ns.iteration)
    fin = bool(ns.finalised)
    mode = ns.state.expectation
    cap = ns.max_iteration
    # ---------------------------------------------------------------- (a) counts, order, births
    cut = bool(k >= cap and ns.condition > ns.tolerance)      # stopped by the cap with the stopping test still unmet
    want = k if cut else k + n
    if len(nested) != want:
        ctx.oracle_fail(site + ":count", f"{len(nested)} nested samples returned after {k} iterations with nlive={n} "
                        f"({'cut short by the iteration cap' if cut else 'stopping test met'}): expected {want}", case)
    if not cut and not ns.condition <= ns.tolerance:
        ctx.oracle_fail(site + ":stopped-early", f"run returned at iteration {k} with the stopping test unmet "
                        f"(condition {float(ns.condition)!r} > {ns.tolerance}) and the cap {cap} not reached", case)
    if fin == cut:
        ctx.oracle_fail(site + ":finalised-flag", f"finalised={fin} after a run that was {'cut short by the cap' if cut else 'not cut short'}",
                        case)
    if np.any(np.isnan(ll)) or np.any(np.diff(ll) < 0):
        i = int(np.argmax(np.diff(ll) < 0)) if not np.any(np.isnan(ll)) else -1
        ctx.oracle_fail(site + ":order", f"nested-sample log-likelihoods are not in ascending order (position {i}: "
                        f"{ll[max(i, 0):i + 2].tolist()})", case)
    try:
        births = np.asarray(ns.birth_log_likelihoods, dtype=float)
    except Exception as e:  # noqa
        births = None
        ctx.oracle_fail(site + ".birth_log_likelihoods:raised", f"birth_log_likelihoods raised {type(e).__name__}: {e}", case)
    if births is not None:
        if births.shape != ll.shape or not np.all(births < ll):
            bad = int(np.argmax(~(births < ll))) if births.shape == ll.shape else -1
            ctx.oracle_fail(site + ".birth_log_likelihoods:not-below",
                            f"birth likelihood of returned sample {bad} is {births[bad] if bad >= 0 else births.shape} "
                            f"but its likelihood is {ll[bad] if bad >= 0 else ll.shape} (must be strictly below)", case)
    # ---------------------------------------------------------------- (c) stored logL / logP = model at the sample
    with quiet():
        ll_model = np.asarray(model.log_likelihood(nested), dtype=float)
        lp_model = np.asarray(model.log_prior(nested), dtype=float)
    for name, stored, fresh in (("logL", ll, ll_model), ("logP", np.asarray(nested["logP"], dtype=float), lp_model)):
        ok = (stored == fresh) | (np.abs(stored - fresh) <= 1e-12 * np.maximum(1.0, np.abs(fresh)))
        if not np.all(ok):
            i = int(np.argmax(~ok))
            ctx.oracle_fail(site + ":stored-" + name, f"returned sample {i} stores {name}={stored[i]!r} but the model gives "
                            f"{fresh[i]!r} at its parameters", {**case, "sample": i})
    # ---------------------------------------------------------------- (b) recomputation from the returned samples alone
    M = c02.M()
    logZ, err = float(ns.log_evidence), float(ns.log_evidence_error)
    logw = np.array(ns.state.log_posterior_weights, dtype=float, copy=True)
    shift = M.mpf(float(np.max(ll))) if len(ll) and np.isfinite(np.max(ll)) else M.mpf(0)
    sched = [n] * k + (list(range(n, 0, -1)) if fin else [])
    model_fields = None
    if len(ll) == len(sched) and len(ll) > 0 and not np.any(np.isnan(ll)):
        sh = c02.shrink_tok(mode, range(1, n + 1), TBITS)
        Ls = exp_tokens(ll, shift)
        if fin:
            line = f"quad sampler {n} {k} {Ls} {sh}"
        else:
            line = f"quad incr {n} [{','.join(['none'] * k)}] {Ls} {sh}"
        out = ctx.model([line])[0]
        model_fields = c02.parse_fields(out)
        if model_fields["status"] != "ok":
            ctx.disagree("the quadrature model rejects the returned samples", {**case, "model": out[:120]})
            model_fields = None
    if model_fields is not None:
        zkey = "Z" if fin else "Zrect"
        exactZ = c02.log_tok(model_fields[zkey]) + shift
        if not close(logZ, exactZ):
            ctx.oracle_fail(site + ":log_evidence-not-recomputable", f"reported log-evidence {logZ!r} but the quadrature of the "
                            f"returned samples (nlive={n}, {'finalised' if fin else 'cut short: rectangle sum'}) gives "
                            f"{float(exactZ)!r}", case)
        W = model_fields["W"][1:-1].split(",") if model_fields["W"] != "[]" else []
        if len(W) != len(logw):
            ctx.oracle_fail(site + ":weights-length", f"{len(logw)} log posterior weights for {len(ll)} returned samples", case)
        else:
            for i, tok in enumerate(W):
                if not close(logw[i], c02.log_tok(tok)):
                    ctx.oracle_fail(site + ":log_posterior_weights-not-recomputable",
                                    f"log posterior weight {i} is {logw[i]!r}, recomputed from the returned samples "
                                    f"{float(c02.log_tok(tok))!r}", {**case, "sample": i})
                    break
        # the model's live-count schedule is the documented one
        if model_fields["ns"] != "[" + ",".join(map(str, sched)) + "]":
            ctx.disagree("schedule of the quadrature model differs from n..n,n,n-1..1", {**case, "model": model_fields["ns"][-40:]})
        # independent one-pass real function (C02's subject) on the returned samples
        if fin:
            from nessai.posterior import compute_weights
            z2, w2 = compute_weights(ll, n, expectation=mode)
            if not close(float(z2), exactZ) or not np.allclose(w2, logw, rtol=0, atol=1e-9):
                ctx.oracle_fail(site + ":compute_weights-mismatch", f"compute_weights(returned logL, nlive) = {float(z2)!r} differs "
                                f"from the reported log-evidence {logZ!r} / weights", case)
    if len(ll) == len(sched) and len(ll) > 0:
        H = info_recursion(ll, sched, mode)
        want_err = M.sqrt(H / n) if H >= 0 else M.nan
        # float64 rounding of the information recursion: each step's weights exp(Wt - logZ), exp(oldZ - logZ) carry a relative
        # error eps*max|logL| and multiply numbers of size max|logL|; the recursion damps old errors by (1 - 1/nlive), so the
        # worst case accumulates to about eps * max|logL|^2 * nlive (a likelihood offset c costs ~ c^2 * nlive * 1e-16;
        # observed 3e-8 at c = -5000, nlive = 120).  Allowed on top of the usual 1e-9; negligible without an offset.
        finite_ll = ll[np.isfinite(ll)]
        round_h = 1e-15 * n * (float(np.max(np.abs(finite_ll))) ** 2 if len(finite_ll) else 0.0)
        tol_h = TOL * max(1.0, abs(float(H))) + round_h
        tol_e = TOL * max(1.0, abs(float(want_err)) if H >= 0 else 1.0) + (round_h / (2.0 * math.sqrt(float(H) * n)) if H > 0 else 0.0)
        if math.isnan(err) and H >= 0:
            # regression of the repaired defect F55: a recursion that drops the first dead point's own information yields the
            # textbook H (>= 0, theorem C02.textbook_info_nonneg) plus p_1 log(1 - t_1) < 0 (C02.info_without_first_point);
            # on a (nearly) flat likelihood it is negative and sqrt(H / nlive) is NaN (C02.info_without_first_point_can_be_negative)
            ctx.oracle_fail(KEY_NEG_INFO, f"reported uncertainty is NaN (information reported {float(ns.information)!r}) although the "
                            f"information of the returned samples is {float(H)!r} >= 0 (log-likelihood range "
                            f"{float(np.ptp(finite_ll)) if len(finite_ll) else 0.0:.3g})", case)
        elif not (math.isfinite(err) and H >= 0 and abs(M.mpf(err) - want_err) <= tol_e):
            ctx.oracle_fail(site + ":log_evidence_error-not-recomputable", f"reported uncertainty {err!r} but sqrt(H/nlive) "
                            f"recomputed from the returned samples is {float(want_err)!r}", case)
        info_real = float(ns.information)
        if not (math.isfinite(info_real) and abs(M.mpf(info_real) - H) <= tol_h):
            ctx.oracle_fail(site + ":information-not-recomputable", f"reported information {info_real!r}, recomputed "
                            f"{float(H)!r}", case)
        if model_fields is not None and len(W) == len(ll):
            exact_w = [c02.log_tok(tok) for tok in W]
            repeated_reads(ctx, site, case, ns, lambda o: o.state.log_posterior_weights, exactZ,
                           lambda z: close(z, exactZ),
                           lambda e: math.isnan(e) if H < 0 else (math.isfinite(e) and abs(M.mpf(e) - want_err) <= tol_e), exact_w)
    # ---------------------------------------------------------------- (d) dictionary = file = sampler = FlowSampler
    checks = [
        ("log_evidence", same_number(d.get("log_evidence"), ns.log_evidence) and same_number(fs.log_evidence, ns.log_evidence)
         and same_number(fs.logZ, ns.log_evidence)),
        ("log_evidence_error", same_number(d.get("log_evidence_error"), ns.log_evidence_error)
         and same_number(fs.log_evidence_error, ns.log_evidence_error)),
        ("nested_samples", same_array(d.get("nested_samples"), nested) and same_array(fs.nested_samples, nested)),
        ("log_posterior_weights", same_array(d.get("log_posterior_weights"), logw)),
        ("logL_birth", births is None or same_array(d.get("logL_birth"), births)),
        ("information", same_number(d.get("information"), ns.information)),
    ]
    for key, ok in checks:
        if not ok:
            ctx.oracle_fail(site + ".get_result_dictionary:" + key, f"result dictionary / FlowSampler report a different `{key}` "
                            "than the sampler object", case)
    if f is None:
        ctx.oracle_fail("FlowSampler.save_results:missing", "run(save=True) wrote no result file", case)
    else:
        fchecks = [("log_evidence", json_equal(f.get("log_evidence"), float(ns.log_evidence))),
                   ("log_evidence_error", json_equal(f.get("log_evidence_error"), float(ns.log_evidence_error))),
                   ("nested_samples", json_equal(f.get("nested_samples"), rows_of(nested))),
                   ("log_posterior_weights", json_equal(f.get("log_posterior_weights"), rows_of(logw))),
                   ("logL_birth", births is None or json_equal(f.get("logL_birth"), rows_of(births)))]
        for key, ok in fchecks:
            if not ok:
                ctx.oracle_fail("FlowSampler.save_results:" + key, f"the saved result file reports a different `{key}` than the "
                                "sampler object", case)
    tie_tables(ctx, fs, d, "std", STD_PAIRS, True, case)
    # ---------------------------------------------------------------- tie: replay through the Lean bookkeeping model
    replay_standard(ctx, res, case, nested, births)
    ctx.traces += 1
    nontrivial = k >= 1 and len(nested) >= n
    ctx.case(("std", res["kind"], res["seed"], res["nlive"], res["dims"]), nontrivial,
             dict(case, iterations=k, finalised=fin, returned=len(nested), log_evidence=logZ, log_evidence_error=err,
                  expectation=mode, resumed_at=res.get("resumed_at")), kind=f"standard:{res['kind']}:{'finalised' if fin else 'cut-short'}")
    ctx.hist["returned samples checked (standard)"] += len(nested)


def replay_standard(ctx, res, case, nested, births):
    ns = res["fs"].ns
    if res["pop"] is None or any(math.isnan(v) for v in res["pop"]):
        ctx.disagree("no initial live points were recorded", case)
        return
    cmds = []
    segs = res["segments"]
    cap = "none" if not np.isfinite(ns.max_iteration) else str(int(ns.max_iteration))
    for seg in segs:
        if seg["type"] == "killed":
            for st in seg["steps"]:
                cmds.append("c[" + ",".join(str(fcode(v)) for v in st["stream"]) + "]")
        else:
            steps = ",".join("[" + ",".join(str(fcode(v)) for v in st["stream"]) + "]:" + str(int(st["below"]))
                             for st in seg["steps"])
            cmds.append(f"loop:{cap}:{int(seg['below0'])}:[{steps}]")
    line = "res ns [" + ",".join(str(fcode(v)) for v in res["pop"]) + "] " + ";".join(cmds)
    out = ctx.model([line])[0]
    want = (f"ok it={int(ns.iteration)} fin={int(bool(ns.finalised))} nlive={int(ns.nlive)} "
            "nested=[" + ",".join(f"{fcode(p['logL'])}:{int(p['it'])}" for p in nested) + "] "
            "live=" + ("none" if ns.live_points is None else
                       "[" + ",".join(f"{fcode(p['logL'])}:{int(p['it'])}" for p in ns.live_points) + "]") + " "
            "logLs=[" + ",".join(code_or_none(v) for v in ns.state.logLs) + "] "
            "ns=[" + ",".join(str(int(v)) for v in ns.state.nlive) + "] "
            "births=[" + ("" if births is None else ",".join(code_or_none(v) for v in births)) + "]")
    if out != want:
        diff = []
        for a, b in zip(out.split(" "), want.split(" ")):
            if a != b:
                name = a.split("=", 1)[0]
                xa, xb = a.split("=", 1)[-1].strip("[]").split(","), b.split("=", 1)[-1].strip("[]").split(",")
                i = next((j for j, (u, v) in enumerate(zip(xa, xb)) if u != v), min(len(xa), len(xb)))
                diff.append(f"{name}: first difference at position {i} of {len(xa)}/{len(xb)}: model {xa[i:i + 2]} impl {xb[i:i + 2]}")
        diff = diff[:4]
        ctx.disagree("standard sampler: the real run's returned bookkeeping differs from the Lean model replaying its inputs",
                     {**case, "first_differences(model, impl)": diff, "model_head": out[:100]})
    ctx.hist["consume_sample steps replayed"] += sum(len(g["steps"]) for g in segs)


# ================================================================================================ importance sampler
INS_CONFIGS = [
    dict(dims=2, nlive=60, levels=3, strict=False, replace_all=False, draw_constant=True, iid=True, reparam=None, q=0.5, min_samples=20, flows="tilt"),
    dict(dims=2, nlive=50, levels=3, strict=True, replace_all=False, draw_constant=True, iid=True, reparam="logit", q=0.5, min_samples=20, flows="tilt"),
    dict(dims=2, nlive=50, levels=3, strict=False, replace_all=False, draw_constant=True, iid=False, reparam=None, q=0.6, min_samples=10, flows="tilt"),
    dict(dims=2, nlive=60, levels=3, strict=False, replace_all=False, draw_constant=True, iid=True, reparam="logit", q=0.5, min_samples=20, flows="neural"),
    dict(dims=3, nlive=40, levels=4, strict=False, replace_all=False, draw_constant=False, iid=True, reparam=None, q=0.7, min_samples=10, flows="tilt", resume=2),
    dict(dims=2, nlive=40, levels=3, strict=False, replace_all=True, draw_constant=True, iid=True, reparam="logit", q=0.5, min_samples=10, flows="tilt", rerun=True),
    dict(dims=2, nlive=30, levels=5, strict=True, replace_all=False, draw_constant=True, iid=True, reparam=None, q=0.5, min_samples=10, flows="tilt", resume=3),
    dict(dims=2, nlive=50, levels=2, strict=False, replace_all=False, draw_constant=True, iid=False, reparam="logit", q=0.5, min_samples=20, flows="neural"),
    dict(dims=2, nlive=50, levels=3, strict=False, replace_all=False, draw_constant=True, iid=True, reparam="logit", q=0.5, min_samples=20, flows="tilt", cut=True),
    dict(dims=2, nlive=40, levels=4, strict=True, replace_all=False, draw_constant=True, iid=False, reparam=None, q=0.5, min_samples=10, flows="tilt", cut=True, resume=2),
    dict(dims=2, nlive=50, levels=3, strict=False, replace_all=False, draw_constant=True, iid=True, reparam=None, q=0.5, min_samples=20, flows="tilt", offset=-1500.0),
    dict(dims=2, nlive=40, levels=3, strict=False, replace_all=False, draw_constant=True, iid=False, reparam="logit", q=0.5, min_samples=10, flows="tilt", offset=-5000.0),
    dict(dims=2, nlive=40, levels=3, strict=True, replace_all=False, draw_constant=True, iid=True, reparam=None, q=0.6, min_samples=10, flows="tilt", offset=800.0, resume=2),
    dict(dims=2, nlive=60, levels=3, strict=False, replace_all=False, draw_constant=True, iid=True, reparam=None, q=0.5, min_samples=20, flows="tilt", lcut=True),
    dict(dims=2, nlive=50, levels=3, strict=True, replace_all=False, draw_constant=True, iid=False, reparam="logit", q=0.5, min_samples=20, flows="neural", lcut=True),
]


def run_ins(cfg, seed):
    from unittest import mock
    import torch
    from nessai.flowsampler import FlowSampler
    from nessai.samplers.importancesampler import ImportanceNestedSampler as INS
    out = tempfile.mkdtemp(prefix="c05-ins-")
    res = dict(cfg=cfg, seed=seed, error=None, save_error=None, draws=[])
    draws = res["draws"]
    orig_w, orig_ckpt = INS.add_new_proposal_weight, INS.checkpoint
    kill = {"at": cfg.get("resume")}

    def add_new_proposal_weight(self_, iteration, n_new):
        draws.append((int(iteration), int(n_new)))
        return orig_w(self_, iteration, n_new)

    def checkpoint(self_, periodic=False, force=False):
        r = orig_ckpt(self_, periodic=periodic, force=force)
        if kill["at"] is not None and periodic and not force and self_.iteration >= kill["at"]:
            kill["at"] = None
            raise Stop()
        return r

    kw = dict(importance_nested_sampler=True, nlive=cfg["nlive"], seed=seed, plot=False, signal_handling=False,
              result_extension="json", min_samples=cfg["min_samples"], min_remove=1, max_iteration=cfg["levels"],
              min_iteration=cfg["levels"], strict_threshold=cfg["strict"], replace_all=cfg["replace_all"],
              draw_constant=cfg["draw_constant"], draw_iid_live=cfg["iid"], reparameterisation=cfg["reparam"],
              threshold_kwargs={"q": cfg["q"]}, stopping_criterion="ratio", tolerance=-1e9,
              checkpointing=bool(cfg.get("resume")), checkpoint_on_iteration=True, checkpoint_interval=1)
    if cfg["flows"] == "neural":
        kw.update(flow_config=dict(n_blocks=2, n_neurons=4, n_layers=1), training_config=dict(max_epochs=5, patience=3, batch_size=100))
    ctxm = c03.FakeFlows(cfg["dims"], cfg["reparam"] == "logit", None) if cfg["flows"] == "tilt" else contextlib.nullcontext()
    np.random.seed(seed)
    torch.manual_seed(seed)
    try:
        with quiet(), ctxm, mock.patch.object(INS, "add_new_proposal_weight", add_new_proposal_weight), \
                mock.patch.object(INS, "checkpoint", checkpoint):
            model = make_model(cfg["dims"], 1.0, seed, False, bool(cfg.get("cut")), float(cfg.get("offset", 0.0)), False, bool(cfg.get("lcut")))
            fs = FlowSampler(model, output=out, resume=bool(cfg.get("resume")), **kw)
            try:
                try:
                    fs.run(plot=False, save=True)
                except Stop:
                    res["killed_at"] = int(fs.ns.iteration)
                    kept = [d_ for d_ in draws if d_[0] < fs.ns.iteration]
                    draws[:] = kept
                    model = make_model(cfg["dims"], 1.0, seed, False, bool(cfg.get("cut")), float(cfg.get("offset", 0.0)), False, bool(cfg.get("lcut")))
                    fs = FlowSampler(model, output=out, resume=True, **kw)
                    res["resumed"] = bool(fs.ns.resumed)
                    fs.run(plot=False, save=True)
                if cfg.get("rerun"):
                    # the finished run is resumed from its final checkpoint and run again
                    model = make_model(cfg["dims"], 1.0, seed, False, bool(cfg.get("cut")), float(cfg.get("offset", 0.0)), False, bool(cfg.get("lcut")))
                    fs = FlowSampler(model, output=out, resume=True, **kw)
                    res["resumed"] = bool(fs.ns.resumed)
                    res["rerun_finalised_at_resume"] = bool(fs.ns.finalised)
                    fs.run(plot=False, save=True)
            except Exception as e:  # noqa
                import traceback
                if getattr(fs.ns, "finalised", False):
                    res["save_error"] = f"{type(e).__name__}: {e}"
                    res["save_where"] = traceback.format_exc()[-500:]
                else:
                    raise
            res.update(fs=fs, model=model)
            path = os.path.join(out, "result.json")
            res["file"] = json.load(open(path)) if os.path.exists(path) else None
            try:
                res["dict"] = fs.ns.get_result_dictionary()
            except Exception as e:  # noqa
                res["dict"] = None
                res["dict_error"] = f"{type(e).__name__}: {e}"
    except Exception as e:  # noqa
        import traceback
        res["error"] = f"{type(e).__name__}: {e}"
        res["where"] = traceback.format_exc()[-700:]
    finally:
        shutil.rmtree(out, ignore_errors=True)
    return res


def check_ins(ctx, res):
    cfg = res["cfg"]
    case = dict(kind="importance", cfg=cfg, seed=res["seed"])
    site = "ImportanceNestedSampler"
    if res["error"]:
        ctx.oracle_fail("FlowSampler.run:importance:raised", f"a supported importance-sampler run raised {res['error']}",
                        {**case, "where": res.get("where")})
        return
    fs, model, d, f = res["fs"], res["model"], res["dict"], res["file"]
    ns = fs.ns
    unit = ns.samples_unit
    with quiet():
        samples = ns.samples
    n_s = len(samples)
    ll = np.asarray(samples["logL"], dtype=float)
    # ---------------------------------------------------------------- result dictionary obtainable at all
    if res["save_error"] or d is None:
        what = res["save_error"] or res.get("dict_error")
        ctx.oracle_fail(site + ".get_result_dictionary:raised",
                        f"the completed run (draw_iid_live={cfg['iid']}) cannot report its results: get_result_dictionary() / "
                        f"FlowSampler.run(save=True) raised {what} while the sampler object holds log_evidence="
                        f"{float(ns.log_evidence)!r} and {n_s} samples", {**case, "where": res.get("save_where")})
    # ---------------------------------------------------------------- (a) counts and order
    counts = {int(k_): int(v) for k_, v in ns.sample_counts.items()}
    levels = [int(ns.n_initial)] + [nn for _, nn in sorted(res["draws"])]
    if n_s != sum(counts.values()) or n_s != sum(levels):
        ctx.oracle_fail(site + ":count", f"{n_s} samples returned but the levels drew {levels} (sum {sum(levels)}); "
                        f"sample_counts={counts}", case)
    per_level = np.bincount(np.asarray(samples["it"], dtype=int) + 1, minlength=len(levels)).tolist()
    if per_level != levels:
        ctx.oracle_fail(site + ":count-per-level", f"returned samples per level {per_level} differ from the draws {levels}", case)
    if np.any(np.isnan(ll)) or np.any(np.diff(ll) < 0):
        ctx.oracle_fail(site + ":order", "returned samples are not in ascending likelihood order", case)
    if not ns.finalised or ns.live_points_unit is not None:
        ctx.oracle_fail(site + ":not-finalised", "run returned without consuming its live points", case)
    # ---------------------------------------------------------------- (c) stored logL / logP = model at the sample
    with quiet():
        phys = model.from_unit_hypercube(unit)
        ll_model = np.asarray(model.log_likelihood(phys), dtype=float)
        lp_model = np.asarray(model.log_prior(phys), dtype=float)
    if not same_array(phys, samples):
        ctx.oracle_fail(site + ".samples:mapping", "`samples` is not the stored unit-hypercube set mapped through from_unit_hypercube", case)
    for name, stored, fresh in (("logL", ll, ll_model), ("logP", np.asarray(samples["logP"], dtype=float), lp_model)):
        ok = (stored == fresh) | (np.abs(stored - fresh) <= 1e-12 * np.maximum(1.0, np.abs(fresh)))
        if not np.all(ok):
            i = int(np.argmax(~ok))
            ctx.oracle_fail(site + ":stored-" + name, f"returned sample {i} stores {name}={stored[i]!r} but the model gives "
                            f"{fresh[i]!r} at its parameters", {**case, "sample": i})
    # ---------------------------------------------------------------- (b) recomputation from logL + logW alone
    M = c02.M()
    lw = np.asarray(samples["logL"], dtype=float) + np.asarray(samples["logW"], dtype=float)
    logZ, err = float(ns.log_evidence), float(ns.log_evidence_error)
    logpw = np.array(ns.log_posterior_weights, dtype=float, copy=True)
    finite = lw[np.isfinite(lw)]
    if np.any(np.isnan(lw)) or np.any(lw == np.inf):
        # NaN / +inf importance weights: the estimator is undefined (C03 / C08 own the weights); nothing to recompute
        ctx.hist["importance run with NaN/+inf weights: recomputation skipped"] += 1
    elif len(finite):
        shift = M.mpf(float(np.max(finite)))
        ws = [M.exp(M.mpf(float(v)) - shift) if v != -math.inf else M.mpf(0) for v in lw]
        N = len(ws)
        Z = M.fsum(ws) / N
        ref_logZ = M.log(Z) + shift
        ref_w = [(M.log(w / Z) if w > 0 else M.ninf) for w in ws]
        ref_err = M.sqrt(M.fsum((w - Z) ** 2 for w in ws) / (N * (N - 1))) / Z if N > 1 else M.nan
        out = ctx.model(["res ins " + exp_tokens(lw, shift)])[0]
        mf = c02.parse_fields(out)
        if mf["status"] != "ok":
            ctx.disagree("the importance-sampling estimator model rejects the returned samples", {**case, "model": out[:100]})
        else:
            mZ = c02.log_tok(mf["Z"]) + shift
            mW = [c02.log_tok(t) for t in mf["W"][1:-1].split(",")]
            mErr = M.sqrt(c02.dy_val(*c02.parse_dy(mf["relvar"])))
            if abs(mZ - ref_logZ) > 1e-20 or abs(mErr - ref_err) > 1e-20 * max(1, ref_err) or \
                    any((a != b) and abs(a - b) > 1e-20 for a, b in zip(mW, ref_w)):
                ctx.disagree("Lean estimator model and the independent mpmath evaluation differ", {**case, "model": float(mZ), "mp": float(ref_logZ)})
            if not close(logZ, mZ):
                ctx.oracle_fail(site + ":log_evidence-not-recomputable", f"reported log-evidence {logZ!r} but the mean importance "
                                f"weight of the returned samples gives {float(mZ)!r}", case)
            if not close(err, mErr):
                ctx.oracle_fail(site + ":log_evidence_error-not-recomputable", f"reported uncertainty {err!r}"
                                + ("" if math.isfinite(err) else " (not finite)") + ", recomputed from logL+logW of the returned "
                                f"samples {float(mErr)!r} (sigma[ln Z] does not depend on a constant likelihood offset; "
                                f"log Z = {logZ!r})", case)
            if len(logpw) != N:
                ctx.oracle_fail(site + ":weights-length", f"{len(logpw)} log posterior weights for {N} returned samples", case)
            else:
                for i, x in enumerate(mW):
                    if not close(logpw[i], x):
                        ctx.oracle_fail(site + ":log_posterior_weights-not-recomputable", f"log posterior weight {i} is "
                                        f"{logpw[i]!r}, recomputed {float(x)!r}", {**case, "sample": i})
                        break
            if d is not None:
                repeated_reads(ctx, site, case, ns, lambda o: o.log_posterior_weights, mZ, lambda z: close(z, mZ),
                               lambda e: close(e, mErr), mW)
    else:
        ctx.oracle_fail(site + ":weights-not-finite", "no finite importance weight among the returned samples", case)
    # ---------------------------------------------------------------- (d) dictionary = file = sampler = FlowSampler
    if not same_number(fs.logZ, ns.log_evidence) or not same_number(fs.log_evidence, ns.log_evidence) or \
            not same_number(fs.logZ_error, ns.log_evidence_error) or not same_array(fs.nested_samples, samples):
        ctx.oracle_fail("FlowSampler.run_importance_nested_sampler:attributes", "FlowSampler reports a different evidence / error / "
                        "sample set than the sampler object", case)
    if d is not None:
        checks = [("log_evidence", same_number(d.get("log_evidence"), ns.log_evidence)),
                  ("log_evidence_error", same_number(d.get("log_evidence_error"), ns.log_evidence_error)),
                  ("samples", d.get("samples") is not None and same_array(d.get("samples"), samples)),
                  ("log_posterior_weights", d.get("log_posterior_weights") is not None
                   and same_array(d.get("log_posterior_weights"), logpw))]
        for key, ok in checks:
            if not ok:
                ctx.oracle_fail(site + ".get_result_dictionary:" + key, f"the result dictionary reports a different `{key}` than "
                                "the sampler object", case)
        if f is None:
            ctx.oracle_fail("FlowSampler.save_results:missing", "run(save=True) wrote no result file", case)
        else:
            fchecks = [("log_evidence", json_equal(f.get("log_evidence"), float(ns.log_evidence))),
                       ("log_evidence_error", json_equal(f.get("log_evidence_error"), float(ns.log_evidence_error))),
                       ("samples", json_equal(f.get("samples"), rows_of(samples))),
                       ("log_posterior_weights", json_equal(f.get("log_posterior_weights"), rows_of(logpw)))]
            for key, ok in fchecks:
                if not ok:
                    ctx.oracle_fail("FlowSampler.save_results:" + key, f"the saved result file reports a different `{key}` than "
                                    "the sampler object", case)
    tie_tables(ctx, fs, d, "ins", INS_PAIRS, cfg["iid"], case)
    ctx.traces += 1
    ctx.case(("ins", repr(cfg), res["seed"]), n_s > cfg["nlive"],
             dict(case, returned=n_s, levels=levels, log_evidence=logZ, log_evidence_error=err,
                  resumed=res.get("resumed"), killed_at=res.get("killed_at")),
             kind=f"importance:{cfg['flows']}:iid={int(cfg['iid'])}:strict={int(cfg['strict'])}:{cfg['reparam']}"
                  + (":cut" if cfg.get("cut") else "") + (f":offset={cfg['offset']:g}" if cfg.get("offset") else "")
                  + (":resumed" if cfg.get("resume") else "")
                  + (":rerun-finished" if cfg.get("rerun") else ""))
    ctx.hist["returned samples checked (importance)"] += n_s


# ================================================================================================ boundary stream
def boundary(ctx):
    """model-only / degenerate cases: error kinds of the bookkeeping model against the real insert_live_point, and the
    estimator on degenerate weights against the real _INSIntegralState"""
    import types
    from nessai.evidence import _INSIntegralState
    from nessai.samplers.nestedsampler import NestedSampler
    rng = ctx.rng
    # insert_live_point: literal slice program vs the model, including candidates at / below the minimum
    lines, impls, cases = [], [], []
    for _ in range(ctx.scale(150, 1500)):
        n = rng.randint(2, 8)
        vals = sorted(rng.choice([0.0, 1.0, 1.0, 2.0, 3.5, 5.0, 7.25]) for _ in range(n))
        c = rng.choice([-1.0, 0.0, 1.0, 2.0, 3.0, 3.5, 6.0, 7.25, 9.0])
        live = np.zeros(n, dtype=[("x", "f8"), ("logP", "f8"), ("logL", "f8"), ("it", "i4")])
        live["logL"] = vals
        stub = types.SimpleNamespace(live_points=live.copy())
        p = np.zeros(1, dtype=live.dtype)[0]
        p["logL"], p["it"] = c, 1
        try:
            NestedSampler.insert_live_point(stub, p)
            impl = "ok " + ",".join(f"{fcode(v)}" for v in stub.live_points["logL"])
        except ValueError:
            impl = "err=shape"
        # the model only inserts candidates above the minimum (acceptance rule); at or below it reports starved
        out_line = "res ns [" + ",".join(str(fcode(v)) for v in vals) + f"] c[{fcode(c)}]"
        lines.append(out_line)
        impls.append((impl, c > vals[0]))
        cases.append(dict(layer="insert_live_point", live=vals, candidate=c))
        ctx.case(("insert", tuple(vals), c), c > vals[0], kind="boundary:insert_live_point " + ("above" if c > vals[0] else "not-above"))
    for line, out, (impl, above), cs in zip(lines, ctx.model(lines), impls, cases):
        if above:
            live_tok = [t for t in out.split(" ") if t.startswith("live=")]
            got = "ok " + ",".join(x.split(":")[0] for x in live_tok[0][6:-1].split(",")) if live_tok and out.startswith("ok") else out
            if got != impl:
                ctx.disagree("insert_live_point: model != implementation", {"line": line, "model": got[:100], "impl": impl[:100], "case": cs})
        else:
            if not out.startswith("err=starved") or impl != "err=shape":
                # NumPy refuses the slice assignment exactly when the model's acceptance rule refuses the candidate
                if not (impl.startswith("ok") and len(cs["live"]) == 1):
                    ctx.disagree("insert_live_point at/below the minimum: model and NumPy disagree on refusing it",
                                 {"line": line, "model": out[:60], "impl": impl[:60], "case": cs})
    # _INSIntegralState on small / degenerate weight vectors
    M = c02.M()
    lines, reals, cases = [], [], []
    for _ in range(ctx.scale(60, 600)):
        N = rng.randint(2, 12)
        kind = rng.choice(["ints", "ties", "neginf", "wide"])
        if kind == "ints":
            lw = [float(rng.randint(-8, 3)) for _ in range(N)]
        elif kind == "ties":
            lw = [float(rng.choice([-2, 0]))] * N
        elif kind == "neginf":
            lw = [float(rng.randint(-5, 2)) for _ in range(N)]
            for i in rng.sample(range(N), rng.randint(1, N - 1)):
                lw[i] = -math.inf
        else:
            lw = [rng.uniform(-600, 50) for _ in range(N)]
        st = _INSIntegralState()
        arr = np.zeros(N, dtype=[("logL", "f8"), ("logW", "f8")])
        split = rng.randint(0, N)
        arr["logL"] = lw
        with np.errstate(all="ignore"):
            if rng.random() < 0.5:
                st.update_evidence(arr[:split], arr[split:])
            else:
                st.update_evidence(arr)
            reals.append((float(st.logZ), np.asarray(st.log_posterior_weights, dtype=float), float(st.compute_uncertainty())))
        shift = M.mpf(max(v for v in lw if v != -math.inf))
        lines.append("res ins " + exp_tokens(lw, shift))
        cases.append((dict(layer="_INSIntegralState", logw=lw, kind=kind), shift))
        ctx.case(("insstate", tuple(lw)), True, kind="boundary:_INSIntegralState " + kind)
    for line, out, (z, w, e), (cs, shift) in zip(lines, ctx.model(lines), reals, cases):
        mf = c02.parse_fields(out)
        ok = mf["status"] == "ok" and close(z, c02.log_tok(mf["Z"]) + shift) and \
            all(close(a, c02.log_tok(t)) for a, t in zip(w, mf["W"][1:-1].split(","))) and \
            close(e, M.sqrt(c02.dy_val(*c02.parse_dy(mf["relvar"]))))
        if not ok:
            ctx.disagree("_INSIntegralState: model != implementation", {"case": cs, "model": out[:160], "impl": [z, e]})


# ================================================================================================ driving
def corpus_cases():
    d = core.VERIF / "corpus" / "C05"
    out = []
    if d.is_dir():
        for p in sorted(d.glob("*.json")):
            out.append(json.loads(p.read_text()))
    return out


def plan(ctx):
    base = ctx.seed * 1000
    std, ins = [], []
    for c in corpus_cases():        # regression cases first, in both tiers
        if c.get("kind") == "importance":
            ins.append((c["cfg"], c["seed"]))
        elif str(c.get("kind", "")).startswith("standard:"):
            std.append((c["kind"].split(":", 1)[1], c["seed"], c["nlive"], c.get("dims", 2)))
    if ctx.quick:
        for i, kind in enumerate(STD_KINDS):
            for s in range(2):
                std.append((kind, base + 11 + 7 * i + 31 * s, [50, 30][s], 2))
        for ci, cfg in enumerate(INS_CONFIGS):
            ins.append((cfg, base + 101 + 13 * ci))
    else:
        for i, kind in enumerate(STD_KINDS):
            for s in range(16):
                std.append((kind, base + 11 + 7 * i + 31 * s, [50, 30, 80, 120][s % 4], 2 + (s % 4 == 3)))
        for ci, cfg in enumerate(INS_CONFIGS):
            for s in range(12 if cfg["flows"] == "tilt" else 5):
                ins.append((cfg, base + 101 + 13 * ci + 29 * s))
    return std, ins


def correspond(ctx):
    import torch
    torch.set_num_threads(1)
    from nessai import config
    from nessai.samplers.importancesampler import ImportanceNestedSampler
    ctx.rule = ("complete real runs through FlowSampler.run(plot=False, save=True, json result): standard sampler "
                "(2-3-d Gaussian in a box, nlive 30-80; rejection-only, tiny neural flows n_blocks=2 n_neurons=4 max_epochs=5, "
                "narrow likelihood, both shrinkage expectations, iteration cap reached / never reached, killed at an arbitrary "
                "iteration + resumed from the last periodic checkpoint) and importance sampler (exactly-known tilt flows and tiny "
                "neural flows; strict/soft threshold, replace-all, constant/variable draws, with/without independent set, "
                "logit/none, killed after a level + resumed); per run: oracle (a)-(d) on every returned sample, replay of the "
                "recorded inputs (initial live likelihoods, per-iteration candidate streams, stopping-test values) through the "
                "Lean bookkeeping model with exact comparison of nested samples / it / logLs / live counts / births, exact Rat "
                "recomputation of evidence, weights, uncertainty from the returned samples, and every translated table entry "
                "evaluated on the real sampler object; non-trivial = distinct (kind/config, seed) run with at least one "
                "iteration / level; plus a boundary stream (insert_live_point at/below the minimum, _INSIntegralState on "
                "degenerate weights)")
    ctx.assume("exp() of returned log-likelihoods / importance weights enters the Rat models as 100-bit dyadics (relative error "
               "2^-100); float64 rounding of the implementation stays below 1e-9*max(1,|value|): observed, not proved",
               "the information recursion of the standard sampler loses up to about 1e-15*nlive*max|logL|^2 absolutely to float64 "
               "cancellation (observed 3e-8 at a likelihood offset of -5000, nlive 120): allowed on top of 1e-9 for the information and the uncertainty derived from it",
               "candidate streams are what the proposals' draw() returned with finite log-prior; the stopping test is the recorded "
               "Boolean condition <= tolerance after each iteration",
               "pickling a sampler at an iteration boundary and loading it is the identity on the modelled state (C12)")
    ctx.trust("hand-written models Model/Results.lean (bookkeeping, estimator); tie = this replay",
              "AST translator harness/c05_tables.py (exercised on every run: each entry is evaluated on the real object)",
              "mpmath at 60 digits (exp/log of the exchanged numbers, independent reference, information recursion)")
    std, ins = plan(ctx)
    t0 = time.time()
    try:
        for kind, seed, nlive, dims in std:
            check_standard(ctx, run_standard(kind, seed, nlive, dims))
        ctx.extra["standard_runs_wall_s"] = round(time.time() - t0, 1)
        t1 = time.time()
        ImportanceNestedSampler.add_fields()
        for cfg, seed in ins:
            check_ins(ctx, run_ins(cfg, seed))
        ctx.extra["importance_runs_wall_s"] = round(time.time() - t1, 1)
    finally:
        config.livepoints.reset()
    boundary(ctx)


def search(ctx):
    """enlarged failing-input search: more seeds of every kind, oracle on the real code (the ties run too, harmlessly)"""
    import torch
    torch.set_num_threads(1)
    from nessai import config
    from nessai.samplers.importancesampler import ImportanceNestedSampler
    t0 = time.time()
    box = ctx.scale(60, 600)
    s = 0
    try:
        while time.time() - t0 < box and not ctx.fails:
            s += 1
            kind = STD_KINDS[s % len(STD_KINDS)]
            check_standard(ctx, run_standard(kind, ctx.seed * 1000 + 5000 + s, [50, 30][s % 2], 2))
            if ctx.fails:
                break
            ImportanceNestedSampler.add_fields()
            cfg = INS_CONFIGS[s % len(INS_CONFIGS)]
            if cfg["flows"] == "tilt" and cfg["iid"]:
                check_ins(ctx, run_ins(cfg, ctx.seed * 1000 + 7000 + s))
            config.livepoints.reset()
    finally:
        config.livepoints.reset()


def replay(ctx, obj):
    import torch
    torch.set_num_threads(1)
    from nessai import config
    from nessai.samplers.importancesampler import ImportanceNestedSampler
    c = obj["case"]
    if "case" in c and "kind" not in c:
        c = c["case"]
    try:
        if str(c.get("kind", "")).startswith("standard:"):
            check_standard(ctx, run_standard(c["kind"].split(":", 1)[1], c["seed"], c["nlive"], c.get("dims", 2)))
        elif c.get("kind") == "importance":
            ImportanceNestedSampler.add_fields()
            check_ins(ctx, run_ins(c["cfg"], c["seed"]))
        else:
            correspond(ctx)
    finally:
        config.livepoints.reset()
