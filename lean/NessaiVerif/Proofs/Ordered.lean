import NessaiVerif.Model.OrderedSamples
import NessaiVerif.Proofs.MergeInsert
/- Lemmas for C04: the literal index arithmetic of `OrderedSamples` preserves the store invariant. -/
namespace NessaiVerif.Ordered
open NessaiVerif.Np

def StrictInc (l : List Nat) : Prop := l.Pairwise (· < ·)
abbrev SortedS (l : List Smp) : Prop := SortedK Smp.key l

/-! ### sorting the batch -/

theorem leSmp_trans (a b c : Smp) : leSmp a b = true → leSmp b c = true → leSmp a c = true := by
  unfold leSmp
  simp only [Bool.or_eq_true, Bool.and_eq_true, decide_eq_true_eq, beq_iff_eq]
  omega

theorem leSmp_total (a b : Smp) : (leSmp a b || leSmp b a) = true := by
  unfold leSmp
  simp only [Bool.or_eq_true, Bool.and_eq_true, decide_eq_true_eq, beq_iff_eq]
  omega

theorem leSmp_key (a b : Smp) (h : leSmp a b = true) : ¬ b.key < a.key := by
  unfold leSmp at h
  simp only [Bool.or_eq_true, Bool.and_eq_true, decide_eq_true_eq, beq_iff_eq] at h
  omega

theorem insSorted_perm (x : Smp × Nat) (l : List (Smp × Nat)) : (insSorted x l).Perm (x :: l) := by
  induction l with
  | nil => simp [insSorted]
  | cons y ys ih =>
    simp only [insSorted]
    split
    · exact List.Perm.refl _
    · exact (List.Perm.cons y ih).trans (List.Perm.swap x y ys)

theorem sortBatch_perm (b : List (Smp × Nat)) : (sortBatch b).Perm b := by
  unfold sortBatch
  induction b with
  | nil => simp
  | cons x xs ih => exact (insSorted_perm x _).trans (List.Perm.cons x ih)

theorem sortBatch_length (b : List (Smp × Nat)) : (sortBatch b).length = b.length :=
  (sortBatch_perm b).length_eq

theorem insSorted_sorted (x : Smp × Nat) (l : List (Smp × Nat))
    (h : l.Pairwise (fun a b => leSmp a.1 b.1 = true)) :
    (insSorted x l).Pairwise (fun a b => leSmp a.1 b.1 = true) := by
  induction l with
  | nil => simp [insSorted]
  | cons y ys ih =>
    simp only [insSorted]
    have hy := List.pairwise_cons.mp h
    split
    · rename_i hxy
      refine List.pairwise_cons.mpr ⟨?_, h⟩
      intro z hz
      rcases List.mem_cons.mp hz with rfl | hz
      · exact hxy
      · exact leSmp_trans _ _ _ hxy (hy.1 z hz)
    · rename_i hxy
      refine List.pairwise_cons.mpr ⟨?_, ih hy.2⟩
      intro z hz
      rcases List.mem_cons.mp ((insSorted_perm x ys).mem_iff.mp hz) with rfl | hz
      · have := leSmp_total z.1 y.1
        simp only [Bool.or_eq_true] at this
        rcases this with h1 | h1
        · exact absurd h1 hxy
        · exact h1
      · exact hy.1 z hz

theorem sortBatch_sorted (b : List (Smp × Nat)) : SortedS ((sortBatch b).map (·.1)) := by
  unfold SortedS SortedK
  rw [List.pairwise_map]
  have : (sortBatch b).Pairwise (fun a b => leSmp a.1 b.1 = true) := by
    unfold sortBatch
    induction b with
    | nil => simp
    | cons x xs ih => exact insSorted_sorted x _ ih
  exact this.imp (fun h => leSmp_key _ _ h)

/-! ### searchsorted facts on integer keys -/

theorem ssl_le_length (a : List Int) (v : Int) : ssl a v ≤ a.length := by
  unfold ssl
  induction a with
  | nil => simp
  | cons x xs ih => simp only [List.takeWhile_cons]; split <;> simp <;> omega

theorem ssl_mono (a : List Int) (v w : Int) (h : v ≤ w) : ssl a v ≤ ssl a w := by
  unfold ssl
  induction a with
  | nil => simp
  | cons x xs ih =>
    simp only [List.takeWhile_cons]
    by_cases hv : x < v
    · have hw : x < w := by omega
      simp [hv, hw]; exact ih
    · simp [hv]

/-! ### new positions are `idx + arange`, old positions their complement -/

theorem shiftIdx_length (idx : List Nat) (k : Nat) : (shiftIdx idx k).length = idx.length := by
  induction idx generalizing k with
  | nil => simp [shiftIdx]
  | cons i is ih => simp [shiftIdx, ih]

theorem truePos_script (n : Nat) (idx : List Nat) (pos k : Nat)
    (hmono : idx.Pairwise (· ≤ ·)) (hb : ∀ i ∈ idx, pos ≤ i ∧ i ≤ pos + n) :
    truePos (script n idx pos) (pos + k) = shiftIdx idx k := by
  fun_induction script n idx pos generalizing k with
  | case1 n pos => simp [truePos_replicate_false, shiftIdx]
  | case2 i is pos ih =>
    have hi := hb i (by simp)
    have : i = pos := by omega
    subst this
    simp only [truePos, shiftIdx]
    congr 1
    have := ih (k + 1) (List.pairwise_cons.mp hmono).2 (fun j hj => hb j (by simp [hj]))
    simpa [Nat.add_assoc] using this
  | case3 n i is pos hle ih =>
    have hi := hb i (by simp)
    have : i = pos := by omega
    subst this
    simp only [truePos, shiftIdx]
    congr 1
    have := ih (k + 1) (List.pairwise_cons.mp hmono).2 (fun j hj => hb j (by simp [hj]))
    simpa [Nat.add_assoc] using this
  | case4 n i is pos hle ih =>
    simp only [truePos]
    have hmono' := List.pairwise_cons.mp hmono
    have := ih k hmono (by
      intro j hj
      have hj' := hb j hj
      rcases List.mem_cons.mp hj with rfl | hjs
      · omega
      · have := hmono'.1 j hjs; omega)
    rw [← this]
    congr 1
    omega

/-! ### generic list facts -/

theorem map_getD_range {α : Type} (l : List α) (d : α) :
    (List.range l.length).map (fun i => l.getD i d) = l := by
  apply List.ext_getElem
  · simp
  · intro i h1 h2
    simp at h1
    simp [List.getD_eq_getElem?_getD, h1]

theorem getD_lt_of_strictInc (P : List Nat) (hP : StrictInc P) (i j : Nat) (hij : i < j)
    (hj : j < P.length) : P.getD i 0 < P.getD j 0 := by
  have := List.pairwise_iff_getElem.mp hP i j (by omega) hj hij
  simpa [List.getD_eq_getElem?_getD, hj, Nat.lt_trans hij hj] using this

theorem strictInc_map_getD (P l : List Nat) (hP : StrictInc P) (hl : StrictInc l)
    (hb : ∀ i ∈ l, i < P.length) : StrictInc (l.map (fun i => P.getD i 0)) := by
  unfold StrictInc
  rw [List.pairwise_map]
  induction l with
  | nil => simp
  | cons a l ih =>
    unfold StrictInc at hl
    rw [List.pairwise_cons] at hl ⊢
    refine ⟨?_, ih hl.2 (fun i hi => hb i (by simp [hi]))⟩
    intro b hbm
    exact getD_lt_of_strictInc P hP a b (hl.1 b hbm) (hb b (by simp [hbm]))

theorem strictInc_of_sorted_nodup (l : List Nat) (hs : SortedK (fun i : Nat => i) l) (hn : l.Nodup) :
    StrictInc l := by
  unfold StrictInc SortedK at *
  have := hs.and hn
  exact this.imp (fun ⟨h1, h2⟩ => by simp only at h1; omega)

theorem sortedK_of_strictInc (l : List Nat) (h : StrictInc l) : SortedK (fun i : Nat => i) l := by
  unfold StrictInc SortedK at *
  exact h.imp (fun h => by simp only; omega)

end NessaiVerif.Ordered

namespace NessaiVerif.Ordered
open NessaiVerif.Np

/-! ### moving indices to the nested set -/

theorem addToNested_eq_merge (nested idxs : List Nat) (hn : StrictInc nested) :
    addToNested nested idxs = mergeNew (fun i : Nat => i) nested idxs := by
  unfold addToNested
  have := insertMany_ssl_eq_merge0 ordLaws_nat (fun i : Nat => i) nested idxs (sortedK_of_strictInc _ hn)
  simpa using this

theorem addToNested_perm (nested idxs : List Nat) (hn : StrictInc nested) :
    (addToNested nested idxs).Perm (nested ++ idxs) := by
  rw [addToNested_eq_merge _ _ hn]; exact mergeNew_perm _ _ _

theorem addToNested_strictInc (nested idxs : List Nat) (hn : StrictInc nested) (hi : StrictInc idxs)
    (hd : (nested ++ idxs).Nodup) : StrictInc (addToNested nested idxs) := by
  apply strictInc_of_sorted_nodup
  · rw [addToNested_eq_merge _ _ hn]
    exact mergeNew_sorted ordLaws_nat _ _ _ (sortedK_of_strictInc _ hn) (sortedK_of_strictInc _ hi)
  · exact (addToNested_perm nested idxs hn).nodup_iff.mpr hd

/-! ### the store invariant -/

structure Inv (s : OS) (smp : List Smp) : Prop where
  hs : s.samples = some smp
  sorted : SortedS smp
  rowsLen : s.rows.length = smp.length
  liveInc : StrictInc (s.live.getD [])
  nestedInc : StrictInc s.nested
  part : ((s.live.getD []) ++ s.nested).Perm (List.range smp.length)

theorem Inv.nodup {s : OS} {smp : List Smp} (h : Inv s smp) : ((s.live.getD []) ++ s.nested).Nodup :=
  h.part.nodup_iff.mpr List.nodup_range

theorem Inv.bound {s : OS} {smp : List Smp} (h : Inv s smp) :
    ∀ i ∈ (s.live.getD []) ++ s.nested, i < smp.length := by
  intro i hi
  exact List.mem_range.mp (h.part.mem_iff.mp hi)

/-- splitting the live indices as `l1 ++ l2` and moving `l1` to the nested set keeps the invariant -/
theorem inv_move (s : OS) (smp : List Smp) (h : Inv s smp) (l1 l2 : List Nat)
    (hl : s.live.getD [] = l1 ++ l2) (live' : Option (List Nat)) (hl' : live'.getD [] = l2) :
    Inv { s with nested := addToNested s.nested l1, live := live' } smp := by
  have hnd := h.nodup
  rw [hl] at hnd
  have hinc := h.liveInc
  rw [hl] at hinc
  unfold StrictInc at hinc
  rw [List.pairwise_append] at hinc
  have hnd1 : (s.nested ++ l1).Nodup := by
    have : (l1 ++ l2 ++ s.nested).Perm ((s.nested ++ l1) ++ l2) := by
      have h1 : (l1 ++ l2 ++ s.nested).Perm (s.nested ++ (l1 ++ l2)) := List.perm_append_comm
      simpa [List.append_assoc] using h1
    exact (List.nodup_append.mp (this.nodup_iff.mp hnd)).1
  refine ⟨h.hs, h.sorted, h.rowsLen, ?_, ?_, ?_⟩
  · simpa [hl', StrictInc] using hinc.2.1
  · exact addToNested_strictInc _ _ h.nestedInc hinc.1 hnd1
  · simp only [hl']
    have hp := addToNested_perm s.nested l1 h.nestedInc
    have : (l2 ++ addToNested s.nested l1).Perm (l1 ++ l2 ++ s.nested) := by
      refine (List.Perm.append_left l2 hp).trans ?_
      have h1 : (l2 ++ (s.nested ++ l1)).Perm ((s.nested ++ l1) ++ l2) := List.perm_append_comm
      refine h1.trans ?_
      have h2 : (s.nested ++ l1 ++ l2).Perm (l1 ++ l2 ++ s.nested) := by
        rw [List.append_assoc]; exact List.perm_append_comm
      exact h2
    have hp2 := h.part
    rw [hl] at hp2
    exact this.trans hp2

theorem inv_addInitial (s : OS) (b : List (Smp × Nat)) (hn : s.nested = []) :
    Inv (addInitial s b) ((sortBatch b).map (·.1)) := by
  unfold addInitial
  refine ⟨rfl, sortBatch_sorted b, by simp, ?_, ?_, ?_⟩
  · simp [StrictInc, List.pairwise_lt_range]
  · simp [hn, StrictInc]
  · simp [hn]

theorem inv_strict (s : OS) (smp' : List Smp) (rows' : List Nat) (n : Nat) (hs : SortedS smp')
    (hr : rows'.length = smp'.length) (hn : n ≤ smp'.length) :
    Inv { s with samples := some smp', rows := rows', nested := List.range n,
                 live := some (List.range' n (smp'.length - n)) } smp' := by
  refine ⟨rfl, hs, hr, ?_, ?_, ?_⟩
  · simp [StrictInc, List.pairwise_lt_range']
  · simp [StrictInc, List.pairwise_lt_range]
  · simp only [Option.getD_some]
    have : List.range smp'.length = List.range n ++ List.range' n (smp'.length - n) := by
      rw [List.range_eq_range', List.range_eq_range']
      have := List.range'_append_1 (s := 0) (m := n) (n := smp'.length - n)
      simp only [Nat.zero_add] at this
      rw [this]
      congr 1; omega
    rw [this]
    exact List.perm_append_comm

end NessaiVerif.Ordered

namespace NessaiVerif.Ordered
open NessaiVerif.Np

/-! ### soft-threshold insertion -/

/-- the searchsorted indices of a sorted batch -/
def batchIdx (old new : List Smp) : List Nat := new.map (fun v => ssl (keys old) v.key)

theorem batchIdx_mono (old new : List Smp) (hn : SortedS new) : (batchIdx old new).Pairwise (· ≤ ·) := by
  unfold batchIdx
  rw [List.pairwise_map]
  exact hn.imp (fun {a b} h => ssl_mono _ _ _ (by omega))

theorem batchIdx_bound (old new : List Smp) : ∀ i ∈ batchIdx old new, 0 ≤ i ∧ i ≤ 0 + old.length := by
  intro i hi
  obtain ⟨v, _, rfl⟩ := List.mem_map.mp hi
  have := ssl_le_length (keys old) v.key
  have hk : (keys old).length = old.length := by simp [keys]
  omega

theorem batchIdx_length (old new : List Smp) : (batchIdx old new).length = new.length := by
  simp [batchIdx]

/-- the merge script of one insertion -/
def scriptOf (old new : List Smp) : List Bool := script old.length (batchIdx old new) 0

theorem scriptOf_length (old new : List Smp) : (scriptOf old new).length = old.length + new.length := by
  simp [scriptOf, script_length, batchIdx_length]

theorem scriptOf_false (old new : List Smp) : (scriptOf old new).count false = old.length :=
  count_script_false _ _ _

theorem scriptOf_true (old new : List Smp) : (scriptOf old new).count true = new.length := by
  simp [scriptOf, count_script_true, batchIdx_length]

theorem insert_eq_weave {β : Type} (old new : List Smp) (a b : List β) (ha : a.length = old.length)
    (hb : b.length = new.length) :
    insertMany a (batchIdx old new) b 0 = weave (scriptOf old new) a b := by
  rw [insertMany_eq_weave _ _ _ _ (by simp [hb, batchIdx_length]), ha]
  rfl

theorem insert_eq_merge (old new : List Smp) (ho : SortedS old) :
    insertMany old (batchIdx old new) new 0 = mergeNew Smp.key old new := by
  have := insertMany_ssl_eq_merge0 ordLaws_int Smp.key old new ho
  simpa [batchIdx, keys] using this

theorem newIdx_eq (old new : List Smp) (hn : SortedS new) :
    shiftIdx (batchIdx old new) 0 = truePos (scriptOf old new) 0 := by
  have := truePos_script old.length (batchIdx old new) 0 0 (batchIdx_mono old new hn) (batchIdx_bound old new)
  simpa [scriptOf] using this.symm

theorem oldIdx_eq (old new : List Smp) (hn : SortedS new) :
    complement (old.length + new.length) (shiftIdx (batchIdx old new) 0) = falsePos (scriptOf old new) 0 := by
  rw [newIdx_eq old new hn, ← scriptOf_length]
  exact complement_truePos0 _

theorem oldIdx_length (old new : List Smp) : (falsePos (scriptOf old new) 0).length = old.length := by
  rw [falsePos_length, scriptOf_false]

/-- remapped indices: strictly increasing, in range, and pointing at the same samples -/
theorem remap_getD (old new : List Smp) (ho : SortedS old) (l : List Nat) (hb : ∀ i ∈ l, i < old.length) :
    (l.map (fun i => (falsePos (scriptOf old new) 0).getD i 0)).map
        (fun i => (mergeNew Smp.key old new).getD i default)
      = l.map (fun i => old.getD i default) := by
  rw [List.map_map]
  apply List.map_congr_left
  intro i hi
  have hw := weave_at_falsePos (default : Smp) (scriptOf old new) old new (scriptOf_false old new) (scriptOf_true old new)
  have hm : mergeNew Smp.key old new = weave (scriptOf old new) old new := by
    rw [← insert_eq_merge old new ho, insert_eq_weave old new old new rfl rfl]
  have hi' := hb i hi
  have hlen := oldIdx_length old new
  -- read position i of both sides of hw
  have := congrArg (fun L => L.getD i default) hw
  simp only [Function.comp] at this ⊢
  rw [hm]
  rw [List.getD_eq_getElem?_getD, List.getElem?_map] at this
  rw [List.getD_eq_getElem?_getD (l := falsePos (scriptOf old new) 0)]
  have hlt : i < (falsePos (scriptOf old new) 0).length := by omega
  rw [List.getElem?_eq_getElem hlt] at this ⊢
  simpa using this

end NessaiVerif.Ordered

namespace NessaiVerif.Ordered
open NessaiVerif.Np

theorem mergeNew_length (old new : List Smp) :
    (mergeNew Smp.key old new).length = old.length + new.length := by
  simpa using (mergeNew_perm Smp.key old new).length_eq

theorem shiftIdx_isEmpty (idx : List Nat) (k : Nat) : (shiftIdx idx k).isEmpty = idx.isEmpty := by
  cases idx <;> simp [shiftIdx]

/-- old ∪ new positions = all positions of the enlarged store -/
theorem positions_perm (old new : List Smp) :
    (falsePos (scriptOf old new) 0 ++ truePos (scriptOf old new) 0).Perm (List.range (old.length + new.length)) := by
  have := falsePos_append_truePos_perm (scriptOf old new) 0
  rwa [scriptOf_length, ← List.range_eq_range'] at this

/-- remapping a permutation of all old indices gives exactly the old positions -/
theorem map_remap_perm (old new : List Smp) (l : List Nat) (hl : l.Perm (List.range old.length)) :
    (l.map (fun i => (falsePos (scriptOf old new) 0).getD i 0)).Perm (falsePos (scriptOf old new) 0) := by
  have h1 := hl.map (fun i => (falsePos (scriptOf old new) 0).getD i 0)
  have h2 := map_getD_range (falsePos (scriptOf old new) 0) 0
  rw [oldIdx_length] at h2
  rwa [h2] at h1

/-- The state produced by a soft-threshold `add_samples`, spelled out. -/
theorem addSamples_soft (s : OS) (old : List Smp) (h : Inv s old) (hst : s.strict = false)
    (b : List (Smp × Nat)) (hb : b ≠ []) :
    ∃ s', addSamples s b = .ok s' ∧
      Inv s' (mergeNew Smp.key old ((sortBatch b).map (·.1))) ∧
      s'.nested = s.nested.map (fun i => (falsePos (scriptOf old ((sortBatch b).map (·.1))) 0).getD i 0) ∧
      (s'.live.getD []).Perm
        ((s.live.getD []).map (fun i => (falsePos (scriptOf old ((sortBatch b).map (·.1))) 0).getD i 0)
          ++ truePos (scriptOf old ((sortBatch b).map (·.1))) 0) ∧
      s'.rows = weave (scriptOf old ((sortBatch b).map (·.1))) s.rows ((sortBatch b).map (·.2)) ∧
      s'.thr = s.thr ∧ s'.strict = s.strict ∧ s'.replAll = s.replAll := by
  generalize hnew : (sortBatch b).map (·.1) = new
  have hnewS : SortedS new := hnew ▸ sortBatch_sorted b
  have hnewLen : new.length = b.length := by
    rw [← hnew]; simp [sortBatch_length]
  have hnewNe : new ≠ [] := by
    intro h0; rw [h0] at hnewLen; simp at hnewLen; exact hb (List.length_eq_zero_iff.mp hnewLen.symm)
  have hrowsB : ((sortBatch b).map (·.2)).length = new.length := by rw [← hnew]; simp
  -- the equalities that turn the program text into the merge picture
  have E1 : insertMany old (batchIdx old new) new 0 = mergeNew Smp.key old new := insert_eq_merge old new h.sorted
  have E2 := mergeNew_length old new
  have E3 : (shiftIdx (batchIdx old new) 0).isEmpty = false := by
    rw [shiftIdx_isEmpty]; cases new with
    | nil => exact absurd rfl hnewNe
    | cons _ _ => simp [batchIdx]
  have E4 := oldIdx_eq old new hnewS
  have E5 := oldIdx_length old new
  have E6 := newIdx_eq old new hnewS
  have Erows : insertMany s.rows (batchIdx old new) ((sortBatch b).map (·.2)) 0
      = weave (scriptOf old new) s.rows ((sortBatch b).map (·.2)) := insert_eq_weave old new _ _ h.rowsLen hrowsB
  have hrowsLen : (weave (scriptOf old new) s.rows ((sortBatch b).map (·.2))).length = (mergeNew Smp.key old new).length := by
    rw [weave_length _ _ _ (by rw [scriptOf_false, h.rowsLen]) (by rw [scriptOf_true, hrowsB]),
      scriptOf_length, E2]
  have hnestB : ∀ i ∈ s.nested, i < (falsePos (scriptOf old new) 0).length := by
    intro i hi; rw [E5]; exact h.bound i (by simp [hi])
  have hliveB : ∀ i ∈ s.live.getD [], i < (falsePos (scriptOf old new) 0).length := by
    intro i hi; rw [E5]; exact h.bound i (by simp [hi])
  have hnestInc : StrictInc (s.nested.map (fun i => (falsePos (scriptOf old new) 0).getD i 0)) :=
    strictInc_map_getD _ _ (falsePos_pairwise (scriptOf old new) 0) h.nestedInc hnestB
  have hliveInc : StrictInc ((s.live.getD []).map (fun i => (falsePos (scriptOf old new) 0).getD i 0)) :=
    strictInc_map_getD _ _ (falsePos_pairwise (scriptOf old new) 0) h.liveInc hliveB
  -- everything remapped + the new positions = all positions
  have hbig : (((s.live.getD []).map (fun i => (falsePos (scriptOf old new) 0).getD i 0) ++ truePos (scriptOf old new) 0) ++ s.nested.map (fun i => (falsePos (scriptOf old new) 0).getD i 0)).Perm
      (List.range (old.length + new.length)) := by
    have h1 : (((s.live.getD []).map (fun i => (falsePos (scriptOf old new) 0).getD i 0) ++ truePos (scriptOf old new) 0) ++ s.nested.map (fun i => (falsePos (scriptOf old new) 0).getD i 0)).Perm
        (((s.live.getD []) ++ s.nested).map (fun i => (falsePos (scriptOf old new) 0).getD i 0) ++ truePos (scriptOf old new) 0) := by
      rw [List.map_append, List.append_assoc, List.append_assoc]
      exact List.Perm.append_left _ List.perm_append_comm
    refine h1.trans ?_
    exact (List.Perm.append_right _ (map_remap_perm old new _ h.part)).trans (positions_perm old new)
  have hbigNd := hbig.nodup_iff.mpr List.nodup_range
  unfold addSamples
  simp only [h.hs, hst, hnew]
  change ∃ s', (if (shiftIdx (batchIdx old new) 0).isEmpty = true then _ else _) = _ ∧ _
  rw [E3]
  simp only [Bool.false_eq_true, if_false]
  have hfold : List.map (fun v : Smp => ssl (keys old) v.key) new = batchIdx old new := rfl
  simp only [hfold, E1, E2, E4, E5, Erows]
  have hchk : (old.length != old.length + new.length - new.length) = false := by simp
  simp only [hchk, Bool.false_eq_true, if_false]
  cases hlive : s.live with
  | none =>
    have hl0 : s.live.getD [] = [] := by simp [hlive]
    refine ⟨_, rfl, ⟨rfl, mergeNew_sorted ordLaws_int _ _ _ h.sorted hnewS, hrowsLen, ?_, hnestInc, ?_⟩, rfl, ?_, rfl, rfl, rfl, rfl⟩
    · simp only [Option.getD_some]; rw [E6]; exact truePos_pairwise (scriptOf old new) 0
    · simp only [Option.getD_some]; rw [E6, E2]
      simpa [hl0] using hbig
    · simp only [Option.getD_some]; rw [E6]; simp [hl0]
  | some l =>
    have hl0 : s.live.getD [] = l := by simp [hlive]
    rw [hl0] at hliveInc hbig hbigNd
    have hnd : (l.map (fun i => (falsePos (scriptOf old new) 0).getD i 0) ++ truePos (scriptOf old new) 0).Nodup := (List.nodup_append.mp hbigNd).1
    have hperm := addToNested_perm (l.map (fun i => (falsePos (scriptOf old new) 0).getD i 0)) (truePos (scriptOf old new) 0) hliveInc
    have hinc := addToNested_strictInc (l.map (fun i => (falsePos (scriptOf old new) 0).getD i 0)) (truePos (scriptOf old new) 0) hliveInc (truePos_pairwise (scriptOf old new) 0) hnd
    unfold addToNested at hperm hinc
    refine ⟨_, rfl, ⟨rfl, mergeNew_sorted ordLaws_int _ _ _ h.sorted hnewS, hrowsLen, ?_, hnestInc, ?_⟩, rfl, ?_, rfl, rfl, rfl, rfl⟩
    · simp only [Option.getD_some]; rw [E6]; exact hinc
    · simp only [Option.getD_some]; rw [E6, E2]
      exact (List.Perm.append_right _ hperm).trans hbig
    · simp only [Option.getD_some]; rw [E6]; simpa [hl0] using hperm

end NessaiVerif.Ordered

namespace NessaiVerif.Ordered
open NessaiVerif.Np

/-! ### thresholds on a sorted list -/

theorem countBelow_le (t : Int) (ks : List Int) : countBelow t ks ≤ ks.length := by
  unfold countBelow; exact List.length_filter_le _ _

theorem filter_below_nil_of_sorted (t : Int) (x : Smp) (xs : List Smp) (hs : SortedS (x :: xs))
    (hx : ¬ x.key < t) : xs.filter (fun y => decide (y.key < t)) = [] := by
  rw [List.filter_eq_nil_iff]
  intro y hy
  have := (List.pairwise_cons.mp hs).1 y hy
  simp only [decide_eq_true_eq]
  omega

/-- on a sorted list the samples strictly below the threshold are a prefix … -/
theorem take_countBelow (t : Int) (L : List Smp) (hs : SortedS L) :
    L.take (countBelow t (keys L)) = L.filter (fun y => decide (y.key < t)) := by
  induction L with
  | nil => simp [countBelow, keys]
  | cons x xs ih =>
    have hs' : SortedS xs := (List.pairwise_cons.mp hs).2
    by_cases hx : x.key < t
    · have : countBelow t (keys (x :: xs)) = countBelow t (keys xs) + 1 := by
        simp [countBelow, keys, hx]
      rw [this, List.take_succ_cons, ih hs', List.filter_cons_of_pos (by simpa using hx)]
    · have h0 := filter_below_nil_of_sorted t x xs hs hx
      have : countBelow t (keys (x :: xs)) = 0 := by
        have hk : (keys xs).filter (fun k => decide (k < t)) = [] := by
          have := congrArg (List.map Smp.key) h0
          rw [List.filter_eq_nil_iff] at h0 ⊢
          intro k hk
          obtain ⟨y, hy, rfl⟩ := List.mem_map.mp hk
          exact h0 y hy
        simp [countBelow, keys, hx] at hk ⊢
        exact hk
      rw [this, List.filter_cons_of_neg (by simpa using hx), h0]
      simp

/-- … and those at or above it the remaining suffix -/
theorem drop_countBelow (t : Int) (L : List Smp) (hs : SortedS L) :
    L.drop (countBelow t (keys L)) = L.filter (fun y => !decide (y.key < t)) := by
  induction L with
  | nil => simp [countBelow, keys]
  | cons x xs ih =>
    have hs' : SortedS xs := (List.pairwise_cons.mp hs).2
    by_cases hx : x.key < t
    · have : countBelow t (keys (x :: xs)) = countBelow t (keys xs) + 1 := by
        simp [countBelow, keys, hx]
      rw [this, List.drop_succ_cons, ih hs', List.filter_cons_of_neg (by simpa using hx)]
    · have h0 := filter_below_nil_of_sorted t x xs hs hx
      have hcnt : countBelow t (keys (x :: xs)) = 0 := by
        have := take_countBelow t (x :: xs) hs
        rw [List.filter_cons_of_neg (by simpa using hx), h0] at this
        have hlen := congrArg List.length this
        simp at hlen
        have hle := countBelow_le t (keys (x :: xs))
        simp [keys] at hle
        omega
      rw [hcnt]
      simp only [List.drop_zero]
      have hall : ∀ y ∈ x :: xs, (!decide (y.key < t)) = true := by
        intro y hy
        rcases List.mem_cons.mp hy with rfl | hy
        · simpa using hx
        · have := (List.pairwise_cons.mp hs).1 y hy
          simp only [Bool.not_eq_true', decide_eq_false_iff_not]; omega
      exact (List.filter_eq_self.mpr hall).symm

theorem map_getD_range_take {α : Type} (L : List α) (d : α) (n : Nat) (hn : n ≤ L.length) :
    (List.range n).map (fun i => L.getD i d) = L.take n := by
  apply List.ext_getElem
  · simp; omega
  · intro i h1 h2
    simp at h1
    simp [List.getD_eq_getElem?_getD, h1]
    have : i < L.length := by omega
    simp [this]

theorem map_getD_range'_drop {α : Type} (L : List α) (d : α) (n : Nat) (hn : n ≤ L.length) :
    (List.range' n (L.length - n)).map (fun i => L.getD i d) = L.drop n := by
  apply List.ext_getElem
  · simp
  · intro i h1 h2
    simp at h1
    have : n + i < L.length := by omega
    simp [List.getD_eq_getElem?_getD, this]

/-- sub-selection of a sorted store by strictly increasing in-range indices is sorted -/
theorem sorted_select (L : List Smp) (hs : SortedS L) (l : List Nat) (hl : StrictInc l)
    (hb : ∀ i ∈ l, i < L.length) : SortedS (l.map (fun i => L.getD i default)) := by
  unfold SortedS SortedK
  rw [List.pairwise_map]
  induction l with
  | nil => simp
  | cons a l ih =>
    unfold StrictInc at hl
    rw [List.pairwise_cons] at hl ⊢
    refine ⟨?_, ih hl.2 (fun i hi => hb i (by simp [hi]))⟩
    intro c hc
    have hac := hl.1 c hc
    have hcL := hb c (by simp [hc])
    have := List.pairwise_iff_getElem.mp hs a c (by omega) hcL hac
    simpa [List.getD_eq_getElem?_getD, hcL, Nat.lt_trans hac hcL] using this

end NessaiVerif.Ordered

namespace NessaiVerif.Ordered
open NessaiVerif.Np

/-! ### what the user observes after each operation -/

theorem liveSamples_eq (s : OS) (smp : List Smp) (hs : s.samples = some smp) :
    liveSamples s = (s.live.getD []).map (fun i => smp.getD i default) := by
  unfold liveSamples; rw [hs]; cases s.live <;> simp

theorem nestedSamples_eq (s : OS) (smp : List Smp) (hs : s.samples = some smp) :
    nestedSamples s = s.nested.map (fun i => smp.getD i default) := by
  unfold nestedSamples; rw [hs]

theorem merge_eq_weave (old new : List Smp) (ho : SortedS old) :
    mergeNew Smp.key old new = weave (scriptOf old new) old new := by
  rw [← insert_eq_merge old new ho, insert_eq_weave old new old new rfl rfl]

/-- soft insertion: discarded samples are untouched (same samples, same order), the live samples gain
exactly the batch, rows stay attached -/
theorem addSamples_soft_observe (s : OS) (old : List Smp) (h : Inv s old) (hst : s.strict = false)
    (b : List (Smp × Nat)) (hb : b ≠ []) :
    ∃ s' smp', addSamples s b = .ok s' ∧ Inv s' smp' ∧ smp'.Perm (old ++ (sortBatch b).map (·.1)) ∧
      nestedSamples s' = nestedSamples s ∧
      (liveSamples s').Perm (liveSamples s ++ (sortBatch b).map (·.1)) ∧
      (∀ r : Smp → Nat, s.rows = old.map r → (∀ x ∈ b, x.2 = r x.1) → s'.rows = smp'.map r) ∧
      s'.thr = s.thr ∧ s'.strict = s.strict ∧ s'.replAll = s.replAll := by
  obtain ⟨s', hok, hinv, hnest, hlive, hrows, h1, h2, h3⟩ := addSamples_soft s old h hst b hb
  refine ⟨s', _, hok, hinv, mergeNew_perm _ _ _, ?_, ?_, ?_, h1, h2, h3⟩
  · rw [nestedSamples_eq s' _ hinv.hs, nestedSamples_eq s _ h.hs, hnest]
    exact remap_getD old _ h.sorted s.nested (fun i hi => h.bound i (by simp [hi]))
  · rw [liveSamples_eq s' _ hinv.hs, liveSamples_eq s _ h.hs]
    refine (hlive.map _).trans ?_
    rw [List.map_append, remap_getD old _ h.sorted _ (fun i hi => h.bound i (by simp [hi]))]
    rw [merge_eq_weave old _ h.sorted]
    rw [weave_at_truePos default _ old _ (scriptOf_false old _) (scriptOf_true old _)]
  · intro r hr hbr
    rw [hrows, hr, merge_eq_weave old _ h.sorted, weave_map]
    congr 1
    have : ∀ x ∈ sortBatch b, x.2 = r x.1 := fun x hx => hbr x ((sortBatch_perm b).mem_iff.mp hx)
    rw [List.map_map]
    exact List.map_congr_left (fun x hx => by simp [this x hx])

/-- strict insertion: the live set is exactly the samples at or above the threshold -/
theorem addSamples_strict_observe (s : OS) (old : List Smp) (h : Inv s old) (hst : s.strict = true)
    (b : List (Smp × Nat)) (s' : OS) (hok : addSamples s b = .ok s') :
    ∃ smp', Inv s' smp' ∧ smp'.Perm (old ++ (sortBatch b).map (·.1)) ∧
      (∀ t, s.thr = some t →
        liveSamples s' = smp'.filter (fun y => !decide (y.key < t)) ∧
        nestedSamples s' = smp'.filter (fun y => decide (y.key < t))) ∧
      (∀ r : Smp → Nat, s.rows = old.map r → (∀ x ∈ b, x.2 = r x.1) → s'.rows = smp'.map r) ∧
      s'.thr = s.thr ∧ s'.strict = s.strict ∧ s'.replAll = s.replAll := by
  generalize hnew : (sortBatch b).map (·.1) = new at *
  have hnewS : SortedS new := hnew ▸ sortBatch_sorted b
  have hrowsB : ((sortBatch b).map (·.2)).length = new.length := by rw [← hnew]; simp
  have E1 : insertMany old (batchIdx old new) new 0 = mergeNew Smp.key old new := insert_eq_merge old new h.sorted
  have Erows : insertMany s.rows (batchIdx old new) ((sortBatch b).map (·.2)) 0
      = weave (scriptOf old new) s.rows ((sortBatch b).map (·.2)) := insert_eq_weave old new _ _ h.rowsLen hrowsB
  have hrowsLen : (weave (scriptOf old new) s.rows ((sortBatch b).map (·.2))).length = (mergeNew Smp.key old new).length := by
    rw [weave_length _ _ _ (by rw [scriptOf_false, h.rowsLen]) (by rw [scriptOf_true, hrowsB]),
      scriptOf_length, mergeNew_length]
  have hsorted := mergeNew_sorted ordLaws_int Smp.key old new h.sorted hnewS
  unfold addSamples at hok
  simp only [h.hs, hst, hnew, if_true] at hok
  have hfold : List.map (fun v : Smp => ssl (keys old) v.key) new = batchIdx old new := rfl
  simp only [hfold, E1, Erows] at hok
  have hrowsfact : ∀ r : Smp → Nat, s.rows = old.map r → (∀ x ∈ b, x.2 = r x.1) →
      weave (scriptOf old new) s.rows ((sortBatch b).map (·.2)) = (mergeNew Smp.key old new).map r := by
    intro r hr hbr
    rw [hr, merge_eq_weave old _ h.sorted, weave_map]
    congr 1
    have : ∀ x ∈ sortBatch b, x.2 = r x.1 := fun x hx => hbr x ((sortBatch_perm b).mem_iff.mp hx)
    rw [← hnew, List.map_map]
    exact List.map_congr_left (fun x hx => by simp [this x hx])
  split at hok
  · cases hok
  · rename_i n hn
    cases hok
    have hnle : n ≤ (mergeNew Smp.key old new).length := by
      split at hn
      · cases hn; omega
      · cases hthr : s.thr with
        | none => simp [hthr] at hn
        | some t =>
          simp [hthr] at hn
          rw [← hn]
          have := countBelow_le t (keys (mergeNew Smp.key old new))
          simpa [keys] using this
    have hinv := inv_strict s _ _ n hsorted hrowsLen hnle
    rw [hst] at hinv
    refine ⟨_, hinv, mergeNew_perm _ _ _, ?_, hrowsfact, rfl, hst.symm, rfl⟩
    intro t ht
    have hn' : n = countBelow t (keys (mergeNew Smp.key old new)) := by
      split at hn
      · rename_i hemp
        have : mergeNew Smp.key old new = [] := by simpa using hemp
        cases hn; simp [this, countBelow, keys]
      · simp [ht] at hn; exact hn.symm
    constructor
    · simp only [liveSamples]
      rw [map_getD_range'_drop _ _ _ hnle, hn', drop_countBelow t _ hsorted]
    · simp only [nestedSamples]
      rw [map_getD_range_take _ _ _ hnle, hn', take_countBelow t _ hsorted]

end NessaiVerif.Ordered

namespace NessaiVerif.Ordered
open NessaiVerif.Np

/-- moving a prefix `l1` of the live indices: what the user sees -/
theorem move_observe (s : OS) (smp : List Smp) (h : Inv s smp) (l1 l2 : List Nat)
    (hl : s.live.getD [] = l1 ++ l2) (live' : Option (List Nat)) (hl' : live'.getD [] = l2) :
    let s' : OS := { s with nested := addToNested s.nested l1, live := live' }
    Inv s' smp ∧
    liveSamples s' = l2.map (fun i => smp.getD i default) ∧
    (nestedSamples s').Perm (nestedSamples s ++ l1.map (fun i => smp.getD i default)) := by
  intro s'
  have hinv := inv_move s smp h l1 l2 hl live' hl'
  refine ⟨hinv, ?_, ?_⟩
  · rw [liveSamples_eq s' smp hinv.hs]; simp [s', hl']
  · rw [nestedSamples_eq s' smp hinv.hs, nestedSamples_eq s smp h.hs, ← List.map_append]
    exact (addToNested_perm s.nested l1 h.nestedInc).map _

/-- `remove_samples` without replace-all -/
theorem removeSamples_observe (s : OS) (smp : List Smp) (h : Inv s smp) (hr : s.replAll = false)
    (s' : OS) (n : Nat) (hok : removeSamples s = .ok (s', n)) :
    Inv s' smp ∧
    (∀ t, s.thr = some t →
      n = ((liveSamples s).filter (fun y => decide (y.key < t))).length ∧
      liveSamples s' = (liveSamples s).filter (fun y => !decide (y.key < t)) ∧
      (nestedSamples s').Perm (nestedSamples s ++ (liveSamples s).filter (fun y => decide (y.key < t)))) ∧
    s'.thr = s.thr ∧ s'.strict = s.strict ∧ s'.replAll = s.replAll ∧ s'.rows = s.rows := by
  unfold removeSamples at hok
  split at hok
  case h_2 => cases hok
  case h_1 smp0 l hsm hlive =>
    have hsmp : smp0 = smp := by rw [h.hs] at hsm; cases hsm; rfl
    subst hsmp
    rw [if_neg (by simp [hr])] at hok
    have hl0 : s.live.getD [] = l := by simp [hlive]
    have hLS : liveSamples s = l.map (fun i => smp0.getD i default) := by
      rw [liveSamples_eq s smp0 h.hs, hl0]
    have hLSs : SortedS (liveSamples s) := by
      rw [hLS]
      exact sorted_select smp0 h.sorted l (hl0 ▸ h.liveInc) (fun i hi => h.bound i (by simp [hl0, hi]))
    split at hok
    · cases hok
    · rename_i m hm
      cases hok
      have hsplit : s.live.getD [] = l.take n ++ l.drop n := by rw [hl0, List.take_append_drop]
      have hobs := move_observe s smp0 h (l.take n) (l.drop n) hsplit (some (l.drop n)) rfl
      refine ⟨hobs.1, ?_, rfl, rfl, rfl, rfl⟩
      intro t ht
      have hm' : n = countBelow t (keys (liveSamples s)) := by
        split at hm
        · rename_i hemp
          have : l = [] := by simpa using hemp
          cases hm; simp [hLS, this, countBelow, keys]
        · simp [ht] at hm
          rw [← hm, hLS]; simp [keys, List.map_map, Function.comp_def]
      refine ⟨?_, ?_, ?_⟩
      · rw [hm']; simp [countBelow, keys, List.filter_map, Function.comp_def]
      · rw [hobs.2.1, List.map_drop, ← hLS, hm', drop_countBelow t _ hLSs]
      · refine hobs.2.2.trans ?_
        rw [List.map_take, ← hLS, hm', take_countBelow t _ hLSs]

/-- `remove_samples` in replace-all mode and `finalise`: every live sample is moved -/
theorem moveAll_observe (s : OS) (smp : List Smp) (h : Inv s smp) (l : List Nat) (hlive : s.live = some l) :
    let s' : OS := { s with nested := addToNested s.nested l, live := none }
    Inv s' smp ∧ liveSamples s' = [] ∧
    (nestedSamples s').Perm (nestedSamples s ++ liveSamples s) ∧ l.length = (liveSamples s).length := by
  intro s'
  have hl0 : s.live.getD [] = l ++ [] := by simp [hlive]
  have hobs := move_observe s smp h l [] hl0 none rfl
  refine ⟨hobs.1, by simpa using hobs.2.1, ?_, ?_⟩
  · rw [liveSamples_eq s smp h.hs]; simpa [hlive] using hobs.2.2
  · rw [liveSamples_eq s smp h.hs]; simp [hlive]

end NessaiVerif.Ordered
