"""C03 — every INS sample carries the exact meta-proposal density and weight."""
import math
import os
import shutil
import tempfile
from fractions import Fraction

import numpy as np

PROPS_MODULE = "NessaiVerif.Props.C03"
MANIFEST = dict(
    text="PARTIAL (the clause 'stored log-densities equal the saved proposals re-evaluated at the sample' enters the theorems as a "
         "hypothesis on each iteration's inputs and is checked on real runs by the replay/oracle; unit-hypercube membership and "
         "stored logL = model value are oracle-only; finalisation and resume are covered by replayed runs, not by theorems): "
         "Lean theorems over a linear-domain model of the importance sampler's meta-proposal bookkeeping (proposal counts and "
         "weights, per-sample density rows, Q = Σ w_k q_k, W = U/Q), generic over any field of characteristic zero: weights are "
         "the fractions of samples drawn from each proposal and sum to one; after every iteration (any number of them, any batch "
         "sizes, with/without the independent set) every stored sample's row holds every proposal's density at that sample, its "
         "Q is the mixture under the CURRENT weights and W·Q = U; the counts are the numbers of stored samples labelled with each "
         "proposal (samples_grouped_by_proposal); Q > 0 for every stored sample when densities are non-negative (reachable_Q_pos); plus the counter-example that skipping the re-weighting of old "
         "samples breaks it. The model is tied to the code by replaying complete runs of the real ImportanceNestedSampler "
         "(real OrderedSamples / ImportanceFlowProposal / ImportanceFlowModel code paths, with exactly-known 'tilt' flows "
         "substituted for the neural flows and their training) through the Rat model after every iteration, finalisation and "
         "checkpoint/resume (box priors and priors that are zero inside the box; strict/soft threshold, replace-all, "
         "with/without the independent set, logit/none), and by oracle checks on short runs with real neural flows. The weight "
         "bookkeeping is ALSO regenerated from the source on every run (harness/c03_tx.py: add_new_proposal_weight + "
         "update_proposal_weights + compute_meta_proposal_from_log_q over Python dictionaries in insertion order -> "
         "Gen/MetaTx.lean) and proved equal to the model's addProposalWeight (errors included) and mix "
         "(add_new_proposal_weight_source_eq_model, meta_from_log_q_source_eq_model); update_log_q and the re-weighting sequence "
         "of add_and_update_points are recognised statement by statement and proved to leave every stored sample as the model's "
         "upd does (reweight_store_source_eq_model).",
    note="Densities q_k(x) are inputs of the model (the harness evaluates the exactly-known tilt densities as rationals at the stored "
         "float coordinates); neural-flow runs are checked by the oracle only (float32 tolerance). Ordering/alignment of rows is C04.",
    technique="Lean 4 proof (invariant by induction over iterations, any field; weight bookkeeping translated from the source and "
              "proved equal to the model) + trace replay of real runs through the Rat model",
    ref="5/C03")


def gen(ctx):
    """regenerate Gen/MetaTx.lean from the current source of the meta-proposal's weight bookkeeping (harness/c03_tx.py)"""
    from . import c03_tx
    c03_tx.gen(ctx)

TOL = 1e-9


# ----------------------------------------------------------------------------------------------
# exactly-known flows substituted for the neural flows
# ----------------------------------------------------------------------------------------------
def make_tilt_flow(dims, logit):
    import torch

    class TiltFlow(torch.nn.Module):
        """density on the unit cube  p(x) = prod_d (1 + c_d (2 x_d - 1)),  |c_d| < 1.
        With `logit` the flow lives in logit space (push-forward of p), so that nessai's
        rescaling Jacobian cancels exactly and the stored per-proposal density is p(x)."""

        def __init__(self):
            super().__init__()
            self.register_buffer("c", torch.zeros(dims, dtype=torch.float64))
            self.unused = torch.nn.Parameter(torch.zeros(1))   # optimisers need a parameter
            self.device = torch.device("cpu")

        def _cube(self, xp):
            return torch.sigmoid(xp) if logit else xp

        def log_prob(self, xp):
            xp = xp.to(torch.float64)
            x = self._cube(xp)
            lp = torch.log1p(self.c * (2.0 * x - 1.0)).sum(dim=1)
            if logit:
                # d x / d x' = sigmoid(x')(1 - sigmoid(x'))
                lp = lp + (torch.nn.functional.logsigmoid(xp) + torch.nn.functional.logsigmoid(-xp)).sum(dim=1)
            else:
                inside = ((x >= 0) & (x <= 1)).all(dim=1)
                lp = torch.where(inside, lp, torch.full_like(lp, -math.inf))
            return lp

        def sample(self, n):
            u = torch.rand(int(n), dims, dtype=torch.float64)
            c = self.c
            safe = torch.where(c.abs() < 1e-12, torch.ones_like(c), c)
            x = (-(1.0 - safe) + torch.sqrt((1.0 - safe) ** 2 + 4.0 * safe * u)) / (2.0 * safe)
            x = torch.where(c.abs() < 1e-12, u, x)
            x = x.clamp(1e-12, 1 - 1e-12)
            return torch.logit(x) if logit else x

    return TiltFlow()


def tilt_density(c, x):
    """exact rational p(x) at float coordinates"""
    r = Fraction(1)
    for cd, xd in zip(c, x):
        r *= 1 + Fraction(cd) * (2 * Fraction(xd) - 1)
    return r


class FakeFlows:
    """context manager: nessai builds TiltFlows instead of neural flows and 'trains' them deterministically"""

    def __init__(self, dims, logit, rng):
        self.dims, self.logit, self.rng = dims, logit, rng
        self.level_c = []

    def __enter__(self):
        import torch
        from unittest import mock
        import nessai.flowmodel.importance as fmi
        import nessai.flowmodel.base as fmb
        outer = self
        self._dtype = torch.get_default_dtype()
        torch.set_default_dtype(torch.float64)

        def configure_model(config):
            return make_tilt_flow(outer.dims, outer.logit)

        def train(self_, samples, weights=None, output=None, plot=False, **kw):
            output = self_.output if output is None else output
            os.makedirs(output, exist_ok=True)
            # deterministic "training": tilt towards the weighted mean of the training data (dyadic, |c| <= 3/4)
            s = samples
            if outer.logit:
                s = 1.0 / (1.0 + np.exp(-s))
            w = np.ones(len(s)) if weights is None else np.abs(np.asarray(weights, dtype=float))
            m = (s * w[:, None]).sum(axis=0) / w.sum()
            c = np.clip(np.round((m - 0.5) * 4.0 * 64) / 64, -0.75, 0.75)
            c = np.where(c == 0, 1.0 / 64, c)
            self_.model.c.copy_(torch.from_numpy(c))
            self_.model.eval()
            self_.save_weights(os.path.join(output, "model.pt"))
            return {}

        self._patches = [mock.patch.object(fmi, "configure_model", configure_model),
                         mock.patch.object(fmb.FlowModel, "train", train)]
        for p in self._patches:
            p.start()
        return self

    def __exit__(self, *a):
        import torch
        for p in self._patches:
            p.stop()
        torch.set_default_dtype(self._dtype)


def make_model(dims, seed, cut=False, uprior=False, lcut=False, loffset=0.0, nobounds=False):
    """2..3-d Gaussian likelihood, uniform prior on a box; with `cut` the prior is zero on part of the box
    (x0 + x1 > 2), i.e. log_prior = -inf inside the bounds — a legal constrained model; with `uprior` the prior is NOT
    flat: density 1 + 0.8 (u0 - 1/2) in the unit hypercube (log_prior_unit_hypercube overridden, as in nessai's
    examples/importance_nested_sampler/hypercube_prior.py), so logU != 0 and logW = logU - logQ != -logQ (seeded C03-c)"""
    from nessai.model import Model

    class M(Model):
        def __init__(self):
            self.names = [f"x{i}" for i in range(dims)]
            self.bounds = {n: [-4.0, 4.0] for n in self.names}
            self.mu = [0.5 * (i + 1) for i in range(dims)]

        def log_prior(self, x):
            if nobounds:
                # a prior that does NOT test the bounds itself (constant density; verify_model accepts it): keeping samples
                # inside the unit hypercube is then entirely the sampler's job (seeded change C03-eB)
                return np.zeros(x.size) - dims * math.log(8.0)
            ok = self.in_bounds(x)
            if cut:
                ok = ok & ((x[self.names[0]] + x[self.names[1]]) <= 2.0)
            lp = np.log(ok, dtype="float")
            if uprior:
                lp = lp + np.log1p(0.8 * ((x[self.names[0]] + 4.0) / 8.0 - 0.5))
            return lp - dims * math.log(8.0)

        if uprior:
            def log_prior_unit_hypercube(self, x):
                u = self.unstructured_view(x)
                inside = ~np.any((u < 0) | (u >= 1), axis=-1)
                with np.errstate(all="ignore"):
                    return np.log(inside, dtype="float") + np.log1p(0.8 * (x[self.names[0]] - 0.5))

        def log_likelihood(self, x):
            out = np.zeros(x.size)
            for n, m in zip(self.names, self.mu):
                out = out - 0.5 * (x[n] - m) ** 2
            if loffset:
                out = out + loffset       # un-normalised likelihood: log Z far outside the float64 exp range
            if lcut:
                # a hard truncation of the LIKELIHOOD (log L = -inf on part of the prior support): legal, and the stored
                # value must be the model's -inf, not a finite stand-in (seeded change C03-d)
                with np.errstate(all="ignore"):
                    out = np.where(x[self.names[0]] < -0.5, -np.inf, out)
            return out

        def to_unit_hypercube(self, x):
            y = x.copy()
            for n in self.names:
                y[n] = (x[n] + 4.0) / 8.0
            return y

        def from_unit_hypercube(self, x):
            y = x.copy()
            for n in self.names:
                y[n] = 8.0 * x[n] - 4.0
            return y

    return M()


# ----------------------------------------------------------------------------------------------
# running the real sampler and snapshotting after every iteration
# ----------------------------------------------------------------------------------------------
def snapshot(sampler, tag):
    snap = {"tag": tag, "iteration": int(sampler.iteration),
            "weights": dict(sampler.proposal.weights), "counts": dict(sampler.sample_counts),
            "n_models": sampler.proposal.flow.n_models if sampler.proposal.flow is not None else 0}
    for name in ("training_samples", "iid_samples"):
        os_ = getattr(sampler, name)
        if os_ is None or os_.samples is None:
            snap[name] = None
            continue
        snap[name] = (os_.samples.copy(), None if os_.log_q is None else os_.log_q.copy())
    return snap


def run_fake(cfg, seed, outdir, resume_after=None):
    """complete run of the real ImportanceNestedSampler with tilt flows; snapshots after each iteration,
    after finalise and (optionally) after a checkpoint/resume cycle"""
    import torch
    from unittest import mock
    from nessai.samplers.importancesampler import ImportanceNestedSampler
    np.random.seed(seed)
    torch.manual_seed(seed)
    dims = cfg["dims"]
    model = make_model(dims, seed, cfg.get("cut", False), cfg.get("uprior", False), cfg.get("lcut", False), 0.0, cfg.get("nobounds", False))
    snaps = []
    with FakeFlows(dims, cfg["reparam"] == "logit", None) as ff:
        sampler = ImportanceNestedSampler(
            model, nlive=cfg["nlive"], output=outdir, seed=seed, plot=False, checkpointing=True,
            checkpoint_on_iteration=True, checkpoint_interval=1, min_samples=cfg["min_samples"], min_remove=1,
            max_iteration=cfg["levels"], min_iteration=cfg["levels"], strict_threshold=cfg["strict"], replace_all=cfg["replace_all"],
            draw_constant=cfg["draw_constant"], draw_iid_live=cfg["iid"], reparameterisation=cfg["reparam"],
            threshold_kwargs={"q": cfg["q"]}, save_log_q=cfg["save_log_q"], weighted_kl=cfg["weighted_kl"],
            stopping_criterion="ratio", tolerance=-1e9, resume_file="ckpt.pkl",
        )
        orig = ImportanceNestedSampler.update_evidence

        def wrapped(self_):
            orig(self_)
            snaps.append(snapshot(self_, "iteration"))

        mid = cfg.get("resume_mid")
        orig_ckpt = ImportanceNestedSampler.checkpoint

        def ckpt_copy(self_, periodic=False, force=False):
            orig_ckpt(self_, periodic=periodic, force=force)
            # keep the iteration-boundary checkpoint written after `mid` iterations
            if mid and periodic and not self_.finalised and self_.iteration == mid:
                shutil.copy(os.path.join(outdir, "ckpt.pkl"), os.path.join(outdir, "ckpt_mid.pkl"))

        with mock.patch.object(ImportanceNestedSampler, "update_evidence", wrapped), \
                mock.patch.object(ImportanceNestedSampler, "checkpoint", ckpt_copy):
            try:
                sampler.nested_sampling_loop()
            except Exception as e:  # noqa: hand the states reached so far to the caller, which judges them
                e._c03_partial = (list(snaps), sampler.model)
                raise
        if mid and os.path.exists(os.path.join(outdir, "ckpt_mid.pkl")):
            # kill after `mid` iterations: resume from that boundary checkpoint with a fresh model and finish the run
            import pickle
            del snaps[mid:]
            with open(os.path.join(outdir, "ckpt_mid.pkl"), "rb") as f:
                sm = pickle.load(f)
            sampler = ImportanceNestedSampler.resume_from_pickled_sampler(sm, make_model(dims, seed, cfg.get("cut", False), cfg.get("uprior", False), cfg.get("lcut", False), 0.0, cfg.get("nobounds", False)))
            snaps.append(snapshot(sampler, "resumed"))
            np.random.seed(seed + 1)
            torch.manual_seed(seed + 1)
            with mock.patch.object(ImportanceNestedSampler, "update_evidence", wrapped):
                sampler.nested_sampling_loop()
        snaps.append(snapshot(sampler, "finalised"))
        # "after finalisation" includes a second call of the loop on the finished sampler (a re-run script): every stored
        # sample must still carry the densities of the saved proposals (seeded change C03-hB re-initialised before the
        # early exit and replaced both sets with fresh prior draws)
        try:
            sampler.nested_sampling_loop()
        except Exception as e:  # noqa
            e._c03_partial = (list(snaps), sampler.model)
            raise
        snaps.append(snapshot(sampler, "finalised-loop-called-again"))
        level_c = [m.c.numpy().copy() for m in sampler.proposal.flow.models]
        if resume_after:
            import pickle
            with open(os.path.join(outdir, "ckpt.pkl"), "rb") as f:
                s2 = pickle.load(f)
            s2.resume_from_pickled_sampler  # noqa (attribute exists)
            model2 = make_model(dims, seed, cfg.get("cut", False), cfg.get("uprior", False), cfg.get("lcut", False), 0.0, cfg.get("nobounds", False))
            s2 = ImportanceNestedSampler.resume_from_pickled_sampler(s2, model2)
            snaps.append(snapshot(s2, "resumed"))
        return snaps, level_c, sampler


# ----------------------------------------------------------------------------------------------
# model replay + oracle
# ----------------------------------------------------------------------------------------------
def frac(x):
    return Fraction(float(x))


def fr(q):
    return f"{q.numerator}/{q.denominator}" if q.denominator != 1 else str(q.numerator)


class Registry:
    def __init__(self):
        self.ids = {}

    def id(self, rec, names):
        key = tuple(float(rec[n]) for n in names)
        if key not in self.ids:
            self.ids[key] = len(self.ids) + 1
        return self.ids[key]


def close(a, b, tol=TOL):
    if a == b:
        return True
    if math.isinf(a) or math.isinf(b) or math.isnan(a) or math.isnan(b):
        return False
    return abs(a - b) <= tol * max(1.0, abs(b))


def flog(q):
    if q == 0:
        return -math.inf
    return math.log(q.numerator) - math.log(q.denominator) if q > 0 else math.nan


def build_trace(snaps, level_c, names, cfg):
    """protocol ops replaying the run + the expected (id -> row/Q/W) per snapshot"""
    reg = Registry()
    ops, seen_t, seen_i = [], set(), set()

    def dens(k, rec):      # proposal k = -1 .. ; exact rational density at the stored unit-cube point
        if k == -1:
            return Fraction(1)
        return tilt_density(level_c[k], [rec[n] for n in names])

    prev_levels = 0
    checks = []
    for si, snap in enumerate(snaps):
        if snap["tag"] != "iteration":
            ops.append("dump")
            checks.append((len(ops) - 1, si))
            continue
        j = snap["iteration"]
        tr, trq = snap["training_samples"]
        ii = snap["iid_samples"]
        if si == 0:
            # samples with it == -1 are the initial population
            t0 = [r for r in tr if r["it"] == -1]
            i0 = [r for r in ii[0] if r["it"] == -1] if ii else []
            ops.append("pop [" + ",".join(f"{reg.id(r, names)}:{fr(frac(math.exp(r['logU'])))}" for r in t0) + "] ["
                       + ",".join(f"{reg.id(r, names)}:{fr(frac(math.exp(r['logU'])))}" for r in i0) + "]")
            seen_t.update(reg.id(r, names) for r in t0)
            seen_i.update(reg.id(r, names) for r in i0)
        new_t = [r for r in tr if r["it"] == j]
        ops.append(f"w {j} {snap['counts'][j]}")

        def half(letter, recs_all, seen):
            new = [r for r in recs_all if r["it"] == j]
            old = [r for r in recs_all if reg.id(r, names) in seen]
            new_s = ",".join(f"{reg.id(r, names)}:{fr(frac(math.exp(r['logU'])))}:["
                             + ",".join(fr(dens(k, r)) for k in range(-1, j + 1)) + "]" for r in new)
            col_s = ",".join(f"{reg.id(r, names)}:{fr(dens(j, r))}" for r in old)
            ops.append(f"{letter} {j} [{new_s}] [{col_s}]")
            seen.update(reg.id(r, names) for r in new)

        half("t", tr, seen_t)
        if ii:
            half("i", ii[0], seen_i)
        ops.append("dump")
        checks.append((len(ops) - 1, si))
    return ops, checks, reg


def parse_dump(s):
    out = {}
    for part in s.split(" "):
        k, v = part.split("=", 1)
        out[k] = v
    def plist(v):
        v = v[1:-1]
        if not v:
            return []
        items, depth, cur = [], 0, ""
        for ch in v:
            if ch == "[":
                depth += 1
            if ch == "]":
                depth -= 1
            if ch == "," and depth == 0:
                items.append(cur); cur = ""
            else:
                cur += ch
        items.append(cur)
        return items
    res = {"weights": [Fraction(x) for x in plist(out["weights"])], "counts": [int(x) for x in plist(out["counts"])]}
    for name in ("train", "iid"):
        d = {}
        for it in plist(out[name]):
            i, q, w, row = it.split(":", 3)
            d[int(i)] = (Fraction(q), Fraction(w), [Fraction(x) for x in plist(row)])
        res[name] = d
    return res


def compare_snapshot(ctx, snap, mdump, reg, names, case, exact_rows=True):
    """real stored values vs the exact model; returns number of compared samples"""
    n = 0
    w_impl = [snap["weights"][k] for k in sorted(snap["weights"])]
    if len(w_impl) != len(mdump["weights"]) or any(not close(a, float(b), 1e-12) for a, b in zip(w_impl, mdump["weights"])):
        ctx.disagree("proposal weights differ from the model", {**case, "impl": w_impl, "model": [str(x) for x in mdump["weights"]]})
    for name, key in (("training_samples", "train"), ("iid_samples", "iid")):
        if snap[name] is None:
            continue
        recs, logq = snap[name]
        md = mdump[key]
        if len(recs) != len(md):
            ctx.disagree(f"{name}: {len(recs)} stored samples, model has {len(md)}", case)
            continue
        for idx, r in enumerate(recs):
            i = reg.id(r, names)
            if i not in md:
                ctx.disagree(f"{name}: stored sample unknown to the model", case)
                break
            Q, W, row = md[i]
            n += 1
            if not close(float(r["logQ"]), flog(Q)) or not close(float(r["logW"]), flog(W)):
                ctx.disagree(f"{name}: stored logQ/logW differ from the exact mixture",
                             {**case, "sample": i, "logQ": float(r["logQ"]), "model_logQ": flog(Q),
                              "logW": float(r["logW"]), "model_logW": flog(W)})
                return n
            if logq is not None and exact_rows:
                if logq.shape[1] != len(row) or any(not close(float(a), flog(b), 1e-9) for a, b in zip(logq[idx], row)):
                    ctx.disagree(f"{name}: stored density row differs from the proposals evaluated at the sample",
                                 {**case, "sample": i, "row": [float(v) for v in logq[idx]], "model": [flog(b) for b in row]})
                    return n
    return n


def oracle_snapshot(ctx, snap, sampler_model, names, case, level_logq=None, tol=TOL):
    """the property's predicates evaluated directly on the real stored values"""
    site = "ImportanceNestedSampler:" + snap["tag"]
    ws = snap["weights"]
    keys = sorted(ws)
    w = np.array([ws[k] for k in keys])
    if not np.isclose(w.sum(), 1.0, atol=1e-12):
        ctx.oracle_fail(site + ":weights-sum", f"proposal weights sum to {w.sum()}", case)
    for name in ("training_samples", "iid_samples"):
        if snap[name] is None:
            continue
        recs, logq = snap[name]
        n_tot = len(recs)
        # weights are the fraction of samples drawn from each proposal (reference set = iid set if present)
        ref = snap["iid_samples"][0] if snap["iid_samples"] is not None else snap["training_samples"][0]
        frac_w = np.array([(ref["it"] == k).sum() / len(ref) for k in keys])
        if not np.allclose(frac_w, w, atol=1e-12):
            ctx.oracle_fail(site + ":weights-fraction", f"weights {w.tolist()} are not the sample fractions {frac_w.tolist()}", case)
        x = np.stack([recs[n] for n in names], axis=1)
        if np.any((x < 0) | (x > 1)):
            ctx.oracle_fail(site + ":unit-cube", f"{name}: a stored sample lies outside the unit hypercube", case)
        phys = sampler_model.from_unit_hypercube(recs)
        if not np.all(np.isfinite(sampler_model.log_prior(phys))):
            ctx.oracle_fail(site + ":prior", f"{name}: a stored sample has zero prior", case)
        ll = sampler_model.log_likelihood(phys)
        same_inf = np.array_equal(np.isneginf(ll), np.isneginf(recs["logL"]))
        if not same_inf or not np.allclose(ll, recs["logL"], rtol=1e-12, atol=1e-12, equal_nan=True):
            ctx.oracle_fail(site + ":logL", f"{name}: stored logL differs from the model at the physical point", case)
        if not np.allclose(recs["logW"], recs["logU"] - recs["logQ"], rtol=tol, atol=tol):
            ctx.oracle_fail(site + ":logW", f"{name}: logW != logU - logQ", case)
        with np.errstate(all="ignore"):
            lu = sampler_model.log_prior_unit_hypercube(recs)
        if not np.allclose(lu, recs["logU"], rtol=1e-12, atol=1e-12):
            ctx.oracle_fail(site + ":logU", f"{name}: stored logU differs from the model's unit-hypercube log-prior", case)
        if not np.allclose(recs["logW"], lu - recs["logQ"], rtol=tol, atol=tol):
            bad = int(np.argmax(np.abs(recs["logW"] - (lu - recs["logQ"]))))
            ctx.oracle_fail(site + ":logW-vs-prior", f"{name}: stored log-weight is not the unit-hypercube log-prior minus the "
                            f"meta-proposal log-density (sample {bad}: logW={recs['logW'][bad]}, logU-logQ={(lu - recs['logQ'])[bad]})", case)
        if logq is not None:
            from scipy.special import logsumexp
            if logq.shape != (n_tot, len(keys)):
                ctx.oracle_fail(site + ":rows-shape", f"{name}: density table shape {logq.shape} for {len(keys)} proposals", case)
                continue
            mix = logsumexp(logq, b=w, axis=1)
            if not np.allclose(mix, recs["logQ"], rtol=tol, atol=tol):
                bad = int(np.argmax(np.abs(mix - recs["logQ"])))
                ctx.oracle_fail(site + ":logQ", f"{name}: stored logQ is not the log-mixture of its row under the current weights "
                                f"(sample {bad}: {recs['logQ'][bad]} vs {mix[bad]})", case)
            if level_logq is not None:
                want = level_logq(recs)
                if want.shape == logq.shape and not np.allclose(want, logq, rtol=1e-4 if tol > 1e-6 else 1e-9, atol=1e-4 if tol > 1e-6 else 1e-9):
                    ctx.oracle_fail(site + ":rows", f"{name}: stored per-proposal densities differ from the saved proposals re-evaluated", case)


CONFIGS = [
    dict(dims=2, nlive=60, levels=3, strict=False, replace_all=False, draw_constant=True, iid=True, reparam=None, q=0.5, min_samples=20, save_log_q=True, weighted_kl=True),
    dict(dims=2, nlive=50, levels=3, strict=True, replace_all=False, draw_constant=True, iid=True, reparam="logit", q=0.5, min_samples=20, save_log_q=False, weighted_kl=False),
    dict(dims=3, nlive=40, levels=4, strict=False, replace_all=False, draw_constant=True, iid=False, reparam=None, q=0.6, min_samples=10, save_log_q=True, weighted_kl=True),
    dict(dims=2, nlive=40, levels=3, strict=False, replace_all=True, draw_constant=True, iid=False, reparam="logit", q=0.5, min_samples=10, save_log_q=True, weighted_kl=False),
    dict(dims=2, nlive=50, levels=3, strict=False, replace_all=False, draw_constant=False, iid=True, reparam=None, q=0.7, min_samples=20, save_log_q=False, weighted_kl=True),
    dict(dims=2, nlive=50, levels=3, strict=False, replace_all=False, draw_constant=True, iid=True, reparam="logit", q=0.5, min_samples=20, save_log_q=True, weighted_kl=True, cut=True),
    dict(dims=2, nlive=40, levels=4, strict=True, replace_all=False, draw_constant=True, iid=False, reparam=None, q=0.5, min_samples=10, save_log_q=False, weighted_kl=False, cut=True),
    dict(dims=2, nlive=40, levels=4, strict=False, replace_all=False, draw_constant=True, iid=True, reparam="logit", q=0.5, min_samples=15, save_log_q=False, weighted_kl=True, resume_mid=2),
    dict(dims=2, nlive=40, levels=4, strict=True, replace_all=False, draw_constant=True, iid=False, reparam=None, q=0.5, min_samples=15, save_log_q=True, weighted_kl=False, cut=True, resume_mid=1),
    dict(dims=2, nlive=30, levels=5, strict=True, replace_all=False, draw_constant=True, iid=False, reparam=None, q=0.5, min_samples=10, save_log_q=True, weighted_kl=True),
    dict(dims=2, nlive=40, levels=4, strict=False, replace_all=False, draw_constant=True, iid=True, reparam=None, q=0.5, min_samples=15, save_log_q=True, weighted_kl=True, uprior=True),
    dict(dims=2, nlive=40, levels=3, strict=True, replace_all=False, draw_constant=True, iid=False, reparam="logit", q=0.5, min_samples=15, save_log_q=False, weighted_kl=False, uprior=True, resume_mid=1),
]
# likelihood that is -inf on part of the prior support: oracle-only runs (the Rat replay takes likelihood keys as finite numbers)
LCUT_CONFIGS = [
    dict(dims=2, nlive=80, levels=3, strict=False, replace_all=False, draw_constant=True, iid=True, reparam=None, q=0.5, min_samples=20, save_log_q=True, weighted_kl=True, nobounds=True),
    dict(dims=2, nlive=80, levels=3, strict=False, replace_all=False, draw_constant=True, iid=True, reparam="logit", q=0.5, min_samples=20, save_log_q=True, weighted_kl=True, lcut=True),
    dict(dims=2, nlive=80, levels=3, strict=True, replace_all=False, draw_constant=True, iid=False, reparam=None, q=0.5, min_samples=20, save_log_q=False, weighted_kl=False, lcut=True),
]


def one_fake_run(ctx, cfg, seed, resume):
    tmp = tempfile.mkdtemp(prefix="c03_")
    case = {"kind": "tilt-flow run", "cfg": cfg, "seed": seed, "resume": resume}
    try:
        snaps, level_c, sampler = run_fake(cfg, seed, tmp, resume_after=resume)
    except Exception as e:  # noqa: the model proves an iteration with consistent inputs never raises
        import traceback
        ctx.disagree("the real run raised on a supported configuration (the model's iteration is total)",
                     {**case, "exception": repr(e)[:300], "where": traceback.format_exc()[-600:]})
        # the states the run went through before it raised are judged like any other (the inconsistency that makes a later
        # iteration raise is normally already in them, e.g. proposal weights that are not the sample fractions)
        psnaps, pmodel = getattr(e, "_c03_partial", ([], None))
        for snap in psnaps:
            oracle_snapshot(ctx, snap, pmodel, pmodel.names, {**case, "at": snap["tag"], "iteration": snap["iteration"],
                                                              "run_raised_later": repr(e)[:200]})
        ctx.case(("fake", repr(cfg), seed, resume), True, kind="run-raised")
        return
    finally:
        shutil.rmtree(tmp, ignore_errors=True)
    names = sampler.model.names

    def level_logq(recs):
        cols = [np.zeros(len(recs))]
        for c in level_c:
            cols.append(np.array([flog(tilt_density(c, [r[n] for n in names])) for r in recs]))
        return np.stack(cols, axis=1)[:, : None]

    for snap in snaps:
        nlev = len(snap["weights"])
        oracle_snapshot(ctx, snap, sampler.model, names, {**case, "at": snap["tag"], "iteration": snap["iteration"]},
                        level_logq=lambda recs, nlev=nlev: level_logq(recs)[:, :nlev])
    ops, checks, reg = build_trace(snaps, level_c, names, cfg)
    line = f"mp run {int(cfg['iid'])} " + ";".join(ops)
    out = ctx.model([line])[0].split("|")
    nsamp = 0
    if len(out) != len(ops) or any(o.startswith("err") or o == "bad-op" for o in out):
        ctx.disagree("the model rejects the operation sequence the real run performed",
                     {**case, "model_out": [o[:60] for o in out]})
    else:
        for opi, si in checks:
            md = parse_dump(out[opi])
            nsamp += compare_snapshot(ctx, snaps[si], md, reg, names, {**case, "at": snaps[si]["tag"], "iteration": snaps[si]["iteration"]})
    ctx.traces += 1
    ctx.case(("fake", repr(cfg), seed, resume), True,
             {"cfg": cfg, "seed": seed, "snapshots": len(snaps), "samples_compared": nsamp, "ops": [o[:80] for o in ops[:4]]},
             kind=f"tilt:strict={int(cfg['strict'])}:repl={int(cfg['replace_all'])}:iid={int(cfg['iid'])}:{cfg['reparam']}:cut={int(cfg.get('cut', False))}:uprior={int(cfg.get('uprior', False))}:mid-resume={int(bool(cfg.get('resume_mid')))}")
    ctx.hist["samples_compared"] += nsamp


def real_flow_config(cfg):
    """flow configuration of the neural-flow runs.  `dist`: None (default latent Gaussian), "lars" (resampled base
    distribution by name) or "lars-instance" (the same given as an INSTANCE, which get_base_distribution accepts as it is:
    every level's flow must then still own its latent distribution — seeded change C03-fB shares one between the levels)"""
    import torch
    fc = dict(n_blocks=2, n_neurons=8, n_layers=1)
    dist = cfg.get("dist")
    if dist == "lars":
        fc["distribution"] = "lars"
    elif dist == "lars-instance":
        from nessai.flows.distributions import ResampledGaussian
        from nessai.flows.nets import MLP
        fc["distribution"] = ResampledGaussian([cfg["dims"]], MLP([cfg["dims"]], [1], [8, 8], activate_output=torch.sigmoid))
    return fc


def one_real_run(ctx, cfg, seed):
    """short run with real neural flows: oracle only (float32 tolerance)"""
    import torch
    from unittest import mock
    from nessai.samplers.importancesampler import ImportanceNestedSampler
    np.random.seed(seed)
    torch.manual_seed(seed)
    tmp = tempfile.mkdtemp(prefix="c03r_")
    case = {"kind": "neural-flow run", "cfg": cfg, "seed": seed}
    snaps = []
    try:
        model = make_model(cfg["dims"], seed, cfg.get("cut", False), cfg.get("uprior", False), cfg.get("lcut", False), 0.0, cfg.get("nobounds", False))
        if cfg.get("pool"):
            model.parallelise_prior = True          # what FlowSampler(parallelise_prior=True) sets
        sampler = ImportanceNestedSampler(
            model, nlive=cfg["nlive"], output=tmp, seed=seed, plot=False, checkpointing=False,
            min_samples=cfg["min_samples"], max_iteration=cfg["levels"], min_iteration=cfg["levels"],
            strict_threshold=cfg["strict"], replace_all=cfg["replace_all"], draw_constant=cfg["draw_constant"],
            draw_iid_live=cfg["iid"], reparameterisation=cfg["reparam"], save_log_q=True,
            flow_config=real_flow_config(cfg), training_config=dict(max_epochs=10, patience=5, batch_size=100),
            stopping_criterion="ratio", tolerance=-1e9,
            # likelihood AND prior evaluated through a process pool: the unit-hypercube prior has its own worker function
            # (seeded changes C14-eA / C03-hA handed the physical prior to the workers: logU = log p(unit point))
            **(dict(n_pool=2) if cfg.get("pool") else {}),
            # warm start: every new level starts from a COPY of the previous flow; the previous levels must stay what they were when
            # their densities were stored (seeded change C03-iA: the optimiser was re-created before the copy, so training level k
            # moved level k-1)
            **(dict(reset_flow=cfg["reset_flow"]) if "reset_flow" in cfg else {}),
        )
        orig = ImportanceNestedSampler.update_evidence

        def wrapped(self_):
            orig(self_)
            snaps.append(snapshot(self_, "iteration"))

        with mock.patch.object(ImportanceNestedSampler, "update_evidence", wrapped):
            sampler.nested_sampling_loop()
        snaps.append(snapshot(sampler, "finalised"))
        prop = sampler.proposal

        def level_logq(recs, nlev):
            xp, log_j = prop.rescale(recs)
            cols = [np.zeros(len(recs))]
            for k in range(nlev - 1):
                cols.append(prop.flow.log_prob_ith(xp, k) + log_j)
            return np.stack(cols, axis=1)

        for snap in snaps:
            nlev = len(snap["weights"])
            oracle_snapshot(ctx, snap, model, model.names, {**case, "at": snap["tag"], "iteration": snap["iteration"]},
                            level_logq=lambda recs, nlev=nlev: level_logq(recs, nlev), tol=1e-5)
    finally:
        try:
            if cfg.get("pool"):
                sampler.close_pool()
        except Exception:  # noqa
            pass
        shutil.rmtree(tmp, ignore_errors=True)
    ctx.traces += 1
    ctx.case(("real", repr(cfg), seed), True, {"cfg": cfg, "seed": seed, "snapshots": len(snaps)}, kind="neural")


def correspond(ctx):
    import torch
    torch.set_num_threads(1)
    from nessai.samplers.importancesampler import ImportanceNestedSampler
    ImportanceNestedSampler.add_fields()
    ctx.rule = ("complete runs of the real ImportanceNestedSampler over a configuration list (strict/soft threshold, replace-all, "
                "constant/variable draws, with/without the independent set, logit/none) x seeds; tilt-flow runs are replayed through the "
                "Rat model after every iteration/finalise/resume and every stored sample's row, logQ, logW compared with the exact value "
                "(1e-9); neural-flow runs are checked by the oracle at float32 tolerance; non-trivial = distinct (config, seed) run")
    ctx.assume("q_k(x) of the tilt flows evaluated exactly as rationals at the stored float coordinates",
               "float64 logsumexp/log accurate to 1e-9 relative on these sizes")
    ctx.trust("hand-written model Model/MetaProposal.lean; tie = replay of real sampler runs (real OrderedSamples, "
              "ImportanceFlowProposal, ImportanceFlowModel code; only the neural flow and its training are substituted)")
    nseeds = ctx.scale(1, 8)
    base = ctx.seed * 1000
    try:
        for ci, cfg in enumerate(CONFIGS):
            for s in range(nseeds):
                one_fake_run(ctx, cfg, base + 17 * ci + s + 1, resume=(s % 2 == 0))
        dist_cfgs = [dict(CONFIGS[0], dist="lars-instance"), dict(CONFIGS[1], dist="lars"), dict(CONFIGS[10], pool=True),
                     dict(CONFIGS[0], reset_flow=False), dict(CONFIGS[6], reset_flow=2)]
        for ci, cfg in enumerate(([CONFIGS[0], CONFIGS[6], CONFIGS[10]] if ctx.quick else CONFIGS) + LCUT_CONFIGS + dist_cfgs):
            for s in range(ctx.scale(1, 3)):
                one_real_run(ctx, cfg, base + 300 + 7 * ci + s)
    finally:
        from nessai import config
        config.livepoints.reset()


def search(ctx):
    pass


def replay(ctx, obj):
    c = obj["case"]
    if "cfg" not in c and "case" in c:
        c = c["case"]
    import torch
    torch.set_num_threads(1)
    from nessai.samplers.importancesampler import ImportanceNestedSampler
    ImportanceNestedSampler.add_fields()
    if c.get("kind") == "neural-flow run":
        one_real_run(ctx, c["cfg"], c["seed"])
    else:
        one_fake_run(ctx, c["cfg"], c["seed"], c.get("resume", False))
