import NessaiVerif.Proofs.Flow
import NessaiVerif.Proofs.FlowReal
import NessaiVerif.Proofs.FlowTri
import Mathlib.Tactic.Linarith
/-
C08 — flow and proposal densities are consistent with their samples.

PARTIAL proof.  What is proved: the log-density bookkeeping of nessai's wrapper layers
(`NFlow`, `FlowModel`, `FlowProposal`, `ImportanceFlowModel`/`ImportanceFlowProposal`) attaches to a generated
point exactly the density the same layer computes forwards at that point, for every lawful transform
(inverse pair with opposite log-Jacobians), for any point/latent types and any additive commutative group of
log-densities; compositions (`CompositeTransform`) of lawful layers are lawful; affine coupling layers with
ARBITRARY conditioner functions, masked affine AUTOREGRESSIVE layers (MAF / MADE) in every dimension with arbitrary
conditioners of the strict prefix and the literal sweep-loop inverse, triangular affine maps and the LU linear layer,
elementwise affine layers and permutations are lawful — hence RealNVP stacks (coupling + permutation / LU + batch norm in
eval mode / actnorm) and MAF stacks (autoregressive + permutation + batch norm) of any depth.
NOT proved: that the density integrates to one, that `Σ log|s|` is the log-determinant of the derivative
(calculus), lawfulness of glasflow's rational-quadratic spline and SVD (Householder) layers, batch norm in training mode,
and all floating-point numerics — the harness checks those numerically on generated points.
-/
namespace NessaiVerif.C08
open NessaiVerif.Flow

variable {X Y Z L K : Type}

/-! ## lawful transforms compose; the built-in layers are lawful -/

/-- Two lawful transforms in sequence form a lawful transform: the round trip returns the input and the
accumulated log-Jacobians are opposite. -/
theorem compose_lawful [AddCommGroup L] (t1 : Transform X Y L) (t2 : Transform Y Z L)
    (h1 : Lawful t1) (h2 : Lawful t2) : Lawful (t1.comp t2) := comp_lawful t1 t2 h1 h2

example : Lawful ((⟨fun x => (x + 3, 2), fun z => (z - 3, -2)⟩ : Transform ℤ ℤ ℤ).comp
    ⟨fun x => (-x, 5), fun z => (-z, -5)⟩) :=
  compose_lawful _ _ ⟨fun x => by simp, fun z => by simp⟩ ⟨fun x => by simp, fun z => by simp⟩

/-- **forward followed by inverse returns the input** for a stack of any number of lawful layers combined the
way `CompositeTransform` does (left-to-right cascade, inverses in reverse order, log-Jacobians summed from 0):
`inverse(forward(x)) = (x, -logJ)` and `forward(inverse(z)) = (z, -logJ)`. -/
theorem forward_inverse [AddCommGroup L] (ts : List (Transform X X L)) (h : ∀ t ∈ ts, Lawful t) :
    Lawful (composite ts) := composite_lawful ts h

example : ((composite [(⟨fun x => (x + 3, 2), fun z => (z - 3, -2)⟩ : Transform ℤ ℤ ℤ),
    ⟨fun x => (-x, 5), fun z => (-z, -5)⟩]).fwd 4) = (-7, 7) := by decide

/-- An affine coupling layer `x₂ ↦ x₂ · s(x₁) + t(x₁)` with arbitrary conditioner functions `s ≠ 0`, `t`
(any mask, any dimension) is a lawful transform with log-Jacobian `Σ_{masked} lg (s i)`. -/
theorem coupling_lawful [Field K] [AddCommGroup L] {n : Nat} (lg : K → L) (m : Fin n → Bool)
    (s t : (Fin n → K) → Fin n → K) (hs : ∀ c i, m i = true → s c i ≠ 0) :
    Lawful (coupling lg m s t) := coupling_lawful' lg m s t hs

example : Lawful (coupling (K := ℚ) (L := ℚ) (n := 2) (fun a => a) (fun i => i.val == 1)
    (fun c _ => c 0 * c 0 + 1) (fun c _ => c 0)) :=
  coupling_lawful _ _ _ _ (fun c i _ => by have := mul_self_nonneg (c 0); intro h0; linarith)

/-- the non-vanishing scale is needed: with `s = 0` the layer collapses the masked feature and the inverse
does not return the input -/
theorem coupling_lawful_fails_without :
    ¬ Lawful (coupling (K := ℚ) (L := ℚ) (n := 1) (fun a => a) (fun _ => true) (fun _ _ => 0) (fun _ _ => 0)) := by
  intro h
  have := congrArg (fun p => p.1 0) (h.1 (fun _ => 1))
  simp [coupling] at this

/-- Elementwise affine layers (`ActNorm`, `BatchNorm` in eval mode) with non-zero scale are lawful. -/
theorem affine_lawful [Field K] [AddCommGroup L] {n : Nat} (lg : K → L) (a b : Fin n → K)
    (ha : ∀ i, a i ≠ 0) : Lawful (affine lg a b) := affine_lawful' lg a b ha

example : Lawful (affine (K := ℚ) (L := ℚ) (n := 2) (fun a => a) (fun _ => 2) (fun _ => -1)) :=
  affine_lawful _ _ _ (fun _ => by norm_num)

/-- Permutation layers are lawful with zero log-Jacobian. -/
theorem permutation_lawful [AddCommGroup L] {n : Nat} (σ σinv : Fin n → Fin n)
    (h1 : ∀ i, σ (σinv i) = i) (h2 : ∀ i, σinv (σ i) = i) :
    Lawful (permutation (K := K) (L := L) σ σinv) := permutation_lawful' σ σinv h1 h2

example : Lawful (permutation (K := ℚ) (L := ℚ) (n := 2) Fin.rev Fin.rev) :=
  permutation_lawful _ _ (fun i => Fin.rev_rev i) (fun i => Fin.rev_rev i)

/-- **Masked affine autoregressive layer (MAF / MADE), every dimension.**  `y i = x i · s i(x) + t i(x)` where `s i`,
`t i` are arbitrary functions of the strict prefix `x 0 … x (i-1)` and `s i ≠ 0`: the one-pass forward and the literal
inverse loop of `AutoregressiveTransform.inverse` (start from zeros, `n` sweeps `x ← (y - t(x)) / s(x)`, log|det| from the
last sweep's parameters) are mutual inverses with opposite log-Jacobians `± Σ lg (s i)`. -/
theorem autoregressive_lawful [Field K] [AddCommGroup L] {n : Nat} (lg : K → L) (s t : Fin n → (Fin n → K) → K)
    (hs : PrefixDep s) (ht : PrefixDep t) (hne : ∀ i x, s i x ≠ 0) : Lawful (autoregressive lg s t) :=
  autoregressive_lawful' lg s t hs ht hne

/-- a 3-d autoregressive layer with genuinely point-dependent conditioners -/
def exARs : Fin 3 → (Fin 3 → ℚ) → ℚ := fun i x => if i.val = 0 then 2 else if i.val = 1 then x 0 * x 0 + 1 else 3
/-- shifts of the example layer -/
def exARt : Fin 3 → (Fin 3 → ℚ) → ℚ := fun i x => if i.val = 0 then 1 else if i.val = 1 then x 0 else x 0 * x 1

example : Lawful (autoregressive (L := ℚ) (fun a => a) exARs exARt) := by
  refine autoregressive_lawful _ _ _ ?_ ?_ ?_
  · intro i x x' h
    fin_cases i <;> simp [exARs]
    rw [h 0 (by simp)]
  · intro i x x' h
    fin_cases i <;> simp [exARt]
    · rw [h 0 (by simp)]
    · rw [h 0 (by simp), h 1 (by simp)]
  · intro i x
    fin_cases i <;> simp [exARs]
    have := mul_self_nonneg (x 0); intro h0; linarith

/-- the sweep loop really inverts: the example layer maps (1,2,3) to (3,5,11) and back -/
example : ((autoregressive (L := ℚ) (fun a => a) exARs exARt).fwd ![1, 2, 3]).1 = ![3, 5, 11] ∧
    ((autoregressive (L := ℚ) (fun a => a) exARs exARt).inv ![3, 5, 11]).1 = ![1, 2, 3] := by
  constructor <;> (funext i; fin_cases i <;> simp [autoregressive, arStep, iterN, exARs, exARt] <;> norm_num)

/-- the strict-prefix hypothesis is needed: a "conditioner" that looks at the feature it transforms gives a map the
sweep loop does not invert -/
theorem autoregressive_lawful_fails_without :
    ¬ Lawful (autoregressive (K := ℚ) (L := ℚ) (n := 1) (fun a => a) (fun _ x => x 0 + 1) (fun _ _ => 0)) := by
  intro h
  have := congrArg (fun p => p.1 0) (h.1 (fun _ => 1))
  simp [autoregressive, arStep, iterN] at this

/-- Lower-triangular affine map `y = M x + b` (`M` with non-zero diagonal `d` and strict part `A`) is lawful with
log-Jacobian `Σ lg (d i)`; it is the autoregressive layer with constant scales and affine shifts, and its inverse
loop is forward substitution.  (`triLower_fwd_eq`: the forward map is the matrix product.) -/
theorem triangular_lower_lawful [Field K] [AddCommGroup L] {n : Nat} (lg : K → L) (d : Fin n → K)
    (A : Fin n → Fin n → K) (b : Fin n → K) (hd : ∀ i, d i ≠ 0) :
    Lawful (triLower lg d A b) ∧
    ∀ x i, ((triLower lg d A b).fwd x).1 i = (∑ j, lowerMat d A i j * x j) + b i :=
  ⟨triLower_lawful' lg d A b hd, triLower_fwd_eq lg d A b⟩

example : Lawful (triLower (K := ℚ) (L := ℚ) (n := 3) (fun a => a) (fun _ => 2) (fun i j => i.val + j.val) (fun _ => 1)) :=
  (triangular_lower_lawful _ _ _ _ (fun _ => by norm_num)).1

/-- Upper-triangular affine map (back substitution) is lawful and its forward map is the matrix product. -/
theorem triangular_upper_lawful [Field K] [AddCommGroup L] {n : Nat} (lg : K → L) (d : Fin n → K)
    (A : Fin n → Fin n → K) (b : Fin n → K) (hd : ∀ i, d i ≠ 0) :
    Lawful (triUpper lg d A b) ∧
    ∀ x i, ((triUpper lg d A b).fwd x).1 i = (∑ j, upperMat d A i j * x j) + b i :=
  ⟨triUpper_lawful' lg d A b hd, triUpper_fwd_eq lg d A b⟩

example : Lawful (triUpper (K := ℚ) (L := ℚ) (n := 3) (fun a => a) (fun _ => 2) (fun i j => i.val + j.val) (fun _ => 1)) :=
  (triangular_upper_lawful _ _ _ _ (fun _ => by norm_num)).1

/-- **LU linear layer** (`LULinear`): `y = L (U x) + b` with unit-lower-triangular `L` and upper-triangular `U` with
non-zero diagonal `ud` is lawful with the log-Jacobian the code reports, `± Σ lg (ud i)`; the inverse is the two
triangular solves. -/
theorem lu_linear_lawful [Field K] [AddCommGroup L] {n : Nat} (lg : K → L) (Lo : Fin n → Fin n → K)
    (ud : Fin n → K) (Up : Fin n → Fin n → K) (b : Fin n → K) (hud : ∀ i, ud i ≠ 0) :
    Lawful (luLinear lg Lo ud Up b) ∧
    ∀ x i, ((luLinear lg Lo ud Up b).fwd x).1 i
      = (∑ j, lowerMat (fun _ => 1) Lo i j * (∑ k, upperMat ud Up j k * x k)) + b i :=
  ⟨luLinear_lawful' lg Lo ud Up b hud, luLinear_fwd_eq lg Lo ud Up b⟩

example : Lawful (luLinear (K := ℚ) (L := ℚ) (n := 2) (fun a => a) (fun _ _ => 5) (fun _ => 3) (fun _ _ => 7) (fun _ => 1)) :=
  (lu_linear_lawful _ _ _ _ _ (fun _ => by norm_num)).1

/-- a zero on the diagonal of `U` makes the layer singular -/
theorem lu_linear_lawful_fails_without :
    ¬ Lawful (luLinear (K := ℚ) (L := ℚ) (n := 1) (fun a => a) (fun _ _ => 0) (fun _ => 0) (fun _ _ => 0) (fun _ => 0)) := by
  intro h
  have := congrArg (fun p => p.1 0) (h.1 (fun _ => 1))
  simp [luLinear, triUpper, triLower, autoregressive, Transform.comp, permutation, arStep, iterN, lowerRow, finRev] at this

/-- Over ℝ with `lg = log|·|` the log-Jacobian a coupling layer reports is the logarithm of the absolute
multiplicative volume factor `|∏_{masked} s i|` of the map (exact statement in the field, no rounding). -/
theorem coupling_logJ_eq_log_volume_factor {n : Nat} (m : Fin n → Bool)
    (s t : (Fin n → ℝ) → Fin n → ℝ) (hs : ∀ c i, m i = true → s c i ≠ 0) (x : Fin n → ℝ) :
    ((coupling Real.log m s t).fwd x).2 = Real.log |scaleProd m (s (maskOut m x))| :=
  scaleLogSum_eq_log_scaleProd m _ (fun i hi => hs _ i hi)

example : ((coupling (n := 1) Real.log (fun _ => true) (fun _ _ => 2) (fun _ _ => 0)).fwd (fun _ => 1)).2
    = Real.log |scaleProd (n := 1) (fun _ => true) (fun _ => (2 : ℝ))| :=
  coupling_logJ_eq_log_volume_factor _ _ _ (fun _ _ _ => by norm_num) _

/-- Over ℝ the log-Jacobian of the autoregressive layer is `log |∏ s i|`, and that of the LU layer `log |∏ ud i|`
(the multiplicative volume factors, exact in the field). -/
theorem autoregressive_logJ_eq_log_volume_factor {n : Nat} (s t : Fin n → (Fin n → ℝ) → ℝ)
    (hne : ∀ i x, s i x ≠ 0) (x : Fin n → ℝ) (Lo Up : Fin n → Fin n → ℝ) (ud b : Fin n → ℝ) (hud : ∀ i, ud i ≠ 0) :
    ((autoregressive Real.log s t).fwd x).2 = Real.log |scaleProd (fun _ => true) (fun i => s i x)| ∧
    ((luLinear Real.log Lo ud Up b).fwd x).2 = Real.log |scaleProd (fun _ => true) ud| :=
  ⟨scaleLogSum_eq_log_scaleProd _ _ (fun i _ => hne i x), scaleLogSum_eq_log_scaleProd _ _ (fun i _ => hud i)⟩

example : ((luLinear (n := 1) Real.log (fun _ _ => 0) (fun _ => 2) (fun _ _ => 0) (fun _ => 0)).fwd (fun _ => 1)).2
    = Real.log |scaleProd (n := 1) (fun _ => true) (fun _ => (2 : ℝ))| :=
  (autoregressive_logJ_eq_log_volume_factor (fun _ _ => 1) (fun _ _ => 0) (fun _ _ => one_ne_zero) _ _ _ _ _
    (fun _ => by norm_num)).2

/-! ## the density attached to a generated point equals the density evaluated at it -/

/-- `NFlow`: the log-density `sample_and_log_prob` returns with a sample equals `log_prob` of that sample, and
`forward_and_log_prob` of the sample returns the noise it was generated from with the same log-density. -/
theorem gen_density_eq_eval_density_nflow [AddCommGroup L] (f : NFlowM X Z L) (h : Lawful f.T) (noise : Z) :
    f.logProb (f.sampleAndLogProb noise).1 = (f.sampleAndLogProb noise).2 ∧
    f.forwardAndLogProb (f.sampleAndLogProb noise).1 = (noise, (f.sampleAndLogProb noise).2) := by
  have e := h.2 noise
  simp only [NFlowM.logProb, NFlowM.sampleAndLogProb, NFlowM.forwardAndLogProb, NFlowM.forward,
    NFlowM.baseLogProb]
  rw [e]
  exact ⟨by simp only []; abel, Prod.ext rfl (by simp only []; abel)⟩

/-- a small lawful flow on ℤ used in the satisfiability examples -/
def exFlow : NFlowM ℤ ℤ ℤ := ⟨⟨fun x => (x + 3, 2), fun z => (z - 3, -2)⟩, fun z => -z⟩
/-- the example flow is lawful (used to instantiate the theorems on a concrete, non-trivial state) -/
theorem exFlow_lawful : Lawful exFlow.T := ⟨fun x => by simp [exFlow], fun z => by simp [exFlow]⟩

example : exFlow.logProb (exFlow.sampleAndLogProb 10).1 = (exFlow.sampleAndLogProb 10).2 :=
  (gen_density_eq_eval_density_nflow exFlow exFlow_lawful 10).1

/-- the lawful-transform hypothesis is needed: a transform whose inverse reports the log-Jacobian with the
wrong sign attaches a different density to the sample than `log_prob` computes for it -/
theorem gen_density_eq_eval_density_fails_without :
    ∃ f : NFlowM ℤ ℤ ℤ, ¬ Lawful f.T ∧ f.logProb (f.sampleAndLogProb 0).1 ≠ (f.sampleAndLogProb 0).2 := by
  refine ⟨⟨⟨fun x => (x, 1), fun z => (z, 1)⟩, fun _ => 0⟩, ?_, by decide⟩
  intro h
  have := congrArg Prod.snd (h.1 0)
  simp at this

/-- `FlowModel.sample_and_log_prob` (no `z`, or supplied `z` with no alternative distribution): the returned
log-density equals `FlowModel.log_prob` at the returned sample, and `forward_and_log_prob` maps the sample back
to the latent point with that same log-density. -/
theorem gen_density_eq_eval_density_flowmodel [AddCommGroup L] (f : NFlowM X Z L) (h : Lawful f.T)
    (noise : Z) (z : Option Z) :
    fmLogProb f (fmSampleAndLogProb f noise z none).1 = (fmSampleAndLogProb f noise z none).2 ∧
    fmForwardAndLogProb f (fmSampleAndLogProb f noise z none).1
      = (z.getD noise, (fmSampleAndLogProb f noise z none).2) := by
  cases z with
  | none => exact gen_density_eq_eval_density_nflow f h noise
  | some z =>
    have e := h.2 z
    simp only [fmLogProb, fmSampleAndLogProb, fmForwardAndLogProb, NFlowM.logProb, NFlowM.forwardAndLogProb,
      NFlowM.forward, NFlowM.inverse, NFlowM.baseLogProb, Option.getD_some]
    rw [e]
    exact ⟨by simp only []; abel, Prod.ext rfl (by simp only []; abel)⟩

example : fmLogProb exFlow (fmSampleAndLogProb exFlow 0 (some 7) none).1
    = (fmSampleAndLogProb exFlow 0 (some 7) none).2 :=
  (gen_density_eq_eval_density_flowmodel exFlow exFlow_lawful 0 (some 7)).1

/-- With an alternative latent distribution the base term of the returned density is THAT distribution's
log-density at `z` (not the flow's base density): the result is `alt z` plus the flow's log-Jacobian term
`log_prob(x) - base(z)`; it coincides with the flow density exactly when `alt z = base z`. -/
theorem flowmodel_alt_dist_uses_that_density [AddCommGroup L] (f : NFlowM X Z L) (h : Lawful f.T)
    (noise z : Z) (alt : Z → L) :
    (fmSampleAndLogProb f noise (some z) (some alt)).1 = (fmSampleAndLogProb f noise (some z) none).1 ∧
    (fmSampleAndLogProb f noise (some z) (some alt)).2
      = alt z + (fmLogProb f (fmSampleAndLogProb f noise (some z) (some alt)).1 - f.base z) := by
  have e := h.2 z
  simp only [fmLogProb, fmSampleAndLogProb, NFlowM.logProb, NFlowM.inverse, NFlowM.baseLogProb]
  rw [e]
  refine ⟨?_, by simp only []; abel⟩
  simp only []

example : (fmSampleAndLogProb exFlow 0 (some 7) (some fun _ => 100)).2 = 102 := by decide

/-- `FlowProposal`: the density `backward_pass` attaches to the physical-space point it generates from `z`
(flow density minus the inverse-rescaling log-Jacobian) equals the density `forward_pass` computes at that
point (flow density plus the rescaling log-Jacobian), and `forward_pass` returns `z`; with and without rescaling. -/
theorem gen_density_eq_eval_density_flowproposal [AddCommGroup L] (f : NFlowM X Z L) (R : Transform X X L)
    (hT : Lawful f.T) (hR : Lawful R) (rescale : Bool) (z : Z) :
    fpForwardPass f R rescale (fpBackwardPass f R none rescale z).1
      = (z, (fpBackwardPass f R none rescale z).2) := by
  have eT := hT.2 z
  cases rescale with
  | false =>
    simp only [fpForwardPass, fpBackwardPass, fmSampleAndLogProb, fmForwardAndLogProb, NFlowM.forwardAndLogProb,
      NFlowM.forward, NFlowM.inverse, NFlowM.baseLogProb, Bool.false_eq_true, if_false]
    rw [eT]
    exact Prod.ext rfl (by simp only []; abel)
  | true =>
    have eR := hR.2 (f.T.inv z).1
    simp only [fpForwardPass, fpBackwardPass, fmSampleAndLogProb, fmForwardAndLogProb, NFlowM.forwardAndLogProb,
      NFlowM.forward, NFlowM.inverse, NFlowM.baseLogProb, if_true]
    rw [eR]; simp only []; rw [eT]
    exact Prod.ext rfl (by simp only []; abel)

/-- a lawful rescaling on ℤ for the examples: `x' = x - 1`, log-Jacobian 4 -/
def exR : Transform ℤ ℤ ℤ := ⟨fun x => (x - 1, 4), fun x' => (x' + 1, -4)⟩
/-- the example rescaling is lawful -/
theorem exR_lawful : Lawful exR := ⟨fun x => by simp [exR], fun z => by simp [exR]⟩

example : fpForwardPass exFlow exR true (fpBackwardPass exFlow exR none true 7).1
    = (7, (fpBackwardPass exFlow exR none true 7).2) :=
  gen_density_eq_eval_density_flowproposal exFlow exR exFlow_lawful exR_lawful true 7

/-- `FlowProposal` with an alternative latent distribution (`latent_prior = uniform_nball`): the density attached
by `backward_pass` is the forward density with the flow's base term replaced by the alternative density at `z`. -/
theorem flowproposal_alt_dist_uses_that_density [AddCommGroup L] (f : NFlowM X Z L) (R : Transform X X L)
    (hT : Lawful f.T) (hR : Lawful R) (rescale : Bool) (z : Z) (alt : Z → L) :
    (fpForwardPass f R rescale (fpBackwardPass f R (some alt) rescale z).1).1 = z ∧
    (fpBackwardPass f R (some alt) rescale z).2
      = alt z + ((fpForwardPass f R rescale (fpBackwardPass f R (some alt) rescale z).1).2 - f.base z) := by
  have eT := hT.2 z
  cases rescale with
  | false =>
    simp only [fpForwardPass, fpBackwardPass, fmSampleAndLogProb, fmForwardAndLogProb, NFlowM.forwardAndLogProb,
      NFlowM.forward, NFlowM.inverse, NFlowM.baseLogProb, Bool.false_eq_true, if_false]
    rw [eT]
    exact ⟨rfl, by simp only []; abel⟩
  | true =>
    have eR := hR.2 (f.T.inv z).1
    simp only [fpForwardPass, fpBackwardPass, fmSampleAndLogProb, fmForwardAndLogProb, NFlowM.forwardAndLogProb,
      NFlowM.forward, NFlowM.inverse, NFlowM.baseLogProb, if_true]
    rw [eR]; simp only []; rw [eT]
    exact ⟨rfl, by simp only []; abel⟩

example : (fpBackwardPass exFlow exR (some fun _ => 100) true 7).2 = 106 := by decide

/-- `ImportanceFlowProposal.draw`: the `log_q` row attached to a drawn physical point (computed at the generated
`x'` with the Jacobian of the re-rescaled point) equals the row `compute_meta_proposal_samples` computes when
the same physical point is passed forwards — provided clipping leaves the point unchanged. -/
theorem gen_density_eq_eval_density_importance [AddCommGroup L] (fs : List (NFlowM X Z L)) (R : Transform X X L)
    (hR : Lawful R) (clip : X → X) (i : Nat) (noise : Z) (x : X) (row : List L)
    (hclip : ∀ x', clip (R.inv x').1 = (R.inv x').1)
    (h : ifpDraw fs R clip i noise = some (x, row)) : row = ifpMetaRow fs R x := by
  unfold ifpDraw ifmSampleIth at h
  cases hi : fs[i]? with
  | none => simp [hi] at h
  | some fi =>
    simp only [hi, Option.map_some, Option.some.injEq, Prod.mk.injEq] at h
    obtain ⟨hx, hrow⟩ := h
    rw [hclip] at hx hrow
    have eR := hR.2 (fi.sample noise)
    subst hx
    unfold ifpMetaRow
    rw [← hrow, eR]

example : ifpDraw [exFlow] exR id 0 7 = some (5, [0, -1]) ∧ ifpMetaRow [exFlow] exR 5 = [0, -1] := by decide

/-- clipping that moves the generated point breaks the statement: the row still belongs to the unclipped `x'`
(this is what `clip=True` does for samples outside the unit hypercube when no logit is applied) -/
theorem gen_density_eq_eval_density_importance_fails_without :
    ∃ clip : ℤ → ℤ, ∃ x row, ifpDraw [exFlow] exR clip 0 7 = some (x, row) ∧ row ≠ ifpMetaRow [exFlow] exR x :=
  ⟨fun _ => 0, 0, [0, -1], by decide, by decide⟩

/-- the column of flow `i` in the row attached by `draw` is the generation-direction density of the drawn
point: base density of the noise minus the flow's inverse log-Jacobian minus the inverse-rescaling
log-Jacobian (what `sample_and_log_prob` followed by `log_prob -= log_j_inv` gives). -/
theorem importance_draw_column_is_generation_density [AddCommGroup L] (fs : List (NFlowM X Z L))
    (R : Transform X X L) (hR : Lawful R) (clip : X → X) (i : Nat) (noise : Z) (x : X) (row : List L) (fi : NFlowM X Z L)
    (hi : fs[i]? = some fi) (hT : Lawful fi.T)
    (hclip : ∀ x', clip (R.inv x').1 = (R.inv x').1)
    (h : ifpDraw fs R clip i noise = some (x, row)) :
    row[i + 1]? = some ((fi.sampleAndLogProb noise).2 - (R.inv (fi.sampleAndLogProb noise).1).2) := by
  unfold ifpDraw ifmSampleIth at h
  simp only [hi, Option.map_some, Option.some.injEq, Prod.mk.injEq] at h
  obtain ⟨_, hrow⟩ := h
  rw [hclip] at hrow
  have eR := hR.2 (fi.sample noise)
  have eT := hT.2 noise
  rw [← hrow, eR]
  simp only [ifpLogQRow, ifmLogProbAll, List.getElem?_cons_succ, List.getElem?_map, hi, Option.map_some,
    NFlowM.logProb, NFlowM.sample, NFlowM.sampleAndLogProb]
  rw [eT]
  simp only [Option.some.injEq]
  abel

example : (ifpDraw [exFlow] exR id 0 7).map (fun p => p.2[1]?) = some (some (-1)) ∧
    (exFlow.sampleAndLogProb 7).2 - (exR.inv (exFlow.sampleAndLogProb 7).1).2 = -1 := by decide

/-- `update_log_q` appends, for level `level`, exactly the column `level+1` of the forward row: extending the
first `level+1` columns of a sample's row gives its first `level+2` columns, so densities stored at draw time
and densities added later for the same physical point agree. -/
theorem importance_update_log_q_matches_row [AddCommGroup L] (fs : List (NFlowM X Z L)) (R : Transform X X L)
    (x : X) (level : Nat) (hl : level < fs.length) :
    ifpUpdateLogQ fs R level x ((ifpMetaRow fs R x).take (level + 1))
      = some ((ifpMetaRow fs R x).take (level + 2)) := by
  unfold ifpUpdateLogQ ifmLogProbIth ifpMetaRow ifpLogQRow ifmLogProbAll
  have hget : fs[level]? = some fs[level] := List.getElem?_eq_getElem hl
  simp only [hget, Option.map_some, Option.some.injEq]
  rw [List.take_add_one (i := level + 1)]
  simp [hget]

example : ifpUpdateLogQ [exFlow, exFlow] exR 1 5 ((ifpMetaRow [exFlow, exFlow] exR 5).take 2)
    = some (ifpMetaRow [exFlow, exFlow] exR 5) := by decide

/-! ## end to end for the layers proved above -/

/-- the layers whose lawfulness is proved here (for any conditioner functions) -/
inductive Builtin [Field K] [AddCommGroup L] {n : Nat} (lg : K → L) : Transform (Fin n → K) (Fin n → K) L → Prop
  | coupling (m : Fin n → Bool) (s t : (Fin n → K) → Fin n → K) (hs : ∀ c i, m i = true → s c i ≠ 0) :
      Builtin lg (coupling lg m s t)
  | affine (a b : Fin n → K) (ha : ∀ i, a i ≠ 0) : Builtin lg (affine lg a b)
  | permutation (σ σinv : Fin n → Fin n) (h1 : ∀ i, σ (σinv i) = i) (h2 : ∀ i, σinv (σ i) = i) :
      Builtin lg (permutation σ σinv)
  | autoregressive (s t : Fin n → (Fin n → K) → K) (hs : PrefixDep s) (ht : PrefixDep t) (hne : ∀ i x, s i x ≠ 0) :
      Builtin lg (autoregressive lg s t)
  | lu (Lo : Fin n → Fin n → K) (ud : Fin n → K) (Up : Fin n → Fin n → K) (b : Fin n → K) (hud : ∀ i, ud i ≠ 0) :
      Builtin lg (luLinear lg Lo ud Up b)

/-- every built-in layer is lawful -/
theorem builtin_lawful [Field K] [AddCommGroup L] {n : Nat} (lg : K → L)
    (t : Transform (Fin n → K) (Fin n → K) L) (h : Builtin lg t) : Lawful t := by
  cases h with
  | coupling m s t hs => exact coupling_lawful lg m s t hs
  | affine a b ha => exact affine_lawful lg a b ha
  | permutation σ σinv h1 h2 => exact permutation_lawful σ σinv h1 h2
  | autoregressive s t hs ht hne => exact autoregressive_lawful lg s t hs ht hne
  | lu Lo ud Up b hud => exact (lu_linear_lawful lg Lo ud Up b hud).1

example : Lawful (permutation (K := ℚ) (L := ℚ) (n := 2) Fin.rev Fin.rev) :=
  builtin_lawful (fun a => a) _ (Builtin.permutation _ _ (fun i => Fin.rev_rev i) (fun i => Fin.rev_rev i))

/-- one block of nessai's `RealNVP`: optional actnorm, optional linear transform (a permutation, optionally followed
by an LU layer), the affine coupling, optional batch norm (eval mode) -/
structure RealNVPBlock (n : Nat) (K : Type) where
  actnorm : Option ((Fin n → K) × (Fin n → K))
  perm : Option ((Fin n → Fin n) × (Fin n → Fin n))
  lu : Option ((Fin n → Fin n → K) × (Fin n → K) × (Fin n → Fin n → K) × (Fin n → K))
  mask : Fin n → Bool
  s : (Fin n → K) → Fin n → K
  t : (Fin n → K) → Fin n → K
  batchnorm : Option ((Fin n → K) × (Fin n → K))

/-- the layers of a RealNVP block, in the order the constructor appends them -/
def RealNVPBlock.layers [Field K] [AddCommGroup L] {n : Nat} (lg : K → L) (B : RealNVPBlock n K) :
    List (Transform (Fin n → K) (Fin n → K) L) :=
  (B.actnorm.map fun p => affine lg p.1 p.2).toList ++ (B.perm.map fun p => permutation p.1 p.2).toList ++
  (B.lu.map fun p => luLinear lg p.1 p.2.1 p.2.2.1 p.2.2.2).toList ++ [coupling lg B.mask B.s B.t] ++
  (B.batchnorm.map fun p => affine lg p.1 p.2).toList

/-- scales are non-zero and the permutation is one -/
def RealNVPBlock.Valid [Field K] {n : Nat} (B : RealNVPBlock n K) : Prop :=
  (∀ p, B.actnorm = some p → ∀ i, p.1 i ≠ 0) ∧
  (∀ p, B.perm = some p → (∀ i, p.1 (p.2 i) = i) ∧ (∀ i, p.2 (p.1 i) = i)) ∧
  (∀ p, B.lu = some p → ∀ i, p.2.1 i ≠ 0) ∧
  (∀ c i, B.mask i = true → B.s c i ≠ 0) ∧
  (∀ p, B.batchnorm = some p → ∀ i, p.1 i ≠ 0)

/-- **RealNVP stacks of any depth are lawful** (coupling layers with arbitrary conditioners, `linear_transform` ∈
{None, permutation, lu}, with or without actnorm / batch norm in eval mode; `pre_transform = batch_norm` is one more
affine layer in front). -/
theorem realnvp_stack_lawful [Field K] [AddCommGroup L] {n : Nat} (lg : K → L)
    (pre : Option ((Fin n → K) × (Fin n → K))) (hpre : ∀ p, pre = some p → ∀ i, p.1 i ≠ 0)
    (blocks : List (RealNVPBlock n K)) (hv : ∀ B ∈ blocks, B.Valid) :
    Lawful (composite ((pre.map fun p => affine lg p.1 p.2).toList ++ blocks.flatMap (·.layers lg))) := by
  apply forward_inverse
  intro t ht
  apply builtin_lawful lg
  simp only [List.mem_append, Option.mem_toList, Option.map_eq_some_iff, List.mem_flatMap] at ht
  rcases ht with ⟨p, hp, rfl⟩ | ⟨B, hB, ht⟩
  · exact Builtin.affine _ _ (hpre p hp)
  · obtain ⟨h1, h2, h3, h4, h5⟩ := hv B hB
    simp only [RealNVPBlock.layers, List.mem_append, Option.mem_toList, Option.map_eq_some_iff, List.mem_singleton] at ht
    rcases ht with (((⟨p, hp, rfl⟩ | ⟨p, hp, rfl⟩) | ⟨p, hp, rfl⟩) | rfl) | ⟨p, hp, rfl⟩
    · exact Builtin.affine _ _ (h1 p hp)
    · exact Builtin.permutation _ _ (h2 p hp).1 (h2 p hp).2
    · exact Builtin.lu _ _ _ _ (h3 p hp)
    · exact Builtin.coupling _ _ _ h4
    · exact Builtin.affine _ _ (h5 p hp)

example : (⟨none, some (Fin.rev, Fin.rev), some (fun _ _ => 5, fun _ => 3, fun _ _ => 7, fun _ => 1), fun i => i.val == 1,
    fun c _ => c 0 * c 0 + 1, fun c _ => c 0, some (fun _ => 2, fun _ => 0)⟩ : RealNVPBlock 2 ℚ).Valid := by
  refine ⟨by simp, ?_, ?_, ?_, ?_⟩
  · intro p hp; cases hp; exact ⟨fun i => Fin.rev_rev i, fun i => Fin.rev_rev i⟩
  · intro p hp; cases hp; intro i; norm_num
  · intro c i _; have := mul_self_nonneg (c 0); intro h0; linarith
  · intro p hp; cases hp; intro i; norm_num

/-- one block of nessai's `MaskedAutoregressiveFlow`: a permutation (reverse or random), the masked affine
autoregressive transform, optional batch norm (eval mode) -/
structure MAFBlock (n : Nat) (K : Type) where
  σ : Fin n → Fin n
  σinv : Fin n → Fin n
  s : Fin n → (Fin n → K) → K
  t : Fin n → (Fin n → K) → K
  batchnorm : Option ((Fin n → K) × (Fin n → K))

/-- the layers of a MAF block, in the order the constructor appends them -/
def MAFBlock.layers [Field K] [AddCommGroup L] {n : Nat} (lg : K → L) (B : MAFBlock n K) :
    List (Transform (Fin n → K) (Fin n → K) L) :=
  [permutation B.σ B.σinv, autoregressive lg B.s B.t] ++ (B.batchnorm.map fun p => affine lg p.1 p.2).toList

/-- the permutation is one, the conditioners look at the strict prefix only, scales are non-zero -/
def MAFBlock.Valid [Field K] {n : Nat} (B : MAFBlock n K) : Prop :=
  (∀ i, B.σ (B.σinv i) = i) ∧ (∀ i, B.σinv (B.σ i) = i) ∧ PrefixDep B.s ∧ PrefixDep B.t ∧ (∀ i x, B.s i x ≠ 0) ∧
  (∀ p, B.batchnorm = some p → ∀ i, p.1 i ≠ 0)

/-- **MAF stacks of any depth are lawful** (permutation + masked affine autoregressive layer with arbitrary
strict-prefix conditioners + optional batch norm in eval mode, repeated). -/
theorem maf_stack_lawful [Field K] [AddCommGroup L] {n : Nat} (lg : K → L)
    (blocks : List (MAFBlock n K)) (hv : ∀ B ∈ blocks, B.Valid) :
    Lawful (composite (blocks.flatMap (·.layers lg))) := by
  apply forward_inverse
  intro t ht
  apply builtin_lawful lg
  simp only [List.mem_flatMap] at ht
  obtain ⟨B, hB, ht⟩ := ht
  obtain ⟨h1, h2, h3, h4, h5, h6⟩ := hv B hB
  simp only [MAFBlock.layers, List.mem_append, List.mem_cons, List.not_mem_nil, or_false, Option.mem_toList,
    Option.map_eq_some_iff] at ht
  rcases ht with (rfl | rfl) | ⟨p, hp, rfl⟩
  · exact Builtin.permutation _ _ h1 h2
  · exact Builtin.autoregressive _ _ h3 h4 h5
  · exact Builtin.affine _ _ (h6 p hp)

example : (⟨Fin.rev, Fin.rev, fun _ _ => 2, fun _ _ => 1, none⟩ : MAFBlock 3 ℚ).Valid :=
  ⟨fun i => Fin.rev_rev i, fun i => Fin.rev_rev i, fun _ _ _ _ => rfl, fun _ _ _ _ => rfl, fun _ _ => by norm_num, by simp⟩

/-- **End to end (partial).**  For a flow that is any stack of affine-coupling / masked-autoregressive / LU /
elementwise-affine / permutation layers with arbitrary conditioners (RealNVP with `linear_transform ∈ {None, permutation,
lu}` and MAF, with or without batch norm / actnorm), any base density and any lawful reparameterisation, the density
`FlowProposal` attaches to a generated physical point equals the density it computes forwards at that point, and forward
after inverse returns the input.  Gap to the property: rational-quadratic spline and SVD (Householder) layers are covered
only through the lawfulness hypothesis of the general theorems; normalisation (∫ = 1), batch norm in training mode and
floating point are not covered. -/
theorem builtin_stack_density_consistent_partial [Field K] [AddCommGroup L] {n : Nat} (lg : K → L)
    (ts : List (Transform (Fin n → K) (Fin n → K) L)) (hts : ∀ t ∈ ts, Builtin lg t)
    (base : (Fin n → K) → L) (R : Transform (Fin n → K) (Fin n → K) L) (hR : Lawful R)
    (rescale : Bool) (z : Fin n → K) :
    Lawful (composite ts) ∧
    fpForwardPass ⟨composite ts, base⟩ R rescale (fpBackwardPass ⟨composite ts, base⟩ R none rescale z).1
      = (z, (fpBackwardPass ⟨composite ts, base⟩ R none rescale z).2) := by
  have hl : Lawful (composite ts) := forward_inverse ts (fun t ht => builtin_lawful lg t (hts t ht))
  exact ⟨hl, gen_density_eq_eval_density_flowproposal ⟨composite ts, base⟩ R hl hR rescale z⟩

example : ∀ t ∈ [coupling (K := ℚ) (L := ℚ) (n := 2) (fun a => a) (fun i => i.val == 1)
      (fun c _ => c 0 * c 0 + 1) (fun c _ => c 0), permutation Fin.rev Fin.rev,
      luLinear (fun a => a) (fun _ _ => 5) (fun _ => 3) (fun _ _ => 7) (fun _ => 1)], Builtin (fun a => a) t := by
  intro t ht
  simp only [List.mem_cons, List.not_mem_nil, or_false] at ht
  rcases ht with rfl | rfl | rfl
  · exact Builtin.coupling _ _ _ (fun c i _ => by have := mul_self_nonneg (c 0); intro h0; linarith)
  · exact Builtin.permutation _ _ (fun i => Fin.rev_rev i) (fun i => Fin.rev_rev i)
  · exact Builtin.lu _ _ _ _ (fun _ => by norm_num)

end NessaiVerif.C08
