import NessaiVerif.Model.CrashFS
/-
C11 — generic lemmas about the crash/file-system model: frame properties of any
statement list, and the history inductions, stated for ANY protocol that meets
`DumpSpec` / `SaveSpec` / `ResumeSpec`.  That the protocols GENERATED from the
nessai source meet these specs is proved in `Proofs/CrashFSGen.lean`.
-/
set_option linter.unusedSimpArgs false
namespace NessaiVerif.CrashFS

abbrev cb : Path := ⟨.ckpt, .base⟩
abbrev co : Path := ⟨.ckpt, .old⟩
abbrev wb : Path := ⟨.weights, .base⟩
abbrev wo : Path := ⟨.weights, .old⟩

@[simp] theorem isTorn_absent : Content.absent.isTorn = false := rfl
@[simp] theorem isTorn_complete (v n : Nat) : (Content.complete v n).isTorn = false := rfl
@[simp] theorem isTorn_torn (k : Nat) (e : Exc) : (Content.torn k e).isTorn = true := rfl

/-! ### Frame: a program run on family `fam` touches no other family -/

theorem opRun_frame (fam : Fam) (d : Dump) (o : Op) (fs : FS) (p : Path) (hp : p.fam ≠ fam) :
    opRun fam d o fs p = fs p := by
  have hne : ∀ s, p ≠ ⟨fam, s⟩ := by
    intro s h; apply hp; rw [h]
  cases o with
  | move a b =>
    simp only [opRun]
    cases fs ⟨fam, a⟩ <;> simp [FS.set, hne]
  | _ => simp [opRun, FS.set, hne]

theorem opCrash_frame (fam : Fam) (d : Dump) (k : Nat) (o : Op) (fs : FS) (p : Path)
    (hp : p.fam ≠ fam) : opCrash fam d k o fs p = fs p := by
  have hne : ∀ s, p ≠ ⟨fam, s⟩ := by
    intro s h; apply hp; rw [h]
  cases o <;> simp [opCrash, FS.set, hne]

theorem runOps_frame (fam : Fam) (d : Dump) (ops : List Op) (fs : FS) (p : Path)
    (hp : p.fam ≠ fam) : runOps fam d ops fs p = fs p := by
  induction ops generalizing fs with
  | nil => rfl
  | cons o r ih => simp only [runOps]; rw [ih, opRun_frame _ _ _ _ _ hp]

theorem settle_frame (fam : Fam) (d : Dump) (f : Nat) (pend : Option Suffix) (fs : FS) (p : Path)
    (hp : p.fam ≠ fam) : settle fam d f pend fs p = fs p := by
  have hne : ∀ s, p ≠ ⟨fam, s⟩ := by
    intro s h; apply hp; rw [h]
  cases pend <;> simp [settle, FS.set, hne]

theorem crashOps_frame (fam : Fam) (d : Dump) (f : Nat) (ops : List Op) (j : Nat) (ins : Option Nat)
    (pend : Option Suffix) (fs : FS) (p : Path) (hp : p.fam ≠ fam) :
    crashOps fam d f ops j ins pend fs p = fs p := by
  induction ops generalizing fs j pend with
  | nil => rfl
  | cons o r ih =>
    cases j with
    | zero =>
      cases ins with
      | none => simp only [crashOps]; exact settle_frame _ _ _ _ _ _ hp
      | some k =>
        simp only [crashOps]
        rw [settle_frame _ _ _ _ _ _ hp]; exact opCrash_frame _ _ _ _ _ _ hp
    | succ j => simp only [crashOps]; rw [ih, opRun_frame _ _ _ _ _ hp]

theorem crashState_frame (prog : List Stmt) (fam : Fam) (d : Dump) (fs : FS) (cp : CrashPt)
    (p : Path) (hp : p.fam ≠ fam) : crashState prog fam d fs cp p = fs p :=
  crashOps_frame _ _ _ _ _ _ _ _ _ hp

theorem runProg_frame (prog : List Stmt) (fam : Fam) (d : Dump) (fs : FS)
    (p : Path) (hp : p.fam ≠ fam) : runProg prog fam d fs p = fs p :=
  runOps_frame _ _ _ _ _ hp

/-! ### Specifications of the write protocols (what the safety proofs use) -/

/-- `safe_file_dump`: at every crash point the pair (checkpoint, checkpoint.old) is the
old pair, or (absent, previous checkpoint), or (new, previous), or (new, old `.old`);
run to completion the checkpoint is the new one. -/
structure DumpSpec (prog : Bool → List Stmt) : Prop where
  views : ∀ (se : Bool) (d : Dump) (fs : FS) (cp : CrashPt),
    (crashState (prog se) .ckpt d fs cp cb = fs cb ∧ crashState (prog se) .ckpt d fs cp co = fs co) ∨
    (fs cb ≠ .absent ∧ crashState (prog se) .ckpt d fs cp cb = .absent
        ∧ crashState (prog se) .ckpt d fs cp co = fs cb) ∨
    (fs cb ≠ .absent ∧ crashState (prog se) .ckpt d fs cp cb = .complete d.v d.n
        ∧ crashState (prog se) .ckpt d fs cp co = fs cb) ∨
    (crashState (prog se) .ckpt d fs cp cb = .complete d.v d.n
        ∧ crashState (prog se) .ckpt d fs cp co = fs co)
  final : ∀ (se : Bool) (d : Dump) (fs : FS),
    runProg (prog se) .ckpt d fs cb = .complete d.v d.n ∧
    ((fs cb ≠ .absent ∧ runProg (prog se) .ckpt d fs co = fs cb) ∨ runProg (prog se) .ckpt d fs co = fs co)

/-- `save_weights`: at every crash point the pair (file, file.old) is the old pair, or
(absent, previous), or (new | torn, rotated); torn only when killed inside the write. -/
structure SaveSpec (prog : List Stmt) : Prop where
  views : ∀ (fam : Fam) (d : Dump) (fs : FS) (cp : CrashPt),
    (crashState prog fam d fs cp ⟨fam, .base⟩ = fs ⟨fam, .base⟩
        ∧ crashState prog fam d fs cp ⟨fam, .old⟩ = fs ⟨fam, .old⟩) ∨
    (fs ⟨fam, .base⟩ ≠ .absent ∧ crashState prog fam d fs cp ⟨fam, .base⟩ = .absent
        ∧ crashState prog fam d fs cp ⟨fam, .old⟩ = fs ⟨fam, .base⟩) ∨
    ((crashState prog fam d fs cp ⟨fam, .base⟩ = .complete d.v d.n
        ∨ ∃ k, cp.inside = some k ∧ crashState prog fam d fs cp ⟨fam, .base⟩ = .torn k d.exc) ∧
      ((fs ⟨fam, .base⟩ ≠ .absent ∧ crashState prog fam d fs cp ⟨fam, .old⟩ = fs ⟨fam, .base⟩) ∨
       (fs ⟨fam, .base⟩ = .absent ∧ crashState prog fam d fs cp ⟨fam, .old⟩ = fs ⟨fam, .old⟩)))
  final : ∀ (fam : Fam) (d : Dump) (fs : FS),
    runProg prog fam d fs ⟨fam, .base⟩ = .complete d.v d.n

/-- the checkpoint pair is in a state from which `prev` is what a resume must return -/
def CkptGood (fs : FS) (prev : Option (Nat × Nat)) : Prop :=
  (fs cb).isTorn = false ∧ (fs co).isTorn = false ∧
  match prev with
  | none => fs cb = .absent ∧ fs co = .absent
  | some (v, n) => fs cb = .complete v n ∨ (fs cb = .absent ∧ fs co = .complete v n)

/-- what a resume must return from a good state: the checkpoint `prev`, with whatever weights
its recorded path/count brings back -/
def specOf (kind : Kind) (cfg : ResumeCfg) (fs : FS) : Option (Nat × Nat) → Outcome
  | none => .fresh
  | some (v, n) => .loaded v n (weightsBack kind cfg fs n).1 (weightsBack kind cfg fs n).2

/-- the resume logic returns what `CkptGood` promises provided the weights the
candidate pickles refer to can be loaded -/
def ResumeSpec (cfg : ResumeCfg) : Prop :=
  ∀ (kind : Kind) (top : Nat) (fs : FS) (prev : Option (Nat × Nat)), CkptGood fs prev →
    (∀ p v n, (p = cb ∨ p = co) → fs p = .complete v n → weightsResume kind cfg top fs n = none) →
    resume kind cfg top fs = specOf kind cfg fs prev

/-! ### Consequences of `DumpSpec` -/

theorem CkptGood.untorn {fs : FS} {prev} (h : CkptGood fs prev) :
    (fs cb).isTorn = false ∧ (fs co).isTorn = false := ⟨h.1, h.2.1⟩

/-- (checkpoint, .old) never torn: one dump, killed anywhere -/
theorem dump_crash_untorn {prog} (hd : DumpSpec prog) (se : Bool) (d : Dump) (fs : FS) (cp : CrashPt)
    (hb : (fs cb).isTorn = false) (ho : (fs co).isTorn = false) :
    (crashState (prog se) .ckpt d fs cp cb).isTorn = false ∧
    (crashState (prog se) .ckpt d fs cp co).isTorn = false := by
  rcases hd.views se d fs cp with ⟨h1, h2⟩ | ⟨_, h1, h2⟩ | ⟨_, h1, h2⟩ | ⟨h1, h2⟩ <;>
    simp [h1, h2, hb, ho]

theorem dump_run_untorn {prog} (hd : DumpSpec prog) (se : Bool) (d : Dump) (fs : FS)
    (hb : (fs cb).isTorn = false) (ho : (fs co).isTorn = false) :
    (runProg (prog se) .ckpt d fs cb).isTorn = false ∧
    (runProg (prog se) .ckpt d fs co).isTorn = false := by
  obtain ⟨h1, h2⟩ := hd.final se d fs
  rcases h2 with ⟨_, h2⟩ | h2 <;> simp [h1, h2, hb, ho]

/-- one dump killed anywhere keeps `prev` loadable or makes the new version the one -/
theorem dump_crash_good {prog} (hd : DumpSpec prog) (se : Bool) (d : Dump) (fs : FS) (cp : CrashPt)
    (prev : Option (Nat × Nat)) (h : CkptGood fs prev) :
    CkptGood (crashState (prog se) .ckpt d fs cp) prev ∨
    CkptGood (crashState (prog se) .ckpt d fs cp) (some (d.v, d.n)) := by
  obtain ⟨hb, ho, hp⟩ := h
  have hu := dump_crash_untorn hd se d fs cp hb ho
  rcases hd.views se d fs cp with ⟨h1, h2⟩ | ⟨hne, h1, h2⟩ | ⟨_, h1, h2⟩ | ⟨h1, h2⟩
  · left
    refine ⟨hu.1, hu.2, ?_⟩
    rw [h1, h2]; exact hp
  · left
    refine ⟨hu.1, hu.2, ?_⟩
    rw [h1, h2]
    cases prev with
    | none => exact absurd hp.1 hne
    | some vn =>
      obtain ⟨v, n⟩ := vn
      rcases hp with hp | ⟨hp, _⟩
      · exact Or.inr ⟨rfl, hp⟩
      · exact absurd hp hne
  · right
    exact ⟨hu.1, hu.2, Or.inl h1⟩
  · right
    exact ⟨hu.1, hu.2, Or.inl h1⟩

theorem dump_run_good {prog} (hd : DumpSpec prog) (se : Bool) (d : Dump) (fs : FS)
    (hb : (fs cb).isTorn = false) (ho : (fs co).isTorn = false) :
    CkptGood (runProg (prog se) .ckpt d fs) (some (d.v, d.n)) := by
  have hu := dump_run_untorn hd se d fs hb ho
  exact ⟨hu.1, hu.2, Or.inl (hd.final se d fs).1⟩

/-- where the contents of the checkpoint pair come from after a (possibly killed) dump -/
theorem dump_crash_prov {prog} (hd : DumpSpec prog) (se : Bool) (d : Dump) (fs : FS) (cp : CrashPt)
    (p : Path) (hp : p = cb ∨ p = co) :
    crashState (prog se) .ckpt d fs cp p = fs cb ∨ crashState (prog se) .ckpt d fs cp p = fs co ∨
    crashState (prog se) .ckpt d fs cp p = .absent ∨
    crashState (prog se) .ckpt d fs cp p = .complete d.v d.n := by
  rcases hd.views se d fs cp with ⟨h1, h2⟩ | ⟨_, h1, h2⟩ | ⟨_, h1, h2⟩ | ⟨h1, h2⟩ <;>
    rcases hp with rfl | rfl <;> simp [h1, h2]

theorem dump_run_prov {prog} (hd : DumpSpec prog) (se : Bool) (d : Dump) (fs : FS)
    (p : Path) (hp : p = cb ∨ p = co) :
    runProg (prog se) .ckpt d fs p = fs cb ∨ runProg (prog se) .ckpt d fs p = fs co ∨
    runProg (prog se) .ckpt d fs p = .absent ∨
    runProg (prog se) .ckpt d fs p = .complete d.v d.n := by
  obtain ⟨h1, h2⟩ := hd.final se d fs
  rcases h2 with ⟨_, h2⟩ | h2 <;> rcases hp with rfl | rfl <;> simp [h1, h2]

/-! ### Weights side: what the resume reads lies outside the checkpoint family -/

theorem loadAll_congr (fs fs' : FS) (l : List Nat)
    (h : ∀ i ∈ l, fs' ⟨.level i, .base⟩ = fs ⟨.level i, .base⟩) : loadAll fs' l = loadAll fs l := by
  induction l with
  | nil => rfl
  | cons i r ih =>
    have h1 := h i (by simp)
    have h2 := ih (fun j hj => h j (by simp [hj]))
    simp only [loadAll, loadWeights, h1, h2]

theorem countLevels_congr (fs fs' : FS) (t : Nat)
    (h : ∀ i, i < t → fs' ⟨.level i, .base⟩ = fs ⟨.level i, .base⟩) :
    countLevels fs' t = countLevels fs t := by
  induction t with
  | zero => rfl
  | succ t ih =>
    have h1 := h t (by omega)
    have h2 := ih (fun i hi => h i (by omega))
    simp only [countLevels, FS.has, h1, h2]
    rfl

/-- the weights part of a resume does not look at the checkpoint family -/
theorem weightsResume_congr (kind : Kind) (cfg : ResumeCfg) (top : Nat) (fs fs' : FS) (n : Nat)
    (h : ∀ p : Path, p.fam ≠ .ckpt → fs' p = fs p) :
    weightsResume kind cfg top fs' n = weightsResume kind cfg top fs n := by
  cases kind with
  | std =>
    have h1 := h wb (by simp)
    have h2 := h wo (by simp)
    have h3 := h ⟨.weights, primary n⟩ (by simp)
    simp only [weightsResume, stdWeightsResume, fallbackContent, loadWeights, FS.has, h1, h2, h3]
    rfl
  | ins =>
    simp only [weightsResume, insWeightsResume]
    rw [countLevels_congr fs fs' top (fun i _ => h _ (by simp)),
        loadAll_congr fs fs' _ (fun i _ => h _ (by simp))]

/-- neither does what comes back -/
theorem weightsBack_congr (kind : Kind) (cfg : ResumeCfg) (fs fs' : FS) (n : Nat)
    (h : ∀ p : Path, p.fam ≠ .ckpt → fs' p = fs p) :
    weightsBack kind cfg fs' n = weightsBack kind cfg fs n := by
  cases kind with
  | ins => rfl
  | std =>
    have h2 := h wo (by simp)
    have h3 := h ⟨.weights, primary n⟩ (by simp)
    simp only [weightsBack, stdWeightsBack, fallbackBack, fallbackContent, FS.has, h2, h3]
    rfl

theorem le_countLevels (fs : FS) (t n : Nat) (hn : n ≤ t)
    (h : ∀ i, i < n → fs.has ⟨.level i, .base⟩ = true) : n ≤ countLevels fs t := by
  induction t generalizing n with
  | zero => omega
  | succ t ih =>
    simp only [countLevels]
    by_cases hnt : n ≤ t
    · have := ih n hnt h; omega
    · have hn' : n = t + 1 := by omega
      subst hn'
      have h1 := ih t (Nat.le_refl t) (fun i hi => h i (by omega))
      have h2 := h t (by omega)
      simp [h2]; omega

theorem loadAll_none (fs : FS) (l : List Nat)
    (h : ∀ i ∈ l, ∃ v n, fs ⟨.level i, .base⟩ = .complete v n) : loadAll fs l = none := by
  induction l with
  | nil => rfl
  | cons i r ih =>
    obtain ⟨v, n, hv⟩ := h i (by simp)
    simp only [loadAll, loadWeights, hv]
    exact ih (fun j hj => h j (by simp [hj]))

/-- importance sampler: a pickle that records `n ≤ m` levels can be resumed when the
first `m` level files are complete -/
theorem ins_ok (fs : FS) (top m n : Nat) (hn : n ≤ m) (hm : m ≤ top)
    (hl : ∀ i, i < m → ∃ v k, fs ⟨.level i, .base⟩ = .complete v k) :
    insWeightsResume top fs n = none := by
  unfold insWeightsResume
  have hc : n ≤ countLevels fs top := by
    apply le_countLevels fs top n (by omega)
    intro i hi
    obtain ⟨v, k, hv⟩ := hl i (by omega)
    simp [FS.has, hv, Content.exists?]
  have : ¬ countLevels fs top < n := by omega
  simp only [this, if_false]
  apply loadAll_none
  intro i hi
  exact hl i (by have := List.mem_range.mp hi; omega)

/-! ### Histories -/

theorem allowedFrom_cons (acc : List (Option Nat)) (e : Ev) (r : List Ev) :
    allowedFrom acc (e :: r) = allowedFrom (allowedFrom acc [e]) r := by
  cases e with
  | ckpt se v n len cp => cases cp <;> simp [allowedFrom]
  | train w len e cp => simp [allowedFrom]

/-- induction over a history with an invariant that carries the version a resume must return -/
theorem hist_induction (kind : Kind) (P : Protocol) (Inv : Sys → Option (Nat × Nat) → Prop)
    (ok : Ev → Prop)
    (hstep : ∀ s prev e acc, ok e → Inv s prev → prev.map Prod.fst ∈ acc →
      ∃ prev', Inv (step kind P s e) prev' ∧ prev'.map Prod.fst ∈ allowedFrom acc [e]) :
    ∀ (hist : List Ev) (s : Sys) (prev : Option (Nat × Nat)) (acc : List (Option Nat)),
      (∀ e ∈ hist, ok e) → Inv s prev → prev.map Prod.fst ∈ acc →
      ∃ prev', Inv (hist.foldl (step kind P) s) prev' ∧ prev'.map Prod.fst ∈ allowedFrom acc hist := by
  intro hist
  induction hist with
  | nil => intro s prev acc _ hi hm; exact ⟨prev, hi, hm⟩
  | cons e r ih =>
    intro s prev acc hok hi hm
    obtain ⟨prev', hi', hm'⟩ := hstep s prev e acc (hok e (by simp)) hi hm
    rw [allowedFrom_cons]
    exact ih _ prev' _ (fun e' he' => hok e' (by simp [he'])) hi' hm'

/-- membership bookkeeping for one checkpoint event -/
theorem allowed_ckpt_done (acc : List (Option Nat)) (se : Bool) (v n len : Nat) :
    (some (v, n) : Option (Nat × Nat)).map Prod.fst ∈ allowedFrom acc [.ckpt se v n len none] := by
  simp [allowedFrom]

theorem allowed_ckpt_crash (acc : List (Option Nat)) (se : Bool) (v n len : Nat) (cp : CrashPt)
    (prev : Option (Nat × Nat)) (h : prev.map Prod.fst ∈ acc) :
    prev.map Prod.fst ∈ allowedFrom acc [.ckpt se v n len (some cp)] ∧
    (some (v, n) : Option (Nat × Nat)).map Prod.fst ∈ allowedFrom acc [.ckpt se v n len (some cp)] := by
  simp [allowedFrom, h]

theorem allowed_train (acc : List (Option Nat)) (w len : Nat) (e : Exc) (cp : Option CrashPt) :
    allowedFrom acc [.train w len e cp] = acc := by
  simp [allowedFrom]

/-! #### every history, both samplers: the checkpoint pair is never torn -/

theorem hist_untorn (kind : Kind) (P : Protocol) (hd : DumpSpec P.dump) (hist : List Ev) (s : Sys)
    (hb : (s.fs cb).isTorn = false) (ho : (s.fs co).isTorn = false) :
    ((hist.foldl (step kind P) s).fs cb).isTorn = false ∧
    ((hist.foldl (step kind P) s).fs co).isTorn = false := by
  induction hist generalizing s with
  | nil => exact ⟨hb, ho⟩
  | cons e r ih =>
    simp only [List.foldl]
    cases e with
    | ckpt se v n len cp =>
      cases cp with
      | none =>
        have h := dump_run_untorn hd se ⟨v, s.mem, len, .tornPickle⟩ s.fs hb ho
        exact ih _ h.1 h.2
      | some cp =>
        have h := dump_crash_untorn hd se ⟨v, s.mem, len, .tornPickle⟩ s.fs cp hb ho
        exact ih _ h.1 h.2
    | train w len e cp =>
      cases cp with
      | none =>
        apply ih
        · simp only [step]; rw [runProg_frame _ _ _ _ _ (by cases kind <;> simp [trainFam])]; exact hb
        · simp only [step]; rw [runProg_frame _ _ _ _ _ (by cases kind <;> simp [trainFam])]; exact ho
      | some cp =>
        apply ih
        · simp only [step]; rw [crashState_frame _ _ _ _ _ _ (by cases kind <;> simp [trainFam])]; exact hb
        · simp only [step]; rw [crashState_frame _ _ _ _ _ _ (by cases kind <;> simp [trainFam])]; exact ho

end NessaiVerif.CrashFS
