/-
C19 — model of nessai's result/config writers (nessai/utils/io.py, FlowSampler.save_results / save_kwargs).
Core Lean only (linked into the driver).

Python values are *value trees*.  The JSON side follows `json.dump(d, cls=NessaiJSONEncoder)`:
native values are encoded by the json module itself, everything else goes through
`NessaiJSONEncoder.default`, an ordered `isinstance` chain that is NOT written here but generated
from the source (Gen/Encode.lean) and consulted through `firstAction`.
The HDF5 side follows `add_dict_to_hdf5_file` / `encode_for_hdf5`: dictionaries become groups
(`path + key + "/"`), every other value becomes a dataset at `path + key`, `None` is stored as a
sentinel string.  The h5py container is modelled as a trie of groups and datasets.

External and assumed (validated by the correspondence, not proved): the json text layer
(`dumps`/`loads` of native values incl. `NaN`/`Infinity`), `ndarray.tolist`, `str(obj)`,
`float(np.longdouble)`, h5py's name normalisation and numpy's list→array coercion (`h5Leaf`).
-/
namespace NessaiVerif.Encode

/-- `malformed`: the tree does not denote a Python value (an array whose element count is not the product of its
shape); never produced for real inputs -/
inductive Err | type | value | os | runtime | malformed
deriving DecidableEq, Repr

/-- dictionary keys: `bad` = a key the json module rejects (np.int64, tuple, …) -/
inductive Key
  | str (s : String) | int (i : Int) | bool (b : Bool) | none | bad
deriving DecidableEq, Repr

inductive FKind | f16 | f32 | f64 | f128
deriving DecidableEq, Repr

/-- array element class: integer, floating, bool, unicode string, object -/
inductive DT | int | float | bool | ustr | obj
deriving DecidableEq, Repr

/-- Python value trees.  Floats are IEEE-754 binary64 bit patterns (all NaNs are one canonical pattern).
`ndarray shape flat`: `flat` are the elements in C order as Python-level items (what `.tolist()` puts at the
leaves).  `structured names nrows cells`: cells in row-major order, `names.length` per row.
`npFloat k bits exact`: `bits` is the pattern of `float(x)`; `exact = some tok` carries the exact value token
when `float(x) ≠ x` (only possible for `np.longdouble`).  `opaque r`: any other object, `r = str(obj)`. -/
inductive Tree
  | dict (kvs : List (Key × Tree))
  | list (xs : List Tree)
  | tuple (xs : List Tree)
  | int (i : Int)
  | float (bits : Nat)
  | str (s : String)
  | none
  | bool (b : Bool)
  | ndarray (dt : DT) (shape : List Nat) (flat : List Tree)
  | structured (names : List String) (nrows : Nat) (cells : List Tree)
  | npInt (i : Int)
  | npFloat (k : FKind) (bits : Nat) (exact : Option String)
  | npBool (b : Bool)
  | npStr (s : String)
  | opaque (r : String)
deriving Repr

/-! ## `NessaiJSONEncoder.default` as data -/

/-- classes of values that are not native to the json module -/
inductive Kind | npInt | npFloat | npBool | ndarray | opaque
deriving DecidableEq, Repr

/-- the second argument of an `isinstance(obj, …)` test -/
inductive TypeTest | npInteger | npFloating | npNumber | npGeneric | npBool | ndarray
deriving DecidableEq, Repr

/-- the expression returned by a branch -/
inductive Action | toInt | toFloat | toBool | tolist | toStr | item
deriving DecidableEq, Repr

/-- what follows the isinstance chain: `elif not is_jsonable(obj): return str(obj)` then
`super().default(obj)` (raises TypeError), or only the latter -/
inductive Fallback | strIfNotJsonable | raise
deriving DecidableEq, Repr

/-- `isinstance` semantics on the numpy class hierarchy -/
def TypeTest.holds : TypeTest → Kind → Bool
  | .npInteger, .npInt => true
  | .npFloating, .npFloat => true
  | .npNumber, .npInt => true
  | .npNumber, .npFloat => true
  | .npGeneric, .npInt => true
  | .npGeneric, .npFloat => true
  | .npGeneric, .npBool => true
  | .npBool, .npBool => true
  | .ndarray, .ndarray => true
  | _, _ => false

abbrev Chain := List (TypeTest × Action)

/-- first branch of the if/elif chain whose test holds -/
def firstAction : Chain → Kind → Option Action
  | [], _ => none
  | (t, a) :: rest, k => if t.holds k then some a else firstAction rest k

/-- the branch taken by `default` for a non-native value; `none` = TypeError from `super().default` -/
def defaultAction (c : Chain) (fb : Fallback) (k : Kind) : Option Action :=
  match firstAction c k with
  | some a => some a
  | none => match fb with
    | .strIfNotJsonable => some .toStr   -- a value that reached `default` is never jsonable
    | .raise => none

/-! ## arrays → nested lists (`ndarray.tolist`, assumed) -/

def prod : List Nat → Nat
  | [] => 1
  | n :: r => n * prod r

/-- `n` consecutive chunks of `k` elements -/
def chunksN {α : Type} : Nat → Nat → List α → List (List α)
  | 0, _, _ => []
  | n + 1, k, xs => xs.take k :: chunksN n k (xs.drop k)

/-- nested lists of an array with this shape; 0-d arrays give the bare item -/
def nest : List Nat → List Tree → Tree
  | [], xs => xs.headD .none
  | n :: rest, xs => .list ((chunksN n (prod rest) xs).map (nest rest))

def pyBoolStr (b : Bool) : String := if b then "True" else "False"

/-! ## JSON -/

/-- key conversion done by the json module (`skipkeys=False`) -/
def jsonKey : Key → Except Err String
  | .str s => .ok s
  | .int i => .ok (toString i)
  | .bool b => .ok (if b then "true" else "false")
  | .none => .ok "null"
  | .bad => .error .type

/-- `str(obj)` of the scalars the model knows (the harness passes `str(obj)` for opaque objects) -/
def applyScalar (a : Action) : Tree → Except Err Tree
  | .npInt i => match a with
    | .toInt => .ok (.int i)
    | .item => .ok (.int i)
    | .toStr => .ok (.str (toString i))
    | .toBool => .ok (.bool (i != 0))
    | _ => .error .type
  | .npFloat _ bits _ => match a with
    | .toFloat => .ok (.float bits)
    | .item => .ok (.float bits)
    | _ => .error .type
  | .npBool b => match a with
    | .toBool => .ok (.bool b)
    | .item => .ok (.bool b)
    | .toInt => .ok (.int (if b then 1 else 0))
    | .toStr => .ok (.str (pyBoolStr b))
    | _ => .error .type
  | .opaque r => match a with
    | .toStr => .ok (.str r)
    | _ => .error .type
  | _ => .error .type

mutual
/-- what `json.load` returns for the file written by `json.dump(t, cls=NessaiJSONEncoder)`.
`c`, `fb` = the dispatch of `NessaiJSONEncoder.default` (generated). -/
def jsonEncode (c : Chain) (fb : Fallback) : Tree → Except Err Tree
  | .dict kvs => do pure (.dict (← jsonEncodeKvs c fb kvs))
  | .list xs => do pure (.list (← jsonEncodeList c fb xs))
  | .tuple xs => do pure (.list (← jsonEncodeList c fb xs))
  | .int i => .ok (.int i)
  | .float b => .ok (.float b)
  | .str s => .ok (.str s)
  | .none => .ok .none
  | .bool b => .ok (.bool b)
  | .npStr s => .ok (.str s)            -- np.str_ is a str subclass: native
  | .ndarray _ shape flat =>
    if flat.length ≠ prod shape then .error .malformed else
    match defaultAction c fb .ndarray with
    | some .tolist => do pure (nest shape (← jsonEncodeList c fb flat))
    | _ => .error .type
  | .structured names nrows cells =>
    if cells.length ≠ nrows * names.length then .error .malformed else
    match defaultAction c fb .ndarray with
    | some .tolist => do pure (nest [nrows, names.length] (← jsonEncodeList c fb cells))
    | _ => .error .type
  | .npInt i =>
    match defaultAction c fb .npInt with
    | some a => applyScalar a (.npInt i)
    | none => .error .type
  | .npFloat k b e =>
    match defaultAction c fb .npFloat with
    | some a => applyScalar a (.npFloat k b e)
    | none => .error .type
  | .npBool b =>
    match defaultAction c fb .npBool with
    | some a => applyScalar a (.npBool b)
    | none => .error .type
  | .opaque r =>
    match defaultAction c fb .opaque with
    | some a => applyScalar a (.opaque r)
    | none => .error .type
def jsonEncodeList (c : Chain) (fb : Fallback) : List Tree → Except Err (List Tree)
  | [] => .ok []
  | x :: xs => do
    let a ← jsonEncode c fb x
    let b ← jsonEncodeList c fb xs
    pure (a :: b)
def jsonEncodeKvs (c : Chain) (fb : Fallback) : List (Key × Tree) → Except Err (List (Key × Tree))
  | [] => .ok []
  | (k, v) :: rest => do
    let k' ← jsonKey k
    let a ← jsonEncode c fb v
    let b ← jsonEncodeKvs c fb rest
    pure ((.str k', a) :: b)
end

mutual
/-- the documented canonical form (specification, independent of the generated chain):
arrays → nested lists, structured arrays → list of rows (field names are not written),
numpy integer/float scalars → numbers, tuples → lists, every other object (incl. `np.bool_`) → `str(obj)` -/
def canon : Tree → Tree
  | .dict kvs => .dict (canonKvs kvs)
  | .list xs => .list (canonList xs)
  | .tuple xs => .list (canonList xs)
  | .int i => .int i
  | .float b => .float b
  | .str s => .str s
  | .none => .none
  | .bool b => .bool b
  | .npStr s => .str s
  | .ndarray _ shape flat => nest shape (canonList flat)
  | .structured names nrows cells => nest [nrows, names.length] (canonList cells)
  | .npInt i => .int i
  | .npFloat _ b _ => .float b
  | .npBool b => .str (pyBoolStr b)
  | .opaque r => .str r
def canonList : List Tree → List Tree
  | [] => []
  | x :: xs => canon x :: canonList xs
def canonKvs : List (Key × Tree) → List (Key × Tree)
  | [] => []
  | (k, v) :: rest =>
    (match jsonKey k with | .ok s => Key.str s | .error _ => k, canon v) :: canonKvs rest
end

mutual
/-- every dictionary key is a key the json module accepts (str, int, bool, None) -/
def KeysOk : Tree → Prop
  | .dict kvs => KeysOkKvs kvs
  | .list xs => KeysOkList xs
  | .tuple xs => KeysOkList xs
  | .ndarray _ _ flat => KeysOkList flat
  | .structured _ _ cells => KeysOkList cells
  | _ => True
def KeysOkList : List Tree → Prop
  | [] => True
  | x :: xs => KeysOk x ∧ KeysOkList xs
def KeysOkKvs : List (Key × Tree) → Prop
  | [] => True
  | (k, v) :: rest => k ≠ .bad ∧ KeysOk v ∧ KeysOkKvs rest
end

mutual
/-- a tree of native JSON values with string keys (what `json.load` can return) -/
def IsJson : Tree → Prop
  | .dict kvs => IsJsonKvs kvs
  | .list xs => IsJsonList xs
  | .int _ => True
  | .float _ => True
  | .str _ => True
  | .none => True
  | .bool _ => True
  | _ => False
def IsJsonList : List Tree → Prop
  | [] => True
  | x :: xs => IsJson x ∧ IsJsonList xs
def IsJsonKvs : List (Key × Tree) → Prop
  | [] => True
  | (k, v) :: rest => (∃ s, k = .str s) ∧ IsJson v ∧ IsJsonKvs rest
end

mutual
/-- the scalar leaves of nested lists, in order -/
def leaves : Tree → List Tree
  | .list xs => leavesList xs
  | t => [t]
def leavesList : List Tree → List Tree
  | [] => []
  | x :: xs => leaves x ++ leavesList xs
end

/-- not a list (so `leaves t = [t]`) -/
def IsLeaf : Tree → Prop
  | .list _ => False
  | _ => True

/-! ## save_kwargs / save_results -/

/-- `d[key] = value` on an insertion-ordered dict -/
def upsert (k : Key) (v : Tree) : List (Key × Tree) → List (Key × Tree)
  | [] => [(k, v)]
  | (k', v') :: rest => if k' = k then (k, v) :: rest else (k', v') :: upsert k v rest

/-- `FlowSampler.save_kwargs`: copy, set the extra keys, `save_to_json` -/
def saveKwargs (c : Chain) (fb : Fallback) (extra : List (String × Tree)) (kwargs : List (Key × Tree)) :
    Except Err Tree :=
  jsonEncode c fb (.dict (extra.foldl (fun d e => upsert (.str e.1) e.2 d) kwargs))

/-- the dictionary `save_kwargs` hands to `save_to_json` -/
def kwargsDict (extra : List (String × Tree)) (kwargs : List (Key × Tree)) : Tree :=
  .dict (extra.foldl (fun d e => upsert (.str e.1) e.2 d) kwargs)

inductive Format | json | hdf5
deriving DecidableEq, Repr

abbrev ExtTable := List (String × Format)

def formatOf : ExtTable → String → Option Format
  | [], _ => none
  | (e, f) :: rest, x => if x = e then some f else formatOf rest x

/-- file-name logic of `save_results`: `fileExt = os.path.splitext(filename)[1].lstrip(".")`.
Returns the extension that selects the writer and whether `"." + extension` is appended to the name. -/
def resolveExt (fileExt : String) (extension : Option String) : Except Err (String × Bool) :=
  match extension with
  | none => if fileExt = "" then .error .runtime else .ok (fileExt, false)
  | some e => .ok (e, fileExt = "")

def saveTarget (tbl : ExtTable) (fileExt : String) (extension : Option String) :
    Except Err (Format × Bool) :=
  match resolveExt fileExt extension with
  | .error e => .error e
  | .ok (e, app) =>
    match formatOf tbl e with
    | some f => .ok (f, app)
    | none => .error .runtime

/-- `live_points_to_dict`: `{name: array[name]}` for every field -/
def structToDict (names : List String) (nrows : Nat) (cells : List Tree) : Tree :=
  .dict ((List.range names.length).zip names |>.map fun (j, n) =>
    (Key.str n, Tree.ndarray .float [nrows] ((List.range nrows).map fun r => cells.getD (r * names.length + j) .none)))

/-- the JSON branch of `save_results` replaces `d["posterior_samples"]` by `live_points_to_dict(…)` -/
def posteriorToDict : List (Key × Tree) → List (Key × Tree)
  | [] => []
  | (k, v) :: rest =>
    (k, if k = .str "posterior_samples" then
          (match v with | .structured names nrows cells => structToDict names nrows cells | t => t)
        else v) :: posteriorToDict rest

/-! ## HDF5 -/

/-- `encode_for_hdf5` -/
def h5Encode (sentinel : String) : Tree → Tree
  | .none => .str sentinel
  | v => v

/-- the reader's inverse convention: the sentinel string means `None` -/
def h5Decode (sentinel : String) : Tree → Tree
  | .str s => if s = sentinel then .none else .str s
  | v => v

abbrev Path := List String

def splitSlashAux : List Char → List Char → List (List Char)
  | [], cur => [cur.reverse]
  | c :: cs, cur => if c = '/' then cur.reverse :: splitSlashAux cs [] else splitSlashAux cs (c :: cur)

/-- path segments h5py makes of a key: split on '/', empty segments and "." are dropped -/
def segs (k : String) : Path :=
  ((splitSlashAux k.toList []).filter (fun s => s ≠ [] && s ≠ ['.'])).map String.ofList

mutual
/-- `add_dict_to_hdf5_file`, as the list of (relative dataset path, stored value) in write order:
a dict value recurses with `path + key + "/"`, any other value is written at `path + key` -/
def flattenKvs (sentinel : String) : List (Key × Tree) → Except Err (List (Path × Tree))
  | [] => .ok []
  | (k, v) :: rest =>
    match k with
    | .str s => do
      let here ← flattenVal sentinel v
      let more ← flattenKvs sentinel rest
      pure (here.map (fun e => (segs s ++ e.1, e.2)) ++ more)
    | _ => .error .type                      -- `path + key` with a non-str key
def flattenVal (sentinel : String) : Tree → Except Err (List (Path × Tree))
  | .dict kvs => flattenKvs sentinel kvs
  | v => .ok [([], h5Encode sentinel v)]
end

/-- the h5py container: groups and datasets -/
inductive H5
  | ds (v : Tree)
  | grp (kids : List (String × H5))

abbrev Kids := List (String × H5)

def lookupKid (k : String) : Kids → Option H5
  | [] => none
  | (k', h) :: rest => if k' = k then some h else lookupKid k rest

def setKid (k : String) (h : H5) : Kids → Kids
  | [] => []
  | (k', h') :: rest => if k' = k then (k', h) :: rest else (k', h') :: setKid k h rest

/-- `file[path] = value`: intermediate groups are created on demand; an existing name, a dataset on the
way or the empty path is an `OSError` -/
def insertKids : Path → Tree → Kids → Except Err Kids
  | [], _, _ => .error .os
  | [k], v, kids =>
    match lookupKid k kids with
    | none => .ok (kids ++ [(k, .ds v)])
    | some _ => .error .os
  | k :: k2 :: p, v, kids =>
    match lookupKid k kids with
    | none => do
      let g ← insertKids (k2 :: p) v []
      pure (kids ++ [(k, .grp g)])
    | some (.ds _) => .error .os
    | some (.grp g0) => do
      let g ← insertKids (k2 :: p) v g0
      pure (setKid k (.grp g) kids)

def insertAll : List (Path × Tree) → Kids → Except Err Kids
  | [], f => .ok f
  | (p, v) :: rest, f =>
    match insertKids p v f with
    | .ok f' => insertAll rest f'
    | .error e => .error e

/-- `save_dict_to_hdf5` at the container level (leaf conversion by h5py not included) -/
def h5Write (sentinel : String) (kvs : List (Key × Tree)) : Except Err Kids :=
  match flattenKvs sentinel kvs with
  | .ok es => insertAll es []
  | .error e => .error e

mutual
/-- reading the file back: groups → dicts, datasets → values with the sentinel decoded -/
def h5Read (sentinel : String) : H5 → Tree
  | .ds v => h5Decode sentinel v
  | .grp kids => .dict (h5ReadKids sentinel kids)
def h5ReadKids (sentinel : String) : List (String × H5) → List (Key × Tree)
  | [] => []
  | (k, h) :: rest => (.str k, h5Read sentinel h) :: h5ReadKids sentinel rest
end

def h5RoundTrip (sentinel : String) (kvs : List (Key × Tree)) : Except Err Tree :=
  match h5Write sentinel kvs with
  | .ok f => .ok (.dict (h5ReadKids sentinel f))
  | .error e => .error e

def keysOf : List (Key × Tree) → List Key
  | [] => []
  | (k, _) :: rest => k :: keysOf rest

mutual
/-- the dictionaries the HDF5 writer represents faithfully: every key is a string that is a single path
segment, keys are distinct within a dict, no nested dict is empty, no genuine string equals the sentinel -/
def H5Safe (sentinel : String) : Tree → Prop
  | .dict kvs => kvs ≠ [] ∧ H5SafeKvs sentinel kvs
  | .str s => s ≠ sentinel
  | _ => True
def H5SafeKvs (sentinel : String) : List (Key × Tree) → Prop
  | [] => True
  | (k, v) :: rest =>
    (∃ s, k = .str s ∧ segs s = [s]) ∧ k ∉ keysOf rest ∧ H5Safe sentinel v ∧ H5SafeKvs sentinel rest
end

/-! ## representation invariants and `json.load`'s dictionary semantics -/

/-- the text of a key in the JSON file -/
def renderKey (k : Key) : String :=
  match jsonKey k with
  | .ok s => s
  | .error _ => ""

/-- `json.load` builds a dict by assignment: a repeated key keeps its first position and its last value -/
def dedupKvs (kvs : List (Key × Tree)) : List (Key × Tree) :=
  kvs.foldl (fun d e => upsert e.1 e.2 d) []

mutual
/-- what `json.load` makes of the parsed file content (object members in file order) -/
def jsonLoad : Tree → Tree
  | .dict kvs => .dict (dedupKvs (jsonLoadKvs kvs))
  | .list xs => .list (jsonLoadList xs)
  | t => t
def jsonLoadList : List Tree → List Tree
  | [] => []
  | x :: xs => jsonLoad x :: jsonLoadList xs
def jsonLoadKvs : List (Key × Tree) → List (Key × Tree)
  | [] => []
  | (k, v) :: rest => (k, jsonLoad v) :: jsonLoadKvs rest
end

/-- write with `save_to_json`, read with `json.load` -/
def jsonRoundTrip (c : Chain) (fb : Fallback) (t : Tree) : Except Err Tree :=
  match jsonEncode c fb t with
  | .ok j => .ok (jsonLoad j)
  | .error e => .error e

mutual
/-- in every dictionary the keys are distinct *as written to the file* (`{1: …, "1": …}` is excluded) -/
def KeysDistinct : Tree → Prop
  | .dict kvs => ((keysOf kvs).map renderKey).Nodup ∧ KeysDistinctKvs kvs
  | .list xs => KeysDistinctList xs
  | .tuple xs => KeysDistinctList xs
  | .ndarray _ _ flat => KeysDistinctList flat
  | .structured _ _ cells => KeysDistinctList cells
  | _ => True
def KeysDistinctList : List Tree → Prop
  | [] => True
  | x :: xs => KeysDistinct x ∧ KeysDistinctList xs
def KeysDistinctKvs : List (Key × Tree) → Prop
  | [] => True
  | (_, v) :: rest => KeysDistinct v ∧ KeysDistinctKvs rest
end

mutual
/-- every array holds exactly as many elements as its shape says (true of every numpy array) -/
def WellShaped : Tree → Prop
  | .dict kvs => WellShapedKvs kvs
  | .list xs => WellShapedList xs
  | .tuple xs => WellShapedList xs
  | .ndarray _ shape flat => flat.length = prod shape ∧ WellShapedList flat
  | .structured names nrows cells => cells.length = nrows * names.length ∧ WellShapedList cells
  | _ => True
def WellShapedList : List Tree → Prop
  | [] => True
  | x :: xs => WellShaped x ∧ WellShapedList xs
def WellShapedKvs : List (Key × Tree) → Prop
  | [] => True
  | (_, v) :: rest => WellShaped v ∧ WellShapedKvs rest
end

end NessaiVerif.Encode
