import NessaiVerif.Model.Np
import NessaiVerif.Driver.Parse
/- `np` — the NumPy primitive models on their own (validated against NumPy by harness/np_prims.py):
   `np ssl [a..] v` | `np ssr [a..] v` | `np insert [a..] [idx..] [vals..]` | `np argmax [0/1..]`
   | `np complement n [idx..]` | `np cumsum [a..]` | `np splitn n k` -/
namespace NessaiVerif.Driver.NpPrim
open NessaiVerif NessaiVerif.Parse NessaiVerif.Np

def handle (toks : List String) : String :=
  match toks with
  | ["ssl", a, v] =>
    match parseList? parseInt? a, parseInt? v with
    | some a, some v => toString (ssl a v)
    | _, _ => "bad-op"
  | ["ssr", a, v] =>
    match parseList? parseInt? a, parseInt? v with
    | some a, some v => toString (ssr a v)
    | _, _ => "bad-op"
  | ["insert", a, i, v] =>
    match parseList? parseInt? a, parseList? parseNat? i, parseList? parseInt? v with
    | some a, some i, some v =>
      if i.length ≠ v.length then "err=value" else showList toString (insertMany a i v 0)
    | _, _, _ => "bad-op"
  | ["argmax", b] =>
    match parseList? parseBool? b with
    | some b => if b.isEmpty then "err=value" else toString (argmaxBool b)
    | none => "bad-op"
  | ["complement", n, i] =>
    match parseNat? n, parseList? parseNat? i with
    | some n, some i => showList toString (complement n i)
    | _, _ => "bad-op"
  | ["cumsum", a] =>
    match parseList? parseInt? a with
    | some a => showList toString (cumsum a 0)
    | none => "bad-op"
  | _ => "bad-op"

end NessaiVerif.Driver.NpPrim
