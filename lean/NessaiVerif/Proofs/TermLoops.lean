import NessaiVerif.Model.Term
/-
C20 — helper lemmas for the remaining loop models: ImportanceFlowProposal.draw, check_batch_size,
batch halving and redraw loop of draw_final_samples, populate_live_points of both samplers.
-/
namespace NessaiVerif.Term

/-! ### ImportanceFlowProposal.draw -/

def HasOk (b : List (Nat × PK)) : Prop := ∃ p ∈ b, p.2 = PK.ok
def NoOk (b : List (Nat × PK)) : Prop := ∀ p ∈ b, p.2 ≠ PK.ok

instance (b : List (Nat × PK)) : Decidable (HasOk b) := by unfold HasOk; exact inferInstance
instance (b : List (Nat × PK)) : Decidable (NoOk b) := by unfold NoOk; exact inferInstance

theorem insStep_used (st : InsState) (b : List (Nat × PK)) : (insStep st b).used = st.used + 1 := by
  unfold insStep; simp only []; split
  · rfl
  · split <;> rfl

theorem insStep_len (st : InsState) (b : List (Nat × PK)) (h : st.xs.length = st.nAcc) :
    (insStep st b).xs.length = (insStep st b).nAcc := by
  unfold insStep; simp only []; split
  · exact h
  · split
    · exact h
    · simp [h]

theorem insStep_ok (st : InsState) (b : List (Nat × PK)) (h : HasOk b) : st.nAcc + 1 ≤ (insStep st b).nAcc := by
  obtain ⟨p, hp, hk⟩ := h
  have h1 : p ∈ b.filter (fun p => p.2 != PK.rej1) := by
    simp [List.mem_filter, hp, hk]
  have h2 : p ∈ (b.filter (fun p => p.2 != PK.rej1)).filter (fun p => p.2 == PK.ok) := by
    simp only [List.mem_filter]; exact ⟨List.mem_filter.mp h1, by simp [hk]⟩
  unfold insStep
  simp only []
  have e1 : (b.filter (fun p => p.2 != PK.rej1)).isEmpty = false := by
    cases h : b.filter (fun p => p.2 != PK.rej1) with
    | nil => rw [h] at h1; cases h1
    | cons _ _ => rfl
  have e2 : ((b.filter (fun p => p.2 != PK.rej1)).filter (fun p => p.2 == PK.ok)).isEmpty = false := by
    cases h : (b.filter (fun p => p.2 != PK.rej1)).filter (fun p => p.2 == PK.ok) with
    | nil => rw [h] at h2; cases h2
    | cons _ _ => rfl
  rw [e1, e2]
  simp only [Bool.false_eq_true, if_false]
  have : 1 ≤ ((b.filter (fun p => p.2 != PK.rej1)).filter (fun p => p.2 == PK.ok)).length :=
    List.length_pos_of_mem h2
  omega

theorem insStep_nook (st : InsState) (b : List (Nat × PK)) (h : NoOk b) : (insStep st b).nAcc = st.nAcc := by
  have e2 : (b.filter (fun p => p.2 != PK.rej1)).filter (fun p => p.2 == PK.ok) = [] := by
    apply List.filter_eq_nil_iff.mpr
    intro p hp
    have := h p (List.mem_filter.mp hp).1
    simpa using this
  unfold insStep
  simp only []
  split
  · rfl
  · rw [e2]; simp

theorem insLoop_done (n : Nat) (bs : List (List (Nat × PK))) (st : InsState)
    (hg : ∀ b ∈ bs, HasOk b) (hlen : n ≤ st.nAcc + bs.length) (hinv : st.xs.length = st.nAcc) :
    ∃ s, insLoop n bs st = .done s ∧ s.used + st.nAcc ≤ st.used + max n st.nAcc ∧
      (n ≤ s.nAcc ∨ insNDraw n = 0) ∧ s.xs.length = s.nAcc := by
  induction bs generalizing st with
  | nil =>
    simp only [List.length_nil, Nat.add_zero] at hlen
    exact ⟨st, by simp [insLoop, hlen], by omega, Or.inl hlen, hinv⟩
  | cons b bs ih =>
    unfold insLoop
    by_cases h : n ≤ st.nAcc ∨ insNDraw n = 0
    · exact ⟨st, by simp [h], by omega, h, hinv⟩
    · simp only [h, if_false]
      have h1 := insStep_ok st b (hg b (by simp))
      have h2 := insStep_used st b
      have h3 := insStep_len st b hinv
      obtain ⟨s, hs, hu, hn, hl⟩ := ih (insStep st b) (fun b' hb' => hg b' (by simp [hb']))
        (by simp only [List.length_cons] at hlen; omega) h3
      exact ⟨s, hs, by omega, hn, hl⟩

theorem insLoop_spin (n : Nat) (bs : List (List (Nat × PK))) (st : InsState)
    (hb : ∀ b ∈ bs, NoOk b) (hn : st.nAcc < n) (hd : insNDraw n ≠ 0) :
    ∃ s, insLoop n bs st = .spin s ∧ s.used = st.used + bs.length ∧ s.nAcc = st.nAcc := by
  induction bs generalizing st with
  | nil => exact ⟨st, by simp [insLoop, Nat.not_le.mpr hn, hd], by simp, rfl⟩
  | cons b bs ih =>
    unfold insLoop
    have : ¬ (n ≤ st.nAcc ∨ insNDraw n = 0) := by omega
    simp only [this, if_false]
    have h1 := insStep_nook st b (hb b (by simp))
    have h2 := insStep_used st b
    obtain ⟨s, hs, hu, ha⟩ := ih (insStep st b) (fun b' hb' => hb b' (by simp [hb'])) (by omega)
    exact ⟨s, hs, by simp only [List.length_cons]; omega, by omega⟩


/-- number of points of a batch that pass both masks -/
def okCount (b : List (Nat × PK)) : Nat := b.countP (fun p => p.2 == PK.ok)
/-- …and of a whole stream -/
def okTotal : List (List (Nat × PK)) → Nat
  | [] => 0
  | b :: bs => okCount b + okTotal bs

theorem filter_ok_length (b : List (Nat × PK)) :
    ((b.filter (fun p => p.2 != PK.rej1)).filter (fun p => p.2 == PK.ok)).length = okCount b := by
  unfold okCount
  rw [List.filter_filter, List.countP_eq_length_filter]
  congr 1
  apply List.filter_congr
  intro p _
  cases p.2 <;> rfl

/-- the loop body accepts exactly the points that pass both masks -/
theorem insStep_nAcc_eq (st : InsState) (b : List (Nat × PK)) : (insStep st b).nAcc = st.nAcc + okCount b := by
  have hlen := filter_ok_length b
  unfold insStep
  simp only []
  split
  · rename_i h1
    have : (b.filter (fun p => p.2 != PK.rej1)).filter (fun p => p.2 == PK.ok) = [] := by
      rw [List.isEmpty_iff.mp h1]; rfl
    rw [this] at hlen; simp at hlen; simp only []; omega
  · split
    · rename_i h2
      rw [List.isEmpty_iff.mp h2] at hlen; simp at hlen; simp only []; omega
    · simp only []; omega

/-- exact termination criterion of `ImportanceFlowProposal.draw` -/
theorem insLoop_isDone_iff (n : Nat) (hd : insNDraw n ≠ 0) (bs : List (List (Nat × PK))) (st : InsState) :
    (insLoop n bs st).isDone = true ↔ n ≤ st.nAcc + okTotal bs := by
  induction bs generalizing st with
  | nil =>
    unfold insLoop okTotal
    by_cases h : n ≤ st.nAcc <;> simp [h, hd, Outcome.isDone]
  | cons b bs ih =>
    unfold insLoop okTotal
    by_cases h : n ≤ st.nAcc
    · simp only [h, true_or, if_true, Outcome.isDone, true_iff]; omega
    · simp only [h, hd, or_self, if_false]
      rw [ih, insStep_nAcc_eq]; omega

theorem insNDraw_pos (n : Nat) (h : 1 ≤ n) : insNDraw n ≠ 0 := by
  unfold insNDraw; omega

/-! ### check_batch_size -/

theorem cbsLoop_no_fuel (len : Nat) (mb : Int) (fuel : Nat) (b : Int) (h1 : 1 ≤ fuel) (hb : b ≤ fuel) :
    cbsLoop len mb fuel b ≠ .error .fuel := by
  induction fuel generalizing b with
  | zero => omega
  | succ f ih =>
    unfold cbsLoop
    simp only []
    split
    · simp
    · split
      · simp
      · split
        · simp
        · split
          · simp
          · apply ih <;> omega

theorem cbsLoop_post (len : Nat) (mb : Int) (fuel : Nat) (b r : Int) (h : cbsLoop len mb fuel b = .ok r) :
    2 ≤ r ∧ r < b ∧ (Int.fmod len r = 0 ∨ mb ≤ Int.fmod len r ∨ (r ≤ mb ∧ 1 < Int.fmod len r)) := by
  induction fuel generalizing b with
  | zero => simp [cbsLoop] at h
  | succ f ih =>
    unfold cbsLoop at h
    simp only [] at h
    split at h
    · cases h
    · split at h
      · cases h
      · split at h
        · rename_i h2 hc
          injection h with h; subst h
          refine ⟨by omega, by omega, ?_⟩
          rcases hc with hc | hc
          · left; exact hc
          · right; left; exact hc
        · split at h
          · rename_i h2 _ hc
            injection h with h; subst h
            exact ⟨by omega, by omega, Or.inr (Or.inr hc)⟩
          · have := ih (b - 1) h
            exact ⟨this.1, by omega, this.2.2⟩

/-! ### batch halving -/

theorem halveLoop_no_fuel (mx : Int) (fuel b : Nat) (h : b < fuel) : halveLoop mx fuel b ≠ some none := by
  induction fuel generalizing b with
  | zero => omega
  | succ f ih =>
    unfold halveLoop
    split
    · split
      · simp
      · apply ih; omega
    · simp

theorem halveLoop_post (mx : Int) (fuel b r : Nat) (h : halveLoop mx fuel b = some (some r)) :
    (r : Int) ≤ mx ∧ r ≤ b := by
  induction fuel generalizing b with
  | zero => simp [halveLoop] at h
  | succ f ih =>
    unfold halveLoop at h
    split at h
    · split at h
      · cases h
      · have := ih (b / 2) h
        exact ⟨this.1, by have := Nat.div_le_self b 2; omega⟩
    · rename_i hc
      injection h with h; injection h with h; subst h
      exact ⟨by omega, Nat.le_refl _⟩

theorem halveLoop_err (mx : Int) (fuel b : Nat) (h : halveLoop mx fuel b = none) : mx < 1 := by
  induction fuel generalizing b with
  | zero => simp [halveLoop] at h
  | succ f ih =>
    unfold halveLoop at h
    split at h
    · split at h
      · omega
      · exact ih (b / 2) h
    · cases h

/-! ### the redraw loop of draw_final_samples -/

theorem finalExit_maxIts (cfg : FinalCfg) (st : FinalState) (h : cfg.maxIts ≤ (st.it : Int)) :
    finalExit cfg st ≠ none := by
  unfold finalExit
  split
  · simp
  · simp

/-- the exit reason is one of the four tests, never `fuel` -/
theorem finalExit_ne_fuel (cfg : FinalCfg) (st : FinalState) (e : FinalExit) (h : finalExit cfg st = some e) :
    e ≠ .fuel := by
  intro hf; subst hf
  unfold finalExit at h
  split at h
  · cases h
  · split at h
    · cases h
    · split at h
      · cases h
      · split at h <;> cases h

theorem finalLoop_bounded (cfg : FinalCfg) (s : List (Nat × Nat)) (st : FinalState)
    (hlen : (cfg.maxIts - st.it).toNat ≤ s.length) :
    (finalLoop cfg s st).1 ≠ .fuel ∧ ((finalLoop cfg s st).2.it : Int) ≤ max cfg.maxIts st.it := by
  induction s generalizing st with
  | nil =>
    simp only [List.length_nil] at hlen
    have hm : cfg.maxIts ≤ (st.it : Int) := by omega
    have := finalExit_maxIts cfg st hm
    unfold finalLoop
    cases he : finalExit cfg st with
    | none => exact absurd he this
    | some e =>
      simp only
      refine ⟨?_, by omega⟩
      exact finalExit_ne_fuel cfg st e he
  | cons p r ih =>
    obtain ⟨k, e2⟩ := p
    unfold finalLoop
    cases he : finalExit cfg st with
    | some e =>
      simp only
      refine ⟨?_, by omega⟩
      exact finalExit_ne_fuel cfg st e he
    | none =>
      simp only
      have hlt : (st.it : Int) < cfg.maxIts := by
        apply Classical.byContradiction
        intro hc
        exact finalExit_maxIts cfg st (by omega) he
      have := ih { it := st.it + 1, size := st.size + k, ess2 := e2 }
        (by simp only [List.length_cons] at hlen; simp only []; omega)
      simp only [] at this
      exact ⟨this.1, by omega⟩

/-! ### NestedSampler.populate_live_points -/

theorem nsLive_done (nlive : Nat) (cs : List Cand) (st : LiveState)
    (h : nlive ≤ st.i + cs.countP candStored) (hinv : st.ids.length = st.i) (hle : st.i ≤ nlive) :
    ∃ s, nsLive nlive cs st = .done s ∧ s.i = nlive ∧ s.ids.length = nlive ∧ s.draws ≤ st.draws + cs.length := by
  induction cs generalizing st with
  | nil =>
    simp only [List.countP_nil, Nat.add_zero] at h
    exact ⟨st, by simp [nsLive, h], by omega, by omega, by simp⟩
  | cons c r ih =>
    unfold nsLive
    by_cases hd : nlive ≤ st.i
    · exact ⟨st, by simp [hd], by omega, by omega, by simp⟩
    · simp only [hd, if_false]
      by_cases hc : candStored c = true
      · simp only [hc, if_true]
        obtain ⟨s, hs, h1, h2, h3⟩ := ih { i := st.i + 1, ids := st.ids ++ [c.id], draws := st.draws + 1 }
          (by simp only [List.countP_cons, hc, if_true] at h; simp only []; omega)
          (by simp [hinv]) (by simp only []; omega)
        exact ⟨s, hs, h1, h2, by simp only [List.length_cons] at *; omega⟩
      · simp only [hc, Bool.false_eq_true, if_false]
        obtain ⟨s, hs, h1, h2, h3⟩ := ih { st with draws := st.draws + 1 }
          (by simp only [List.countP_cons, hc, Bool.false_eq_true, if_false, Nat.add_zero] at h; exact h)
          hinv hle
        exact ⟨s, hs, h1, h2, by simp only [List.length_cons] at *; omega⟩

theorem nsLive_spin (nlive : Nat) (cs : List Cand) (st : LiveState)
    (h : ∀ c ∈ cs, candStored c = false) (hlt : st.i < nlive) :
    ∃ s, nsLive nlive cs st = .spin s ∧ s.i = st.i ∧ s.draws = st.draws + cs.length := by
  induction cs generalizing st with
  | nil => exact ⟨st, by simp [nsLive, Nat.not_le.mpr hlt], rfl, by simp⟩
  | cons c r ih =>
    unfold nsLive
    simp only [Nat.not_le.mpr hlt, if_false, h c (by simp), Bool.false_eq_true]
    obtain ⟨s, hs, h1, h2⟩ := ih { st with draws := st.draws + 1 } (fun c' hc' => h c' (by simp [hc'])) hlt
    exact ⟨s, hs, h1, by simp only [List.length_cons] at *; omega⟩


/-- exact termination criterion of `NestedSampler.populate_live_points` -/
theorem nsLive_isDone_iff (nlive : Nat) (cs : List Cand) (st : LiveState) :
    (nsLive nlive cs st).isDone = true ↔ nlive ≤ st.i + cs.countP candStored := by
  induction cs generalizing st with
  | nil =>
    unfold nsLive
    by_cases h : nlive ≤ st.i <;> simp [h, Outcome.isDone]
  | cons c r ih =>
    unfold nsLive
    by_cases h : nlive ≤ st.i
    · simp only [h, if_true, Outcome.isDone, true_iff]; omega
    · simp only [h, if_false]
      rw [ih, List.countP_cons]
      by_cases hc : candStored c = true
      · simp only [hc, if_true]; omega
      · simp only [hc, Bool.false_eq_true, if_false]; omega

/-- the long guard chain of the code is the conjunction "log-prior finite and log-likelihood finite" -/
theorem candStored_iff (c : Cand) : candStored c = (c.logP.isFinite && (candL c).isFinite) := by
  unfold candStored
  cases c.logP <;> cases candL c <;> rfl

/-! ### ImportanceNestedSampler.populate_live_points -/

def HasFinite (b : List (Nat × Bool)) : Prop := ∃ p ∈ b, p.2 = true

instance (b : List (Nat × Bool)) : Decidable (HasFinite b) := by unfold HasFinite; exact inferInstance

theorem insLive_done (target : Nat) (bs : List (List (Nat × Bool))) (st : InsLiveState)
    (hg : ∀ b ∈ bs, HasFinite b) (hlen : target ≤ st.n + bs.length) (hinv : st.ids.length = st.n)
    (hle : st.n ≤ target) :
    ∃ s, insLive target bs st = .done s ∧ s.n = target ∧ s.ids.length = target ∧
      s.used + st.n ≤ st.used + target := by
  induction bs generalizing st with
  | nil =>
    simp only [List.length_nil, Nat.add_zero] at hlen
    exact ⟨st, by simp [insLive, hlen], by omega, by omega, by omega⟩
  | cons b r ih =>
    unfold insLive
    by_cases hd : target ≤ st.n
    · exact ⟨st, by simp [hd], by omega, by omega, by omega⟩
    · simp only [hd, if_false]
      obtain ⟨p, hp, hf⟩ := hg b (by simp)
      have hpos : 1 ≤ ((b.filter (·.2)).map (·.1)).length := by
        rw [List.length_map]
        exact List.length_pos_of_mem (List.mem_filter.mpr ⟨hp, hf⟩)
      obtain ⟨s, hs, h1, h2, h3⟩ := ih
        { n := st.n + min ((b.filter (·.2)).map (·.1)).length (target - st.n),
          ids := st.ids ++ ((b.filter (·.2)).map (·.1)).take (min ((b.filter (·.2)).map (·.1)).length (target - st.n)),
          used := st.used + 1 }
        (fun b' hb' => hg b' (by simp [hb']))
        (by simp only [List.length_cons] at hlen; simp only []; omega)
        (by simp only [List.length_append, List.length_take]; omega)
        (by simp only []; omega)
      exact ⟨s, hs, h1, h2, by simp only [] at h3; omega⟩


/-- number of finite-prior points of a stream of prior batches -/
def finiteTotal : List (List (Nat × Bool)) → Nat
  | [] => 0
  | b :: bs => (b.filter (·.2)).length + finiteTotal bs

/-- exact termination criterion of `ImportanceNestedSampler.populate_live_points` -/
theorem insLive_isDone_iff (target : Nat) (bs : List (List (Nat × Bool))) (st : InsLiveState) (hle : st.n ≤ target) :
    (insLive target bs st).isDone = true ↔ target ≤ st.n + finiteTotal bs := by
  induction bs generalizing st with
  | nil =>
    unfold insLive finiteTotal
    by_cases h : target ≤ st.n <;> simp [h, Outcome.isDone]
  | cons b r ih =>
    unfold insLive finiteTotal
    by_cases h : target ≤ st.n
    · simp only [h, if_true, Outcome.isDone, true_iff]; omega
    · simp only [h, if_false]
      rw [ih _ (by simp only [List.length_map]; omega)]
      simp only [List.length_map]
      omega

theorem insLive_spin (target : Nat) (bs : List (List (Nat × Bool))) (st : InsLiveState)
    (hb : ∀ b ∈ bs, ∀ p ∈ b, p.2 = false) (hlt : st.n < target) :
    ∃ s, insLive target bs st = .spin s ∧ s.n = st.n ∧ s.used = st.used + bs.length := by
  induction bs generalizing st with
  | nil => exact ⟨st, by simp [insLive, Nat.not_le.mpr hlt], rfl, by simp⟩
  | cons b r ih =>
    unfold insLive
    simp only [Nat.not_le.mpr hlt, if_false]
    have he : b.filter (·.2) = [] := by
      apply List.filter_eq_nil_iff.mpr
      intro p hp; simp [hb b (by simp) p hp]
    rw [he]
    simp only [List.map_nil, List.length_nil, Nat.zero_min, Nat.add_zero, List.take_nil, List.append_nil]
    obtain ⟨s, hs, h1, h2⟩ := ih { n := st.n, ids := st.ids, used := st.used + 1 }
      (fun b' hb' => hb b' (by simp [hb'])) hlt
    exact ⟨s, hs, h1, by simp only [List.length_cons] at *; omega⟩

end NessaiVerif.Term
