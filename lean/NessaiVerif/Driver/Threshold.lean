import NessaiVerif.Driver.Parse
import NessaiVerif.Model.Threshold
import NessaiVerif.Gen.Threshold
import NessaiVerif.Gen.ThresholdTx
/- Line protocol of the `thr` area (C17).  Rationals travel as `p/q`, options as `none`/value. -/
namespace NessaiVerif.Driver.Threshold
open NessaiVerif NessaiVerif.Parse NessaiVerif.Np NessaiVerif.Threshold NessaiVerif.Gen.Threshold

def showClamp : Clamp → String
  | .early v => s!"early {v}"
  | .index n => s!"index {n}"

def showOutcome (logL : List Rat) : Outcome Rat → String
  | .early v => s!"early {v}"
  | .indexError => "err=index"
  | .threshold _ x => s!"thr {showRat x} removed={countBelow x logL} kept={countKept x logL}"

/--
* `thr clamp <n0> <size> <minS> <minR> <nlive> <maxS|none> <dc>` → the generated clamp and the position
  read on an array of that size: `pos <p>` | `err=index` | `early <v>`
* `thr full <logL list> <n0> <minS> <minR> <nlive> <maxS|none> <dc>` → `thr <x> removed=<r> kept=<k>` | `early <v>` | `err=index`
* `thr train <threshold> <logL list> <minS>` → start and length of `x[n_train:]` for the generated `n_train` with
  `k = argmax(logL >= threshold)` (`err=ValueError` on an empty array, as `np.argmax`)
* `thr entropy <q> <p list>` / `thr qidx <cutoff> <a list>` → raw index of the two methods
* `thr wq <tbl list> <vals list>` → `Σ (tbl[i+1]-tbl[i])·vals[i]`;  `thr ends <w list>` → end points
* `thr tx <a> <b> <c|none> <flag>` → translator self-test definition
-/
def handle (toks : List String) : String :=
  match toks with
  | ["clamp", n0, size, ms, mr, nl, mx, dc] =>
    match parseInt? n0, parseNat? size, parseInt? ms, parseInt? mr, parseInt? nl,
          parseOpt? parseInt? mx, parseBool? dc with
    | some n0, some size, some ms, some mr, some nl, some mx, some dc =>
      match clampIndex n0 size ms mr nl mx dc with
      | .early v => s!"early {v}"
      | .index n =>
        match pyIndex size n with
        | some p => s!"pos {p}"
        | none => "err=index"
    | _, _, _, _, _, _, _ => "bad-op"
  | ["full", ll, n0, ms, mr, nl, mx, dc] =>
    match parseList? parseRat? ll, parseInt? n0, parseInt? ms, parseInt? mr, parseInt? nl,
          parseOpt? parseInt? mx, parseBool? dc with
    | some ll, some n0, some ms, some mr, some nl, some mx, some dc =>
      showOutcome ll (finish ll (clampIndex n0 ll.length ms mr nl mx dc))
    | _, _, _, _, _, _, _ => "bad-op"
  | ["train", t, ll, ms] =>
    match parseRat? t, parseList? parseRat? ll, parseInt? ms with
    | some t, some ll, some ms =>
      -- np.argmax of an empty array raises ValueError
      if ll.isEmpty then "err=ValueError" else
      let k := quantileIndex ll t
      let n := nTrain ll.length ms k
      s!"start {pySliceStart ll.length n} len {pySliceLen ll.length n}"
    | _, _, _ => "bad-op"
  | ["entropy", q, p] =>
    match parseRat? q, parseList? parseRat? p with
    | some q, some p => if p.isEmpty then "err=index" else s!"n {entropyIndex p q}"
    | _, _ => "bad-op"
  | ["qidx", c, a] =>
    match parseRat? c, parseList? parseRat? a with
    | some c, some a => s!"n {quantileIndex a c}"
    | _, _ => "bad-op"
  | ["wq", t, v] =>
    match parseList? parseRat? t, parseList? parseRat? v with
    | some t, some v => showRat (wq t v)
    | _, _ => "bad-op"
  | ["ends", w] =>
    match parseList? parseRat? w with
    | some w => showList showRat (endPoints w)
    | _ => "bad-op"
  | ["tx", a, b, c, f] =>
    match parseInt? a, parseInt? b, parseOpt? parseInt? c, parseBool? f with
    | some a, some b, some c, some f => showClamp (NessaiVerif.Gen.ThresholdTx.txSelfTest a b c f)
    | _, _, _, _ => "bad-op"
  | _ => "bad-op"

end NessaiVerif.Driver.Threshold
