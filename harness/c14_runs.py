"""C14 helper — complete seeded runs of the real samplers in forked children, reduced to byte digests.

Every run happens in a child process forked from the (single-threaded at that moment) harness process, starts by
scrambling the ambient NumPy/torch generator state (see run_config), with one torch thread, a private output directory and logging disabled; the child sends back a small dictionary of sha256
digests (nested samples bytes, evidence, posterior weights, evaluation count) through a pipe.  `inproc=True` runs the
same function in the calling process instead (used for the "same process twice" comparison).
"""
import hashlib
import math
import multiprocessing
import os
import shutil
import tempfile
import traceback

import numpy as np

FIELDS = ("nested_samples", "log_evidence", "log_posterior_weights", "likelihood_evaluations")


# ------------------------------------------------------------------------------------------------ models
# The caller's configuration OBJECTS, as a user script holds them: defined once at module level and handed to every run of
# the process ("the same configuration").  A run that rewrites them in place changes what the next run is given.
USER_REPARAMETERISATIONS = {"x": {"reparameterisation": "rescaletobounds", "update_bounds": True},
                            "y": {"reparameterisation": "rescaletobounds"}}
USER_FLOW_CONFIG = dict(n_blocks=2, n_neurons=4, n_layers=1)
USER_TRAINING_CONFIG = dict(max_epochs=5, patience=5, batch_size=50)
# an odd number of coupling transforms (any per-process state that alternates per transform comes back different for the
# second flow built in a process: seeded change C14-gA) and the documented OLD-STYLE configuration, training keys inside
# flow_config (split by flowmodel.utils.update_config: seeded change C14-gB)
USER_FLOW_CONFIG_ODD = dict(n_blocks=3, n_neurons=4, n_layers=1)
USER_FLOW_CONFIG_OLD = dict(model_config=dict(n_blocks=2, n_neurons=4, n_layers=1), max_epochs=5, patience=5, batch_size=50)
USER_INS_FLOW_CONFIG = dict(n_blocks=2, n_neurons=8, n_layers=1)
USER_INS_TRAINING_CONFIG = dict(max_epochs=8, patience=5, batch_size=100)


def make_model(kind="vec"):
    """2-d Gaussian-like likelihood built from exactly rounded operations only (products/sums, dyadic constants):
    evaluating a batch and evaluating point by point give the same bits.
    kind: 'vec' (accepts batches), 'scalar' (raises on batches -> nessai's probe says 'not vectorised'),
    'vecr' ('vec' declaring its reparameterisations on the model, per parameter, the documented attribute)."""
    from nessai.model import Model

    class M(Model):
        if kind == "vecr":
            reparameterisations = USER_REPARAMETERISATIONS

        def __init__(self):
            self.names = ["x", "y"]
            self.bounds = {"x": [-4.0, 4.0], "y": [-4.0, 4.0]}
            self._lp0 = -math.log(64.0)

        def log_prior(self, x):
            lp = np.log(self.in_bounds(x), dtype="float")
            return lp + self._lp0

        def log_likelihood(self, x):
            if kind == "scalar" and np.ndim(x["x"]) != 0 and np.size(x["x"]) != 1:
                raise TypeError("pointwise likelihood")
            a = x["x"] - 0.5
            b = x["y"] + 0.25
            return -(a * a * 0.5 + b * b * 2.0) + a * b * 0.25

        def to_unit_hypercube(self, x):
            y = x.copy()
            for n in self.names:
                y[n] = (x[n] + 4.0) / 8.0
            return y

        def from_unit_hypercube(self, x):
            y = x.copy()
            for n in self.names:
                y[n] = 8.0 * x[n] - 4.0
            return y

    return M()


class SizelessPool:
    """a user pool whose size nessai cannot determine (no `_processes`): wraps a real fork pool"""

    def __init__(self, pool):
        self._p = pool

    def map(self, f, it):
        return self._p.map(f, it)

    def close(self):
        self._p.close()

    def join(self):
        self._p.join()

    def terminate(self):
        self._p.terminate()


# ------------------------------------------------------------------------------------------------ digests
def _h(*chunks):
    h = hashlib.sha256()
    for c in chunks:
        h.update(c)
    return h.hexdigest()[:24]


def digest_arrays(ns, logz, logw, nevals):
    ns = np.ascontiguousarray(ns)
    parts = []
    for name in ns.dtype.names:                       # every field, explicit order, raw bytes (nan-safe)
        parts.append(name.encode())
        parts.append(np.ascontiguousarray(ns[name]).tobytes())
    return {
        "nested_samples": _h(str(ns.dtype.descr).encode(), str(ns.shape).encode(), *parts),
        "log_evidence": _h(np.float64(logz).tobytes()),
        "log_posterior_weights": _h(np.ascontiguousarray(np.asarray(logw, dtype=np.float64)).tobytes()),
        "likelihood_evaluations": int(nevals),
        "n": int(ns.size),
    }


# ------------------------------------------------------------------------------------------------ the run
def _pool_kwargs(cfg, model):
    """returns (kwargs, user_pool or None)"""
    from nessai.utils.multiprocessing import initialise_pool_variables
    p = cfg.get("pool", "none")
    n = int(cfg.get("n_pool", 2))
    if p == "none":
        return {}, None
    if p == "n_pool":
        return {"n_pool": n}, None
    initialise_pool_variables(model)
    pool = multiprocessing.get_context("fork").Pool(n)
    if p == "user":
        return {"pool": pool}, pool
    if p == "user_sizeless":
        return {"pool": SizelessPool(pool)}, pool
    if p == "user_sizeless_npool":
        return {"pool": SizelessPool(pool), "n_pool": n}, pool
    raise ValueError(p)


def _flow_kwargs(cfg):
    kind = cfg.get("flowcfg", "user")
    if kind == "old":
        return dict(flow_config=USER_FLOW_CONFIG_OLD)
    tc = USER_TRAINING_CONFIG if cfg.get("max_epochs") is None else dict(max_epochs=cfg["max_epochs"], patience=5, batch_size=50)
    return dict(flow_config=USER_FLOW_CONFIG_ODD if kind == "odd" else USER_FLOW_CONFIG, training_config=tc)


def run_config(cfg, model=None):
    """one complete run of the real sampler; returns the digest dictionary"""
    import logging
    import torch
    from nessai.flowsampler import FlowSampler
    logging.disable(logging.CRITICAL)
    torch.set_num_threads(1)
    # A genuinely separate process starts from its own ambient generator state.  Fork children would all inherit the
    # parent's, which hides any dependence of a "seeded" run on that state — so every run first scrambles both global
    # generators, from the per-run value chosen by the harness (different for every compared run) or from the OS.
    amb = cfg.get("ambient")
    if amb is None:
        amb = int.from_bytes(os.urandom(4), "little")
    np.random.seed(int(amb) % (2 ** 32))
    torch.manual_seed(int(amb))
    out = tempfile.mkdtemp(prefix="c14_")
    user_pool = None
    try:
        if model is None:
            model = make_model(cfg.get("model", "vec"))
        pk, user_pool = _pool_kwargs(cfg, model)
        common = dict(output=out, resume=False, seed=int(cfg["seed"]), plot=False, signal_handling=False,
                      checkpointing=False, pytorch_threads=1, **pk)
        if cfg.get("chunk") is not None:
            common["likelihood_chunksize"] = cfg["chunk"]
        if cfg.get("parallelise_prior") is not None:
            common["parallelise_prior"] = cfg["parallelise_prior"]
        if cfg.get("disable_vectorisation"):
            common["disable_vectorisation"] = True
        if cfg["sampler"] == "ns":
            fs = FlowSampler(
                model, nlive=cfg.get("nlive", 50), max_iteration=cfg.get("max_iteration", 200),
                **_flow_kwargs(cfg),
                training_frequency=cfg.get("training_frequency", 50), maximum_uninformed=cfg.get("maximum_uninformed", 50),
                cooldown=25, **({} if cfg.get("poolsize", 100) is None else {"poolsize": cfg.get("poolsize", 100)}),
                **({"latent_prior": cfg["latent_prior"]} if cfg.get("latent_prior") else {}), **cfg.get("extra", {}), **common)
            fs.run(plot=False, save=False)
            ns = fs.ns
            d = digest_arrays(fs.nested_samples, fs.log_evidence, ns.state.log_posterior_weights,
                              ns.total_likelihood_evaluations)
        else:
            import contextlib
            from harness import c03
            real = cfg.get("flows", "fake") == "real"
            extra = dict(flow_config=USER_INS_FLOW_CONFIG, training_config=USER_INS_TRAINING_CONFIG) if real else {}
            with (contextlib.nullcontext() if real else c03.FakeFlows(2, cfg.get("reparam", "logit") == "logit", None)):
                fs = FlowSampler(
                    model, importance_nested_sampler=True, nlive=cfg.get("nlive", 100),
                    min_samples=cfg.get("min_samples", 20), min_remove=1,
                    max_iteration=cfg.get("levels", 3), min_iteration=cfg.get("levels", 3),
                    reparameterisation=cfg.get("reparam", "logit"), draw_iid_live=cfg.get("iid", True),
                    stopping_criterion="ratio", tolerance=-1e9, **extra, **common)
                fs.run(plot=False, save=False)
            ns = fs.ns
            d = digest_arrays(fs.nested_samples, fs.log_evidence, ns.log_posterior_weights,
                              ns.total_likelihood_evaluations)
        d["vectorised"] = bool(model._vectorised_likelihood) if model._vectorised_likelihood is not None else None
        d["allow_vectorised"] = bool(model.allow_vectorised)
        return d
    finally:
        logging.disable(logging.NOTSET)
        if user_pool is not None:
            try:
                user_pool.terminate()
                user_pool.join()
            except Exception:  # noqa
                pass
        shutil.rmtree(out, ignore_errors=True)
        try:
            from nessai import config
            config.livepoints.reset()
        except Exception:  # noqa
            pass


# ------------------------------------------------------------------------------------------------ dynamic tracing
SETTINGS = ("pool", "n_pool", "likelihood_chunksize", "parallelise_prior", "allow_vectorised")
TORCH_FNS = ("rand", "randn", "randint", "randperm", "rand_like", "randn_like", "normal", "bernoulli", "multinomial",
             "manual_seed")


def _qual(code):
    q = getattr(code, "co_qualname", code.co_name)
    return q.replace(".<locals>", "").replace(".<lambda>", "")


class Tracer:
    """records, for calls made directly from nessai source files, (file, function, line, name) of every
    `numpy.random.*` / `torch.<draw>` call and of every read of a parallelisation setting on the model object.
    The wrappers call straight through: the random streams are untouched."""

    def __init__(self, repo):
        self.root = os.path.join(os.path.realpath(str(repo)), "nessai") + os.sep
        self.repo = os.path.realpath(str(repo)) + os.sep
        self.rng, self.reads = set(), set()
        self.order = []          # the first RNG events in execution order (file, function, name)
        self._undo = []

    def _note(self, bucket, name, depth=2):
        import sys
        f = sys._getframe(depth)
        fn = os.path.realpath(f.f_code.co_filename)
        if fn.startswith(self.root):
            bucket.add((fn[len(self.repo):], _qual(f.f_code), f.f_lineno, name))

    def __enter__(self):
        import numpy.random as npr
        import torch
        import types
        for name in dir(npr):
            obj = getattr(npr, name)
            if name.startswith("_") or isinstance(obj, (type, types.ModuleType)) or not callable(obj):
                continue
            self._wrap(npr, name, obj, "numpy.random." + name)
        for name in TORCH_FNS:
            self._wrap(torch, name, getattr(torch, name), "torch." + name)
        return self

    def _wrap(self, mod, name, obj, label):
        outer = self

        def wrapper(*a, **k):
            n = len(outer.rng)
            outer._note(outer.rng, label)
            if len(outer.order) < 400:
                import sys
                f = sys._getframe(1)
                fn = os.path.realpath(f.f_code.co_filename)
                if fn.startswith(outer.root):
                    outer.order.append((fn[len(outer.repo):], _qual(f.f_code), label))
            del n
            return obj(*a, **k)

        self._undo.append((mod, name, obj))
        setattr(mod, name, wrapper)

    def __exit__(self, *a):
        for mod, name, obj in self._undo:
            setattr(mod, name, obj)

    def traced_model(self, kind):
        base = make_model(kind)
        outer = self

        class Traced(type(base)):
            def __getattribute__(self_, name):
                if name in SETTINGS:
                    outer._note(outer.reads, name)
                return object.__getattribute__(self_, name)

        return Traced()


def run_job(cfg):
    """a job is one run, or `repeat` runs in this same process, or a traced run.  Every run builds a FRESH Model instance;
    `reuse_model` exists only for the out-of-domain observation recorded (never judged) by harness/c14.py"""
    if cfg.get("trace"):
        from harness import core
        with Tracer(core.REPO) as tr:
            d = run_config(cfg, model=tr.traced_model(cfg.get("model", "vec")))
        d["rng_calls"] = sorted(tr.rng)
        d["setting_reads"] = sorted(tr.reads)
        d["rng_order"] = list(tr.order)
        return d
    if cfg.get("prelude"):
        # a DIFFERENT run first, in this same process: whatever it leaves behind (module-level registries, caches, default
        # dtypes, generator states) must not change the seeded run that follows
        run_config({**cfg["prelude"], "ambient": cfg.get("ambient")})
        return run_config({k: v for k, v in cfg.items() if k != "prelude"})
    if cfg.get("repeat"):
        model = make_model(cfg.get("model", "vec")) if cfg.get("reuse_model") else None
        seq = []
        for k in range(int(cfg["repeat"])):
            c = dict(cfg) if cfg.get("ambient") is None else {**cfg, "ambient": int(cfg["ambient"]) + 7919 * k}
            seq.append(run_config(c, model=model))
        return {"seq": seq}
    return run_config(cfg)


def _child(conn, cfg):
    try:
        import sys
        sys.stderr = open(os.devnull, "w")
        conn.send(("ok", run_job(cfg)))
    except BaseException as e:  # noqa
        conn.send(("err", f"{type(e).__name__}: {e}\n{traceback.format_exc()[-1500:]}"))
    finally:
        conn.close()
        os._exit(0)


def run_forked(cfg, timeout=600):
    """run_config in a forked child; returns ('ok', digests) or ('err', text)"""
    ctx = multiprocessing.get_context("fork")
    a, b = ctx.Pipe(duplex=False)
    p = ctx.Process(target=_child, args=(b, cfg))
    p.start()
    b.close()
    try:
        if a.poll(timeout):
            res = a.recv()
        else:
            res = ("err", "timeout")
    except EOFError:
        res = ("err", "child died without result")
    finally:
        p.join(5)
        if p.is_alive():
            p.kill()
            p.join()
    return res


def run_many(cfgs, jobs=1, timeout=600):
    """run a list of configs, up to `jobs` children at a time (each child is its own process, so the runs are
    independent of each other by construction); results in input order"""
    ctx = multiprocessing.get_context("fork")
    res = [None] * len(cfgs)
    pending = list(enumerate(cfgs))
    active = []
    while pending or active:
        while pending and len(active) < jobs:
            i, cfg = pending.pop(0)
            a, b = ctx.Pipe(duplex=False)
            p = ctx.Process(target=_child, args=(b, cfg))
            p.start()
            b.close()
            active.append((i, p, a))
        still = []
        for i, p, a in active:
            if a.poll(0.05):
                try:
                    res[i] = a.recv()
                except EOFError:
                    res[i] = ("err", "child died without result")
                p.join(5)
                if p.is_alive():
                    p.kill()
                    p.join()
            elif not p.is_alive():
                res[i] = ("err", "child died without result") if not a.poll(0.2) else a.recv()
                p.join()
            else:
                still.append((i, p, a))
        active = still
    return res


def start_fresh_interpreter(cfg, hashseed):
    """the same job in a brand-new interpreter (own import of nessai, own hash randomisation seed)"""
    import json
    import subprocess
    import sys
    env = dict(os.environ, PYTHONHASHSEED=str(hashseed))
    return subprocess.Popen([sys.executable, "-m", "harness.c14_runs", json.dumps(cfg)], env=env,
                            stdout=subprocess.PIPE, stderr=subprocess.DEVNULL, text=True)


def finish_fresh_interpreter(proc, timeout=600):
    import json
    try:
        out, _ = proc.communicate(timeout=timeout)
    except Exception as e:  # noqa
        proc.kill()
        return ("err", f"fresh interpreter: {e}")
    for line in reversed(out.strip().split("\n")):
        if line.startswith("C14RESULT "):
            return tuple(json.loads(line[len("C14RESULT "):]))
    return ("err", "fresh interpreter produced no result: " + out[-300:])


if __name__ == "__main__":
    import json
    import sys
    try:
        res = ("ok", run_job(json.loads(sys.argv[1])))
    except BaseException as e:  # noqa
        res = ("err", f"{type(e).__name__}: {e}")
    print("C14RESULT " + json.dumps(res))
