import NessaiVerif.Model.Pool
/-
C09 — handing out pool points (core Lean only).
-/
namespace NessaiVerif.Pool

/-- everything handed out so far is an index that is no longer available -/
structure HInv (st : HState) (seen : List (Nat × Nat)) : Prop where
  seenNodup : seen.Nodup
  idxNodup : st.indices.Nodup
  old : ∀ k ∈ seen, k.1 < st.count ∨ (k.1 = st.count ∧ k.2 ∉ st.indices)

theorem getLast?_dropLast {α : Type} {l : List α} {a : α} (h : l.getLast? = some a) : l = l.dropLast ++ [a] := by
  have hne : l ≠ [] := by intro e; subst e; simp at h
  have := List.dropLast_concat_getLast hne
  rw [List.getLast?_eq_some_getLast hne] at h
  cases h
  exact this.symm

theorem popIndex_inv {st : HState} {seen : List (Nat × Nat)} (hi : HInv st seen) :
    HInv (popIndex st).1 (seen ++ handedKeys [(popIndex st).2]) := by
  unfold popIndex
  cases hl : st.indices.getLast? with
  | none => simpa [handedKeys] using hi
  | some i =>
    have hsplit := getLast?_dropLast hl
    have hnd : (st.indices.dropLast ++ [i]).Nodup := hsplit ▸ hi.idxNodup
    have hnd' := List.nodup_append.1 hnd
    have hi_mem : i ∈ st.indices := by rw [hsplit]; simp
    have hi_not : i ∉ st.indices.dropLast := fun hm => hnd'.2.2 i hm i (by simp) rfl
    simp only [handedKeys]
    refine ⟨?_, hnd'.1, ?_⟩
    · refine List.nodup_append.2 ⟨hi.seenNodup, by simp, ?_⟩
      intro a ha b hb
      simp at hb
      subst hb
      intro e
      subst e
      rcases hi.old _ ha with h | h
      · exact absurd h (Nat.lt_irrefl _)
      · exact h.2 hi_mem
    · intro k hk
      rcases List.mem_append.1 hk with hk | hk
      · rcases hi.old k hk with h | h
        · exact Or.inl h
        · exact Or.inr ⟨h.1, fun hm => h.2 (List.dropLast_subset _ hm)⟩
      · simp at hk
        subst hk
        exact Or.inr ⟨rfl, hi_not⟩

theorem install_inv {st : HState} {seen : List (Nat × Nat)} (hi : HInv st seen) (p : Pop) (hp : p.indices.Nodup) :
    HInv (install st p) seen := by
  refine ⟨hi.seenNodup, hp, ?_⟩
  intro k hk
  left
  show k.1 < st.count + 1
  rcases hi.old k hk with h | h <;> omega

theorem hrun_nodup :
    ∀ (ops : List Op) (st : HState) (pops : List Pop) (seen : List (Nat × Nat)),
      (∀ p ∈ pops, p.indices.Nodup) → HInv st seen → (seen ++ handedKeys (hrun st pops ops)).Nodup := by
  intro ops
  induction ops with
  | nil => intro st pops seen _ hi; simpa [hrun, handedKeys] using hi.seenNodup
  | cons op ops ih =>
    intro st pops seen hp hi
    have key : ∀ (o : Out) (rest : List Out),
        seen ++ handedKeys (o :: rest) = (seen ++ handedKeys [o]) ++ handedKeys rest := by
      intro o rest; cases o <;> simp [handedKeys]
    cases op with
    | inval =>
      simp only [hrun, hstep]
      rw [key]
      exact ih _ _ _ hp (by simpa [handedKeys] using (⟨hi.seenNodup, hi.idxNodup, hi.old⟩ : HInv { st with populated := false } seen))
    | draw =>
      simp only [hrun, hstep]
      split
      · rw [key]
        exact ih _ _ _ hp (popIndex_inv hi)
      · cases pops with
        | nil =>
          simp only
          rw [key]
          exact ih _ _ _ hp (by simpa [handedKeys] using hi)
        | cons p pops =>
          simp only
          rw [key]
          exact ih _ _ _ (fun q hq => hp q (List.mem_cons_of_mem _ hq))
            (popIndex_inv (install_inv hi p (hp p List.mem_cons_self)))

/-- the scripted permutation is a permutation of `range n` (what `np.random.permutation(n)` promises) -/
theorem permOf_perm (keys : List Int) (n : Nat) : (permOf keys n).Perm (List.range n) :=
  List.mergeSort_perm _ _

theorem permOf_nodup (keys : List Int) (n : Nat) : (permOf keys n).Nodup :=
  (permOf_perm keys n).nodup_iff.2 List.nodup_range

/-- the pool the proposal currently hands out from is the one of the latest population -/
structure CInv (st : HState) (done : List Pop) : Prop where
  count : st.count = done.length
  cur : ∀ i ∈ st.indices, ∃ p, done.getLast? = some p ∧ st.pool = p.pool ∧ i ∈ p.indices

/-- what a handed-out point must be: entry `idx` of the pool of population number `count` -/
def FromPop (all : List Pop) : Out → Prop
  | .handed c i id => ∃ p, 0 < c ∧ all[c - 1]? = some p ∧ i ∈ p.indices ∧ id = p.pool[i]?
  | _ => True

theorem popIndex_from {st : HState} {done : List Pop} (rest : List Pop) (hi : CInv st done) :
    CInv (popIndex st).1 done ∧ FromPop (done ++ rest) (popIndex st).2 := by
  unfold popIndex
  cases hl : st.indices.getLast? with
  | none => exact ⟨hi, trivial⟩
  | some i =>
    have hsplit := getLast?_dropLast hl
    have hi_mem : i ∈ st.indices := by rw [hsplit]; simp
    obtain ⟨p, hp, hpool, hip⟩ := hi.cur i hi_mem
    refine ⟨⟨hi.count, fun j hj => hi.cur j (List.dropLast_subset _ hj)⟩, ?_⟩
    have hne : done ≠ [] := by intro e; subst e; simp at hp
    have hlen : 0 < done.length := List.length_pos_iff.2 hne
    refine ⟨p, by rw [hi.count]; exact hlen, ?_, hip, by rw [hpool]⟩
    rw [hi.count, List.getElem?_append_left (by omega), ← List.getLast?_eq_getElem?]
    exact hp

theorem hrun_from :
    ∀ (ops : List Op) (st : HState) (pops done : List Pop),
      CInv st done → ∀ o ∈ hrun st pops ops, FromPop (done ++ pops) o := by
  intro ops
  induction ops with
  | nil => intro st pops done _ o ho; simp [hrun] at ho
  | cons op ops ih =>
    intro st pops done hi o ho
    cases op with
    | inval =>
      simp only [hrun, hstep, List.mem_cons] at ho
      rcases ho with ho | ho
      · subst ho; trivial
      · exact ih { st with populated := false } _ _ ⟨hi.count, hi.cur⟩ o ho
    | draw =>
      simp only [hrun, hstep] at ho
      split at ho
      · simp only [List.mem_cons] at ho
        have := popIndex_from pops hi
        rcases ho with ho | ho
        · subst ho; exact this.2
        · exact ih _ _ _ this.1 o ho
      · cases pops with
        | nil =>
          simp only [List.mem_cons] at ho
          rcases ho with ho | ho
          · subst ho; trivial
          · exact ih _ _ _ hi o ho
        | cons p pops =>
          simp only [List.mem_cons] at ho
          have hi' : CInv (install st p) (done ++ [p]) :=
            ⟨by simp [install, hi.count], fun i hi' => ⟨p, by simp, rfl, hi'⟩⟩
          have := popIndex_from pops hi'
          have e : done ++ p :: pops = (done ++ [p]) ++ pops := by simp
          rw [e]
          rcases ho with ho | ho
          · subst ho; exact this.2
          · exact ih _ _ _ this.1 o ho

end NessaiVerif.Pool
