"""C15 translator: Python `ast` of the two sampling loops → lean/NessaiVerif/Gen/Loops.lean.

What is read from the source on every run (and nothing else is assumed about it):
  NestedSampler.nested_sampling_loop   entry short-circuit, `while` test, break tests and their position
                                        (before / after the body), the guard of `self.finalise()`, finalise
                                        before the final checkpoint
  NestedSampler.finalise               the `for i, p in enumerate(self.live_points)` loop (nlive expression,
                                        order increment/append), `live_points = None`, `finalised = True`
  NestedSampler.configure_max_iteration
  ImportanceNestedSampler.nested_sampling_loop / finalise / reached_tolerance / configure_iterations /
      configure_stopping_criterion / stopping_criterion_aliases
A construct outside the small language below raises `Tx` (reported as `translator: …`).
"""
import ast
import hashlib
from pathlib import Path

NS = "nessai/samplers/nestedsampler.py"
INS = "nessai/samplers/importancesampler.py"


class Tx(Exception):
    pass


# ------------------------------------------------------------------------------------------------ helpers
def _cls(tree, name):
    for n in tree.body:
        if isinstance(n, ast.ClassDef) and n.name == name:
            return n
    raise Tx(f"class {name} not found")


def _fn(cls, name):
    for n in cls.body:
        if isinstance(n, ast.FunctionDef) and n.name == name:
            return n
    raise Tx(f"{cls.name}.{name} not found")


def _body(fn):
    b = list(fn.body)
    if b and isinstance(b[0], ast.Expr) and isinstance(b[0].value, ast.Constant) and isinstance(b[0].value.value, str):
        b = b[1:]
    return b


def _u(n):
    return ast.unparse(n)


def _is_logging(stmt):
    return (isinstance(stmt, ast.Expr) and isinstance(stmt.value, ast.Call)
            and _u(stmt.value.func) in ("logger.debug", "logger.info", "logger.warning", "logger.critical", "logger.error"))


def _has(node, kinds):
    return any(isinstance(n, kinds) for n in ast.walk(node))


OPS = {ast.Gt: ">", ast.GtE: "≥", ast.Lt: "<", ast.LtE: "≤", ast.Eq: "=", ast.NotEq: "≠"}
CAPOPS = {ast.Gt: "gt", ast.GtE: "ge", ast.Lt: "lt", ast.LtE: "le", ast.Eq: "eq", ast.NotEq: "ne"}
MIRROR = {ast.Gt: ast.Lt, ast.GtE: ast.LtE, ast.Lt: ast.Gt, ast.LtE: ast.GtE, ast.Eq: ast.Eq, ast.NotEq: ast.NotEq}


def tx_bool(node, env):
    """Python condition → Lean `Bool` term.  env: unparse text → (lean, type) with type in K/Int/Cap/Bool"""
    if isinstance(node, ast.BoolOp):
        op = " && " if isinstance(node.op, ast.And) else " || "
        return "(" + op.join(tx_bool(v, env) for v in node.values) + ")"
    if isinstance(node, ast.UnaryOp) and isinstance(node.op, ast.Not):
        return "(!" + tx_bool(node.operand, env) + ")"
    if isinstance(node, ast.Constant) and isinstance(node.value, bool):
        return "true" if node.value else "false"
    if isinstance(node, ast.Compare):
        if len(node.ops) != 1:
            raise Tx("chained comparison: " + _u(node))
        a, ta = tx_val(node.left, env)
        b, tb = tx_val(node.comparators[0], env)
        op = type(node.ops[0])
        if op not in OPS:
            raise Tx("comparison operator: " + _u(node))
        if ta == tb and ta in ("K", "Int"):
            return f"decide ({a} {OPS[op]} {b})"
        if (ta, tb) == ("Int", "Cap"):
            return f"Cap.{CAPOPS[op]} {a} {b}"
        if (ta, tb) == ("Cap", "Int"):
            return f"Cap.{CAPOPS[MIRROR[op]]} {b} {a}"
        raise Tx(f"comparison between {ta} and {tb}: " + _u(node))
    t = _u(node)
    if t in env and env[t][1] == "Bool":
        return env[t][0]
    raise Tx("condition: " + t)


def tx_val(node, env):
    t = _u(node)
    if t in env:
        return env[t]
    if isinstance(node, ast.Constant) and isinstance(node.value, int) and not isinstance(node.value, bool):
        return (str(node.value) if node.value >= 0 else f"({node.value})"), "Int"
    if isinstance(node, ast.UnaryOp) and isinstance(node.op, ast.USub):
        a, ta = tx_val(node.operand, env)
        if ta == "Int":
            return f"(-{a})", "Int"
    if isinstance(node, ast.BinOp) and isinstance(node.op, (ast.Add, ast.Sub, ast.Mult)):
        a, ta = tx_val(node.left, env)
        b, tb = tx_val(node.right, env)
        if ta == tb == "Int":
            return f"({a} {'+' if isinstance(node.op, ast.Add) else '-' if isinstance(node.op, ast.Sub) else '*'} {b})", "Int"
    raise Tx("value: " + t)


def _break_if(stmt):
    """`if test: [logging…] break` without else → test, otherwise None"""
    if not isinstance(stmt, ast.If) or stmt.orelse:
        return None
    body = [s for s in stmt.body if not _is_logging(s)]
    if len(body) == 1 and isinstance(body[0], ast.Break):
        return stmt.test
    return None


def _stmt_name(stmt):
    """short name of a body statement that is not a break test"""
    if _is_logging(stmt):
        return None
    if isinstance(stmt, ast.Expr) and isinstance(stmt.value, ast.Call):
        return _u(stmt.value.func).replace("self.", "")
    if isinstance(stmt, ast.AugAssign):
        return _u(stmt.target).replace("self.", "") + {ast.Add: "+=", ast.Sub: "-="}.get(type(stmt.op), "?=") + _u(stmt.value)
    if isinstance(stmt, ast.Assign) and len(stmt.targets) == 1:
        return _u(stmt.targets[0]).replace("self.", "") + "=" + (
            _u(stmt.value.func).replace("self.", "") if isinstance(stmt.value, ast.Call) else "…")
    if isinstance(stmt, ast.If):
        if _has(stmt, (ast.Break, ast.Continue, ast.Return)):
            raise Tx("break/continue/return nested in the loop body: " + _u(stmt).split("\n")[0])
        names = []
        for s in stmt.body + stmt.orelse:
            n = _stmt_name(s)
            if n:
                names.append(n)
        return "if(" + "|".join(names) + ")"
    raise Tx("loop body statement: " + _u(stmt).split("\n")[0])


def _ret_elts(node):
    """the expressions of a returned tuple (or the single returned expression), as source text"""
    if node is None:
        return []
    if isinstance(node, ast.Tuple):
        return [_u(e) for e in node.elts]
    return [_u(node)]


def loop_shape(fn, env, what):
    """entry short-circuit, while test, top/bottom break tests, body statement names, finalise guard,
    finalise-before-checkpoint"""
    body = _body(fn)
    if not body or not isinstance(body[0], ast.If) or body[0].orelse or not isinstance(body[0].body[-1], ast.Return):
        raise Tx(f"{what}: first statement is not `if …: return`")
    entry = tx_bool(body[0].test, env)
    entry_ret = _u(body[0].body[-1].value)
    entry_elts = _ret_elts(body[0].body[-1].value)
    whiles = [i for i, s in enumerate(body) if isinstance(s, ast.While)]
    if len(whiles) != 1:
        raise Tx(f"{what}: expected exactly one top-level while loop, found {len(whiles)}")
    wi = whiles[0]
    w = body[wi]
    if w.orelse:
        raise Tx(f"{what}: while/else")
    wtest = tx_bool(w.test, env)
    stmts = list(w.body)
    tops, bots = [], []
    while stmts and _break_if(stmts[0]) is not None:
        tops.append(_break_if(stmts.pop(0)))
    while stmts and _break_if(stmts[-1]) is not None:
        bots.insert(0, _break_if(stmts.pop()))
    names = []
    for s in stmts:
        if _break_if(s) is not None:
            raise Tx(f"{what}: break test in the middle of the loop body: " + _u(s).split("\n")[0])
        n = _stmt_name(s)
        if n:
            names.append(n)
    top = "(" + " || ".join(tx_bool(t, env) for t in tops) + ")" if tops else "false"
    bot = "(" + " || ".join(tx_bool(t, env) for t in bots) + ")" if bots else "false"
    # finalise after the loop
    fin_guard, fin_idx, ck_idx, final_ret, final_elts = None, None, None, None, None
    for i, s in enumerate(body[wi + 1:], wi + 1):
        if isinstance(s, ast.Expr) and _u(s.value) == "self.finalise()" and fin_guard is None:
            fin_guard, fin_idx = "true", i
        elif isinstance(s, ast.If) and not s.orelse and any(
                isinstance(b, ast.Expr) and _u(b.value) == "self.finalise()" for b in s.body) and fin_guard is None:
            fin_guard, fin_idx = tx_bool(s.test, env), i
        elif isinstance(s, ast.Expr) and _u(s.value).startswith("self.checkpoint(") and ck_idx is None:
            ck_idx = i
        elif isinstance(s, ast.Return):
            final_ret = _u(s.value)
            final_elts = _ret_elts(s.value)
    if fin_guard is None:
        raise Tx(f"{what}: no call of self.finalise() after the loop")
    if final_elts is None:
        raise Tx(f"{what}: no return statement after the loop")
    return dict(entry=entry, entry_ret=entry_ret, entry_elts=entry_elts, final_elts=final_elts, wtest=wtest, top=top, bot=bot, names=names, fin_guard=fin_guard,
                fin_before_ckpt=(ck_idx is None or fin_idx < ck_idx), has_ckpt=ck_idx is not None, final_ret=final_ret,
                lines=(fn.lineno, fn.end_lineno))


def std_finalise(fn):
    body = [s for s in _body(fn) if not _is_logging(s)]
    fors = [s for s in body if isinstance(s, ast.For)]
    if len(fors) != 1:
        raise Tx("NestedSampler.finalise: expected one for loop")
    f = fors[0]
    if _u(f.target) != "(i, p)" or _u(f.iter) != "enumerate(self.live_points)" or f.orelse:
        raise Tx("NestedSampler.finalise: loop header " + _u(f.target) + " in " + _u(f.iter))
    fb = [s for s in f.body if not _is_logging(s)]
    if len(fb) != 2:
        raise Tx("NestedSampler.finalise: loop body has %d statements" % len(fb))
    c0 = fb[0].value if isinstance(fb[0], ast.Expr) else None
    if not (isinstance(c0, ast.Call) and _u(c0.func) == "self.state.increment" and len(c0.args) == 1
            and _u(c0.args[0]) == "p['logL']" and len(c0.keywords) == 1 and c0.keywords[0].arg == "nlive"):
        raise Tx("NestedSampler.finalise: first loop statement " + _u(fb[0]))
    nl, t = tx_val(c0.keywords[0].value, {"self.nlive": ("nlive", "Int"), "i": ("(i : Int)", "Int")})
    if _u(fb[1]) != "self.nested_samples.append(p)":
        raise Tx("NestedSampler.finalise: second loop statement " + _u(fb[1]))
    rest = [_u(s) for s in body[body.index(f) + 1:]]
    clears = "self.live_points = None" in rest
    sets = "self.finalised = True" in rest
    before = [_u(s) for s in body[:body.index(f)]]
    if any("finalised" in b or "live_points" in b for b in before):
        raise Tx("NestedSampler.finalise: statements touching the flags before the loop")
    return dict(nl=nl, clears=clears, sets=sets, lines=(fn.lineno, fn.end_lineno))


def ins_finalise(fn):
    body = [s for s in _body(fn) if not _is_logging(s)]
    if not (isinstance(body[0], ast.If) and _u(body[0].test) == "self.finalised"
            and isinstance(body[0].body[-1], ast.Return) and not body[0].orelse):
        raise Tx("ImportanceNestedSampler.finalise: first statement is not `if self.finalised: return`")
    texts = [_u(s) for s in body]
    try:
        i_tr = texts.index("self.training_samples.finalise()")
        i_iid = next(i for i, t in enumerate(texts) if t.replace("\n", " ").split()[:2] == ["if", "self.draw_iid_live:"]
                     and "self.iid_samples.finalise()" in t)
        i_set = texts.index("self.finalised = True")
    except (ValueError, StopIteration):
        raise Tx("ImportanceNestedSampler.finalise: finalise of the sample stores / flag assignment not found")
    i_ck = next((i for i, t in enumerate(texts) if t.startswith("self.checkpoint(")), None)
    return dict(set_before_ckpt=(i_ck is None or i_set < i_ck), stores_first=(max(i_tr, i_iid) < i_set),
                lines=(fn.lineno, fn.end_lineno))


def os_finalise(fn):
    texts = [_u(s) for s in _body(fn) if not _is_logging(s)]
    want = ["self.add_to_nested_samples(self.live_points_indices)", "self.live_points = None"]
    if texts[:2] != want:
        raise Tx("OrderedSamples.finalise: " + "; ".join(texts))
    return dict(lines=(fn.lineno, fn.end_lineno))


def reached(fn):
    node = fn
    body = _body(node)
    if len(body) != 1 or not isinstance(body[0], ast.If) or not body[0].orelse:
        raise Tx("reached_tolerance: expected `if self._stop_any: … else: …`")
    test = tx_bool(body[0].test, {"self._stop_any": ("s.stopAny", "Bool")})

    def branch(stmts):
        if len(stmts) != 1 or not isinstance(stmts[0], ast.Return):
            raise Tx("reached_tolerance: branch is not a single return")
        c = stmts[0].value
        if not (isinstance(c, ast.Call) and isinstance(c.func, ast.Name) and c.func.id in ("any", "all") and len(c.args) == 1):
            raise Tx("reached_tolerance: " + _u(c))
        lc = c.args[0]
        if not isinstance(lc, (ast.ListComp, ast.GeneratorExp)) or len(lc.generators) != 1 or lc.generators[0].ifs:
            raise Tx("reached_tolerance: " + _u(lc))
        g = lc.generators[0]
        if _u(g.iter) != "zip(self.criterion, self.tolerance)" or not isinstance(g.target, ast.Tuple) or len(g.target.elts) != 2:
            raise Tx("reached_tolerance: generator " + _u(g.iter))
        a, b = (_u(e) for e in g.target.elts)
        test = tx_bool(lc.elt, {a: ("c", "K"), b: ("t", "K")})
        return c.func.id, test

    return dict(test=test, any_branch=branch(body[0].body), else_branch=branch(body[0].orelse), lines=(fn.lineno, fn.end_lineno))


def _none_default(stmt, var, attr):
    """`if var is None: self.attr = D else: self.attr = E` → (D node, E node)"""
    if not (isinstance(stmt, ast.If) and _u(stmt.test) == f"{var} is None" and len(stmt.body) == 1 and len(stmt.orelse) == 1):
        raise Tx(f"configure: expected `if {var} is None: … else: …`, got " + _u(stmt).split("\n")[0])
    d, e = stmt.body[0], stmt.orelse[0]
    for s in (d, e):
        if not (isinstance(s, ast.Assign) and _u(s.targets[0]) == f"self.{attr}"):
            raise Tx("configure: " + _u(s))
    return d.value, e.value


def _cfg_value(dn, en, var, kind):
    """Lean match arms for the default and the given value"""
    dt = _u(dn)
    if dt == "np.inf":
        if kind != "Cap":
            raise Tx(f"configure: default np.inf for an integer bound ({var})")
        d = "Cap.inf"
    else:
        v, t = tx_val(dn, {})
        d = f"Cap.fin {v}" if kind == "Cap" else v
    et = _u(en)
    if et not in (var, f"int({var})"):
        raise Tx("configure: value expression " + et)
    e = "Cap.fin m" if kind == "Cap" else "m"
    return d, e


def configure_iterations(fn):
    body = [s for s in _body(fn) if not _is_logging(s)]
    if len(body) != 2:
        raise Tx("configure_iterations: %d statements" % len(body))
    dmin, emin = _cfg_value(*_none_default(body[0], "min_iteration", "min_iteration"), "min_iteration", "Int")
    dmax, emax = _cfg_value(*_none_default(body[1], "max_iteration", "max_iteration"), "max_iteration", "Cap")
    return dict(dmin=dmin, emin=emin, dmax=dmax, emax=emax, lines=(fn.lineno, fn.end_lineno))


def configure_max_iteration(fn):
    body = [s for s in _body(fn) if not _is_logging(s)]
    if len(body) != 1:
        raise Tx("configure_max_iteration: %d statements" % len(body))
    d, e = _cfg_value(*_none_default(body[0], "max_iteration", "max_iteration"), "max_iteration", "Cap")
    return dict(d=d, e=e, lines=(fn.lineno, fn.end_lineno))


def alias_table(cls):
    for s in cls.body:
        if isinstance(s, ast.Assign) and _u(s.targets[0]) == "stopping_criterion_aliases":
            v = s.value
            items = []
            if isinstance(v, ast.Call) and _u(v.func) == "dict" and not v.args:
                pairs = [(k.arg, k.value) for k in v.keywords]
            elif isinstance(v, ast.Dict):
                pairs = [(ast.literal_eval(k), val) for k, val in zip(v.keys, v.values)]
            else:
                raise Tx("stopping_criterion_aliases: not a dict literal")
            for k, val in pairs:
                try:
                    al = ast.literal_eval(val)
                except Exception:
                    raise Tx("stopping_criterion_aliases: non-literal alias list for " + str(k))
                if not (isinstance(k, str) and isinstance(al, (list, tuple)) and all(isinstance(a, str) for a in al)):
                    raise Tx("stopping_criterion_aliases: entry " + str(k))
                items.append((k, list(al)))
            return items, (s.lineno, s.end_lineno)
    raise Tx("stopping_criterion_aliases not found")


def resolve_loop(stmt):
    """the two nested loops that resolve the aliases → which loop is the OUTER one ("names" or "table").
        for c in stopping_criterion:                                   (names-major: result in the user's order)
            for criterion, aliases in self.stopping_criterion_aliases.items():
                if c in aliases: self.stopping_criterion.append(criterion)
    or the same two loops nested the other way round (table-major: result in alias-table order)."""
    def kind(f):
        if not isinstance(f, ast.For) or f.orelse:
            return None
        if _u(f.iter) == "stopping_criterion" and isinstance(f.target, ast.Name):
            return "names", f.target.id
        if _u(f.iter) == "self.stopping_criterion_aliases.items()" and isinstance(f.target, ast.Tuple) \
                and len(f.target.elts) == 2 and all(isinstance(e, ast.Name) for e in f.target.elts):
            return "table", (f.target.elts[0].id, f.target.elts[1].id)
        return None
    ko = kind(stmt)
    if ko is None or len(stmt.body) != 1:
        raise Tx("configure_stopping_criterion: alias resolution is not a loop over the names / the alias table: " + _u(stmt).split("\n")[0])
    ki = kind(stmt.body[0])
    if ki is None or ki[0] == ko[0] or len(stmt.body[0].body) != 1:
        raise Tx("configure_stopping_criterion: inner alias-resolution loop: " + _u(stmt.body[0]).split("\n")[0])
    both = dict([ko, ki])
    c, (crit, aliases) = both["names"], both["table"]
    inner = stmt.body[0].body[0]
    if not (isinstance(inner, ast.If) and not inner.orelse and _u(inner.test) == f"{c} in {aliases}" and len(inner.body) == 1
            and _u(inner.body[0]) == f"self.stopping_criterion.append({crit})"):
        raise Tx("configure_stopping_criterion: alias test / append: " + _u(inner).split("\n")[0])
    return ko[0]


def configure_stopping(fn):
    """the statement sequence of configure_stopping_criterion → ordered error checks + stop_any expression"""
    body = [s for s in _body(fn) if not _is_logging(s)]
    texts = [_u(s) for s in body]
    want_head = [
        "if isinstance(stopping_criterion, str):\n    stopping_criterion = [stopping_criterion]",
        "if isinstance(tolerance, list):\n    self.tolerance = [float(t) for t in tolerance]\nelse:\n    self.tolerance = [float(tolerance)]",
        "self.stopping_criterion = []",
    ]
    if texts[:3] != want_head or len(body) < 4:
        k = next((i for i in range(3) if i >= len(texts) or texts[i] != want_head[i]), 3)
        raise Tx("configure_stopping_criterion: statement %d differs from the modelled one: %s" % (k, texts[k].split("\n")[0] if k < len(texts) else "<missing>"))
    outer = resolve_loop(body[3])
    checks, stop_any, init_inf = [], None, False
    for s, t in zip(body[4:], texts[4:]):
        if isinstance(s, ast.If) and len(s.body) == 1 and isinstance(s.body[0], ast.Raise) and not s.orelse:
            exc = _u(s.body[0].exc.func) if isinstance(s.body[0].exc, ast.Call) else _u(s.body[0].exc)
            tt = _u(s.test)
            if tt == "not self.stopping_criterion":
                checks.append(("sc.isEmpty", "unknownCriterion", exc))
            elif tt in ("len(self.stopping_criterion) != len(self.tolerance)", "len(self.tolerance) != len(self.stopping_criterion)"):
                checks.append(("sc.length != nTol", "lengthMismatch", exc))
            elif isinstance(s.test, ast.Compare) and _u(s.test.left) == "check_criteria" and isinstance(s.test.ops[0], ast.NotIn):
                allowed = sorted(ast.literal_eval(s.test.comparators[0]))
                checks.append(("!(" + _lean_strs(allowed) + ".contains check)", "badCheck", exc))
            else:
                raise Tx("configure_stopping_criterion: unmodelled check `" + tt + "`")
        elif isinstance(s, ast.For) and all(_is_logging(x) or (isinstance(x, ast.If) and all(_is_logging(y) for y in x.body) and not x.orelse) for x in s.body):
            continue   # the loop that only logs which alias was used
        elif t == "self.criterion = len(self.tolerance) * [np.inf]":
            init_inf = True
        elif isinstance(s, ast.If) and _u(s.test).startswith("check_criteria =="):
            if not (len(s.body) == 1 and len(s.orelse) == 1 and _u(s.body[0]) == "self._stop_any = True"
                    and _u(s.orelse[0]) == "self._stop_any = False" and isinstance(s.test.comparators[0], ast.Constant)):
                raise Tx("configure_stopping_criterion: _stop_any assignment " + t.split("\n")[0])
            stop_any = 'check == "%s"' % s.test.comparators[0].value
        else:
            raise Tx("configure_stopping_criterion: unmodelled statement `" + t.split("\n")[0] + "`")
    if stop_any is None or not init_inf:
        raise Tx("configure_stopping_criterion: _stop_any / initial criterion assignment missing")
    return dict(checks=checks, stop_any=stop_any, outer=outer, lines=(fn.lineno, fn.end_lineno))


def _lean_strs(xs):
    return "[" + ", ".join('"%s"' % x.replace("\\", "\\\\").replace('"', '\\"') for x in xs) + "]"


# ------------------------------------------------------------------------------------------------ render
STD_ENV = {
    "self.finalised": ("s.finalised", "Bool"), "self.condition": ("s.condition", "K"),
    "self.tolerance": ("s.tolerance", "K"), "self.iteration": ("s.iteration", "Int"),
    "self.max_iteration": ("s.maxIteration", "Cap"),
}
INS_ENV = {
    "self.finalised": ("s.finalised", "Bool"), "self.reached_tolerance": ("reached s", "Bool"),
    "self.iteration": ("s.iteration", "Int"), "self.min_iteration": ("s.minIteration", "Int"),
    "self.max_iteration": ("s.maxIteration", "Cap"),
}


def extract(repo):
    repo = Path(repo)
    src_ns = (repo / NS).read_text()
    src_ins = (repo / INS).read_text()
    t_ns, t_ins = ast.parse(src_ns), ast.parse(src_ins)
    c_ns, c_ins, c_os = _cls(t_ns, "NestedSampler"), _cls(t_ins, "ImportanceNestedSampler"), _cls(t_ins, "OrderedSamples")
    d = dict(
        sha_ns=hashlib.sha256(src_ns.encode()).hexdigest(), sha_ins=hashlib.sha256(src_ins.encode()).hexdigest(),
        std=loop_shape(_fn(c_ns, "nested_sampling_loop"), STD_ENV, "NestedSampler.nested_sampling_loop"),
        std_fin=std_finalise(_fn(c_ns, "finalise")),
        std_cfg=configure_max_iteration(_fn(c_ns, "configure_max_iteration")),
        ins=loop_shape(_fn(c_ins, "nested_sampling_loop"), INS_ENV, "ImportanceNestedSampler.nested_sampling_loop"),
        ins_fin=ins_finalise(_fn(c_ins, "finalise")),
        os_fin=os_finalise(_fn(c_os, "finalise")),
        reached=reached(_fn(c_ins, "reached_tolerance")),
        cfg_it=configure_iterations(_fn(c_ins, "configure_iterations")),
        cfg_sc=configure_stopping(_fn(c_ins, "configure_stopping_criterion")),
    )
    d["aliases"], d["alias_lines"] = alias_table(c_ins)
    # shape requirements that the hand-written skeleton relies on
    if "consume_sample" not in d["std"]["names"] or d["std"]["names"].count("consume_sample") != 1:
        raise Tx("NestedSampler loop body does not call consume_sample exactly once: " + str(d["std"]["names"]))
    n = d["ins"]["names"]
    if n.count("iteration+=1") != 1 or n.count("criterion=compute_stopping_criterion") != 1:
        raise Tx("INS loop body: iteration increment / criterion assignment not found exactly once: " + str(n))
    return d


def render(d):
    L = lambda a: f"{a[0]}–{a[1]}"   # noqa
    anyb, elseb = d["reached"]["any_branch"], d["reached"]["else_branch"]
    chain = ""
    for cond, err, _exc in d["cfg_sc"]["checks"]:
        chain += f"  if {cond} then .error .{err} else\n"
    table = ",\n   ".join(f'("{k}", {_lean_strs(v)})' for k, v in d["aliases"])
    out = f"""/- GENERATED by harness/c15_gen.py on every run of `./check C15` — do not edit.
   source {NS}   sha256 {d['sha_ns']}
     NestedSampler.nested_sampling_loop lines {L(d['std']['lines'])}, finalise {L(d['std_fin']['lines'])}, configure_max_iteration {L(d['std_cfg']['lines'])}
   source {INS}   sha256 {d['sha_ins']}
     ImportanceNestedSampler.nested_sampling_loop lines {L(d['ins']['lines'])}, finalise {L(d['ins_fin']['lines'])}, reached_tolerance {L(d['reached']['lines'])},
     configure_iterations {L(d['cfg_it']['lines'])}, configure_stopping_criterion {L(d['cfg_sc']['lines'])}, stopping_criterion_aliases {L(d['alias_lines'])},
     OrderedSamples.finalise {L(d['os_fin']['lines'])} -/
import NessaiVerif.Model.Loops
namespace NessaiVerif.Gen.Loops
open NessaiVerif.Loops
set_option linter.unusedVariables false

variable {{K : Type}} [LT K] [LE K] [DecidableLT K] [DecidableLE K]

/-! ## NestedSampler -/

/-- first statement of `nested_sampling_loop`: `if …: return {d['std']['entry_ret']}` -/
def stdEntryReturn (s : Std K) : Bool := {d['std']['entry']}
/-- what the short-circuit returns / what the normal exit returns (source text of the tuple elements) -/
def stdEntryReturnExprs : List String := {_lean_strs(d['std']['entry_elts'])}
def stdExitReturnExprs : List String := {_lean_strs(d['std']['final_elts'])}
/-- the `while` test -/
def stdWhile (s : Std K) : Bool := {d['std']['wtest']}
/-- break tests before the body -/
def stdTop (s : Std K) : Bool := {d['std']['top']}
/-- break tests after the body -/
def stdBot (s : Std K) : Bool := {d['std']['bot']}
/-- the guard of `self.finalise()` after the loop -/
def stdFinaliseGuard (s : Std K) : Bool := {d['std']['fin_guard']}
/-- statements of the loop body that are not break tests, in order -/
def stdBodyCalls : List String := {_lean_strs(d['std']['names'])}
/-- `self.finalise()` precedes the forced final checkpoint -/
def stdFinaliseBeforeCheckpoint : Bool := {str(d['std']['fin_before_ckpt'] and d['std']['has_ckpt']).lower()}
/-- `finalise`: `self.state.increment(p['logL'], nlive=…)` for the `i`-th remaining live point -/
def finaliseNlive (nlive : Int) (i : Nat) : Int := {d['std_fin']['nl']}
/-- `finalise` sets `self.live_points = None` / `self.finalised = True` -/
def finaliseClearsLive : Bool := {str(d['std_fin']['clears']).lower()}
def finaliseSetsFlag : Bool := {str(d['std_fin']['sets']).lower()}
/-- `configure_max_iteration` -/
def stdCfgMaxIteration : Option Int → Cap
  | none => {d['std_cfg']['d']}
  | some m => {d['std_cfg']['e']}

/-! ## ImportanceNestedSampler -/

/-- `reached_tolerance` -/
def reached (s : Ins K) : Bool :=
  if {d['reached']['test']} then (List.zipWith (fun c t => {anyb[1]}) s.criterion s.tolerance).{anyb[0]} id
  else (List.zipWith (fun c t => {elseb[1]}) s.criterion s.tolerance).{elseb[0]} id
/-- first statement of `nested_sampling_loop`: `if …: return {d['ins']['entry_ret']}` -/
def insEntryReturn (s : Ins K) : Bool := {d['ins']['entry']}
def insEntryReturnExprs : List String := {_lean_strs(d['ins']['entry_elts'])}
def insExitReturnExprs : List String := {_lean_strs(d['ins']['final_elts'])}
def insWhile (s : Ins K) : Bool := {d['ins']['wtest']}
def insTop (s : Ins K) : Bool := {d['ins']['top']}
def insBot (s : Ins K) : Bool := {d['ins']['bot']}
def insFinaliseGuard (s : Ins K) : Bool := {d['ins']['fin_guard']}
def insBodyCalls : List String := {_lean_strs(d['ins']['names'])}
/-- `finalise`: the sample stores are finalised before `self.finalised = True`, which precedes the forced checkpoint -/
def insFinaliseStoresFirst : Bool := {str(d['ins_fin']['stores_first']).lower()}
def insFlagBeforeCheckpoint : Bool := {str(d['ins_fin']['set_before_ckpt']).lower()}
/-- `configure_iterations` -/
def cfgMinIteration : Option Int → Int
  | none => {d['cfg_it']['dmin']}
  | some m => {d['cfg_it']['emin']}
def cfgMaxIteration : Option Int → Cap
  | none => {d['cfg_it']['dmax']}
  | some m => {d['cfg_it']['emax']}
/-- `stopping_criterion_aliases` -/
def aliasTable : List (String × List String) :=
  [{table}]
/-- `configure_stopping_criterion`, the alias-resolution loops: the OUTER loop runs over {"the user's names (result in the user's order)" if d['cfg_sc']['outer'] == 'names' else "the alias table (result in TABLE order)"} -/
def resolve (names : List String) : List String := {"resolveNames" if d['cfg_sc']['outer'] == 'names' else "resolveNamesTableMajor"} aliasTable names
/-- `configure_stopping_criterion`: resolved criteria and `_stop_any`, or the first error raised -/
def configureStopping (names : List String) (nTol : Nat) (check : String) : Except CfgErr (List String × Bool) :=
  let sc := resolve names
{chain}  .ok (sc, {d['cfg_sc']['stop_any']})

end NessaiVerif.Gen.Loops
"""
    return out


def generate(repo, lean_dir):
    """returns (path, changed).  Raises Tx."""
    d = extract(repo)
    text = render(d)
    path = Path(lean_dir) / "NessaiVerif" / "Gen" / "Loops.lean"
    changed = (not path.exists()) or path.read_text() != text
    if changed:
        path.write_text(text)
    return path, changed, d
