import NessaiVerif.Proofs.Flow
import NessaiVerif.Proofs.FlowReal
import Mathlib.Tactic.Linarith
/-
C08 — flow and proposal densities are consistent with their samples.

PARTIAL proof.  What is proved: the log-density bookkeeping of nessai's wrapper layers
(`NFlow`, `FlowModel`, `FlowProposal`, `ImportanceFlowModel`/`ImportanceFlowProposal`) attaches to a generated
point exactly the density the same layer computes forwards at that point, for every lawful transform
(inverse pair with opposite log-Jacobians), for any point/latent types and any additive commutative group of
log-densities; compositions (`CompositeTransform`) of lawful layers are lawful; affine coupling layers with
ARBITRARY conditioner functions, elementwise affine layers and permutations are lawful.
NOT proved: that the density integrates to one, that `Σ log|s|` is the log-determinant of the derivative
(calculus), lawfulness of glasflow's LU/SVD/spline/MADE layers and all floating-point numerics — the harness
checks those numerically on generated points.
-/
namespace NessaiVerif.C08
open NessaiVerif.Flow

variable {X Y Z L K : Type}

/-! ## lawful transforms compose; the built-in layers are lawful -/

/-- Two lawful transforms in sequence form a lawful transform: the round trip returns the input and the
accumulated log-Jacobians are opposite. -/
theorem compose_lawful [AddCommGroup L] (t1 : Transform X Y L) (t2 : Transform Y Z L)
    (h1 : Lawful t1) (h2 : Lawful t2) : Lawful (t1.comp t2) := comp_lawful t1 t2 h1 h2

example : Lawful ((⟨fun x => (x + 3, 2), fun z => (z - 3, -2)⟩ : Transform ℤ ℤ ℤ).comp
    ⟨fun x => (-x, 5), fun z => (-z, -5)⟩) :=
  compose_lawful _ _ ⟨fun x => by simp, fun z => by simp⟩ ⟨fun x => by simp, fun z => by simp⟩

/-- **forward followed by inverse returns the input** for a stack of any number of lawful layers combined the
way `CompositeTransform` does (left-to-right cascade, inverses in reverse order, log-Jacobians summed from 0):
`inverse(forward(x)) = (x, -logJ)` and `forward(inverse(z)) = (z, -logJ)`. -/
theorem forward_inverse [AddCommGroup L] (ts : List (Transform X X L)) (h : ∀ t ∈ ts, Lawful t) :
    Lawful (composite ts) := composite_lawful ts h

example : ((composite [(⟨fun x => (x + 3, 2), fun z => (z - 3, -2)⟩ : Transform ℤ ℤ ℤ),
    ⟨fun x => (-x, 5), fun z => (-z, -5)⟩]).fwd 4) = (-7, 7) := by decide

/-- An affine coupling layer `x₂ ↦ x₂ · s(x₁) + t(x₁)` with arbitrary conditioner functions `s ≠ 0`, `t`
(any mask, any dimension) is a lawful transform with log-Jacobian `Σ_{masked} lg (s i)`. -/
theorem coupling_lawful [Field K] [AddCommGroup L] {n : Nat} (lg : K → L) (m : Fin n → Bool)
    (s t : (Fin n → K) → Fin n → K) (hs : ∀ c i, m i = true → s c i ≠ 0) :
    Lawful (coupling lg m s t) := coupling_lawful' lg m s t hs

example : Lawful (coupling (K := ℚ) (L := ℚ) (n := 2) (fun a => a) (fun i => i.val == 1)
    (fun c _ => c 0 * c 0 + 1) (fun c _ => c 0)) :=
  coupling_lawful _ _ _ _ (fun c i _ => by have := mul_self_nonneg (c 0); intro h0; linarith)

/-- the non-vanishing scale is needed: with `s = 0` the layer collapses the masked feature and the inverse
does not return the input -/
theorem coupling_lawful_fails_without :
    ¬ Lawful (coupling (K := ℚ) (L := ℚ) (n := 1) (fun a => a) (fun _ => true) (fun _ _ => 0) (fun _ _ => 0)) := by
  intro h
  have := congrArg (fun p => p.1 0) (h.1 (fun _ => 1))
  simp [coupling] at this

/-- Elementwise affine layers (`ActNorm`, `BatchNorm` in eval mode) with non-zero scale are lawful. -/
theorem affine_lawful [Field K] [AddCommGroup L] {n : Nat} (lg : K → L) (a b : Fin n → K)
    (ha : ∀ i, a i ≠ 0) : Lawful (affine lg a b) := affine_lawful' lg a b ha

example : Lawful (affine (K := ℚ) (L := ℚ) (n := 2) (fun a => a) (fun _ => 2) (fun _ => -1)) :=
  affine_lawful _ _ _ (fun _ => by norm_num)

/-- Permutation layers are lawful with zero log-Jacobian. -/
theorem permutation_lawful [AddCommGroup L] {n : Nat} (σ σinv : Fin n → Fin n)
    (h1 : ∀ i, σ (σinv i) = i) (h2 : ∀ i, σinv (σ i) = i) :
    Lawful (permutation (K := K) (L := L) σ σinv) := permutation_lawful' σ σinv h1 h2

example : Lawful (permutation (K := ℚ) (L := ℚ) (n := 2) Fin.rev Fin.rev) :=
  permutation_lawful _ _ (fun i => Fin.rev_rev i) (fun i => Fin.rev_rev i)

/-- Over ℝ with `lg = log|·|` the log-Jacobian a coupling layer reports is the logarithm of the absolute
multiplicative volume factor `|∏_{masked} s i|` of the map (exact statement in the field, no rounding). -/
theorem coupling_logJ_eq_log_volume_factor {n : Nat} (m : Fin n → Bool)
    (s t : (Fin n → ℝ) → Fin n → ℝ) (hs : ∀ c i, m i = true → s c i ≠ 0) (x : Fin n → ℝ) :
    ((coupling Real.log m s t).fwd x).2 = Real.log |scaleProd m (s (maskOut m x))| :=
  scaleLogSum_eq_log_scaleProd m _ (fun i hi => hs _ i hi)

example : ((coupling (n := 1) Real.log (fun _ => true) (fun _ _ => 2) (fun _ _ => 0)).fwd (fun _ => 1)).2
    = Real.log |scaleProd (n := 1) (fun _ => true) (fun _ => (2 : ℝ))| :=
  coupling_logJ_eq_log_volume_factor _ _ _ (fun _ _ _ => by norm_num) _

/-! ## the density attached to a generated point equals the density evaluated at it -/

/-- `NFlow`: the log-density `sample_and_log_prob` returns with a sample equals `log_prob` of that sample, and
`forward_and_log_prob` of the sample returns the noise it was generated from with the same log-density. -/
theorem gen_density_eq_eval_density_nflow [AddCommGroup L] (f : NFlowM X Z L) (h : Lawful f.T) (noise : Z) :
    f.logProb (f.sampleAndLogProb noise).1 = (f.sampleAndLogProb noise).2 ∧
    f.forwardAndLogProb (f.sampleAndLogProb noise).1 = (noise, (f.sampleAndLogProb noise).2) := by
  have e := h.2 noise
  simp only [NFlowM.logProb, NFlowM.sampleAndLogProb, NFlowM.forwardAndLogProb, NFlowM.forward,
    NFlowM.baseLogProb]
  rw [e]
  exact ⟨by simp only []; abel, Prod.ext rfl (by simp only []; abel)⟩

/-- a small lawful flow on ℤ used in the satisfiability examples -/
def exFlow : NFlowM ℤ ℤ ℤ := ⟨⟨fun x => (x + 3, 2), fun z => (z - 3, -2)⟩, fun z => -z⟩
/-- the example flow is lawful (used to instantiate the theorems on a concrete, non-trivial state) -/
theorem exFlow_lawful : Lawful exFlow.T := ⟨fun x => by simp [exFlow], fun z => by simp [exFlow]⟩

example : exFlow.logProb (exFlow.sampleAndLogProb 10).1 = (exFlow.sampleAndLogProb 10).2 :=
  (gen_density_eq_eval_density_nflow exFlow exFlow_lawful 10).1

/-- the lawful-transform hypothesis is needed: a transform whose inverse reports the log-Jacobian with the
wrong sign attaches a different density to the sample than `log_prob` computes for it -/
theorem gen_density_eq_eval_density_fails_without :
    ∃ f : NFlowM ℤ ℤ ℤ, ¬ Lawful f.T ∧ f.logProb (f.sampleAndLogProb 0).1 ≠ (f.sampleAndLogProb 0).2 := by
  refine ⟨⟨⟨fun x => (x, 1), fun z => (z, 1)⟩, fun _ => 0⟩, ?_, by decide⟩
  intro h
  have := congrArg Prod.snd (h.1 0)
  simp at this

/-- `FlowModel.sample_and_log_prob` (no `z`, or supplied `z` with no alternative distribution): the returned
log-density equals `FlowModel.log_prob` at the returned sample, and `forward_and_log_prob` maps the sample back
to the latent point with that same log-density. -/
theorem gen_density_eq_eval_density_flowmodel [AddCommGroup L] (f : NFlowM X Z L) (h : Lawful f.T)
    (noise : Z) (z : Option Z) :
    fmLogProb f (fmSampleAndLogProb f noise z none).1 = (fmSampleAndLogProb f noise z none).2 ∧
    fmForwardAndLogProb f (fmSampleAndLogProb f noise z none).1
      = (z.getD noise, (fmSampleAndLogProb f noise z none).2) := by
  cases z with
  | none => exact gen_density_eq_eval_density_nflow f h noise
  | some z =>
    have e := h.2 z
    simp only [fmLogProb, fmSampleAndLogProb, fmForwardAndLogProb, NFlowM.logProb, NFlowM.forwardAndLogProb,
      NFlowM.forward, NFlowM.inverse, NFlowM.baseLogProb, Option.getD_some]
    rw [e]
    exact ⟨by simp only []; abel, Prod.ext rfl (by simp only []; abel)⟩

example : fmLogProb exFlow (fmSampleAndLogProb exFlow 0 (some 7) none).1
    = (fmSampleAndLogProb exFlow 0 (some 7) none).2 :=
  (gen_density_eq_eval_density_flowmodel exFlow exFlow_lawful 0 (some 7)).1

/-- With an alternative latent distribution the base term of the returned density is THAT distribution's
log-density at `z` (not the flow's base density): the result is `alt z` plus the flow's log-Jacobian term
`log_prob(x) - base(z)`; it coincides with the flow density exactly when `alt z = base z`. -/
theorem flowmodel_alt_dist_uses_that_density [AddCommGroup L] (f : NFlowM X Z L) (h : Lawful f.T)
    (noise z : Z) (alt : Z → L) :
    (fmSampleAndLogProb f noise (some z) (some alt)).1 = (fmSampleAndLogProb f noise (some z) none).1 ∧
    (fmSampleAndLogProb f noise (some z) (some alt)).2
      = alt z + (fmLogProb f (fmSampleAndLogProb f noise (some z) (some alt)).1 - f.base z) := by
  have e := h.2 z
  simp only [fmLogProb, fmSampleAndLogProb, NFlowM.logProb, NFlowM.inverse, NFlowM.baseLogProb]
  rw [e]
  refine ⟨?_, by simp only []; abel⟩
  simp only []

example : (fmSampleAndLogProb exFlow 0 (some 7) (some fun _ => 100)).2 = 102 := by decide

/-- `FlowProposal`: the density `backward_pass` attaches to the physical-space point it generates from `z`
(flow density minus the inverse-rescaling log-Jacobian) equals the density `forward_pass` computes at that
point (flow density plus the rescaling log-Jacobian), and `forward_pass` returns `z`; with and without rescaling. -/
theorem gen_density_eq_eval_density_flowproposal [AddCommGroup L] (f : NFlowM X Z L) (R : Transform X X L)
    (hT : Lawful f.T) (hR : Lawful R) (rescale : Bool) (z : Z) :
    fpForwardPass f R rescale (fpBackwardPass f R none rescale z).1
      = (z, (fpBackwardPass f R none rescale z).2) := by
  have eT := hT.2 z
  cases rescale with
  | false =>
    simp only [fpForwardPass, fpBackwardPass, fmSampleAndLogProb, fmForwardAndLogProb, NFlowM.forwardAndLogProb,
      NFlowM.forward, NFlowM.inverse, NFlowM.baseLogProb, Bool.false_eq_true, if_false]
    rw [eT]
    exact Prod.ext rfl (by simp only []; abel)
  | true =>
    have eR := hR.2 (f.T.inv z).1
    simp only [fpForwardPass, fpBackwardPass, fmSampleAndLogProb, fmForwardAndLogProb, NFlowM.forwardAndLogProb,
      NFlowM.forward, NFlowM.inverse, NFlowM.baseLogProb, if_true]
    rw [eR]; simp only []; rw [eT]
    exact Prod.ext rfl (by simp only []; abel)

/-- a lawful rescaling on ℤ for the examples: `x' = x - 1`, log-Jacobian 4 -/
def exR : Transform ℤ ℤ ℤ := ⟨fun x => (x - 1, 4), fun x' => (x' + 1, -4)⟩
/-- the example rescaling is lawful -/
theorem exR_lawful : Lawful exR := ⟨fun x => by simp [exR], fun z => by simp [exR]⟩

example : fpForwardPass exFlow exR true (fpBackwardPass exFlow exR none true 7).1
    = (7, (fpBackwardPass exFlow exR none true 7).2) :=
  gen_density_eq_eval_density_flowproposal exFlow exR exFlow_lawful exR_lawful true 7

/-- `FlowProposal` with an alternative latent distribution (`latent_prior = uniform_nball`): the density attached
by `backward_pass` is the forward density with the flow's base term replaced by the alternative density at `z`. -/
theorem flowproposal_alt_dist_uses_that_density [AddCommGroup L] (f : NFlowM X Z L) (R : Transform X X L)
    (hT : Lawful f.T) (hR : Lawful R) (rescale : Bool) (z : Z) (alt : Z → L) :
    (fpForwardPass f R rescale (fpBackwardPass f R (some alt) rescale z).1).1 = z ∧
    (fpBackwardPass f R (some alt) rescale z).2
      = alt z + ((fpForwardPass f R rescale (fpBackwardPass f R (some alt) rescale z).1).2 - f.base z) := by
  have eT := hT.2 z
  cases rescale with
  | false =>
    simp only [fpForwardPass, fpBackwardPass, fmSampleAndLogProb, fmForwardAndLogProb, NFlowM.forwardAndLogProb,
      NFlowM.forward, NFlowM.inverse, NFlowM.baseLogProb, Bool.false_eq_true, if_false]
    rw [eT]
    exact ⟨rfl, by simp only []; abel⟩
  | true =>
    have eR := hR.2 (f.T.inv z).1
    simp only [fpForwardPass, fpBackwardPass, fmSampleAndLogProb, fmForwardAndLogProb, NFlowM.forwardAndLogProb,
      NFlowM.forward, NFlowM.inverse, NFlowM.baseLogProb, if_true]
    rw [eR]; simp only []; rw [eT]
    exact ⟨rfl, by simp only []; abel⟩

example : (fpBackwardPass exFlow exR (some fun _ => 100) true 7).2 = 106 := by decide

/-- `ImportanceFlowProposal.draw`: the `log_q` row attached to a drawn physical point (computed at the generated
`x'` with the Jacobian of the re-rescaled point) equals the row `compute_meta_proposal_samples` computes when
the same physical point is passed forwards — provided clipping leaves the point unchanged. -/
theorem gen_density_eq_eval_density_importance [AddCommGroup L] (fs : List (NFlowM X Z L)) (R : Transform X X L)
    (hR : Lawful R) (clip : X → X) (i : Nat) (noise : Z) (x : X) (row : List L)
    (hclip : ∀ x', clip (R.inv x').1 = (R.inv x').1)
    (h : ifpDraw fs R clip i noise = some (x, row)) : row = ifpMetaRow fs R x := by
  unfold ifpDraw ifmSampleIth at h
  cases hi : fs[i]? with
  | none => simp [hi] at h
  | some fi =>
    simp only [hi, Option.map_some, Option.some.injEq, Prod.mk.injEq] at h
    obtain ⟨hx, hrow⟩ := h
    rw [hclip] at hx hrow
    have eR := hR.2 (fi.sample noise)
    subst hx
    unfold ifpMetaRow
    rw [← hrow, eR]

example : ifpDraw [exFlow] exR id 0 7 = some (5, [0, -1]) ∧ ifpMetaRow [exFlow] exR 5 = [0, -1] := by decide

/-- clipping that moves the generated point breaks the statement: the row still belongs to the unclipped `x'`
(this is what `clip=True` does for samples outside the unit hypercube when no logit is applied) -/
theorem gen_density_eq_eval_density_importance_fails_without :
    ∃ clip : ℤ → ℤ, ∃ x row, ifpDraw [exFlow] exR clip 0 7 = some (x, row) ∧ row ≠ ifpMetaRow [exFlow] exR x :=
  ⟨fun _ => 0, 0, [0, -1], by decide, by decide⟩

/-- the column of flow `i` in the row attached by `draw` is the generation-direction density of the drawn
point: base density of the noise minus the flow's inverse log-Jacobian minus the inverse-rescaling
log-Jacobian (what `sample_and_log_prob` followed by `log_prob -= log_j_inv` gives). -/
theorem importance_draw_column_is_generation_density [AddCommGroup L] (fs : List (NFlowM X Z L))
    (R : Transform X X L) (hR : Lawful R) (clip : X → X) (i : Nat) (noise : Z) (x : X) (row : List L) (fi : NFlowM X Z L)
    (hi : fs[i]? = some fi) (hT : Lawful fi.T)
    (hclip : ∀ x', clip (R.inv x').1 = (R.inv x').1)
    (h : ifpDraw fs R clip i noise = some (x, row)) :
    row[i + 1]? = some ((fi.sampleAndLogProb noise).2 - (R.inv (fi.sampleAndLogProb noise).1).2) := by
  unfold ifpDraw ifmSampleIth at h
  simp only [hi, Option.map_some, Option.some.injEq, Prod.mk.injEq] at h
  obtain ⟨_, hrow⟩ := h
  rw [hclip] at hrow
  have eR := hR.2 (fi.sample noise)
  have eT := hT.2 noise
  rw [← hrow, eR]
  simp only [ifpLogQRow, ifmLogProbAll, List.getElem?_cons_succ, List.getElem?_map, hi, Option.map_some,
    NFlowM.logProb, NFlowM.sample, NFlowM.sampleAndLogProb]
  rw [eT]
  simp only [Option.some.injEq]
  abel

example : (ifpDraw [exFlow] exR id 0 7).map (fun p => p.2[1]?) = some (some (-1)) ∧
    (exFlow.sampleAndLogProb 7).2 - (exR.inv (exFlow.sampleAndLogProb 7).1).2 = -1 := by decide

/-- `update_log_q` appends, for level `level`, exactly the column `level+1` of the forward row: extending the
first `level+1` columns of a sample's row gives its first `level+2` columns, so densities stored at draw time
and densities added later for the same physical point agree. -/
theorem importance_update_log_q_matches_row [AddCommGroup L] (fs : List (NFlowM X Z L)) (R : Transform X X L)
    (x : X) (level : Nat) (hl : level < fs.length) :
    ifpUpdateLogQ fs R level x ((ifpMetaRow fs R x).take (level + 1))
      = some ((ifpMetaRow fs R x).take (level + 2)) := by
  unfold ifpUpdateLogQ ifmLogProbIth ifpMetaRow ifpLogQRow ifmLogProbAll
  have hget : fs[level]? = some fs[level] := List.getElem?_eq_getElem hl
  simp only [hget, Option.map_some, Option.some.injEq]
  rw [List.take_add_one (i := level + 1)]
  simp [hget]

example : ifpUpdateLogQ [exFlow, exFlow] exR 1 5 ((ifpMetaRow [exFlow, exFlow] exR 5).take 2)
    = some (ifpMetaRow [exFlow, exFlow] exR 5) := by decide

/-! ## end to end for the layers proved above -/

/-- the layers whose lawfulness is proved here (for any conditioner functions) -/
inductive Builtin [Field K] [AddCommGroup L] {n : Nat} (lg : K → L) : Transform (Fin n → K) (Fin n → K) L → Prop
  | coupling (m : Fin n → Bool) (s t : (Fin n → K) → Fin n → K) (hs : ∀ c i, m i = true → s c i ≠ 0) :
      Builtin lg (coupling lg m s t)
  | affine (a b : Fin n → K) (ha : ∀ i, a i ≠ 0) : Builtin lg (affine lg a b)
  | permutation (σ σinv : Fin n → Fin n) (h1 : ∀ i, σ (σinv i) = i) (h2 : ∀ i, σinv (σ i) = i) :
      Builtin lg (permutation σ σinv)

/-- **End to end (partial).**  For a flow that is any stack of affine-coupling / elementwise-affine /
permutation layers with arbitrary conditioners (RealNVP with `linear_transform ∈ {None, permutation}`, with or
without batch norm / actnorm), any base density and any lawful reparameterisation, the density `FlowProposal`
attaches to a generated physical point equals the density it computes forwards at that point, and forward after
inverse returns the input.  Gap to the property: spline, MADE, LU and SVD layers are covered only through the
lawfulness hypothesis of the general theorems; normalisation (∫ = 1) and floating point are not covered. -/
theorem builtin_stack_density_consistent_partial [Field K] [AddCommGroup L] {n : Nat} (lg : K → L)
    (ts : List (Transform (Fin n → K) (Fin n → K) L)) (hts : ∀ t ∈ ts, Builtin lg t)
    (base : (Fin n → K) → L) (R : Transform (Fin n → K) (Fin n → K) L) (hR : Lawful R)
    (rescale : Bool) (z : Fin n → K) :
    Lawful (composite ts) ∧
    fpForwardPass ⟨composite ts, base⟩ R rescale (fpBackwardPass ⟨composite ts, base⟩ R none rescale z).1
      = (z, (fpBackwardPass ⟨composite ts, base⟩ R none rescale z).2) := by
  have hl : Lawful (composite ts) := by
    apply forward_inverse
    intro t ht
    cases hts t ht with
    | coupling m s t hs => exact coupling_lawful lg m s t hs
    | affine a b ha => exact affine_lawful lg a b ha
    | permutation σ σinv h1 h2 => exact permutation_lawful σ σinv h1 h2
  exact ⟨hl, gen_density_eq_eval_density_flowproposal ⟨composite ts, base⟩ R hl hR rescale z⟩

example : ∀ t ∈ [coupling (K := ℚ) (L := ℚ) (n := 2) (fun a => a) (fun i => i.val == 1)
      (fun c _ => c 0 * c 0 + 1) (fun c _ => c 0), permutation Fin.rev Fin.rev], Builtin (fun a => a) t := by
  intro t ht
  simp only [List.mem_cons, List.not_mem_nil, or_false] at ht
  rcases ht with rfl | rfl
  · exact Builtin.coupling _ _ _ (fun c i _ => by have := mul_self_nonneg (c 0); intro h0; linarith)
  · exact Builtin.permutation _ _ (fun i => Fin.rev_rev i) (fun i => Fin.rev_rev i)

end NessaiVerif.C08
