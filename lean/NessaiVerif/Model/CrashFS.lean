/-
C11 — a tiny file system, the checkpoint / weights-save write protocols as
statement lists (the lists themselves are GENERATED from the source, see
`Gen/CrashFS.lean`), crash points, and the resume logic of
`FlowSampler.check_resume/_resume_from_file`, `BaseNestedSampler.resume`,
`FlowProposal.resume` and `ImportanceFlowModel.resume`.

Core Lean only (linked into the driver).

What is abstracted: a file is `absent`, `complete v n` (a complete
serialisation of version `v`; for a sampler pickle `n` is the number of weights
files the pickled state refers to, for a weights file `n = 0`) or `torn k`
(the first `k` bytes of something, `k` < its full length — a torn file).
Assumed (not modelled further): `shutil.move/os.replace/os.rename` within one
directory are atomic renames; a killed writer leaves a prefix of what it was
writing, and a file written through a handle that was not yet closed keeps only
an arbitrary prefix (user-space buffers are lost) under whatever name it has at
that moment; unpickling a prefix raises `EOFError/UnpicklingError`; `torch.load` of
a prefix raises one of `EOFError`, `UnpicklingError`, `RuntimeError`, `OSError`
depending on where the zip container was cut (observed: 0 bytes, 1–3 bytes, and
alternating ranges above) — which one is an INPUT of the model (`Content.torn k e`).
-/
namespace NessaiVerif.CrashFS

/-- `<filename>`, `<filename>.old`, `<filename>.temp` (any third suffix) -/
inductive Suffix | base | old | temp
deriving DecidableEq, Repr

/-- the three file families: the resume pickle, the (fixed-path) flow weights
`<output>/proposal/model.pt` of the standard sampler, and the per-level weights
`<output>/levels/level_i/model.pt` of the importance sampler -/
inductive Fam | ckpt | weights | level (i : Nat)
deriving DecidableEq, Repr

structure Path where
  fam : Fam
  suf : Suffix
deriving DecidableEq, Repr

/-- exceptions as raised (`osError`: an `OSError` other than `FileNotFoundError`) -/
inductive Exc | fileNotFound | runtime | eof | unpickling | osError | tornPickle
deriving DecidableEq, Repr

inductive Content
  | absent
  | complete (v n : Nat)
  /-- the first `k` bytes only; `e` = what `torch.load` raises on this prefix (an input: it
  depends on where the zip container was cut; irrelevant for pickles) -/
  | torn (k : Nat) (e : Exc)
deriving DecidableEq, Repr

abbrev FS := Path → Content

def emptyFS : FS := fun _ => .absent

def FS.set (fs : FS) (p : Path) (c : Content) : FS := fun q => if q = p then c else fs q

def Content.exists? : Content → Bool
  | .absent => false
  | _ => true

def Content.isTorn : Content → Bool
  | .torn _ _ => true
  | _ => false

def FS.has (fs : FS) (p : Path) : Bool := (fs p).exists?

/-! ### Write side -/

/-- primitive file operations, relative to a file name (`Suffix`) -/
inductive Op
  | existsCheck (p : Suffix)   -- `os.path.exists(p)` is evaluated
  | move (a b : Suffix)        -- `shutil.move(a, b)` / `os.replace` / `os.rename`: atomic, replaces `b`
  | openTrunc (p : Suffix)     -- `open(p, "wb")`: creates / truncates
  | write (p : Suffix)         -- `module.dump(data, file)`: bytes appended progressively
  | close (p : Suffix)         -- leaving the `with` block
  | save (p : Suffix)          -- `torch.save(obj, p)`: truncates `p`, writes progressively, closes
deriving DecidableEq, Repr

inductive Stmt
  | op (o : Op)
  | ifExists (p : Suffix) (body : List Op)   -- `if os.path.exists(p): body`
deriving Repr

/-- what is being written: version, referenced weights count, serialised length -/
structure Dump where
  v : Nat
  n : Nat
  len : Nat
  exc : Exc      -- what loading a prefix of this serialisation raises
deriving Repr, DecidableEq

/-- one operation run to completion -/
def opRun (fam : Fam) (d : Dump) : Op → FS → FS
  | .existsCheck _, fs => fs
  | .move a b, fs =>
    match fs ⟨fam, a⟩ with
    | .absent => fs     -- Python raises here; the state equals the crash state before the op
    | c => (fs.set ⟨fam, b⟩ c).set ⟨fam, a⟩ .absent
  | .openTrunc p, fs => fs.set ⟨fam, p⟩ (.torn 0 d.exc)
  | .write p, fs => fs.set ⟨fam, p⟩ (.complete d.v d.n)
  | .close _, fs => fs
  | .save p, fs => fs.set ⟨fam, p⟩ (.complete d.v d.n)

/-- the operation was started and the process died after `k` bytes had reached the
file (only `write` and `save` are not atomic) -/
def opCrash (fam : Fam) (d : Dump) (k : Nat) : Op → FS → FS
  | .write p, fs => fs.set ⟨fam, p⟩ (if k < d.len then .torn k d.exc else .complete d.v d.n)
  | .save p, fs => fs.set ⟨fam, p⟩ (if k < d.len then .torn k d.exc else .complete d.v d.n)
  | _, fs => fs

def runOps (fam : Fam) (d : Dump) : List Op → FS → FS
  | [], fs => fs
  | o :: r, fs => runOps fam d r (opRun fam d o fs)

/-- the operations actually executed from `fs` (guards resolved as the run proceeds) -/
def dyn (fam : Fam) (d : Dump) : List Stmt → FS → List Op
  | [], _ => []
  | .op o :: r, fs => o :: dyn fam d r (opRun fam d o fs)
  | .ifExists p body :: r, fs =>
    if fs.has ⟨fam, p⟩ then .existsCheck p :: (body ++ dyn fam d r (runOps fam d body fs))
    else .existsCheck p :: dyn fam d r fs

/-- Durability: bytes written through an open handle sit partly in the writer's user-space
buffer until the handle is closed.  `pend` tracks the file (by its CURRENT name in the
family) that has been written through a handle that is still open: `write` sets it,
`close` clears it, a rename of that file carries it to the new name. -/
def opPend : Op → Option Suffix → Option Suffix
  | .write p, _ => some p
  | .close _, _ => none
  | .move a b, some s => if s = a then some b else if s = b then none else some s
  | _, q => q

/-- what a kill leaves of a file whose handle was still open: only the first `f` bytes
(`f` = what had been flushed; ANY value — the whole file only if `f ≥ len`) -/
def settle (fam : Fam) (d : Dump) (f : Nat) (pend : Option Suffix) (fs : FS) : FS :=
  match pend with
  | none => fs
  | some s => fs.set ⟨fam, s⟩ (if f < d.len then .torn f d.exc else .complete d.v d.n)

/-- a crash point: `j` operations completed; `inside = some k`: the next operation
was started and `k` bytes were written; `inside = none`: it was not started;
`flushed`: how many bytes of a written-but-not-yet-closed file had reached the disk -/
structure CrashPt where
  j : Nat
  inside : Option Nat
  flushed : Nat
deriving Repr, DecidableEq

def crashOps (fam : Fam) (d : Dump) (f : Nat) : List Op → Nat → Option Nat → Option Suffix → FS → FS
  | [], _, _, _, fs => fs      -- the protocol had finished (every handle closed)
  | _ :: _, 0, none, pend, fs => settle fam d f pend fs
  | o :: _, 0, some k, pend, fs => settle fam d f pend (opCrash fam d k o fs)
  | o :: r, j + 1, ins, pend, fs => crashOps fam d f r j ins (opPend o pend) (opRun fam d o fs)

def crashState (prog : List Stmt) (fam : Fam) (d : Dump) (fs : FS) (cp : CrashPt) : FS :=
  crashOps fam d cp.flushed (dyn fam d prog fs) cp.j cp.inside none fs

def runProg (prog : List Stmt) (fam : Fam) (d : Dump) (fs : FS) : FS :=
  runOps fam d (dyn fam d prog fs) fs

/-! ### Read side -/


/-- exception class names as they appear in `except` clauses -/
inductive ExcName
  | FileNotFoundError | OSError | RuntimeError | EOFError | UnpicklingError | PickleError
  | Exception | BaseException
deriving DecidableEq, Repr

def ExcName.covers : ExcName → Exc → Bool
  | .BaseException, _ => true
  | .Exception, _ => true
  | .FileNotFoundError, .fileNotFound => true
  | .OSError, .fileNotFound => true
  | .OSError, .osError => true
  | .RuntimeError, .runtime => true
  | .EOFError, .eof => true
  | .UnpicklingError, .unpickling => true
  | .PickleError, .unpickling => true
  | _, _ => false

/-- does an `except (names…)` clause catch `e`?  A torn pickle raises `EOFError` or
`UnpicklingError` depending on where it was cut, so both must be covered. -/
def catches (names : List ExcName) : Exc → Bool
  | .tornPickle => names.any (·.covers .eof) && names.any (·.covers .unpickling)
  | e => names.any (·.covers e)

/-- `torch.load` of a file with this content: `none` = loaded -/
def loadContent : Content → Option Exc
  | .absent => some .fileNotFound
  | .torn _ e => some e
  | .complete _ _ => none

/-- `torch.load(path)`: `none` = loaded -/
def loadWeights (fs : FS) (p : Path) : Option Exc := loadContent (fs p)

/-- what the `except` body around the weights load does -/
inductive Fallback
  | reraise                                                 -- no `try`, or the handler raises
  | skip                                                    -- log and carry on without weights
  | loadOld (guardExists : Bool) (catches2 : List ExcName)  -- load `<weights_file>.old` (optionally guarded / in its own try that swallows)
deriving Repr, DecidableEq

/-- shape of the weights reload in `FlowProposal.resume` (extracted from the source) -/
structure WeightsHandler where
  skipWhenNone : Bool        -- `if weights_file is not None:`
  guardExists : Bool         -- `if os.path.exists(weights_file):`
  excs : List ExcName        -- `except (…)` around `reload_weights`; `[]` = no try
  fallback : Fallback
  onMissing : Bool           -- the fallback also runs when the (guarded) file is missing (`if not loaded:`)
  resetPath : Bool           -- after a successful fallback `self.flow.weights_file = weights_file`
deriving Repr, DecidableEq

/-- A standard-sampler checkpoint records WHICH weights file the flow last loaded or saved
(`FlowModel.load_weights/save_weights` set `self.weights_file`): code `0` = none,
`1` = `model.pt`, `2` = `model.pt.old` (after a fallback the recorded path drifts to `.old`). -/
def primary (n : Nat) : Suffix := if n = 2 then .old else .base

/-- the file the `except` body falls back to: `<weights_file>.old` — for a drifted path that is
`model.pt.old.old`, which nothing ever writes -/
def fallbackContent (fs : FS) (n : Nat) : Content :=
  if n = 2 then .absent else fs ⟨.weights, .old⟩

def runFallback (c : Content) (e : Exc) : Fallback → Option Exc
  | .reraise => some e
  | .skip => none
  | .loadOld g c2 =>
    if g && !c.exists? then none
    else match loadContent c with
      | none => none
      | some e2 => if catches c2 e2 then none else some e2

/-- `FlowProposal.resume`, weights part, for a checkpoint whose recorded weights path has code `n`:
the exception it ends with, `none` = it returns -/
def stdWeightsResume (h : WeightsHandler) (fs : FS) (n : Nat) : Option Exc :=
  if n = 0 then (if h.skipWhenNone then none else some .fileNotFound)
  else if h.guardExists && !fs.has ⟨.weights, primary n⟩ then
    (if h.onMissing then runFallback (fallbackContent fs n) .fileNotFound h.fallback else none)
  else match loadWeights fs ⟨.weights, primary n⟩ with
    | none => none
    | some e => if catches h.excs e then runFallback (fallbackContent fs n) e h.fallback else some e

/-- what a fallback brings back: (version, path code recorded afterwards) -/
def fallbackBack (h : WeightsHandler) (fs : FS) (n : Nat) : Nat × Nat :=
  match h.fallback with
  | .loadOld _ _ =>
    match fallbackContent fs n with
    | .complete w _ => (w, if h.resetPath then (if n = 2 then 2 else 1) else 2)
    | _ => (0, 0)
  | _ => (0, 0)

/-- … and, when it returns, WHAT came back: (version of the weights now in the flow, `0` = none:
the flow stays untrained; path code now recorded in `flow.weights_file`) -/
def stdWeightsBack (h : WeightsHandler) (fs : FS) (n : Nat) : Nat × Nat :=
  if n = 0 then (0, 0)
  else if h.guardExists && !fs.has ⟨.weights, primary n⟩ then
    (if h.onMissing then fallbackBack h fs n else (0, 0))
  else match fs ⟨.weights, primary n⟩ with
    | .complete w _ => (w, if n = 2 then 2 else 1)
    | _ => fallbackBack h fs n

/-- `glob(level_*/model.pt)` below `top` -/
def countLevels (fs : FS) : Nat → Nat
  | 0 => 0
  | t + 1 => countLevels fs t + (if fs.has ⟨.level t, .base⟩ then 1 else 0)

def loadAll (fs : FS) : List Nat → Option Exc
  | [] => none
  | i :: r =>
    match loadWeights fs ⟨.level i, .base⟩ with
    | none => loadAll fs r
    | some e => some e

/-- `ImportanceFlowModel.resume`: `update_weights_path(n)` then `load_all_weights()` -/
def insWeightsResume (top : Nat) (fs : FS) (n : Nat) : Option Exc :=
  if countLevels fs top < n then some .runtime else loadAll fs (List.range n)

inductive Kind | std | ins
deriving DecidableEq, Repr

/-- `FlowSampler.check_resume` + `_resume_from_file` (extracted from the source) -/
structure ResumeCfg where
  candidates : List Suffix    -- files whose existence enables resuming
  first : Suffix
  catchFirst : List ExcName
  second : Suffix
  catchSecond : List ExcName
  reraise : Exc               -- what the inner handler raises
  weights : WeightsHandler
deriving Repr, DecidableEq

def weightsResume (kind : Kind) (cfg : ResumeCfg) (top : Nat) (fs : FS) (n : Nat) : Option Exc :=
  match kind with
  | .std => stdWeightsResume cfg.weights fs n
  | .ins => insWeightsResume top fs n

/-- what comes back with the checkpoint: (weights version in the flow — standard sampler only,
`0` = none —, in-memory weights count / path code after the restart) -/
def weightsBack (kind : Kind) (cfg : ResumeCfg) (fs : FS) (n : Nat) : Nat × Nat :=
  match kind with
  | .std => stdWeightsBack cfg.weights fs n
  | .ins => (0, n)

/-- `loaded v n w m`: checkpoint version `v` that recorded weights code/count `n`; the flow holds
weights version `w` (`0` = none came back); `m` = weights code/count now in memory -/
inductive Outcome
  | fresh
  | loaded (v n w m : Nat)
  | raises (e : Exc)
deriving DecidableEq, Repr

/-- `SamplerClass.resume(file, …)`: unpickle, then the proposal reloads its weights -/
def attempt (kind : Kind) (cfg : ResumeCfg) (top : Nat) (fs : FS) (s : Suffix) : Outcome :=
  match fs ⟨.ckpt, s⟩ with
  | .absent => .raises .fileNotFound
  | .torn _ _ => .raises .tornPickle
  | .complete v n =>
    match weightsResume kind cfg top fs n with
    | none => .loaded v n (weightsBack kind cfg fs n).1 (weightsBack kind cfg fs n).2
    | some e => .raises e

def resume (kind : Kind) (cfg : ResumeCfg) (top : Nat) (fs : FS) : Outcome :=
  if !(cfg.candidates.any fun s => fs.has ⟨.ckpt, s⟩) then .fresh
  else match attempt kind cfg top fs cfg.first with
    | .raises e =>
      if catches cfg.catchFirst e then
        match attempt kind cfg top fs cfg.second with
        | .raises e2 => if catches cfg.catchSecond e2 then .raises cfg.reraise else .raises e2
        | o => o
      else .raises e
    | o => o

/-- `some none` = started afresh, `some (some v)` = loaded version `v`, `none` = raised -/
def Outcome.version : Outcome → Option (Option Nat)
  | .fresh => some none
  | .loaded v _ _ _ => some (some v)
  | .raises _ => none

/-! ### Histories: the run as a sequence of checkpoints and weight saves, some killed -/

/-- the programs and the resume configuration a history is run with -/
structure Protocol where
  dump : Bool → List Stmt      -- `safe_file_dump`, by `save_existing`
  saveWeights : List Stmt      -- `FlowModel.save_weights`
  cfg : ResumeCfg

inductive Ev
  /-- `checkpoint(save_existing=se)` of state version `v`.  What the pickle records about the
  weights is the in-memory `mem` of the model (standard sampler: path code 0/1/2 of
  `flow.weights_file`; importance sampler: level count); the event's `n` is what the harness
  observed and is only compared through the directory listing. -/
  | ckpt (se : Bool) (v n len : Nat) (cp : Option CrashPt)
  /-- a training ends with `save_weights` (version `w`); standard sampler: the fixed path,
  importance sampler: `level_<mem>` -/
  | train (w len : Nat) (e : Exc) (cp : Option CrashPt)
deriving Repr

/-- `mem`: levels held in memory (importance sampler) / code of `flow.weights_file` (standard sampler);
`top`: level directories ≥ `top` do not exist -/
structure Sys where
  fs : FS
  mem : Nat
  top : Nat

def initSys : Sys := ⟨emptyFS, 0, 0⟩

/-- in-memory level count after the process is killed and restarted with resume -/
def memAfter (o : Outcome) : Nat :=
  match o with
  | .loaded _ _ _ m => m
  | _ => 0

/-- the weights count a checkpoint records -/
def ckptN (_kind : Kind) (_n mem : Nat) : Nat := mem
/-- what is in memory after a training: the standard sampler's flow records `model.pt` (code 1),
the importance sampler holds one more level -/
def trainMem (kind : Kind) (mem : Nat) : Nat := match kind with | .std => 1 | .ins => mem + 1
/-- where a training saves its weights -/
def trainFam (kind : Kind) (mem : Nat) : Fam := match kind with | .std => .weights | .ins => .level mem
def trainTop (kind : Kind) (top mem : Nat) : Nat := match kind with | .std => top | .ins => max top (mem + 1)

def step (kind : Kind) (P : Protocol) (s : Sys) : Ev → Sys
  | .ckpt se v n len cp =>
    let d : Dump := ⟨v, ckptN kind n s.mem, len, .tornPickle⟩
    match cp with
    | none => { s with fs := runProg (P.dump se) .ckpt d s.fs }
    | some cp =>
      let fs' := crashState (P.dump se) .ckpt d s.fs cp
      { s with fs := fs', mem := memAfter (resume kind P.cfg s.top fs') }
  | .train w len e cp =>
    let fam : Fam := trainFam kind s.mem
    let top' := trainTop kind s.top s.mem
    let d : Dump := ⟨w, 0, len, e⟩
    match cp with
    | none => { fs := runProg P.saveWeights fam d s.fs, mem := trainMem kind s.mem, top := top' }
    | some cp =>
      let fs' := crashState P.saveWeights fam d s.fs cp
      { fs := fs', mem := memAfter (resume kind P.cfg top' fs'), top := top' }

def replay (kind : Kind) (P : Protocol) (hist : List Ev) : Sys :=
  hist.foldl (step kind P) initSys

/-- versions a resume may legitimately return after `hist`: the last completed
checkpoint (`none` if there is none) or any checkpoint attempted after it -/
def allowedFrom (acc : List (Option Nat)) : List Ev → List (Option Nat)
  | [] => acc
  | .ckpt _ v _ _ none :: r => allowedFrom [some v] r
  | .ckpt _ v _ _ (some _) :: r => allowedFrom (some v :: acc) r
  | .train _ _ _ _ :: r => allowedFrom acc r

def allowed (hist : List Ev) : List (Option Nat) := allowedFrom [none] hist

/-- is the handler enough to survive a torn (or torn-and-rotated) weights file? -/
def coversTorn (names : List ExcName) : Bool :=
  [Exc.fileNotFound, .runtime, .eof, .unpickling, .osError, .tornPickle].all (catches names)

def Fallback.safe : Fallback → Bool
  | .reraise => false
  | .skip => true
  | .loadOld g c2 => (g || catches c2 .fileNotFound) && coversTorn c2

def WeightsHandler.safe (h : WeightsHandler) : Bool :=
  h.skipWhenNone && (h.guardExists || catches h.excs .fileNotFound) && coversTorn h.excs
    && h.fallback.safe

end NessaiVerif.CrashFS
