import NessaiVerif.Model.Term
import NessaiVerif.Gen.Term
import NessaiVerif.Proofs.Term
import NessaiVerif.Proofs.TermLoops
/-
C20 — every algorithmic option runs to completion or is rejected up front.   PARTIAL.

What is proved here
  (1) termination / boundedness of the loops a run depends on, on models of the real loops
      (Model/Term.lean), each under the progress hypothesis that the real code relies on, together
      with the counter-example showing that the hypothesis is needed (the loop has no other guard);
  (2) interface conformance of the post-sampling paths: in the tables generated from the nessai
      sources (Gen/Term.lean) every keyword passed at a call site is accepted by the callee and every
      attribute read is defined in the class hierarchy — EXCEPT the sites listed in
      `knownKwExceptions` / `knownAttrExceptions`, which are proved to be exactly the violations
      (a new non-conforming site, or the repair of a listed one, breaks the theorem).
What is NOT proved: that a complete run with any option (pair) terminates and returns valid results —
that is an integration sweep on the real code (harness/c20_sweep.py), evidence and failing-input
search, not a theorem.
-/
namespace NessaiVerif.C20
open NessaiVerif.Term

/-! ## FlowProposal.populate -/

/-- `FlowProposal.populate`, rejection-sampling branch (`accumulate_weights=False`): if every batch is
non-empty after the `log_q` truncation and the maximum of its log-weights is a finite number, the
`while n_accepted < N` loop ends after at most `N` batches with a pool of exactly `N` points. -/
theorem populate_terminates_partial (N : Nat) (m : Option EF) (u : Nat → Nat → LU) (bs : List Batch)
    (hg : ∀ b ∈ bs, Good m b) (hlen : N ≤ bs.length) :
    ∃ s, populateStd N m u bs {} = .done s ∧ s.used ≤ N ∧ N ≤ s.nAcc ∧ s.xs.length = N := by
  obtain ⟨s, h, h1, h2, h3⟩ := populateStd_done N m u bs {} hg (by simpa using hlen) (by simp)
  exact ⟨s, h, by simp at h2; omega, h1, h3⟩

example : (match populateStd 2 (some (.fin 0)) (fun _ _ => .half 1)
    [⟨3, [⟨1, .fin 1, .fin (-2)⟩, ⟨2, .fin 0, .fin 5⟩, ⟨3, .fin 2, .fin 0⟩]⟩, ⟨3, [⟨4, .fin 1, .fin (-5)⟩, ⟨5, .fin 1, .fin 0⟩]⟩,
     ⟨3, [⟨6, .fin 1, .fin 1⟩]⟩] {} with | .done s => some (s.xs, s.used) | .spin _ => none) = some ([3, 5], 2) := by
  decide +kernel

/-- The excluded case: the loop has NO guard in this branch.  A stream of batches in which nothing
survives the truncation, or every weight is NaN, or every weight is −∞ (so `log_w - log_w.max()` is NaN
throughout) never accepts a point — after any number of batches the loop is still spinning. -/
theorem populate_can_spin (N : Nat) (hN : 1 ≤ N) (m : Option EF) (u : Nat → Nat → LU) (bs : List Batch)
    (hs : ∀ b ∈ bs, Stuck m b) :
    ∃ s, populateStd N m u bs {} = .spin s ∧ s.nAcc = 0 ∧ s.used = bs.length := by
  obtain ⟨s, h, h1, h2⟩ := populateStd_spin N m u bs {} hs (by simp; omega)
  exact ⟨s, h, by simpa using h1, by simpa using h2⟩

/-- the progress hypothesis of `populate_terminates_partial` cannot be dropped: three all-NaN batches, still spinning -/
theorem populate_terminates_fails_without :
    (match populateStd 1 none (fun _ _ => .ninf) (List.replicate 3 ⟨2, [⟨1, .fin 0, .nan⟩, ⟨2, .fin 0, .nan⟩]⟩) {} with
      | .done _ => none | .spin s => some (s.used, s.nAcc)) = some (3, 0) := by decide +kernel

/-- `FlowProposal.populate`, `accumulate_weights=True`: whatever the weights are (NaN included), if every
batch proposes at least one point and at least one survives the truncation, the `max_samples` guard ends
the loop after at most `max_samples + 1` batches; the pool holds at most `N` points (possibly fewer). -/
theorem populate_accumulate_bounded_partial (N maxS : Nat) (m : Option EF) (u : Nat → Nat → LU) (bs : List Batch)
    (hg : ∀ b ∈ bs, NonEmpty m b) (hlen : maxS + 1 ≤ bs.length) :
    ∃ r, populateAcc N m maxS u bs {} = .done r ∧ r.used ≤ maxS + 1 ∧ r.xs.length ≤ N := by
  obtain ⟨r, h, h1, h2⟩ := populateAcc_done N m maxS u bs {} hg (by simpa using hlen) (by simp)
  exact ⟨r, h, by simpa using h1, h2⟩

example : (match populateAcc 2 none 5 (fun _ _ => .half 1)
    [⟨3, [⟨1, .fin 0, .fin 0⟩]⟩, ⟨3, [⟨2, .fin 0, .fin 0⟩, ⟨3, .fin 0, .fin (-1)⟩]⟩] {} with
      | .done r => some r.xs | .spin _ => none) = some [1, 2] := by decide +kernel

/-- …but the `continue` for an empty batch sits BEFORE the `max_samples` test: if the truncation discards
every point of every batch the accumulate branch spins as well, `max_samples` notwithstanding. -/
theorem populate_accumulate_can_spin (N maxS : Nat) (hN : 1 ≤ N) (m : Option EF) (u : Nat → Nat → LU) (bs : List Batch)
    (he : ∀ b ∈ bs, b.items.filter (keep m) = []) :
    ∃ r, populateAcc N m maxS u bs {} = .spin r ∧ r.used = bs.length := by
  obtain ⟨r, h, h1⟩ := populateAcc_spin N m maxS u bs {} he (by simp; omega)
  exact ⟨r, h, by simpa using h1⟩

example : (match populateAcc 1 (some (.fin 5)) 0 (fun _ _ => .half 0) (List.replicate 4 ⟨10, [⟨1, .fin 0, .fin 0⟩]⟩) {} with
      | .done _ => none | .spin r => some r.nProp) = some 40 := by decide +kernel

/-! ## ImportanceFlowProposal.draw -/

/-- `ImportanceFlowProposal.draw(n)`: if every batch contains at least one point that passes both masks,
the loop ends after at most `n` batches and returns exactly `n` points. -/
theorem ins_draw_terminates_partial (n : Nat) (bs : List (List (Nat × PK))) (hg : ∀ b ∈ bs, HasOk b)
    (hlen : n ≤ bs.length) : ∃ xs used, insDraw n bs = .done (xs, used) ∧ used ≤ n ∧ xs.length = n := by
  obtain ⟨s, h, hu, hn, hl⟩ := insLoop_done n bs {} hg (by simpa using hlen) rfl
  refine ⟨s.xs.take n, s.used, by simp [insDraw, h], by simp at hu; omega, ?_⟩
  rcases hn with hn | hn
  · simp [List.length_take, hl]; omega
  · have : n = 0 := by unfold insNDraw at hn; omega
    subst this; simp

example : insDraw 2 [[(1, .rej1), (2, .ok)], [(3, .rej2), (4, .rej1)], [(5, .ok), (6, .ok)]] = .done ([2, 5], 3) := by
  decide +kernel

/-- `draw(0)`: `n_draw = int(1.01·0) = 0`, the loop is not entered and nothing is drawn. -/
theorem ins_draw_zero (bs : List (List (Nat × PK))) : insDraw 0 bs = .done ([], 0) := by
  cases bs <;> simp [insDraw, insLoop]

/-- The excluded case: no iteration limit exists; if no point of any batch passes both masks, the loop
is still running after any number of batches. -/
theorem ins_draw_can_spin (n : Nat) (hn : 1 ≤ n) (bs : List (List (Nat × PK))) (hb : ∀ b ∈ bs, NoOk b) :
    ∃ xs, insDraw n bs = .spin (xs, bs.length) := by
  obtain ⟨s, h, hu, _⟩ := insLoop_spin n bs {} hb (by simp; omega) (insNDraw_pos n hn)
  exact ⟨s.xs.take n, by simp [insDraw, h, hu]⟩

/-- the hypothesis of `ins_draw_terminates_partial` cannot be dropped -/
theorem ins_draw_terminates_fails_without :
    insDraw 1 (List.replicate 5 [(1, .rej1), (2, .rej2)]) = .spin ([], 5) := by decide +kernel

/-! ## FlowModel.check_batch_size -/

/-- `check_batch_size` always terminates: the `while True` loop decreases the batch size and raises at
`batch_size < 2`, so the model's fuel (`batch_size + 1` iterations) is never exhausted — for every length,
batch size (negative ones included) and fraction. -/
theorem check_batch_size_terminates (len : Nat) (b : Int) (num den : Nat) :
    checkBatchSize len b num den ≠ .error .fuel := by
  unfold checkBatchSize
  split
  · simp
  · split
    · simp
    · simp only []
      split
      · exact cbsLoop_no_fuel _ _ _ _ (by omega) (by omega)
      · simp

/-- post-condition: a returned batch size is either the requested one (already acceptable) or a smaller
one, at least 2, whose final batch is empty, or has at least `min_batch_size` points, or (once at/below
`min_batch_size`) more than one point. -/
theorem check_batch_size_post (len : Nat) (b r : Int) (num den : Nat)
    (h : checkBatchSize len b num den = .ok r) :
    (r = b ∧ ¬ (Int.fmod len b ≠ 0 ∧ Int.fmod len b < minBatch num den b)) ∨
    (2 ≤ r ∧ r < b ∧ (Int.fmod len r = 0 ∨ minBatch num den b ≤ Int.fmod len r ∨
      (r ≤ minBatch num den b ∧ 1 < Int.fmod len r))) := by
  unfold checkBatchSize at h
  split at h
  · cases h
  · split at h
    · cases h
    · simp only [] at h
      split at h
      · right; exact cbsLoop_post _ _ _ _ _ h
      · rename_i hc
        injection h with h; subst h
        left; exact ⟨rfl, hc⟩

example : (checkBatchSize 1005 1000 1 10).toOption = some 905 ∧ (checkBatchSize 1005 100 1 10).toOption = some 99 ∧
    (checkBatchSize 7 1 1 10).toOption = none ∧ (checkBatchSize 3 2 1 1).toOption = none := by decide +kernel

/-! ## draw_final_samples -/

/-- batch-size halving of `draw_final_samples` terminates (the fuel `batch_size + 1` is never exhausted) -/
theorem batch_halving_terminates (b : Nat) (mx : Int) : halve b mx ≠ some none :=
  halveLoop_no_fuel mx (b + 1) b (by omega)

/-- …its post-condition: the batch size returned does not exceed `max_batch_size` (nor the initial one);
the RuntimeError is raised only for `max_batch_size < 1`, i.e. for `max_batch_size ≥ 1` a batch size is found. -/
theorem batch_halving_post (b : Nat) (mx : Int) :
    (∀ r, halve b mx = some (some r) → (r : Int) ≤ mx ∧ r ≤ b) ∧ (halve b mx = none → mx < 1) ∧
    (1 ≤ mx → ∃ r, halve b mx = some (some r)) := by
  refine ⟨fun r h => halveLoop_post mx _ b r h, fun h => halveLoop_err mx _ b h, fun h1 => ?_⟩
  cases hh : halve b mx with
  | none => have := halveLoop_err mx _ b hh; omega
  | some o =>
    cases o with
    | none => exact absurd hh (batch_halving_terminates b mx)
    | some r => exact ⟨r, rfl⟩

example : halve (finalBatch0 100000) 20000 = some (some 13125) ∧ halve 5 0 = none ∧ halve 0 0 = some (some 0) := by
  decide +kernel

/-- the redraw loop of `draw_final_samples` performs at most `max_its` iterations, whatever the flows
return and whatever the ESS does (for `max_its ≤ 0` it performs none). -/
theorem draw_final_bounded (cfg : FinalCfg) (s : List (Nat × Nat)) (hlen : cfg.maxIts.toNat ≤ s.length) :
    (finalLoop cfg s {}).1 ≠ .fuel ∧ (finalLoop cfg s {}).2.it ≤ cfg.maxIts.toNat := by
  have := finalLoop_bounded cfg s {} (by simpa using hlen)
  exact ⟨this.1, by have := this.2; simp at this; omega⟩

example : finalLoop ⟨some 10, 50, 3, some 100⟩ [(20, 7), (20, 15), (20, 19), (20, 40)] {} =
    (.maxIts, { it := 3, size := 60, ess2 := 19 }) := by decide +kernel

/-! ## populate_live_points of both samplers -/

/-- `NestedSampler.populate_live_points`: a drawn point is stored iff its log-prior and its (possibly
re-evaluated) log-likelihood are finite — the nested guards of `yield_sample`/`populate_live_points`
amount to exactly that. -/
theorem ns_live_stored_iff (c : Cand) : candStored c = (c.logP.isFinite && (candL c).isFinite) :=
  candStored_iff c

/-- …so it ends as soon as `nlive` such points have been drawn, with exactly `nlive` live points. -/
theorem ns_live_terminates_partial (nlive : Nat) (cs : List Cand) (h : nlive ≤ cs.countP candStored) :
    ∃ s, nsLive nlive cs {} = .done s ∧ s.ids.length = nlive ∧ s.draws ≤ cs.length := by
  obtain ⟨s, hs, _, h2, h3⟩ := nsLive_done nlive cs {} (by simpa using h) rfl (by simp)
  exact ⟨s, hs, h2, by simpa using h3⟩

example : (match nsLive 2 [⟨1, .fin 0, .nan, .fin 1, true⟩, ⟨2, .fin 0, .fin 0, .fin (-3), true⟩, ⟨3, .ninf, .fin 1, .fin 1, false⟩,
    ⟨4, .fin (-1), .fin (-2), .nan, true⟩] {} with | .done s => some (s.ids, s.draws) | .spin _ => none) = some ([2, 4], 4) := by
  decide +kernel

/-- The excluded case: there is no limit on the number of draws; a proposal (or likelihood) that never
yields a finite point keeps `populate_live_points` running for ever. -/
theorem ns_live_can_spin (nlive : Nat) (hn : 1 ≤ nlive) (cs : List Cand) (h : ∀ c ∈ cs, candStored c = false) :
    ∃ s, nsLive nlive cs {} = .spin s ∧ s.draws = cs.length := by
  obtain ⟨s, hs, _, h2⟩ := nsLive_spin nlive cs {} h (by simp; omega)
  exact ⟨s, hs, by simpa using h2⟩

/-- `ImportanceNestedSampler.populate_live_points`: if every batch of prior draws contains a point with a
finite log-prior, the `while n < target` loop ends after at most `target` batches with `target` points. -/
theorem ins_live_terminates_partial (target : Nat) (bs : List (List (Nat × Bool))) (hg : ∀ b ∈ bs, HasFinite b)
    (hlen : target ≤ bs.length) :
    ∃ s, insLive target bs {} = .done s ∧ s.ids.length = target ∧ s.used ≤ target := by
  obtain ⟨s, hs, _, h2, h3⟩ := insLive_done target bs {} hg (by simpa using hlen) rfl (by simp)
  exact ⟨s, hs, h2, by simpa using h3⟩

example : (match insLive 3 [[(1, true), (2, false), (3, true)], [(4, true), (5, true), (6, true)]] {} with
    | .done s => some (s.ids, s.used) | .spin _ => none) = some ([1, 3, 4], 2) := by decide +kernel

/-- The excluded case: a prior that is never finite on the unit hypercube keeps it running for ever. -/
theorem ins_live_can_spin (target : Nat) (ht : 1 ≤ target) (bs : List (List (Nat × Bool)))
    (hb : ∀ b ∈ bs, ∀ p ∈ b, p.2 = false) : ∃ s, insLive target bs {} = .spin s ∧ s.used = bs.length := by
  obtain ⟨s, hs, _, h2⟩ := insLive_spin target bs {} hb (by simp; omega)
  exact ⟨s, hs, by simpa using h2⟩

/-! ## interface conformance of the post-sampling paths (tables generated from the sources) -/

/-- KNOWN non-conforming call sites (caller, callee, keyword), each a genuine defect of the pinned tree:
  * `train_final_flow=True`: `FlowModel(config=…)` — no such keyword (TypeError after the last iteration)
      finding `ImportanceNestedSampler.train_final_flow:TypeError-after-sampling`; the same method then calls
      `_INSIntegralState(normalised=False)`, which takes no argument;
  * `bootstrap=True`: `proposal.draw(…, update_counts=False)`
      finding `ImportanceNestedSampler.bootstrap:AttributeError-after-sampling`. -/
def knownKwExceptions : List (String × String × String) := [
  ("ImportanceNestedSampler.train_final_flow", "FlowModel", "config"),
  ("ImportanceNestedSampler.train_final_flow", "_INSIntegralState", "normalised"),
  ("ImportanceNestedSampler.adjust_final_samples", "ImportanceFlowProposal.draw", "update_counts")]

/-- KNOWN reads of attributes that are defined nowhere (caller, class, attribute):
  * `bootstrap=True`: `self.proposal.n_requested`   (finding `…bootstrap:AttributeError-after-sampling`)
  * `redraw_samples=True, optimise_weights=True`: `self.imp_post`, then `self._log_q_ns`
      (finding `ImportanceNestedSampler.draw_final_samples:optimise_weights-undefined-attribute`)
  * `redraw_samples=True` (every value of the other options): `self.proposal.unnormalised_weights`, and with
      `use_counts=True` also `self.proposal.normalisation_constant`
      (finding `ImportanceNestedSampler.draw_final_samples:redraw_samples-undefined-attribute`)
  * `add_level_post_sampling` calls three methods that do not exist (public method, reached by no option)
  * `plot_extra_state=True`: `self.checkpoint_iterations` (a plotting option: the value lives in `self.history`). -/
def knownAttrExceptions : List (String × String × String) := [
  ("ImportanceNestedSampler.adjust_final_samples", "ImportanceFlowProposal", "n_requested"),
  ("ImportanceNestedSampler.draw_final_samples", "ImportanceNestedSampler", "imp_post"),
  ("ImportanceNestedSampler.draw_final_samples", "ImportanceNestedSampler", "_log_q_ns"),
  ("ImportanceNestedSampler.draw_final_samples", "ImportanceFlowProposal", "unnormalised_weights"),
  ("ImportanceNestedSampler.draw_final_samples", "ImportanceFlowProposal", "normalisation_constant"),
  ("ImportanceNestedSampler.add_level_post_sampling", "ImportanceNestedSampler", "update_live_points"),
  ("ImportanceNestedSampler.add_level_post_sampling", "ImportanceNestedSampler", "update_nested_samples"),
  ("ImportanceNestedSampler.add_level_post_sampling", "ImportanceNestedSampler", "add_to_nested_samples"),
  ("ImportanceNestedSampler.plot_extra_state", "ImportanceNestedSampler", "checkpoint_iterations")]

/-- meaning of the violation list, for ANY table: a keyword of a call site that is not reported is accepted
by the callee (it is one of its parameters, or the callee takes `**kwargs`). -/
theorem kw_violations_sound (t : List CallSite) (s : CallSite) (hs : s ∈ t) (k : String) (hk : k ∈ s.kwargs)
    (h : (s.caller, s.callee, k) ∉ kwViolations t) : s.varkw = true ∨ k ∈ s.posParams ∨ k ∈ s.kwonly := by
  cases hvk : s.varkw with
  | true => exact Or.inl rfl
  | false =>
    right
    apply Classical.byContradiction
    intro hc
    apply h
    have hmem : k ∈ s.kwargs.filter (fun k => !(s.posParams.contains k || s.kwonly.contains k)) := by
      rw [List.mem_filter]
      refine ⟨hk, ?_⟩
      have h1 : k ∉ s.posParams := fun hm => hc (Or.inl hm)
      have h2 : k ∉ s.kwonly := fun hm => hc (Or.inr hm)
      simp [h1, h2]
    unfold kwViolations
    rw [List.mem_flatMap]
    refine ⟨s, hs, ?_⟩
    unfold siteViolations
    simp only [hvk, Bool.false_eq_true, if_false]
    rw [List.mem_map]
    exact ⟨k, List.mem_append.mpr (Or.inl (List.mem_append.mpr (Or.inl hmem))), rfl⟩

/-- meaning of the attribute violation list, for ANY table: an attribute read that is not reported is
defined in the class hierarchy of the object it is read from. -/
theorem attr_violations_sound (d : List (String × List String)) (t : List AttrRead) (r : AttrRead) (hr : r ∈ t)
    (h : (r.caller, r.cls, r.attr) ∉ attrViolations d t) : attrDefined d r.cls r.attr = true := by
  apply Classical.byContradiction
  intro hc
  apply h
  unfold attrViolations
  rw [List.mem_map]
  exact ⟨r, List.mem_filter.mpr ⟨hr, by simpa using hc⟩, rfl⟩

/-- In the tables generated from the current sources the violations of the call-site table are exactly
`knownKwExceptions` (both inclusions, decided by evaluation). -/
theorem kwargs_table_exact :
    (kwViolations Gen.Term.callSites).all (knownKwExceptions.contains ·) = true ∧
    knownKwExceptions.all ((kwViolations Gen.Term.callSites).contains ·) = true := by
  constructor <;> decide +kernel

/-- …and those of the attribute table are exactly `knownAttrExceptions`. -/
theorem attrs_table_exact :
    (attrViolations Gen.Term.definedAttrs Gen.Term.attrReads).all (knownAttrExceptions.contains ·) = true ∧
    knownAttrExceptions.all ((attrViolations Gen.Term.definedAttrs Gen.Term.attrReads).contains ·) = true := by
  constructor <;> decide +kernel

/-- **Keyword conformance of the post-sampling paths** (partial: up to the listed known defects).  Every
keyword passed at a resolved call site of the methods reachable after sampling is accepted by the callee,
except the listed sites. -/
theorem kwargs_conform_partial (s : CallSite) (hs : s ∈ Gen.Term.callSites) (k : String) (hk : k ∈ s.kwargs)
    (hx : (s.caller, s.callee, k) ∉ knownKwExceptions) : s.varkw = true ∨ k ∈ s.posParams ∨ k ∈ s.kwonly := by
  apply kw_violations_sound Gen.Term.callSites s hs k hk
  intro hm
  have := List.all_eq_true.mp kwargs_table_exact.1 _ hm
  exact hx (by simpa [List.contains_eq_mem] using this)

/-- **Attribute definedness on the post-sampling paths** (partial: up to the listed known defects).  Every
attribute read on `self` or on an object of known class in those methods is assigned somewhere in the
class hierarchy (or is a method / property / class attribute), except the listed reads. -/
theorem attrs_defined_partial (r : AttrRead) (hr : r ∈ Gen.Term.attrReads)
    (hx : (r.caller, r.cls, r.attr) ∉ knownAttrExceptions) :
    attrDefined Gen.Term.definedAttrs r.cls r.attr = true := by
  apply attr_violations_sound Gen.Term.definedAttrs Gen.Term.attrReads r hr
  intro hm
  have := List.all_eq_true.mp attrs_table_exact.1 _ hm
  exact hx (by simpa [List.contains_eq_mem] using this)

/-- non-vacuity: the tables are not empty and contain conforming sites with keywords -/
example : 100 ≤ Gen.Term.callSites.length ∧ 300 ≤ Gen.Term.attrReads.length ∧
    (Gen.Term.callSites.filter (fun s => !s.kwargs.isEmpty && (siteViolations s).isEmpty)).length ≥ 20 := by
  decide +kernel

/-- the table check is not vacuous: a site passing an unknown keyword is reported -/
example : kwViolations [⟨"A.f", "B.g", 1, false, ["x", "bad"], ["a", "x"], [], ["a"], false, false⟩] = [("A.f", "B.g", "bad")] := by
  decide +kernel

end NessaiVerif.C20
