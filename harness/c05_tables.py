"""C05 translator: which attribute does every entry of the result dictionaries read, and what does FlowSampler expose.

Reads the nessai sources with `ast` (never imports them) and renders the tables of
lean/NessaiVerif/Gen/Results.lean in the expression language `NessaiVerif.Results.E` (Model/Results.lean):

    root                    the sampler object (`self` in the sampler, `self.ns` in FlowSampler)
    attr e "name"           e.name            (a stored attribute, or a property that is not a plain forwarder)
    app "f" e               f(e)  or  e.method(keywords…)   (keywords completed with the defaults of the `def`)
    ite c t e               conditional expression / `if c: return t … else: return e`
    notNone e               e is not None
    none                    None
    opaque "src"            anything else, verbatim

Forwarding properties are inlined: every `@property` of the sampler classes whose body is `return <expr>` or an
if/elif/else chain of returns, class-level aliases (`log_evidence = logZ`), and those properties of the integral-state /
sample-store classes that merely forward to another attribute or method of the same object.
"""
import ast
import hashlib
from pathlib import Path

SOURCES = {
    "FlowSampler": "nessai/flowsampler.py",
    "BaseNestedSampler": "nessai/samplers/base.py",
    "NestedSampler": "nessai/samplers/nestedsampler.py",
    "ImportanceNestedSampler": "nessai/samplers/importancesampler.py",
    "OrderedSamples": "nessai/samplers/importancesampler.py",
    "_BaseNSIntegralState": "nessai/evidence.py",
    "_NSIntegralState": "nessai/evidence.py",
    "_INSIntegralState": "nessai/evidence.py",
}
BASES = {
    "NestedSampler": "BaseNestedSampler", "ImportanceNestedSampler": "BaseNestedSampler",
    "_NSIntegralState": "_BaseNSIntegralState", "_INSIntegralState": "_BaseNSIntegralState",
}
SAMPLER_CLASSES = {"BaseNestedSampler", "NestedSampler", "ImportanceNestedSampler"}
# attribute -> class of the object stored there; each is justified by a constructor call that must be in the source
ATTR_TYPES = {
    ("NestedSampler", "state"): ("_NSIntegralState", "self.state = _NSIntegralState("),
    ("ImportanceNestedSampler", "training_samples"): ("OrderedSamples", "self.training_samples = OrderedSamples("),
    ("ImportanceNestedSampler", "iid_samples"): ("OrderedSamples", "self.iid_samples = OrderedSamples("),
    ("ImportanceNestedSampler", "_final_samples"): ("OrderedSamples", "final_samples = OrderedSamples("),
    ("OrderedSamples", "state"): ("_INSIntegralState", "self.state = _INSIntegralState("),
}


class TableError(Exception):
    pass


# ------------------------------------------------------------------------------------------------ E terms (tuples)
def root():
    return ("root",)


def attr(e, n):
    return ("attr", e, n)


def app(f, e):
    return ("app", f, e)


def ite(c, t, e):
    return ("ite", c, t, e)


def not_none(e):
    return ("notNone", e)


NONE = ("none",)


def opaque(s):
    return ("opaque", s)


def lean_str(s):
    out = []
    for ch in s:
        if ch == "\\":
            out.append("\\\\")
        elif ch == '"':
            out.append('\\"')
        elif ch == "\n":
            out.append("\\n")
        elif ord(ch) < 32 or ord(ch) > 126:
            out.append("?")
        else:
            out.append(ch)
    return '"' + "".join(out) + '"'


def render(e):
    k = e[0]
    if k == "root":
        return ".root"
    if k == "none":
        return ".none"
    if k == "attr":
        return f"(.attr {render(e[1])} {lean_str(e[2])})"
    if k == "app":
        return f"(.app {lean_str(e[1])} {render(e[2])})"
    if k == "ite":
        return f"(.ite {render(e[1])} {render(e[2])} {render(e[3])})"
    if k == "notNone":
        return f"(.notNone {render(e[1])})"
    if k == "opaque":
        return f"(.opaque {lean_str(e[1])})"
    raise TableError(f"unknown term {e!r}")


def show(e):
    """Python-like rendering (evidence / messages)"""
    k = e[0]
    if k == "root":
        return "self"
    if k == "none":
        return "None"
    if k == "attr":
        return f"{show(e[1])}.{e[2]}"
    if k == "app":
        return f"{show(e[2])}{e[1]}" if e[1].startswith(".") else f"{e[1]}({show(e[2])})"
    if k == "ite":
        return f"({show(e[2])} if {show(e[1])} else {show(e[3])})"
    if k == "notNone":
        return f"({show(e[1])} is not None)"
    return e[1]


# ------------------------------------------------------------------------------------------------ class model
class ClassInfo:
    def __init__(self, name, node, path, text):
        self.name, self.node, self.path, self.text = name, node, path, text
        self.props, self.methods, self.aliases = {}, {}, {}
        for st in node.body:
            if isinstance(st, ast.FunctionDef):
                decs = [ast.unparse(d) for d in st.decorator_list]
                if "property" in decs:
                    self.props[st.name] = st
                elif any(d.endswith(".setter") for d in decs):
                    continue
                else:
                    self.methods[st.name] = st
            elif isinstance(st, ast.Assign) and len(st.targets) == 1 and isinstance(st.targets[0], ast.Name) \
                    and isinstance(st.value, ast.Name):
                self.aliases[st.targets[0].id] = st.value.id


class Model:
    def __init__(self, repo):
        self.repo = Path(repo)
        self.classes, self.texts, self.used = {}, {}, []
        for cname, rel in SOURCES.items():
            if rel not in self.texts:
                p = self.repo / rel
                if not p.exists():
                    raise TableError(f"{rel} not found")
                self.texts[rel] = p.read_text()
            tree = ast.parse(self.texts[rel])
            hit = [n for n in ast.walk(tree) if isinstance(n, ast.ClassDef) and n.name == cname]
            if len(hit) != 1:
                raise TableError(f"class {cname} not found exactly once in {rel}")
            self.classes[cname] = ClassInfo(cname, hit[0], rel, self.texts[rel])
        for (cls, at), (typ, witness) in ATTR_TYPES.items():
            src = ast.get_source_segment(self.classes[cls].text, self.classes[cls].node) or ""
            if witness not in src:
                raise TableError(f"cannot justify that {cls}.{at} holds a {typ}: `{witness}` not found in the class")

    def mro(self, cname):
        out = []
        while cname:
            out.append(self.classes[cname])
            cname = BASES.get(cname)
        return out

    def find(self, cname, kind, name):
        for c in self.mro(cname):
            d = getattr(c, kind)
            if name in d:
                return c, d[name]
        return None, None

    def note(self, cinfo, fn):
        seg = ast.get_source_segment(cinfo.text, fn) or ""
        rec = (cinfo.path, f"{cinfo.name}.{fn.name}", fn.lineno, fn.end_lineno, hashlib.sha256(seg.encode()).hexdigest())
        if rec not in self.used:
            self.used.append(rec)


def body_of(fn):
    b = list(fn.body)
    if b and isinstance(b[0], ast.Expr) and isinstance(b[0].value, ast.Constant) and isinstance(b[0].value.value, str):
        b = b[1:]
    return b


class Conv:
    """typed conversion of Python expressions to E terms"""

    def __init__(self, model, sampler, fs_env=None):
        self.m, self.sampler, self.fs_env = model, sampler, fs_env   # fs_env: FlowSampler attribute -> E (FlowSampler context)

    # -- property bodies
    def returns_chain(self, stmts, self_e, cls, depth):
        """E of `return x` / `if c: return a  [elif…]  else: return b` / `if c: return a ; return b`; None if not of that form"""
        if not stmts:
            return None
        st = stmts[0]
        if isinstance(st, ast.Return) and st.value is not None and len(stmts) == 1:
            return self.conv(st.value, self_e, cls, depth)[0]
        if isinstance(st, ast.If) and len(st.body) == 1 and isinstance(st.body[0], ast.Return) and st.body[0].value is not None:
            rest = st.orelse if st.orelse else stmts[1:]
            if st.orelse and len(stmts) != 1:
                return None
            other = self.returns_chain(list(rest), self_e, cls, depth)
            if other is None:
                return None
            return ite(self.conv(st.test, self_e, cls, depth)[0], self.conv(st.body[0].value, self_e, cls, depth)[0], other)
        return None

    def forwarder(self, stmts):
        """for state / store classes: only `return self.<attr>` or `return self.<method>(…)`"""
        if len(stmts) != 1 or not isinstance(stmts[0], ast.Return) or stmts[0].value is None:
            return False
        v = stmts[0].value
        if isinstance(v, ast.Call):
            v = v.func
        return isinstance(v, ast.Attribute) and isinstance(v.value, ast.Name) and v.value.id == "self"

    def call_keywords(self, fn, node):
        """`name(k=v, …)` with every defaulted parameter of `fn` listed (passed value or default)"""
        args = fn.args
        params = [a.arg for a in args.args][1:]          # drop self
        defaults = dict(zip(params[len(params) - len(args.defaults):], args.defaults)) if args.defaults else {}
        for a, d in zip(args.kwonlyargs, args.kw_defaults):
            if d is not None:
                defaults[a.arg] = d
        given = {}
        for name, val in zip(params, node.args):
            given[name] = val
        for kw in node.keywords:
            if kw.arg is None:
                raise TableError("**kwargs in a call the table depends on")
            given[kw.arg] = kw.value
        names = [p for p in params + [a.arg for a in args.kwonlyargs] if p in given or p in defaults]
        return ",".join(f"{n}={ast.unparse(given.get(n, defaults.get(n)))}" for n in names)

    # -- expressions
    def conv(self, node, self_e, cls, depth=0):
        """returns (E, class name or None)"""
        if depth > 16:
            raise TableError("property inlining does not terminate")
        if isinstance(node, ast.Constant) and node.value is None:
            return NONE, None
        if isinstance(node, ast.Name):
            if node.id == "self":
                if self_e is None:
                    raise TableError("bare FlowSampler `self` in a result expression")
                return self_e, cls
            return opaque(node.id), None
        if isinstance(node, ast.IfExp):
            return ite(self.conv(node.test, self_e, cls, depth)[0], self.conv(node.body, self_e, cls, depth)[0],
                       self.conv(node.orelse, self_e, cls, depth)[0]), None
        if isinstance(node, ast.Compare) and len(node.ops) == 1 and isinstance(node.comparators[0], ast.Constant) \
                and node.comparators[0].value is None and isinstance(node.ops[0], (ast.IsNot, ast.Is)):
            inner = not_none(self.conv(node.left, self_e, cls, depth)[0])
            return (inner if isinstance(node.ops[0], ast.IsNot) else opaque(ast.unparse(node))), None
        if isinstance(node, ast.Attribute):
            # FlowSampler context: self.ns is the sampler, other self.X are FlowSampler's own attributes
            if self.fs_env is not None and self_e is None and isinstance(node.value, ast.Name) and node.value.id == "self":
                if node.attr == "ns":
                    return root(), self.sampler
                if node.attr in self.fs_env:
                    return self.fs_env[node.attr], None
                return opaque("FlowSampler." + node.attr), None
            e, t = self.conv(node.value, self_e, cls, depth)
            return self.get_attr(e, t, node.attr, depth)
        if isinstance(node, ast.Call):
            f = node.func
            if isinstance(f, ast.Attribute):
                recv_is_model = ast.unparse(f.value) in ("self.model",)
                if not recv_is_model:
                    e, t = self.conv(f.value, self_e, cls, depth)
                    if t is not None:
                        c, fn = self.m.find(t, "methods", f.attr)
                        if fn is not None:
                            self.m.note(c, fn)
                            return app(f".{f.attr}({self.call_keywords(fn, node)})", e), None
                    if not node.args and e[0] != "opaque":
                        kws = ",".join(f"{k.arg}={ast.unparse(k.value)}" for k in node.keywords)
                        return app(f".{f.attr}({kws})", e), None
            if len(node.args) == 1 and not node.keywords:
                return app(ast.unparse(f), self.conv(node.args[0], self_e, cls, depth)[0]), None
            return opaque(ast.unparse(node)), None
        return opaque(ast.unparse(node)), None

    def get_attr(self, e, t, name, depth):
        if t is None:
            return attr(e, name), None
        seen = set()
        while True:
            c, target = self.m.find(t, "aliases", name)
            if target is None or name in seen:
                break
            seen.add(name)
            name = target
        c, fn = self.m.find(t, "props", name)
        if fn is not None:
            stmts = body_of(fn)
            if t in SAMPLER_CLASSES or self.forwarder(stmts):
                r = self.returns_chain(stmts, e, t, depth + 1)
                if r is not None:
                    self.m.note(c, fn)
                    ann = ast.unparse(fn.returns) if fn.returns is not None else None
                    rt = ann if ann in self.m.classes else self.type_of(r)
                    return r, rt
            return attr(e, name), None
        typ = ATTR_TYPES.get((t, name))
        return attr(e, name), (typ[0] if typ else None)

    def type_of(self, e):
        """class of the object an inlined expression denotes, when every branch agrees"""
        if e[0] == "attr":
            return self._attr_type(e)
        if e[0] == "ite":
            ts = {self.type_of(e[2]), self.type_of(e[3])} - {"<none>"}
            return ts.pop() if len(ts) == 1 else None
        if e[0] == "none":
            return "<none>"
        return None

    def _attr_type(self, e):
        base = e[1]
        bt = self.sampler if base[0] == "root" else self.type_of(base)
        if bt in (None, "<none>"):
            return None
        for c in self.m.mro(bt):
            typ = ATTR_TYPES.get((c.name, e[2]))
            if typ:
                return typ[0]
        return None


# ------------------------------------------------------------------------------------------------ table extraction
def result_table(model, sampler):
    """entries of <sampler>.get_result_dictionary (base class first), in assignment order"""
    conv = Conv(model, sampler)
    out = []

    def walk_method(cname):
        c, fn = model.find(cname, "methods", "get_result_dictionary")
        if fn is None:
            raise TableError(f"{cname}.get_result_dictionary not found")
        model.note(c, fn)
        for st in body_of(fn):
            handle(st, c, None)

    def handle(st, c, guard):
        if isinstance(st, ast.Return):
            if not (isinstance(st.value, ast.Name) and st.value.id == "d"):
                raise TableError("get_result_dictionary does not return `d`")
            return
        if isinstance(st, ast.Assign) and len(st.targets) == 1:
            tg = st.targets[0]
            if isinstance(tg, ast.Name) and tg.id == "d":
                src = ast.unparse(st.value)
                if src == "super().get_result_dictionary()":
                    base = BASES.get(c.name)
                    if base is None:
                        raise TableError("super() without a known base class")
                    walk_method(base)
                    return
                if src in ("dict()", "{}"):
                    return
                raise TableError(f"unsupported initialisation of the result dictionary: {src}")
            if isinstance(tg, ast.Subscript) and isinstance(tg.value, ast.Name) and tg.value.id == "d" \
                    and isinstance(tg.slice, ast.Constant) and isinstance(tg.slice.value, str):
                e = conv.conv(st.value, root(), sampler)[0]
                if guard is not None:
                    e = ite(guard, e, opaque("<absent>"))
                out.append((tg.slice.value, e))
                return
        if isinstance(st, ast.If) and not st.orelse and guard is None:
            g = conv.conv(st.test, root(), sampler)[0]
            for s2 in st.body:
                handle(s2, c, g)
            return
        raise TableError(f"unsupported statement in get_result_dictionary: {ast.unparse(st)[:80]}")

    c0, _ = model.find(sampler, "methods", "get_result_dictionary")
    walk_method(c0.name if c0 else sampler)
    return out


def loop_returns(model, sampler):
    """componentwise E of what nested_sampling_loop returns (all return statements must agree after inlining)"""
    c, fn = model.find(sampler, "methods", "nested_sampling_loop")
    if fn is None:
        raise TableError(f"{sampler}.nested_sampling_loop not found")
    model.note(c, fn)
    conv = Conv(model, sampler)
    rets = [n for n in ast.walk(fn) if isinstance(n, ast.Return) and n.value is not None]
    tuples = []
    for r in rets:
        if not isinstance(r.value, ast.Tuple):
            raise TableError("nested_sampling_loop returns a non-tuple")
        tuples.append(tuple(conv.conv(x, root(), sampler)[0] for x in r.value.elts))
    return tuples


def flowsampler_table(model, sampler, method):
    """what FlowSampler.<method> stores on itself / hands to the posterior resampling, rooted at the sampler"""
    fs = model.classes["FlowSampler"]
    fn = fs.methods.get(method)
    if fn is None:
        raise TableError(f"FlowSampler.{method} not found")
    model.note(fs, fn)
    env = {"_final_samples": NONE}             # FlowSampler.__init__: self._final_samples = None
    out = []
    conv = Conv(model, sampler, fs_env=env)

    def self_attr(t):
        return t.attr if isinstance(t, ast.Attribute) and isinstance(t.value, ast.Name) and t.value.id == "self" else None

    def record(prefix, name, e):
        if prefix == "fs:":
            env[name] = e
        out.append((prefix + name, e))

    def assign(st, prefix):
        if not isinstance(st, ast.Assign) or len(st.targets) != 1:
            return
        tg = st.targets[0]
        if isinstance(tg, ast.Tuple) and isinstance(st.value, ast.Call) and ast.unparse(st.value.func) == "self.ns.nested_sampling_loop":
            rets = loop_returns(model, sampler)
            if not rets:
                raise TableError("nested_sampling_loop has no return")
            for i, t in enumerate(tg.elts):
                name = self_attr(t)
                comps = {r[i] for r in rets if len(r) > i}
                if name is None:
                    continue
                if len(comps) != 1:
                    raise TableError(f"the return statements of {sampler}.nested_sampling_loop disagree on component {i}: "
                                     + " | ".join(sorted(show(c) for c in comps)))
                record(prefix, name, comps.pop())
            return
        name = self_attr(tg)
        if name is None:
            return
        v = st.value
        if isinstance(v, ast.Call) and ast.unparse(v.func) == "draw_posterior_samples":
            if v.args:
                record(prefix, "posterior:samples", conv.conv(v.args[0], None, None)[0])
            for kw in v.keywords:
                if kw.arg == "log_w":
                    record(prefix, "posterior:log_w", conv.conv(kw.value, None, None)[0])
            return
        if name in ("logZ", "logZ_error", "_nested_samples", "initial_logZ", "initial_logZ_error"):
            record(prefix, name, conv.conv(v, None, None)[0])

    for st in body_of(fn):
        if isinstance(st, ast.If) and ast.unparse(st.test) == "redraw_samples":
            for s2 in st.body:
                assign(s2, "fs:redraw:")
        else:
            assign(st, "fs:")
    # FlowSampler's own read-only properties, evaluated in the environment after the run (no redraw)
    for pname in ("log_evidence", "log_evidence_error", "nested_samples"):
        p = fs.props.get(pname)
        if p is None:
            raise TableError(f"FlowSampler.{pname} property not found")
        model.note(fs, p)
        r = conv.returns_chain(body_of(p), None, None, 0)
        if r is None:
            raise TableError(f"FlowSampler.{pname} is not a chain of returns")
        out.append(("fsprop:" + pname, r))
    return out


NS_ATTRS = ["log_evidence", "log_evidence_error", "information", "nested_samples", "insertion_indices",
            "birth_log_likelihoods", "state.log_posterior_weights"]
INS_ATTRS = ["log_evidence", "log_evidence_error", "log_posterior_weights", "samples", "nested_samples",
             "final_log_evidence", "final_log_evidence_error", "final_log_posterior_weights", "final_samples"]


def attr_table(model, sampler, names):
    conv = Conv(model, sampler)
    out = []
    for n in names:
        node = ast.parse("self." + n, mode="eval").body
        out.append(("ns:" + n, conv.conv(node, root(), sampler)[0]))
    return out


def build(repo):
    """returns (tables: dict name -> [(key, E)], provenance records)"""
    model = Model(repo)
    tables = {
        "stdResult": result_table(model, "NestedSampler"),
        "insResult": result_table(model, "ImportanceNestedSampler"),
        "stdExposed": flowsampler_table(model, "NestedSampler", "run_standard_sampler") + attr_table(model, "NestedSampler", NS_ATTRS),
        "insExposed": flowsampler_table(model, "ImportanceNestedSampler", "run_importance_nested_sampler")
        + attr_table(model, "ImportanceNestedSampler", INS_ATTRS),
    }
    return tables, sorted(model.used)


DOC = {
    "stdResult": "entries of `NestedSampler.get_result_dictionary` (base class entries first), in assignment order",
    "insResult": "entries of `ImportanceNestedSampler.get_result_dictionary` (base class entries first), in assignment order",
    "stdExposed": "`fs:` what `FlowSampler.run_standard_sampler` stores on the FlowSampler / hands to the posterior resampling, "
                  "`fsprop:` FlowSampler's read-only properties, `ns:` attributes of the NestedSampler object",
    "insExposed": "the same for `FlowSampler.run_importance_nested_sampler` and the ImportanceNestedSampler object "
                  "(`fs:redraw:` = assignments under `if redraw_samples:`)",
}


def render_file(tables, used):
    lines = ["/- GENERATED by harness/c05_tables.py from the nessai sources — do not edit by hand.",
             "   Regenerated on every run of ./check C05; written only when the text changes.",
             "   C05: which attribute every entry of the result dictionaries reads, and what FlowSampler exposes.",
             "   Sources (path, definition, lines, sha256 of the definition's text):"]
    for path, name, a, b, sha in used:
        lines.append(f"     {path}  {name}  {a}-{b}  {sha}")
    lines += ["-/", "import NessaiVerif.Model.Results", "namespace NessaiVerif.Gen.Results", "open NessaiVerif.Results", ""]
    for tname, rows in tables.items():
        lines.append(f"/-- {DOC[tname]} -/")
        lines.append(f"def {tname} : List (String × E) := [")
        for i, (k, e) in enumerate(rows):
            lines.append(f"  ({lean_str(k)}, {render(e)})" + ("," if i + 1 < len(rows) else ""))
        lines.append("]")
        lines.append("")
    lines.append("end NessaiVerif.Gen.Results")
    return "\n".join(lines) + "\n"
