"""C18 — live-point conversions preserve names, order, values and defaults."""
import json
import keyword
import struct
import time

import numpy as np

from . import core

PROPS_MODULE = "NessaiVerif.Props.C18"
MANIFEST = dict(
    text="Lean theorems over a model of nessai/livepoint.py and the extra-field registry of nessai/config.py, for every "
         "value type, every list of >= 1 distinct names, every number of points (0, 1, n) and every registry history: each "
         "conversion (numpy_array_to_live_points 2-d/1-d/empty, parameters_to_live_point, dict_to_live_points scalar and "
         "sequence branch, dataframe_to_live_points, empty_structured_array) returns the canonical array "
         "names ++ [logP, logL, it] ++ registered extras with the values in place and NaN/NaN/0/registered defaults "
         "elsewhere; round trips array->livepoints->array, dict->livepoints->dict, livepoints->dict->livepoints (selected names; and the default-argument path: all fields "
         "back with non_sampling_parameters=False is the identity on names/order/values, back with the default True is "
         "rejected with ValueError because logP/logL/it would occur twice), "
         "tuple->livepoint->fields, all for every n incl. 0 and 1; data frame = dict = array conversion; a dictionary of "
         "length-one sequences gives the same one-point array as the dictionary of scalars (regression guard for the defect "
         "repaired in nessai 0091c80); selection of any fields in any order; the registry "
         "after any add/reset history holds the first registration of every name since the last reset (no duplicates) and "
         "new arrays follow it; the unstructured view on the leading fields is a lens (reads = field reads, writes = field "
         "writes, nothing else touched). Counter-example theorems: duplicated/reserved names are rejected (ValueError), "
         "unstructured_view ignores the order of names, a scalar first value followed by a sequence is rejected. SOURCE TIE: "
         "add_extra_parameters_to_live_points (default of default_values, loop over the zip, guard, appends) is regenerated from the "
         "current source on every run (harness/c18_tx.py -> Gen/LivePointTx.lean) and add_extra_source_eq_model re-proves it equal to "
         "the model's registry update for every registry state and argument. Model also tied to the code by a differential "
         "correspondence: the real functions and the real global registry (always reset in a finally) against the compiled "
         "Lean model on generated names (1-20 identifiers incl. non-ASCII), n in {0,1,2..12}, values as IEEE bit patterns "
         "(several NaN payloads incl. signalling, +-inf, +-0, subnormals, extremes, random), add/reset histories with "
         "duplicates, zip truncation and defaults of several Python/NumPy types, with and without non-sampling fields, "
         "float64 and float32 default dtype; np.shares_memory and write-through/read-through for unstructured_view and "
         "Model.unstructured_view; plus a boundary/malformed stream (duplicate, reserved, missing names, ragged dicts, wrong "
         "column counts, non-prefix views).",
    note="Assumed: NumPy structured-array assignment / np.array(list of tuples, dtype) copy float bits unchanged (observed by "
         "the correspondence, exact bit comparison). The model's int->float cast of the `it` column in "
         "live_points_to_array(names=None) is the identity on tokens and is exercised only at it = 0. Immutability of "
         "previously built arrays under later registry operations is a fact of the pure model; on the real mutable global "
         "it is checked by the correspondence run (bytes and dtype of an array built before the history are compared after). "
         "Non-contiguous inputs to unstructured_view (x[::2]) are rejected by NumPy with ValueError and 0-d records give a "
         "read-only view: outside the property's domain, recorded in the evidence only.",
    technique="Lean 4 proof (induction over lists, lens laws) + source-to-Lean translation of the extra-field registration "
              "re-proved equal to the model on every run + differential correspondence with the real functions",
    ref="5/C18")

def gen(ctx):
    """regenerate Gen/LivePointTx.lean from the current source of add_extra_parameters_to_live_points (harness/c18_tx.py)"""
    from . import c18_tx
    c18_tx.gen(ctx)


NAN_TOK = 0x7FF8000000000000
CORE = ["logP", "logL", "it"]

SPECIAL64 = [
    0x7FF8000000000000, 0x7FF8000000000001, 0xFFF8000000000000, 0x7FF0000000000001, 0x7FF4000000000000,
    0x7FFFFFFFFFFFFFFF, 0xFFF0000000000001, 0x7FF0000000000000, 0xFFF0000000000000, 0x0000000000000000,
    0x8000000000000000, 0x0000000000000001, 0x800FFFFFFFFFFFFF, 0x000FFFFFFFFFFFFF, 0x0010000000000000,
    0x7FEFFFFFFFFFFFFF, 0xFFEFFFFFFFFFFFFF, 0x3FF0000000000000, 0xBFF0000000000000, 0x3FF0000000000001,
    0x4340000000000000, 0x3CB0000000000000,
]
SPECIAL32 = [
    0x7FC00000, 0x7FC00001, 0xFFC00000, 0x7FFFFFFF, 0x7F800000, 0xFF800000, 0x00000000, 0x80000000,
    0x00000001, 0x807FFFFF, 0x00800000, 0x7F7FFFFF, 0xFF7FFFFF, 0x3F800000, 0x3F800001, 0xBFC00000,
]
UNICODE_NAMES = ["θ", "φ_1", "é", "Ω", "质量", "αβ", "Δm", "ñ"]
EXTRA_POOL = ["logQ", "logW", "qID", "logU", "e0", "extra_1", "_aux", "logG", "κ", "n_it", "logLs"]


# --------------------------------------------------------------------------- bits
def f_from_bits(b):
    """Python float with the 64-bit pattern b"""
    return struct.unpack("<d", struct.pack("<Q", b))[0]


def bits_of(a):
    """64-bit patterns of a float array (float32 is widened first)"""
    return np.ascontiguousarray(a, dtype="<f8").reshape(-1).view("<u8").tolist()


def arr_from_bits(B, n, k):
    if n == 0 or k == 0:
        return np.zeros((n, k))
    return np.array(B, dtype="<u8").reshape(n, k).view("<f8")


def widen32(p):
    return int(np.array([p], dtype="<u4").view("<f4").astype("<f8").view("<u8")[0])


def is_snan32(p):
    return (p & 0x7F800000) == 0x7F800000 and (p & 0x007FFFFF) != 0 and not (p & 0x00400000)


def gen_bits(rng, mode):
    r = rng.random()
    if mode == "f4":
        if r < 0.5:
            return widen32(rng.choice(SPECIAL32))
        while True:
            p = rng.getrandbits(32)
            if not is_snan32(p):
                return widen32(p)
    if r < 0.45:
        return rng.choice(SPECIAL64)
    if r < 0.75:
        return rng.getrandbits(64)
    return struct.unpack("<Q", struct.pack("<d", rng.uniform(-1e3, 1e3)))[0]


# --------------------------------------------------------------------------- names
def gen_ident(rng):
    if rng.random() < 0.12:
        return rng.choice(UNICODE_NAMES) + (str(rng.randrange(10)) if rng.random() < 0.5 else "")
    first = "abcdefghijklmnopqrstuvwxyzABCDEFGHIJKLMNOPQRSTUVWXYZ_"
    rest = first + "0123456789"
    s = rng.choice(first) + "".join(rng.choice(rest) for _ in range(rng.choice([0, 0, 1, 2, 3, 5, 8, 11])))
    return s


def gen_names(rng, k, avoid):
    out = []
    while len(out) < k:
        s = gen_ident(rng)
        if s in out or s in avoid or s in CORE or not s.isidentifier() or keyword.iskeyword(s):
            continue
        out.append(s)
    return out


# --------------------------------------------------------------------------- registry ops
def mk_default(tag, tok):
    v = f_from_bits(tok)
    if tag == "f":
        return v
    if tag == "np":
        return np.float64(v)
    if tag == "i":
        return int(v)
    if tag == "b":
        return bool(v)
    if tag == "f32":
        return np.float32(v)
    raise ValueError(tag)


def gen_default(rng, mode):
    tag = rng.choice(["f", "f", "np", "i", "b", "f32"])
    if tag == "i":
        v = float(rng.randrange(-5, 100))
    elif tag == "b":
        v = float(rng.randrange(2))
    elif tag == "f32" or mode == "f4":
        return [tag if tag in ("f", "np", "f32") else "f", widen32(rng.choice([p for p in SPECIAL32 if not is_snan32(p)]
                                                                              + [0x40490FDB, 0xC2F70000, 0x3E200000]))]
    else:
        return [tag, gen_bits(rng, "f8")]
    return [tag, struct.unpack("<Q", struct.pack("<d", v))[0]]


def gen_ops(rng, mode, maxops=4):
    ops = []
    for _ in range(rng.choice([0, 0, 1, 1, 2, 3, maxops])):
        r = rng.random()
        if r < 0.22:
            ops.append(["r"])
            continue
        m = rng.choice([1, 1, 2, 3])
        names = [rng.choice(EXTRA_POOL) for _ in range(m)]  # duplicates within and across calls happen
        if rng.random() < 0.3:
            ops.append(["a", names, None])
        else:
            nd = m if rng.random() < 0.8 else rng.choice([max(0, m - 1), m + 1])  # zip truncation
            ops.append(["a", names, [gen_default(rng, mode) for _ in range(nd)]])
    return ops


def reg_token(ops):
    parts = []
    for op in ops:
        if op[0] == "r":
            parts.append("r")
        else:
            ds = "none" if op[2] is None else "[" + ",".join(str(t) for _, t in op[2]) + "]"
            parts.append("a:[" + ",".join(op[1]) + "]:" + ds)
    return "[" + ",".join(parts) + "]"


def apply_ops_real(ops):
    from nessai import livepoint as lp
    for op in ops:
        if op[0] == "r":
            lp.reset_extra_live_points_parameters()
        elif op[2] is None:
            lp.add_extra_parameters_to_live_points(list(op[1]))
        else:
            lp.add_extra_parameters_to_live_points(list(op[1]), [mk_default(t, b) for t, b in op[2]])


def spec_registry(ops):
    """independent statement of the property: first registration of every name since the last reset"""
    cur = []
    for op in ops:
        if op[0] == "r":
            cur = []
            continue
        ds = [NAN_TOK] * len(op[1]) if op[2] is None else [b for _, b in op[2]]
        for nm, d in zip(op[1], ds):
            if nm not in [c[0] for c in cur]:
                cur.append((nm, d))
    return cur


# --------------------------------------------------------------------------- canonical forms
def _exc(e):
    for t, s in ((ValueError, "value"), (IndexError, "index"), (KeyError, "key"), (TypeError, "type")):
        if isinstance(e, t):
            return "err=" + s
    return "err=" + type(e).__name__


def tok_col(col):
    if col.dtype.kind == "f":
        return bits_of(col)
    if col.dtype.kind in "iu":
        return [int(v) for v in np.asarray(col).reshape(-1)]
    raise TypeError(f"unexpected field dtype {col.dtype}")


def rows_of(x):
    cols = [tok_col(x[nm]) for nm in x.dtype.names]
    return [list(r) for r in zip(*cols)] if cols else [[] for _ in range(x.size)]


def fmt_rows(rows):
    return "[" + ",".join("[" + ",".join(str(v) for v in r) + "]" for r in rows) + "]"


def fmt_names(names):
    return "[" + ",".join(names) + "]"


def nf_of(x, fdt):
    nf = 0
    for nm in x.dtype.names:
        if x.dtype[nm] == np.dtype(fdt):
            nf += 1
        else:
            break
    return nf


def canon_lp(x, fdt):
    if not isinstance(x, np.ndarray) or x.ndim != 1 or x.dtype.names is None:
        return f"unexpected-result:{type(x).__name__}:{getattr(x, 'shape', None)}"
    return f"ok fields={fmt_names(x.dtype.names)} nf={nf_of(x, fdt)} rows={fmt_rows(rows_of(x))}"


def canon_unstructured(a, prefix=True):
    a = np.asarray(a)
    if a.ndim != 2:
        return f"unexpected-shape:{a.shape}"
    rows = [bits_of(a[i]) for i in range(a.shape[0])]
    return (f"ok {a.shape[1]} " if prefix else "ok ") + fmt_rows(rows)


def call(f, *a, **kw):
    try:
        return f(*a, **kw), None
    except Exception as e:  # noqa
        return None, _exc(e)


class Recorder:
    def __init__(self, ctx, case):
        self.ctx, self.case = ctx, case
        self.lines, self.impls, self.subs = [], [], []

    def add(self, line, impl, sub, kind, nontrivial=True):
        self.lines.append(line)
        self.impls.append(impl)
        self.subs.append({"sub": sub, "case": self.case})
        self.ctx.case((line,), nontrivial, {"line": line[:300], "impl": impl[:300]}, kind=kind)

    def fail(self, key, what):
        self.ctx.oracle_fail(key, what, self.case)


def make_model(names):
    from nessai.model import Model

    class M(Model):
        def __init__(self):
            self.names = list(names)
            self.bounds = {n: [0.0, 1.0] for n in names}

        def log_prior(self, x):
            return 0.0

        def log_likelihood(self, x):
            return 0.0

    return M()


# --------------------------------------------------------------------------- oracle
def check_lp(rec, key, what, x, names, nsp, B, n, extras, fdt):
    """the property's predicates on a real conversion output"""
    k = len(names)
    if not isinstance(x, np.ndarray) or x.dtype.names is None or x.shape != (n,):
        rec.fail(key, f"{what}: result is not a structured array of shape ({n},): {getattr(x, 'shape', None)}")
        return
    want = list(names) + ((CORE + [e for e, _ in extras]) if nsp else [])
    if list(x.dtype.names) != want:
        rec.fail(key, f"{what}: field names/order {list(x.dtype.names)} != {want}")
        return
    for j, nm in enumerate(names):
        got = tok_col(x[nm])
        exp = [B[i * k + j] for i in range(n)]
        if x.dtype[nm] != np.dtype(fdt) or got != exp:
            rec.fail(key, f"{what}: values of field {nm!r} changed: got bits {got[:4]} want {exp[:4]} (dtype {x.dtype[nm]})")
            return
    if nsp and n:
        if not (np.all(np.isnan(x["logP"])) and np.all(np.isnan(x["logL"]))):
            rec.fail(key + ".defaults", f"{what}: logP/logL are not NaN by default")
        if x.dtype["it"].kind != "i" or not np.all(x["it"] == 0):
            rec.fail(key + ".defaults", f"{what}: it is not integer 0 by default")
        for e, d in extras:
            if tok_col(x[e]) != [d] * n:
                rec.fail(key + ".defaults", f"{what}: extra field {e!r} is not its registered default")


# --------------------------------------------------------------------------- structured stream
def gen_case(rng, mode=None):
    mode = mode or ("f4" if rng.random() < 0.15 else "f8")
    pre_ops = gen_ops(rng, mode, 2) if rng.random() < 0.5 else []
    ops = gen_ops(rng, mode)
    k = rng.choice([1, 1, 2, 2, 3, 4, 5, 8, 13, 20])
    names = gen_names(rng, k, EXTRA_POOL)
    n = rng.choice([0, 1, 1, 2, 3, 3, 5, 12])
    B = [gen_bits(rng, mode) for _ in range(n * k)]
    ko = rng.choice([1, 2, 3])
    no = rng.choice([1, 2, 4])
    case = dict(stream="A", mode=mode, pre_ops=pre_ops, ops=ops, names=names, n=n, nsp=rng.random() < 0.7, bits=B,
                old_names=gen_names(rng, ko, EXTRA_POOL), old_n=no, old_bits=[gen_bits(rng, mode) for _ in range(no * ko)],
                sel_seed=rng.getrandbits(32), wv=gen_bits(rng, mode), wv2=gen_bits(rng, mode))
    return case


def run_case(ctx, case):
    """run the real code on one structured case; returns the Recorder (protocol lines + real outputs)"""
    import random

    import pandas as pd
    from nessai import config
    from nessai import livepoint as lp

    rec = Recorder(ctx, case)
    ctx.hist["mode." + case["mode"]] += 1
    mode, names, n, nsp, B = case["mode"], case["names"], case["n"], case["nsp"], case["bits"]
    k = len(names)
    fdt = "f4" if mode == "f4" else "f8"
    c = "0" if mode == "f4" else "1"
    nspt = "1" if nsp else "0"
    rng = random.Random(case["sel_seed"])
    ncl = "n0" if n == 0 else ("n1" if n == 1 else "nmany")
    saved = config.livepoints.default_float_dtype
    lp.reset_extra_live_points_parameters()
    try:
        if mode == "f4":
            config.livepoints.default_float_dtype = "f4"
            config.livepoints.reset_properties()
        # ---- an array built BEFORE the history
        apply_ops_real(case["pre_ops"])
        ko, no = len(case["old_names"]), case["old_n"]
        old_in = arr_from_bits(case["old_bits"], no, ko)
        old, err = call(lp.numpy_array_to_live_points, old_in, case["old_names"])
        rec.add(f"lp arr {c} {reg_token(case['pre_ops'])} {fmt_names(case['old_names'])} 1 d2 {ko} "
                f"{fmt_rows([case['old_bits'][i * ko:(i + 1) * ko] for i in range(no)])}",
                err or canon_lp(old, fdt), "old-array", "arr.pre-history")
        old_bytes, old_dtype = (old.tobytes(), old.dtype) if old is not None else (None, None)
        # ---- the history
        apply_ops_real(case["ops"])
        hist = case["pre_ops"] + case["ops"]
        regt = reg_token(hist)
        real_reg = list(zip(config.livepoints.extra_parameters,
                            [bits_of(np.array([d], dtype=fdt))[0] for d in config.livepoints.extra_parameters_defaults]))
        rec.add(f"lp reg {c} {regt}", "ok [" + ",".join(f"{e}:{d}" for e, d in real_reg) + "]", "registry",
                "registry.len%d" % min(len(hist), 4), bool(hist))
        extras = spec_registry(hist)
        if real_reg != extras or len(config.livepoints.extra_parameters_dtype) != len(extras):
            rec.fail("config.livepoints:registry-history",
                     f"registry after history {hist} is {real_reg}, required {extras} (first registration of each name since the last reset)")
        if list(config.livepoints.non_sampling_parameters) != CORE + [e for e, _ in extras]:
            rec.fail("config.livepoints:registry-history", "non_sampling_parameters does not follow the registry")
        if old is not None:
            if old.tobytes() != old_bytes or old.dtype != old_dtype:
                rec.fail("registry:previously-built-array-changed", "an array built before add/reset changed")
            back, err = call(lp.live_points_to_array, old, case["old_names"])
            if err or bits_of(back) != bits_of(old_in):
                rec.fail("registry:previously-built-array-changed",
                         "an array built before add/reset no longer converts back to its values")
        # ---- dtype / empty
        dt, err = call(lp.get_dtype, names, non_sampling_parameters=nsp)
        if dt is not None:
            e0 = np.empty(0, dtype=dt)
            impl = f"ok fields={fmt_names(dt.names)} nf={nf_of(e0, fdt)}"
            want = list(names) + ((CORE + [e for e, _ in extras]) if nsp else [])
            if list(dt.names) != want:
                rec.fail("get_dtype", f"field names/order {list(dt.names)} != {want}")
        else:
            impl = err
            rec.fail("get_dtype", f"raised {err} on distinct non-reserved names")
        rec.add(f"lp dtype {c} {regt} {fmt_names(names)} {nspt}", impl, "get_dtype", "get_dtype")
        x, err = call(lp.empty_structured_array, n, names, non_sampling_parameters=nsp)
        rec.add(f"lp empty {c} {regt} {n} {fmt_names(names)} {nspt}", err or canon_lp(x, fdt), "empty", "empty." + ncl)
        if err:
            rec.fail("empty_structured_array", f"raised {err}")
        else:
            nanB = [bits_of(np.array([np.nan], dtype=fdt))[0]] * (n * k)
            check_lp(rec, "empty_structured_array", "empty_structured_array", x, names, nsp, nanB, n, extras, fdt)
        # ---- plain arrays
        A = arr_from_bits(B, n, k)
        rowsB = [B[i * k:(i + 1) * k] for i in range(n)]
        variants = [("d2", A, f"d2 {k} {fmt_rows(rowsB)}")]
        if n == 1:
            variants.append(("d1", A[0].copy(), f"d1 {fmt_rows(rowsB)[1:-1]}"))
        if n == 0:
            variants.append(("d1-empty", np.array([]), "d1 []"))
        xs = None
        for vn, arr, tail in variants:
            x, err = call(lp.numpy_array_to_live_points, arr, names, non_sampling_parameters=nsp)
            rec.add(f"lp arr {c} {regt} {fmt_names(names)} {nspt} {tail}", err or canon_lp(x, fdt),
                    "numpy_array_to_live_points." + vn, f"arr.{vn}.{ncl}")
            if err:
                rec.fail("numpy_array_to_live_points", f"raised {err} ({vn})")
                continue
            check_lp(rec, "numpy_array_to_live_points", f"numpy_array_to_live_points[{vn}]", x, names, nsp, B, n, extras, fdt)
            if vn == "d2":
                xs = x
        # ---- tuple
        if n <= 1:
            pv = [f_from_bits(b) for b in B]
            forms = [("tuple", tuple(pv))] if n == 0 else [("tuple", tuple(pv)), ("list", list(pv)), ("ndarray", A[0].copy())]
            for fn, p in forms:
                x, err = call(lp.parameters_to_live_point, p, names, non_sampling_parameters=nsp)
                rec.add(f"lp tup {c} {regt} {fmt_names(names)} {nspt} {fmt_rows([B])[1:-1]}", err or canon_lp(x, fdt),
                        "parameters_to_live_point." + fn, f"tup.{fn}.{ncl}")
                if err:
                    rec.fail("parameters_to_live_point", f"raised {err} ({fn})")
                else:
                    check_lp(rec, "parameters_to_live_point", f"parameters_to_live_point[{fn}]", x, names, nsp, B, n, extras, fdt)
        # ---- dictionaries
        cols = [[B[i * k + j] for i in range(n)] for j in range(k)]
        if n == 1:
            for fn, conv in (("pyfloat", f_from_bits), ("np.float64", lambda b: np.float64(f_from_bits(b)))):
                d = {nm: conv(cols[j][0]) for j, nm in enumerate(names)}
                x, err = call(lp.dict_to_live_points, d, non_sampling_parameters=nsp)
                items = ",".join(f"{nm}:s:{cols[j][0]}" for j, nm in enumerate(names))
                rec.add(f"lp dict {c} {regt} {nspt} [{items}]", err or canon_lp(x, fdt), "dict_to_live_points.scalars." + fn,
                        "dict.scalars")
                if err:
                    rec.fail("dict_to_live_points", f"raised {err} on a dictionary of scalars")
                else:
                    check_lp(rec, "dict_to_live_points", "dict_to_live_points[scalars]", x, names, nsp, B, n, extras, fdt)
        for fn in ("ndarray", "list"):
            d = {}
            for j, nm in enumerate(names):
                col = np.array(cols[j], dtype="<u8").view("<f8") if n else np.zeros(0)
                d[nm] = col if fn == "ndarray" else [f_from_bits(b) for b in cols[j]]
            x, err = call(lp.dict_to_live_points, d, non_sampling_parameters=nsp)
            items = ",".join(f"{nm}:a:[{','.join(str(b) for b in cols[j])}]" for j, nm in enumerate(names))
            rec.add(f"lp dict {c} {regt} {nspt} [{items}]", err or canon_lp(x, fdt), "dict_to_live_points.sequences." + fn,
                    f"dict.seq.{ncl}")
            key = "dict_to_live_points"
            if err:
                rec.fail(key, f"raised {err} on a dictionary of {n}-element sequences "
                              f"(e.g. dict_to_live_points({{'x': np.array([1.0])}}))")
            else:
                check_lp(rec, key, "dict_to_live_points[sequences]", x, names, nsp, B, n, extras, fdt)
        # ---- data frame
        df = pd.DataFrame({nm: (np.array(cols[j], dtype="<u8").view("<f8") if n else np.zeros(0))
                           for j, nm in enumerate(names)})
        x, err = call(lp.dataframe_to_live_points, df, non_sampling_parameters=nsp)
        rec.add(f"lp df {c} {regt} {nspt} {fmt_names(names)} {fmt_rows(rowsB)}", err or canon_lp(x, fdt),
                "dataframe_to_live_points", f"df.{ncl}")
        if err:
            rec.fail("dataframe_to_live_points", f"raised {err}")
        else:
            check_lp(rec, "dataframe_to_live_points", "dataframe_to_live_points", x, names, nsp, B, n, extras, fdt)
        # ---- reading back
        if xs is not None:
            read_back(rec, lp, xs, case, rng, extras, fdt, c, ncl)
    finally:
        lp.reset_extra_live_points_parameters()
        config.livepoints.default_float_dtype = saved
        config.livepoints.reset_properties()
    return rec


def read_back(rec, lp, xs, case, rng, extras, fdt, c, ncl):
    names, n, nsp, B = case["names"], case["n"], case["nsp"], case["bits"]
    k = len(names)
    fields = list(xs.dtype.names)
    fs, rs = fmt_names(fields), fmt_rows(rows_of(xs))
    nf = nf_of(xs, fdt)
    rowsB = [B[i * k:(i + 1) * k] for i in range(n)]
    # live_points_to_array
    sel = rng.sample(fields, rng.randint(1, len(fields)))
    for sn, s in (("names", list(names)), ("selection", sel), ("none", None)):
        a, err = call(lp.live_points_to_array, xs, s)
        rec.add(f"lp toarr {fs} {rs} {'none' if s is None else fmt_names(s)}", err or canon_unstructured(a),
                "live_points_to_array." + sn, f"toarr.{sn}.{ncl}")
        if err:
            rec.fail("live_points_to_array", f"raised {err} ({sn})")
            continue
        s2 = fields if s is None else s
        if a.shape != (n, len(s2)):
            rec.fail("live_points_to_array", f"shape {a.shape} != {(n, len(s2))}")
            continue
        for j, nm in enumerate(s2):
            if bits_of(a[:, j]) != tok_col(xs[nm]) and xs.dtype[nm].kind == "f":
                rec.fail("live_points_to_array", f"column {j} is not field {nm!r} ({sn})")
        if sn == "names" and [bits_of(a[i]) for i in range(n)] != rowsB:
            rec.fail("live_points_to_array:roundtrip", "array -> live points -> array changed the values")
    # live_points_to_dict
    # ("empty": an explicit EMPTY selection is a selection — the result has no keys; seeded change C18-d: `names or …`)
    for sn, s in (("names", list(names)), ("selection", sel), ("none", None), ("empty", []), ("empty-tuple", ())):
        d, err = call(lp.live_points_to_dict, xs, s)
        if err:
            impl = err
            rec.fail("live_points_to_dict", f"raised {err} ({sn})")
        else:
            impl = "ok [" + ",".join(f"{kk}:[{','.join(str(t) for t in tok_col(v))}]" for kk, v in d.items()) + "]"
            s2 = fields if s is None else list(s)
            if list(d.keys()) != list(s2):
                rec.fail("live_points_to_dict", f"keys {list(d.keys())} != requested {s2}")
            elif any(tok_col(d[nm]) != tok_col(xs[nm]) for nm in s2):
                rec.fail("live_points_to_dict", "a value differs from the field it is named after")
        rec.add(f"lp todict {fs} {rs} {'none' if s is None else fmt_names(list(s))}", impl, "live_points_to_dict." + sn,
                f"todict.{sn}.{ncl}")
    # live points -> dict -> live points
    d, err = call(lp.live_points_to_dict, xs, list(names))
    if d is not None:
        y, err = call(lp.dict_to_live_points, d, non_sampling_parameters=nsp)
        key = "dict_to_live_points:roundtrip"
        if err:
            rec.fail(key, f"live_points_to_dict then dict_to_live_points raised {err} for {n} point(s)")
        elif y.dtype != xs.dtype or y.tobytes() != xs.tobytes():
            rec.fail(key, "live points -> dict -> live points changed the array")
        rec.ctx.case(("lp->dict->lp", rec.case["sel_seed"]), True, kind=f"roundtrip.lp-dict-lp.{ncl}")
    # default-argument path: live_points_to_dict(x) returns ALL fields; back with dict_to_live_points
    x2 = xs.copy()
    if nsp and n:
        x2["logL"][:] = np.array([case["wv"]], dtype="<u8").view("<f8")[0]
        x2["logP"][:] = np.array([case["wv2"]], dtype="<u8").view("<f8")[0]
    d, err = call(lp.live_points_to_dict, x2)
    if d is not None:
        regt = reg_token(case["pre_ops"] + case["ops"])
        items = ",".join(f"{kk}:a:[{','.join(str(t) for t in tok_col(v))}]" for kk, v in d.items())
        for back_nsp in (True, False):
            y, err = call(lp.dict_to_live_points, d) if back_nsp else call(lp.dict_to_live_points, d, non_sampling_parameters=False)
            rec.add(f"lp dict {c} {regt} {'1' if back_nsp else '0'} [{items}]", err or canon_lp(y, fdt),
                    "dict_to_live_points(live_points_to_dict(x))" + ("" if back_nsp else ",nsp=False"),
                    f"roundtrip.default-args.{'nsp' if nsp else 'plain'}.back-{'nsp' if back_nsp else 'plain'}.{ncl}")
            if back_nsp and nsp:
                continue      # keys contain logP/logL/it: outside the domain (names must be fresh); model = code on rejection
            key = "dict_to_live_points:default-args-roundtrip"
            if err:
                rec.fail(key, f"live_points_to_dict(x) then dict_to_live_points(d, non_sampling_parameters={back_nsp}) raised {err}")
                continue
            want = fields + ((CORE + [e for e, _ in extras]) if back_nsp else [])
            if list(y.dtype.names) != want or y.shape != (n,):
                rec.fail(key, f"field names/order {list(y.dtype.names)} != {want}")
                continue
            for nm in fields:
                same = (tok_col(y[nm]) == tok_col(x2[nm])) if x2.dtype[nm].kind == "f" else bool(np.all(y[nm] == x2[nm]))
                if not same:
                    rec.fail(key, f"value of field {nm!r} changed on the way back")
        if nsp and n:                 # integer `it` values come back numerically equal (oracle only)
            x3 = x2.copy()
            x3["it"] = np.arange(1, n + 1) * 7
            y, err = call(lp.dict_to_live_points, lp.live_points_to_dict(x3), non_sampling_parameters=False)
            if err or list(y.dtype.names) != fields or not np.all(y["it"] == x3["it"]):
                rec.fail("dict_to_live_points:default-args-roundtrip", "`it` values changed on the way back")
    # unstructured view (function and Model method)
    kk = rng.randint(1, k)
    for sn, s in (("names", list(names)), ("prefix", list(names[:kk]))):
        v, err = call(lp.unstructured_view, xs, s)
        rec.add(f"lp view {fs} {nf} {rs} {fmt_names(s)}", err or canon_unstructured(v, prefix=False),
                "unstructured_view." + sn, f"view.{sn}.{ncl}")
        if err:
            rec.fail("unstructured_view", f"raised {err} on the leading parameter fields")
            continue
        if v.shape != (n, len(s)) or [bits_of(v[i]) for i in range(n)] != [r[:len(s)] for r in rowsB]:
            rec.fail("unstructured_view", "the view does not show exactly the parameter values in order")
        if n and not np.shares_memory(v, xs):
            rec.fail("unstructured_view:copy", "the view does not share memory with the array (a copy was made)")
    m = make_model(names) if k >= 2 else None      # nessai refuses one-dimensional models
    v, err = call(m.unstructured_view, xs) if m else (None, None)
    if m:
        rec.add(f"lp view {fs} {nf} {rs} {fmt_names(names)}", err or canon_unstructured(v, prefix=False),
                "Model.unstructured_view", f"view.Model.{ncl}")
    if m is None:
        pass
    elif err:
        rec.fail("Model.unstructured_view", f"raised {err}")
    else:
        if v.shape != (n, k) or [bits_of(v[i]) for i in range(n)] != rowsB:
            rec.fail("Model.unstructured_view", "the view does not show exactly the model parameters in order")
        if n and not np.shares_memory(v, xs):
            rec.fail("Model.unstructured_view:copy", "the view does not share memory with the array")
    # write-through and read-through
    if n:
        i, j = rng.randrange(n), rng.randrange(k)
        wv, wv2 = case["wv"], case["wv2"]
        getters = [("function", lambda y: lp.unstructured_view(y, list(names)))]
        if m:
            getters.append(("Model", m.unstructured_view))
        for sn, getv in getters:
            y = xs.copy()
            v, err = call(getv, y)
            if err:
                continue
            v[i, j] = np.array([wv], dtype="<u8").view("<f8")[0]
            rec.add(f"lp vset {fs} {nf} {rs} {fmt_names(names)} {i} {j} {wv}", canon_lp(y, fdt),
                    "unstructured_view.write." + sn, f"view.write.{sn}")
            exp = xs.copy()
            exp[names[j]][i] = np.array([wv], dtype="<u8").view("<f8")[0]
            if rows_of(y) != rows_of(exp) or y.dtype != xs.dtype:
                rec.fail("unstructured_view:write-through",
                         f"writing view[{i},{j}] is not the assignment x[{names[j]!r}][{i}] and nothing else ({sn})")
            y[names[j]][i] = np.array([wv2], dtype="<u8").view("<f8")[0]
            if bits_of(v[i, j:j + 1]) != tok_col(y[names[j]][i:i + 1]):
                rec.fail("unstructured_view:read-through", f"a write to the array is not visible through the view ({sn})")
        # a contiguous slice is still a window
        if n >= 2:
            y = xs.copy()
            v, err = call(lp.unstructured_view, y[1:], list(names))
            if err or not np.shares_memory(v, y) or [bits_of(v[r]) for r in range(n - 1)] != rowsB[1:]:
                rec.fail("unstructured_view", "view of a contiguous slice is not a window onto that slice")
            # observed, outside the property: strided input / 0-d record
            obs = rec.ctx.extra.setdefault("observed_outside_domain", {})
            if n >= 3:
                _, e1 = call(lp.unstructured_view, y[::2], list(names))
                obs["unstructured_view(x[::2]) strided"] = sorted(set(obs.get("unstructured_view(x[::2]) strided", [])) | {e1 or "ok"})
            v0, e0 = call(lp.unstructured_view, y[0], list(names))
            obs["unstructured_view(x[0]) 0-d record: writeable"] = sorted(
                set(obs.get("unstructured_view(x[0]) 0-d record: writeable", [])) | {e0 or str(bool(v0.flags.writeable))})


# --------------------------------------------------------------------------- boundary / malformed stream
def boundary(ctx):
    """inputs outside the property's domain: model and code must agree on rejection / quirk"""
    import pandas as pd
    from nessai import config
    from nessai import livepoint as lp
    rng = ctx.rng
    lines, impls, cases = [], [], []

    def add(line, impl, what):
        lines.append(line)
        impls.append(impl)
        cases.append({"stream": "B", "what": what, "line": line})
        ctx.case(("B", line), True, {"line": line[:200], "impl": impl[:200]}, kind="boundary." + what)

    fdt = "f8"
    hist_pool = [[], [["a", ["logQ"], [["f", 0x4014000000000000]]]],
                 [["a", ["logQ", "qID", "logQ"], [["f", 0x3FF0000000000000], ["i", 0x4000000000000000], ["f", 0x4008000000000000]]]],
                 [["a", ["e0"], None], ["r"], ["a", ["logW", "e0"], [["b", 0x3FF0000000000000]]]]]
    reps = ctx.scale(12, 80)
    for rep in range(reps):
        hist = hist_pool[rep % len(hist_pool)]
        regt = reg_token(hist)
        extras = [e for e, _ in spec_registry(hist)]
        lp.reset_extra_live_points_parameters()
        try:
            apply_ops_real(hist)
            k = rng.choice([1, 2, 3, 5])
            good = gen_names(rng, k, EXTRA_POOL)
            n = rng.choice([0, 1, 2, 3])
            B = [gen_bits(rng, "f8") for _ in range(n * k)]
            rowsB = [B[i * k:(i + 1) * k] for i in range(n)]
            A = arr_from_bits(B, n, k)
            bad_name_sets = [("dup", good + [good[0]]), ("reserved-logL", good + ["logL"]), ("reserved-it", ["it"] + good),
                             ("reserved-logP", good[:1] + ["logP"] + good[1:]), ("none", [])]
            if extras:
                bad_name_sets.append(("reserved-extra", good + [extras[-1]]))
            for what, nm in bad_name_sets:
                for nsp in (True, False):
                    nspt = "1" if nsp else "0"
                    dt, err = call(lp.get_dtype, nm, non_sampling_parameters=nsp)
                    add(f"lp dtype 1 {regt} {fmt_names(nm)} {nspt}",
                        err or f"ok fields={fmt_names(dt.names)} nf={nf_of(np.empty(0, dtype=dt), fdt)}", "names." + what)
                    kk = len(nm)
                    B2 = [gen_bits(rng, "f8") for _ in range(max(n, 1) * kk)]
                    n2 = max(n, 1)
                    x, err = call(lp.numpy_array_to_live_points, arr_from_bits(B2, n2, kk), nm, non_sampling_parameters=nsp)
                    add(f"lp arr 1 {regt} {fmt_names(nm)} {nspt} d2 {kk} {fmt_rows([B2[i * kk:(i + 1) * kk] for i in range(n2)])}",
                        err or canon_lp(x, fdt), "names." + what)
                    for nn in (0, 2):
                        x, err = call(lp.empty_structured_array, nn, nm, non_sampling_parameters=nsp)
                        add(f"lp empty 1 {regt} {nn} {fmt_names(nm)} {nspt}", err or canon_lp(x, fdt), "names." + what)
                    if kk:
                        x, err = call(lp.parameters_to_live_point, tuple(f_from_bits(b) for b in B2[:kk]), nm,
                                      non_sampling_parameters=nsp)
                        add(f"lp tup 1 {regt} {fmt_names(nm)} {nspt} {fmt_rows([B2[:kk]])[1:-1]}", err or canon_lp(x, fdt),
                            "names." + what)
                        df = pd.DataFrame(arr_from_bits(B2, n2, kk), columns=nm)
                        x, err = call(lp.dataframe_to_live_points, df, non_sampling_parameters=nsp)
                        add(f"lp df 1 {regt} {nspt} {fmt_names(nm)} {fmt_rows([B2[i * kk:(i + 1) * kk] for i in range(n2)])}",
                            err or canon_lp(x, fdt), "names." + what)
            # wrong column counts
            for dc in (-1, 1, 3):
                kc = k + dc
                if kc < 0:
                    continue
                for nn in (1, 2):
                    B2 = [gen_bits(rng, "f8") for _ in range(nn * kc)]
                    x, err = call(lp.numpy_array_to_live_points, arr_from_bits(B2, nn, kc), good)
                    add(f"lp arr 1 {regt} {fmt_names(good)} 1 d2 {kc} {fmt_rows([B2[i * kc:(i + 1) * kc] for i in range(nn)])}",
                        err or canon_lp(x, fdt), "columns%+d" % dc)
                if kc:
                    B2 = [gen_bits(rng, "f8") for _ in range(kc)]
                    x, err = call(lp.numpy_array_to_live_points, arr_from_bits(B2, 1, kc)[0], good)
                    add(f"lp arr 1 {regt} {fmt_names(good)} 1 d1 {fmt_rows([B2])[1:-1]}", err or canon_lp(x, fdt), "columns1d%+d" % dc)
                    x, err = call(lp.parameters_to_live_point, tuple(f_from_bits(b) for b in B2), good)
                    add(f"lp tup 1 {regt} {fmt_names(good)} 1 {fmt_rows([B2])[1:-1]}", err or canon_lp(x, fdt), "tuple-len%+d" % dc)
            # dictionaries: empty, mixed, ragged, broadcast
            x, err = call(lp.dict_to_live_points, {})
            add(f"lp dict 1 {regt} 1 []", err or canon_lp(x, fdt), "dict.empty")
            for _ in range(4):
                items, d = [], {}
                N = rng.choice([0, 1, 2, 3])
                for nm in good:
                    r = rng.random()
                    if r < 0.3:
                        b = gen_bits(rng, "f8")
                        d[nm] = f_from_bits(b)
                        items.append(f"{nm}:s:{b}")
                    else:
                        L = N if r < 0.75 else rng.choice([0, 1, 2, 3])
                        bs = [gen_bits(rng, "f8") for _ in range(L)]
                        d[nm] = np.array(bs, dtype="<u8").view("<f8") if L else np.zeros(0)
                        items.append(f"{nm}:a:[{','.join(str(b) for b in bs)}]")
                for nsp in (True, False):
                    x, err = call(lp.dict_to_live_points, d, non_sampling_parameters=nsp)
                    add(f"lp dict 1 {regt} {'1' if nsp else '0'} [{','.join(items)}]", err or canon_lp(x, fdt), "dict.mixed")
            # reading back with bad selections
            xs, err = call(lp.numpy_array_to_live_points, A, good)
            if xs is not None:
                fields = list(xs.dtype.names)
                fs, rs, nf = fmt_names(fields), fmt_rows(rows_of(xs)), nf_of(xs, fdt)
                sels = [("missing", good + ["zz_missing"]), ("missing-first", ["zz_missing"] + good), ("dup", good + [good[-1]]),
                        ("dup-missing", [good[0], good[0], "zz_missing"]), ("empty", []), ("perm", list(reversed(good))),
                        ("with-it", good + ["it"]), ("all", fields)]
                for what, s in sels:
                    a, err = call(lp.live_points_to_array, xs, s)
                    add(f"lp toarr {fs} {rs} {fmt_names(s)}", err or canon_unstructured(a), "toarr." + what)
                    d, err = call(lp.live_points_to_dict, xs, s)
                    add(f"lp todict {fs} {rs} {fmt_names(s)}",
                        err or "ok [" + ",".join(f"{kk}:[{','.join(str(t) for t in tok_col(v))}]" for kk, v in d.items()) + "]",
                        "todict." + what)
                views = sels + [("non-prefix", good[1:] or ["logP"]), ("skip", good[:1] + ["logP"]), ("floats", good + ["logP", "logL"]),
                                ("floats-1", good + ["logP"]), ("perm-floats", ["logL", "logP"] + good),
                                ("extra", good + CORE + extras)]
                for what, s in views:
                    v, err = call(lp.unstructured_view, xs, s)
                    add(f"lp view {fs} {nf} {rs} {fmt_names(s)}", err or canon_unstructured(v, prefix=False), "view." + what)
                for (i, j) in ((n, 0), (0, k), (n + 2, k + 2)):
                    y = xs.copy()
                    v = lp.unstructured_view(y, good)
                    try:
                        v[i, j] = 1.5
                        impl = canon_lp(y, fdt)
                    except Exception as e:  # noqa
                        impl = _exc(e)
                    add(f"lp vset {fs} {nf} {rs} {fmt_names(good)} {i} {j} {0x3FF8000000000000}", impl, "view.write-out-of-range")
            # empty_structured_array(dtype=...)
            ns = CORE + extras
            orders = [("full", good + ns), ("interleaved", ns[:1] + good + ns[1:]), ("missing-ns", good + ns[:-1]),
                      ("dup", good + ns + good[:1])]
            for what, fl in orders:
                tm = {"it": config.livepoints.it_dtype}
                for nn in (0, 2):
                    try:
                        dtl = [(f, tm.get(f, "f8")) for f in fl]
                        x, err = call(lp.empty_structured_array, nn, dtype=dtl)
                    except Exception as e:  # noqa
                        x, err = None, _exc(e)
                    nfl = 0
                    for f in fl:
                        if f == "it":
                            break
                        nfl += 1
                    add(f"lp emptyd 1 {regt} {nn} {fmt_names(fl)} {nfl}", err or canon_lp(x, fdt), "empty-dtype." + what)
        finally:
            lp.reset_extra_live_points_parameters()
    ctx.diff_model(lines, impls, cases, what="model != implementation (boundary stream)")


# --------------------------------------------------------------------------- entry points
def selfcheck(ctx):
    """the bit-pattern transport used by the harness itself must be exact"""
    for b in SPECIAL64:
        if struct.unpack("<Q", struct.pack("<d", f_from_bits(b)))[0] != b or bits_of(np.array([f_from_bits(b)]))[0] != b:
            ctx.broken("harness: Python float transport does not preserve bit pattern %#x" % b)
    from nessai import config
    if bits_of(np.array([config.livepoints.default_float_value]))[0] != NAN_TOK or config.livepoints.it_default != 0 \
            or list(config.livepoints.core_parameters) != CORE:
        ctx.oracle_fail("config.livepoints:documented-defaults",
                        "default_float_value / it_default / core_parameters are not NaN / 0 / [logP, logL, it]", {})


def _diff(ctx, recs):
    lines = [l for r in recs for l in r.lines]
    impls = [i for r in recs for i in r.impls]
    subs = [s for r in recs for s in r.subs]
    return ctx.diff_model(lines, impls, subs)


def correspond(ctx):
    ctx.rule = ("stream A: generated (mode f8/f4, registry history before/after, 1-20 distinct identifiers, n in {0,1,2,3,5,12}, "
                "bit-pattern values, with/without non-sampling fields) -> every conversion and read-back function of "
                "nessai.livepoint + Model.unstructured_view on the real global registry, each call = one case compared with the "
                "Lean model line by line (field names, order, nf, per-field bit patterns / error kind); stream B: boundary and "
                "malformed inputs (model = code on rejection and quirks); non-trivial = distinct protocol line (call + inputs); "
                "registry lines are non-trivial when the history is non-empty")
    ctx.assume("NumPy copies float bit patterns unchanged in structured assignment, np.array(list of tuples, dtype) and pandas "
               ".values (checked exactly on every generated value incl. signalling NaNs)",
               "`it` is only ever produced at its default 0 by the conversions; its int->float cast in "
               "live_points_to_array(names=None) is modelled as the identity on tokens",
               "the registry is process-global mutable state: every case starts from and ends in the reset state (finally)")
    ctx.trust("hand-written model Model/LivePoint.lean (incl. NumPy dtype/view acceptance rules); tie = this correspondence",
              "numpy structured arrays, numpy.lib.recfunctions.structured_to_unstructured, pandas.DataFrame.values")
    selfcheck(ctx)
    from nessai import config
    from nessai import livepoint as lp
    ncases = ctx.scale(1000, 15000)
    recs = []
    try:
        for f in sorted((core.VERIF / "corpus" / "C18").glob("*.json")):     # committed corpus first
            case = json.loads(f.read_text())
            recs.append(run_case(ctx, case))
            ctx.traces += 1
        for idx in range(ncases):
            case = gen_case(ctx.rng)
            case["index"] = idx
            recs.append(run_case(ctx, case))
            ctx.traces += 1
        _diff(ctx, recs)
        boundary(ctx)
    finally:
        lp.reset_extra_live_points_parameters()
        config.livepoints.reset_properties()
    if config.livepoints.extra_parameters or list(config.livepoints.non_sampling_parameters) != CORE:
        ctx.broken("harness: registry not restored")


def search(ctx):
    """enlarged failing-input search with the oracle only (time-boxed)"""
    import random
    t0 = time.time()
    box = ctx.scale(60, 600)
    seed = 1000
    while time.time() - t0 < box and not ctx.fails:
        rng = random.Random(seed)
        for _ in range(50):
            run_case(ctx, gen_case(rng))
        seed += 1


def replay(ctx, obj):
    case = obj.get("case") or {}
    if "case" in case and "sub" in case:
        case = case["case"]
    if case.get("stream") == "A":
        rec = run_case(ctx, case)
        _diff(ctx, [rec])
    else:
        correspond(ctx)
