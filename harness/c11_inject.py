"""C11 fault injection: kill the real write protocols at a chosen file operation / byte offset.

`Injector` wraps (unittest.mock.patch, only while a protocol function is running) os.path.exists, shutil.move,
os.replace, os.rename, builtins.open, pickle.dump and torch.save.  Every wrapped call on a tracked file is one
*operation* (the same alphabet as the Lean model: E exists-check, M move, O open-truncate, W pickle write,
X close (= the point after the write, still inside the `with`), S torch.save).  The injector raises `Kill`
(a BaseException, so no `except Exception` in nessai can swallow it) either *before* operation j, or *inside*
a W/S operation after exactly k bytes have reached the file.  The functions under test themselves are not modified.
"""
import builtins
import contextlib
import io
import os
import pickle
import shutil
from unittest import mock

import torch

_real = dict(exists=os.path.exists, move=shutil.move, replace=os.replace, rename=os.rename, open=builtins.open,
             dump=pickle.dump, dumps=pickle.dumps, save=torch.save)


class Kill(BaseException):
    """the injected process death"""


def resolve_k(k, n):
    """k spec -> byte count: int | 'half' | 'last' (n-1) | 'full' (n)"""
    if k == "half":
        return n // 2
    if k == "last":
        return max(n - 1, 0)
    if k == "full":
        return n
    return int(k)


class Injector:
    def __init__(self, root):
        self.root = os.path.realpath(root)
        self.calls = []          # one record per protocol call: dict(kind, ops=[...], crashed, j, k, len)
        self.target = None       # (call_index, j, kspec|None)
        self.cur = None
        self.inner = 0
        self.fired = False

    # ------------------------------------------------------------------ bookkeeping
    def tracked(self, path):
        try:
            p = os.path.realpath(os.fspath(path))
        except TypeError:
            return False
        return p.startswith(self.root + os.sep) and os.path.basename(p).split(".")[0] in ("ckpt", "model")

    def rel(self, path):
        return os.path.relpath(os.path.realpath(os.fspath(path)), self.root)

    def arm(self, call_index, j, k=None):
        """call_index: absolute index of the protocol call, or 'c<n>' / 't<n>' = the n-th checkpoint / weights-save
        call from now on; j: operation index, or an operation letter (first operation of that kind)"""
        self.target = (call_index, j, k)
        self.fired = False
        self.kind_counts = {}

    def disarm(self):
        self.target = None

    def _tick(self, kind, path, atomic=True):
        """called before an operation starts; returns the k spec if the kill is *inside* this (non-atomic) op"""
        c = self.cur
        idx = len(c["ops"])
        if self.target and not self.fired and self._match_call(c) and \
                (self.target[1] == idx or (self.target[1] == kind and kind not in c["ops"])):
            kspec = self.target[2]
            if kspec is None or atomic:
                # killed before the operation started (an atomic operation has no inside)
                self.fired = True
                c.update(crashed=True, j=idx, k=None if kspec is None else 0, atomic_inside=kspec is not None)
                raise Kill(f"before op {idx} of call {c['index']}")
            c["ops"].append(kind)
            c["paths"].append(self.rel(path))
            return kspec
        c["ops"].append(kind)
        c["paths"].append(self.rel(path))
        return None

    def _match_call(self, c):
        sel = self.target[0]
        if isinstance(sel, str):
            return c["kind"] == sel[0] and c.get("nth") == int(sel[1:])
        return sel == c["index"]

    def _die_inside(self, idx, k, n):
        c = self.cur
        self.fired = True
        c.update(crashed=True, j=idx, k=k, len=n)
        raise Kill(f"inside op {idx} of call {c['index']} after {k}/{n} bytes")

    # ------------------------------------------------------------------ wrappers
    def w_exists(self, path):
        if self.cur is not None and not self.inner and self.tracked(path):
            self._tick("E", path)
        return _real["exists"](path)

    def _w_move(self, name):
        def f(src, dst, *a, **kw):
            if self.cur is not None and not self.inner and self.tracked(src):
                self._tick("M", src)
            self.inner += 1
            try:
                return _real[name](src, dst, *a, **kw)
            finally:
                self.inner -= 1
        return f

    def w_open(self, file, mode="r", *a, **kw):
        if self.cur is not None and not self.inner and isinstance(file, (str, os.PathLike)) and "w" in mode \
                and self.tracked(file):
            self._tick("O", file)
        return _real["open"](file, mode, *a, **kw)

    def w_dump(self, obj, file, *a, **kw):
        name = getattr(file, "name", None)
        if self.cur is None or self.inner or name is None or not self.tracked(name):
            return _real["dump"](obj, file, *a, **kw)
        idx = len(self.cur["ops"])
        kspec = self._tick("W", name, atomic=False)
        self.inner += 1
        try:
            data = _real["dumps"](obj, *a, **kw)
        finally:
            self.inner -= 1
        self.cur["len"] = len(data)
        if kspec is not None:
            k = min(resolve_k(kspec, len(data)), len(data))
            file.write(data[:k])
            file.flush()
            self._die_inside(idx, k, len(data))
        file.write(data)
        # the point between the end of the write and the close of the `with` block
        self._tick("X", name)

    def w_save(self, obj, f, *a, **kw):
        if self.cur is None or self.inner or not isinstance(f, (str, os.PathLike)) or not self.tracked(f):
            return _real["save"](obj, f, *a, **kw)
        idx = len(self.cur["ops"])
        kspec = self._tick("S", f, atomic=False)
        self.inner += 1
        try:
            buf = io.BytesIO()
            _real["save"](obj, buf, *a, **kw)
            data = buf.getvalue()
            self.cur["len"] = len(data)
            if kspec is not None:
                k = min(resolve_k(kspec, len(data)), len(data))
                with _real["open"](f, "wb") as fh:
                    fh.write(data[:k])
                self._die_inside(idx, k, len(data))
            return _real["save"](obj, f, *a, **kw)
        finally:
            self.inner -= 1

    @contextlib.contextmanager
    def protocol_call(self, kind, meta=None):
        """everything inside is one call of a write protocol (safe_file_dump / save_weights)"""
        if self.cur is not None:      # nested (ImportanceFlowModel.save_weights -> FlowModel.save_weights)
            yield self.cur
            return
        rec = dict(index=len(self.calls), kind=kind, ops=[], paths=[], crashed=False, j=None, k=None, len=None)
        rec.update(meta or {})
        if self.target is not None:
            kc = getattr(self, "kind_counts", {})
            rec["nth"] = kc.get(kind, 0)
            kc[kind] = rec["nth"] + 1
            self.kind_counts = kc
        self.calls.append(rec)
        self.cur = rec
        patches = [mock.patch("os.path.exists", self.w_exists), mock.patch("shutil.move", self._w_move("move")),
                   mock.patch("os.replace", self._w_move("replace")), mock.patch("os.rename", self._w_move("rename")),
                   mock.patch("builtins.open", self.w_open), mock.patch("pickle.dump", self.w_dump),
                   mock.patch("torch.save", self.w_save)]
        try:
            with contextlib.ExitStack() as st:
                for p in patches:
                    st.enter_context(p)
                yield rec
        finally:
            self.cur = None

    # ------------------------------------------------------------------ whole-run instrumentation
    @contextlib.contextmanager
    def instrument(self, ckpt_meta=None):
        """route every safe_file_dump (as called by BaseNestedSampler.checkpoint) and every FlowModel.save_weights
        of a real run through `protocol_call`; the real functions run unmodified inside."""
        import nessai.samplers.base as sb
        from nessai.flowmodel.base import FlowModel
        real_dump = sb.safe_file_dump
        real_sw = FlowModel.save_weights
        inj = self

        def dump(data, filename, module, save_existing=False):
            meta = dict(se=bool(save_existing), file=inj.rel(filename))
            if ckpt_meta:
                meta.update(ckpt_meta(data))
            with inj.protocol_call("c", meta):
                return real_dump(data, filename, module, save_existing=save_existing)

        def save_weights(self_, weights_file):
            with inj.protocol_call("t", dict(file=inj.rel(weights_file))):
                return real_sw(self_, weights_file)

        with mock.patch.object(sb, "safe_file_dump", dump), mock.patch.object(FlowModel, "save_weights", save_weights):
            yield self


def run_in_child(fn, timeout=60.0):
    """run fn() in a forked child; -> (ok, result).  The child cannot hurt the harness process."""
    import select
    import signal
    import time
    r, w = os.pipe()
    pid = os.fork()
    if pid == 0:
        code = 0
        try:
            os.close(r)
            try:
                res = fn()
            except BaseException as e:  # noqa
                res = ("child-error", type(e).__name__, str(e)[:200])
            with os.fdopen(w, "wb") as fh:
                _real["dump"](res, fh)
        except BaseException:  # noqa
            code = 1
        finally:
            os._exit(code)
    os.close(w)
    data = b""
    t0 = time.time()
    ok = True
    while True:
        left = timeout - (time.time() - t0)
        if left <= 0:
            ok = False
            break
        rd, _, _ = select.select([r], [], [], left)
        if not rd:
            ok = False
            break
        chunk = os.read(r, 65536)
        if not chunk:
            break
        data += chunk
    os.close(r)
    if not ok:
        try:
            os.kill(pid, signal.SIGKILL)
        except OSError:
            pass
    os.waitpid(pid, 0)
    if not ok or not data:
        return False, None
    try:
        return True, pickle.loads(data)
    except Exception:  # noqa
        return False, None
