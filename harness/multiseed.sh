#!/bin/bash
# usage: harness/multiseed.sh <seed> [<seed> ...]
# Runs every claimed check (quick tier) for each VERIF_SEED in a scratch COPY of this directory against /repo itself and prints one
# line per check and seed; /verif's own evidence files are not touched.  Used to look for false alarms on the unchanged tree
# (both false alarms of DESIGN 11.3 that depend on the seed were found this way).
SRC="$(dirname "$(readlink -f "$0")")/.."
COPY=$(mktemp -d /tmp/ms-verif-XXXXXX)
rsync -a --exclude replay --exclude .git "$SRC/" "$COPY/"
cd "$COPY" || exit 2
for s in "$@"; do
  VERIF_SEED=$s harness/runall.sh quick 2>&1 | grep -a "^\[C\|VIOLATION" | sed "s/^/seed=$s /"
done
cd /; rm -rf "$COPY"
