import NessaiVerif.Driver.Parse
import NessaiVerif.Driver.LiveSet
import NessaiVerif.Driver.Quad
import NessaiVerif.Driver.Meta
import NessaiVerif.Driver.Ordered
import NessaiVerif.Driver.Reparam
import NessaiVerif.Driver.Flow
import NessaiVerif.Driver.Pool
import NessaiVerif.Driver.CrashFS
import NessaiVerif.Driver.Accounts
import NessaiVerif.Driver.Interrupt
import NessaiVerif.Driver.Loops
import NessaiVerif.Driver.Resample
import NessaiVerif.Driver.Threshold
import NessaiVerif.Driver.LivePoint
import NessaiVerif.Driver.Encode
import NessaiVerif.Driver.Term
import NessaiVerif.Driver.Tables
import NessaiVerif.Driver.NpPrim
import NessaiVerif.Driver.Batch
import NessaiVerif.Driver.Results
/- Line-protocol dispatcher: first token selects the area. Mathlib-free.
   Every area has its own file Driver/<Area>.lean exporting `handle : List String → String`. -/
namespace NessaiVerif.Driver

def dispatch (line : String) : String :=
  match (line.trimAscii.toString.splitOn " ").filter (· ≠ "") with
  | "ls" :: rest => LiveSet.handle rest
  | "quad" :: rest => Quad.handle rest
  | "mp" :: rest => Meta.handle rest
  | "os" :: rest => Ordered.handle rest
  | "rp" :: rest => Reparam.handle rest
  | "flow" :: rest => Flow.handle rest
  | "pool" :: rest => Pool.handle rest
  | "fs" :: rest => CrashFS.handle rest
  | "acc" :: rest => Accounts.handle rest
  | "int" :: rest => Interrupt.handle rest
  | "loop" :: rest => Loops.handle rest
  | "rs" :: rest => Resample.handle rest
  | "thr" :: rest => Threshold.handle rest
  | "lp" :: rest => LivePoint.handle rest
  | "enc" :: rest => Encode.handle rest
  | "term" :: rest => Term.handle rest
  | "tab" :: rest => Tables.handle rest
  | "np" :: rest => NpPrim.handle rest
  | "bat" :: rest => Batch.handle rest
  | "res" :: rest => Results.handle rest
  | _ => "bad-op"

end NessaiVerif.Driver
