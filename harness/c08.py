"""C08 — flow and proposal densities are consistent with their samples and normalised."""
import contextlib
import copy
import itertools
import json
import shutil
import tempfile
from fractions import Fraction

import numpy as np

from . import core

PROPS_MODULE = "NessaiVerif.Props.C08"
MANIFEST = dict(
    text="PARTIAL proof. Lean theorems over a generic model (any point/latent types, log-densities in any additive "
         "commutative group) of the log-density bookkeeping of NFlow.log_prob / forward_and_log_prob / sample_and_log_prob, "
         "FlowModel.sample_and_log_prob (own noise, supplied z, alternative latent distribution), FlowProposal.forward_pass / "
         "backward_pass (with/without rescaling) and ImportanceFlowProposal draw / compute_meta_proposal_samples / update_log_q: "
         "whenever the flow round-trips at the generating latent point and the reparameterisation round-trips at the generated "
         "x'-point (pointwise hypotheses; implied by lawfulness = inverse pair with opposite log-Jacobians, proved for the layers "
         "below and for affine rescalings) the density attached to a generated point equals the density computed forwards at that point, with an alternative latent distribution the base term is that "
         "distribution's density, and CompositeTransform stacks of any length of lawful layers are lawful. Proved lawful, for "
         "arbitrary conditioner functions and every dimension: affine coupling layers, masked affine autoregressive (MAF/MADE) "
         "layers with the literal sweep-loop inverse, lower/upper triangular affine maps and the LU linear layer (forward = "
         "L(Ux)+b as matrix products), elementwise affine layers (actnorm, batch norm in eval mode) and permutations; hence "
         "RealNVP stacks (linear_transform None/permutation/lu) and MAF stacks of any depth (over any field; over R the reported "
         "log-Jacobians equal log|prod s|). Tie: for fresh, randomly perturbed, briefly trained and reset tiny RealNVP/MAF/NSF "
         "flows (float32 and float64, option grid) and for both samplers' proposals the harness reads the primitives (base "
         "log-density, transform log|det|, rescaling log-Jacobian, alternative density) from the real torch / numpy objects at "
         "generated points, sends them as exact rationals to the Lean model and compares what the nessai wrappers return with the "
         "model's composition (rel. tolerance 1e-4 float32 / 1e-9 float64); the Lean autoregressive layer is run by the driver "
         "against exact sequential substitution on random rational conditioner tables and against glasflow's MADE layers inside "
         "real MAFs (forward, log|det|, inverse loop, strict-prefix dependence of the conditioner). The oracle checks on the real "
         "outputs: inverse(forward(x)) = x, log_prob(sample) = reported log-density, array-level interface = torch model, "
         "backward_pass/draw density = forward_pass/compute_meta_proposal_samples density, 2-d grid integral of the density = 1.",
    note="Inversion, angle/polar and logit reparameterisations (not globally invertible) enter only through the pointwise "
         "round-trip hypothesis at the generated point, which the harness checks numerically on every generated point. "
         "NOT proved: that the density integrates to one (checked by a 2-d grid integral only), that sum log|s| is the "
         "log-determinant of the derivative, lawfulness of glasflow's rational-quadratic spline and SVD (Householder) layers, "
         "batch norm in training mode, and all floating-point numerics (for those the lawful-transform hypothesis is checked "
         "numerically on the generated points). Oracle tolerances scale with the floating-point type and the measured local "
         "conditioning (response to a few-ulp input perturbations). Row filters (discard_nans, check_prior_bounds) are not modelled.",
    technique="Lean 4 proof (algebra of lawful transforms, induction over layer stacks and over the autoregressive sweep loop) "
              "+ numeric correspondence on real flows",
    ref="5/C08")

TOL_MODEL = {"float32": 1e-4, "float64": 1e-9}
C_ORACLE = 65536.0   # multiples of eps * (1 + |value|) allowed in the oracle comparisons
PERT = 32.0          # conditioning probe: inputs are moved by +-PERT * eps * max(|x|, 1)
C_COND = 2048.0      # multiples of the probe's response allowed (= C_ORACLE / PERT per unit of eps)
KEY_SVD = "create_linear_transform:svd:num_householder=10>2*features"
KEY_CLIP = "ImportanceFlowProposal.draw:clip-without-logit"

_torch = None


def T():
    global _torch
    if _torch is None:
        import torch
        torch.set_num_threads(1)
        _torch = torch
    return _torch


@contextlib.contextmanager
def default_dtype(name):
    torch = T()
    old = torch.get_default_dtype()
    torch.set_default_dtype(getattr(torch, name))
    try:
        yield
    finally:
        torch.set_default_dtype(old)


def rat(v):
    f = Fraction(float(v))
    return str(f.numerator) if f.denominator == 1 else f"{f.numerator}/{f.denominator}"


def parse_out(s):
    if s == "none" or s.startswith("bad") or s.startswith("err"):
        return s
    if s.startswith("["):
        body = s[1:-1]
        return [Fraction(t) for t in body.split(",")] if body else []
    return Fraction(s)


def np64(t):
    return t.detach().double().cpu().numpy()


# --------------------------------------------------------------------------- tie bookkeeping
class Tie:
    """protocol lines + what the implementation returned; compared in one driver call at the end"""

    def __init__(self):
        self.lines, self.items = [], []

    def add(self, line, impl, tol, case):
        self.lines.append(line)
        self.items.append((impl, tol, case))

    def flush(self, ctx):
        outs = ctx.model(self.lines)
        bad = 0
        for line, out, (impl, tol, case) in zip(self.lines, outs, self.items):
            if isinstance(impl, tuple) and impl[0] == "ar":
                parts = out.split(" ")
                ok = len(parts) == 2 and parts[0].startswith("[")
                if ok:
                    got = [float(v) for v in parse_out(parts[0])] + [float(Fraction(parts[1]))]
                    ok = len(got) == len(impl[1]) and all(abs(a - b) <= tol * (1 + abs(a)) for a, b in zip(got, impl[1]))
                if not ok:
                    bad += 1
                    if bad <= 20:
                        ctx.disagree("glasflow autoregressive layer output != Lean autoregressive layer on the layer's own scale/shift",
                                     {"line": line[:400], "model": out[:300], "impl": impl[1], "tol": tol, "case": case})
                continue
            mo = out if isinstance(impl, str) else parse_out(out)
            ok = True
            if isinstance(mo, str):
                ok = impl == mo
            elif isinstance(mo, list):
                ok = (not isinstance(impl, str)) and len(mo) == len(impl) and all(
                    abs(float(a) - float(b)) <= tol * (1 + abs(float(a))) for a, b in zip(mo, impl))
            else:
                ok = (not isinstance(impl, (str, list))) and abs(float(mo) - float(impl)) <= tol * (1 + abs(float(mo)))
            if not ok:
                bad += 1
                if bad <= 20:
                    ctx.disagree("nessai wrapper output != Lean composition of the primitives",
                                 {"line": line[:400], "model": out[:200],
                                  "impl": impl if isinstance(impl, str) else np.asarray(impl, dtype=float).tolist(),
                                  "tol": tol, "case": case})
        ctx.extra["tie_lines"] = ctx.extra.get("tie_lines", 0) + len(self.lines)
        self.lines, self.items = [], []
        return bad


# --------------------------------------------------------------------------- numerics helpers
def sens(fn, t, delta=None):
    """max response of fn (tuple of tensors) to +-delta perturbations of every coordinate (all sign patterns);
    default delta = PERT * eps * max(|t|, 1) (a few ulps, so that the staircase response of piecewise layers is sampled):
    the measured local conditioning used to scale the oracle tolerance"""
    torch = T()
    eps = torch.finfo(t.dtype).eps
    if delta is None:
        delta = PERT * eps * torch.clamp(t.abs(), min=1.0)
    base = fn(t)
    K = [torch.zeros_like(b) for b in base]
    d = t.shape[1]
    pats = list(itertools.product([-1.0, 1.0], repeat=d)) if d <= 3 else \
        [tuple(1.0 if (k >> i) & 1 else -1.0 for i in range(d)) for k in (0, 2 ** d - 1, 0b0101 % 2 ** d, 0b1010 % 2 ** d)]
    for signs in pats:
        s = torch.tensor(signs, dtype=t.dtype)
        out = fn(t + s * delta)
        for k, (o, b) in enumerate(zip(out, base)):
            diff = (o - b).abs()
            diff = torch.where(torch.isfinite(diff), diff, torch.full_like(diff, float("inf")))
            K[k] = torch.maximum(K[k], diff)
    return K


def tol_of(K, v, eps, extra=0.0):
    """oracle tolerance: C_COND * conditioning response + C_ORACLE * eps * (1 + |value|)"""
    K = np.asarray(K, dtype=float)
    v = np.abs(np.asarray(v, dtype=float))
    if K.ndim > v.ndim:
        v = v[..., None]
    return C_COND * K + C_ORACLE * eps * (1.0 + v + extra)


def worst(err, tol):
    """index and values of the worst violation of err <= tol (NaN counts as violation)"""
    err = np.asarray(err, dtype=float)
    tol = np.broadcast_to(np.asarray(tol, dtype=float), err.shape)
    badm = ~(err <= tol)
    if not badm.any():
        return None
    ratio = np.where(np.isnan(err), np.inf, err / np.maximum(tol, 1e-300))
    i = np.unravel_index(np.argmax(np.where(badm, ratio, -1)), err.shape)
    return tuple(int(k) for k in i), float(err[i]), float(tol[i])


class Oracle:
    def __init__(self, ctx, case):
        self.ctx, self.case = ctx, case

    def close(self, key, what, got, want, tol, points=None):
        got, want = np.asarray(got, dtype=float), np.asarray(want, dtype=float)
        if got.shape != want.shape:
            self.ctx.oracle_fail(key, f"{what}: shapes differ {got.shape} vs {want.shape}", self.case)
            return False
        with np.errstate(invalid="ignore"):
            err = np.abs(got - want)
        err = np.where(got == want, 0.0, err)  # equal infinities agree; a NaN on either side is a violation
        # an infinite required value (a point of zero density: log-density -inf) must come back as that infinity, whatever the
        # tolerance — a tolerance relative to |-inf| is infinite and would accept any finite stand-in (seeded change C08-jA:
        # np.nan_to_num turned -inf into -1.8e308 in the array-level interface)
        swapped = np.isinf(want) & (got != want)
        if swapped.any():
            tol = np.where(swapped, 0.0, np.broadcast_to(np.asarray(tol, dtype=float), err.shape))
            err = np.where(swapped, np.inf, err)
        w = worst(err, tol)
        if w is None:
            return True
        i, e, t = w
        c = dict(self.case)
        c["failing"] = {"index": list(i), "got": float(got[i]), "required": float(want[i]), "abs_err": e, "tolerance": t}
        if points is not None:
            c["failing"]["point"] = np.asarray(points[i[0]], dtype=float).tolist()
        self.ctx.oracle_fail(key, f"{what}: got {float(got[i])!r}, required {float(want[i])!r} "
                                  f"(|diff|={e:.3g} > tol {t:.3g})", c)
        return False

    def fail(self, key, what, **kw):
        c = dict(self.case)
        c.update(kw)
        self.ctx.oracle_fail(key, what, c)


# --------------------------------------------------------------------------- flow configurations
def flow_config(cfg):
    torch = T()
    fc = dict(n_inputs=cfg["dims"], n_neurons=cfg["n_neurons"], n_blocks=cfg["n_blocks"], n_layers=cfg["n_layers"],
              ftype=cfg["ftype"])
    opts = copy.deepcopy(cfg.get("opts", {}))
    if opts.pop("scale_activation", None):
        opts["scale_activation"] = lambda x: torch.sigmoid(x + 2) + 1e-3
    fc.update(opts)
    return fc


def perturb(model, gen, amp=0.3):
    """a random weight draw: every parameter moved by N(0, amp), batch-norm statistics randomised"""
    torch = T()
    with torch.no_grad():
        for p in model.parameters():
            p.add_(amp * torch.randn(p.shape, generator=gen, dtype=torch.float64).to(p.dtype))
        for name, b in model.named_buffers():
            if name.endswith("running_mean"):
                b.copy_(0.5 * torch.randn(b.shape, generator=gen, dtype=torch.float64).to(b.dtype))
            elif name.endswith("running_var"):
                b.copy_(torch.exp(0.7 * torch.randn(b.shape, generator=gen, dtype=torch.float64)).to(b.dtype))
        for mod in model.modules():
            if hasattr(mod, "cache") and hasattr(mod.cache, "invalidate"):
                mod.cache.invalidate()


def gen(ctx):
    """regenerate Gen/FlowTrain.lean: the order of the three tail operations of FlowModel.train (restore the best weights,
    finalise, save the weights), read from the current source (statements after the epoch loop, top level or under
    `if validate:`); theorem C08.train_tail_is_canonical is re-proved against it."""
    import ast
    from . import py2lean
    try:
        text = (core.REPO / "nessai" / "flowmodel" / "base.py").read_text()
        fn = py2lean.find_function(ast.parse(text), "train", "FlowModel")
        loops = [n for n in fn.body if isinstance(n, (ast.For, ast.While))]
        if not loops:
            raise py2lean.TranslationError("FlowModel.train: no epoch loop at top level")
        tail = [st for st in fn.body if st.lineno > loops[-1].end_lineno]
        ops = []

        def visit(st):
            if isinstance(st, ast.If):
                for b in st.body + st.orelse:
                    visit(b)
                return
            for n in ast.walk(st):
                if isinstance(n, ast.Call):
                    f = ast.unparse(n.func)
                    if f == "self.model.load_state_dict":
                        ops.append("restoreBest")
                    elif f == "self.finalise":
                        ops.append("finalise")
                    elif f == "self.save_weights":
                        ops.append("saveWeights")
        for st in tail:
            visit(st)
        if not ops:
            raise py2lean.TranslationError("FlowModel.train: none of load_state_dict / finalise / save_weights after the loop")
    except (py2lean.TranslationError, SyntaxError, OSError) as e:
        ctx.broken(f"translator: {e}", "Gen/FlowTrain.lean was left as it was")
        return
    body = ("import NessaiVerif.Model.FlowTrain\n/- GENERATED by harness/c08.py gen() from nessai/flowmodel/base.py (FlowModel.train, statements "
            "after the epoch loop) — do not edit. -/\nnamespace NessaiVerif.Gen.FlowTrain\nopen NessaiVerif.FlowTrain\n"
            "def trainTail : List Op := [" + ", ".join("." + o for o in ops) + "]\nend NessaiVerif.Gen.FlowTrain\n")
    py2lean.write_if_changed(core.LEAN / "NessaiVerif" / "Gen" / "FlowTrain.lean", body)
    ctx.extra["translated"] = {"FlowModel.train tail": ops}


def gen_points(rng, n, d, centre, width):
    """points within the (numerical) support of the flow: Gaussian blobs of random scale around the flow's own sample
    cloud (centre, width = robust location / scale of 512 samples) + boundary stream (centre, a tiny offset, the spline
    tail bound +-5 when it lies in the cloud, the far sides of the cloud)"""
    scale = np.exp(rng.uniform(-1.0, 0.7))
    u = rng.normal(size=(n, d)) * scale + rng.normal(size=d) * 0.5
    edge = [np.zeros(d), np.full(d, 1e-6), np.full(d, 4.0), np.full(d, -4.0), np.r_[3.0, -3.0 * np.ones(d - 1)], np.ones(d)]
    k = min(len(edge), max(1, n // 8))
    u[:k] = np.array(edge[:k])
    x = centre + width * u
    absolute = [np.zeros(d), np.full(d, 5.0), np.full(d, -5.0), np.r_[4.999, np.zeros(d - 1)]]
    j = k
    for a in absolute:
        if j < n and (np.abs(a - centre) <= 6 * width).all():
            x[j] = a
            j += 1
    return x


def train_data(rng, n, d):
    return rng.normal(size=(n, d)) * np.linspace(1.0, 0.5, d) + np.linspace(0.5, -1.0, d)


FLOW_STATES = ["fresh", "perturbed", "trained", "reset_weights", "reset_permutations", "reset_all", "retrained"]


def run_flow(ctx, tie, cfg):
    """one FlowModel taken through fresh -> perturbed -> trained -> reset ... ; every state is checked"""
    torch = T()
    from nessai.flowmodel import FlowModel
    out = tempfile.mkdtemp(prefix="c08_")
    np_state = np.random.get_state()
    try:
        with default_dtype(cfg["dtype"]):
            torch.manual_seed(cfg["seed"])
            np.random.seed(cfg["seed"] % (2 ** 32))  # FlowModel.prep_data shuffles with the global NumPy generator
            rng = np.random.default_rng(cfg["seed"])
            gen = torch.Generator().manual_seed(cfg["seed"] + 1)
            case0 = {"layer": "flow", "cfg": cfg}
            try:
                fm = FlowModel(flow_config=flow_config(cfg),
                               training_config=dict(max_epochs=cfg.get("epochs", 6), patience=50, batch_size=100),
                               output=out)
                fm.initialise()
            except Exception as e:  # noqa
                Oracle(ctx, case0).fail("FlowModel.initialise:exception", f"supported configuration raised {e!r}")
                return
            for state in cfg.get("states", FLOW_STATES):
                case = {"layer": "flow", "cfg": cfg, "state": state}
                try:
                    if state == "perturbed":
                        perturb(fm.model, gen)
                    elif state in ("trained", "retrained"):
                        # the tail of FlowModel.train: best weights restored -> finalise() (re-estimates what depends on the
                        # weights, e.g. the normalisation of a resampled base) -> weights saved.  Any other order leaves the
                        # model in memory or the file on disk inconsistent (seeded changes C08-eA, C12-d).
                        calls = []
                        o_load, o_fin, o_save = fm.model.load_state_dict, fm.finalise, fm.save_weights
                        fm.model.load_state_dict = lambda *a, **k: (calls.append("load_state_dict"), o_load(*a, **k))[1]
                        fm.finalise = lambda *a, **k: (calls.append("finalise"), o_fin(*a, **k))[1]
                        fm.save_weights = lambda *a, **k: (calls.append("save_weights"), o_save(*a, **k))[1]
                        try:
                            fm.train(train_data(rng, 200, cfg["dims"]), plot=False)
                        finally:
                            del fm.model.load_state_dict, fm.finalise, fm.save_weights
                        fi = [i for i, c in enumerate(calls) if c == "finalise"]
                        li = [i for i, c in enumerate(calls) if c == "load_state_dict"]
                        si = [i for i, c in enumerate(calls) if c == "save_weights"]
                        if not fi or (li and fi[-1] < li[-1]) or (si and si[-1] < fi[-1]) or not si:
                            Oracle(ctx, case).fail("FlowModel.train:tail-order",
                                                   f"training ended with the calls {calls}: the flow must be finalised after the best "
                                                   "weights are restored and before the weights are saved")
                    elif state == "reset_weights":
                        fm.reset_model(weights=True, permutations=False)
                    elif state == "reset_permutations":
                        fm.reset_model(weights=False, permutations=True)
                    elif state == "reset_all":
                        fm.reset_model(weights=True, permutations=True)
                except Exception as e:  # noqa
                    Oracle(ctx, case).fail(f"FlowModel:{state}:exception", f"{state} raised {e!r}")
                    return
                try:
                    check_flow(ctx, tie, fm, cfg, state, rng)
                except core.Infra:
                    raise
                except Exception as e:  # noqa
                    import traceback
                    Oracle(ctx, case).fail("flow-interface:exception",
                                           f"a density/sampling call raised {e!r}", trace=traceback.format_exc()[-1500:])
                    return
    finally:
        np.random.set_state(np_state)
        shutil.rmtree(out, ignore_errors=True)


def check_flow(ctx, tie, fm, cfg, state, rng):
    torch = T()
    m = fm.model
    m.eval()
    dname = cfg["dtype"]
    eps = float(torch.finfo(getattr(torch, dname)).eps)
    tm = TOL_MODEL[dname]
    n, d = cfg["n"], cfg["dims"]
    ntie = cfg.get("ntie", 40)
    case = {"layer": "flow", "cfg": cfg, "state": state}
    O = Oracle(ctx, case)
    opts = cfg.get("opts", {})
    gaussian_base = opts.get("distribution") in (None, "mvn", "normal")
    svd_small = opts.get("linear_transform") == "svd" and d < 5

    s1 = int(rng.integers(1 << 30))
    torch.manual_seed(s1 + 2)
    cloud = fm.sample(512)
    cloud = cloud[np.isfinite(cloud).all(axis=1)]
    if len(cloud) >= 16:
        centre = np.median(cloud, axis=0)
        width = np.maximum(1.4826 * np.median(np.abs(cloud - centre), axis=0), 1e-300)
    else:
        centre, width = np.zeros(d), np.ones(d)
    xt = fm.numpy_array_to_tensor(gen_points(rng, n, d, centre, width))
    x64 = np64(xt)
    with torch.inference_mode():
        # primitives, read from the third-party objects
        z, ld = m._transform.forward(xt)
        b = m._distribution.log_prob(z)
        xr, ldi = m._transform.inverse(z)
        # nessai's NFlow interface
        zw, ldw = m.forward(xt)
        xrw, ldiw = m.inverse(z)
        bw = m.base_distribution_log_prob(z)
        lp = m.log_prob(xt)
        zf, lpf = m.forward_and_log_prob(xt)

    allt = torch.cat([z, ld[:, None], xrw, ldiw[:, None], lp[:, None]], dim=1)
    if torch.isnan(allt).any() or not torch.isfinite(torch.cat([z, ld[:, None], xrw], dim=1)).all():
        key = KEY_SVD if svd_small else "NFlow.forward/inverse:non-finite"
        i = int(torch.nonzero(~torch.isfinite(allt).all(dim=1))[0])
        O.fail(key, f"flow returns non-finite values for a finite input (state {state}): x={x64[i].tolist()} -> "
                    f"z={np64(z)[i].tolist()}, logdet={float(ld[i])}, inverse={np64(xrw)[i].tolist()}",
               failing={"point": x64[i].tolist()})
        ctx.case(("flow", json.dumps(cfg, sort_keys=True), state, "nonfinite"), True, None, kind=f"flow:{cfg['ftype']}:{dname}:nonfinite")
        return
    fin = torch.isfinite(lp)

    # "the array-level interface agrees with the underlying model": the function the flow computes must be the one its
    # PARAMETERS define.  A second FlowModel of the same configuration receives the state_dict (what save_weights /
    # load_weights / a resume do) and must give the same forward map, log-determinant and log-density; a transform that
    # keeps serving values cached before a reset does not (seeded change C08-c: LULinear reset without cache invalidation)
    try:
        from nessai.flowmodel import FlowModel
        out2 = tempfile.mkdtemp(prefix="c08c_")
        try:
            rs = torch.random.get_rng_state()
            fm2 = FlowModel(flow_config=flow_config(cfg), training_config=dict(max_epochs=1, batch_size=100), output=out2)
            fm2.initialise()
            fm2.model.load_state_dict(m.state_dict())
            fm2.model.eval()
            torch.random.set_rng_state(rs)
            with torch.inference_mode():
                zc, ldc = fm2.model.forward(xt)
                lpc = fm2.model.log_prob(xt)
                xc, ldic = fm2.model.inverse(z)
        finally:
            shutil.rmtree(out2, ignore_errors=True)
        for nm, a, c in (("forward", z, zc), ("forward.logdet", ld, ldc), ("log_prob", lp, lpc), ("inverse", xrw, xc),
                         ("inverse.logdet", ldiw, ldic)):
            okm = torch.isfinite(a) & torch.isfinite(c)
            if a.dim() == 2:
                okm = okm.all(dim=1)
            if bool(okm.any()):
                O.close(f"NFlow.{nm}:differs-from-its-parameters", f"NFlow.{nm} (state {state}) vs a flow rebuilt from its state_dict",
                        np64(a[okm]), np64(c[okm]), 50 * tm * (1 + np.abs(np64(c[okm]))), x64[np64(okm).astype(bool)])
    except core.Infra:
        raise

    # NFlow.forward / inverse / base_distribution_log_prob are the transform's / distribution's
    for nm, a, c in (("forward", zw, z), ("forward.logdet", ldw, ld), ("inverse", xrw, xr), ("inverse.logdet", ldiw, ldi),
                     ("base_distribution_log_prob", bw, b), ("forward_and_log_prob.z", zf, z)):
        O.close(f"NFlow.{nm}:differs-from-glasflow-object", f"NFlow.{nm}", np64(a), np64(c), tm * (1 + np.abs(np64(c))), x64)

    # forward followed by inverse returns the input (conditioning-aware tolerance)
    with torch.inference_mode():
        Kx, Kldi = sens(lambda t: m.inverse(t), z)
        Kz, Kld = sens(lambda t: m.forward(t), xt)
    amp = np.maximum(1.0, np64(Kz).max(axis=1) / (PERT * eps * np.maximum(1.0, np.abs(np64(z)).max(axis=1))))
    O.close("NFlow.inverse(forward(x)):roundtrip", "inverse(forward(x)) != x", np64(xrw), x64,
            tol_of(np64(Kx) * amp[:, None], x64, eps), x64)
    O.close("NFlow.inverse(forward(x)):logdet", "log|det| of inverse != -log|det| of forward", np64(ldiw), -np64(ldw),
            tol_of((np64(Kldi) + np64(Kld)) * amp, np64(ld), eps), x64)

    # tie: log_prob / forward_and_log_prob against the Lean composition of (base, logdet)
    idx = [int(i) for i in np.flatnonzero(np64(fin))[:ntie]]
    for i in idx:
        tie.add(f"flow nflow_lp {rat(b[i])} {rat(ld[i])}", float(lp[i]), tm, {"case": case, "i": i, "op": "NFlow.log_prob"})
        tie.add(f"flow nflow_flp {rat(b[i])} {rat(ld[i])}", float(lpf[i]), tm, {"case": case, "i": i, "op": "NFlow.forward_and_log_prob"})

    if cfg["ftype"] == "maf":
        check_maf_layers(ctx, tie, fm, cfg, state, xt, O, case)

    # ---- generation direction, torch level (noise recovered by reseeding the global generator)
    N = n
    with torch.inference_mode():
        torch.manual_seed(s1)
        s, lps = m.sample_and_log_prob(N)
        torch.manual_seed(s1)
        zn, bn = m._distribution.sample_and_log_prob(N)
        xn, ldin = m._transform.inverse(zn)
        torch.manual_seed(s1)
        s_only = m.sample(N)
        torch.manual_seed(s1)
        zl = m.sample_latent_distribution(N)
        torch.manual_seed(s1)
        zl0 = m._distribution.sample(N)
        lp2 = m.log_prob(s)
        z2, lp3 = m.forward_and_log_prob(s)
        _, ld2 = m._transform.forward(s)
        (Klp,) = sens(lambda t: (m.log_prob(t),), s)
        (Kz2,) = sens(lambda t: (m.forward(t)[0],), s)
    O.close("NFlow.sample_and_log_prob:sample-is-inverse-of-noise", "sample != transform.inverse(noise)", np64(s), np64(xn),
            tm * (1 + np.abs(np64(xn))))
    O.close("NFlow.sample:sample-is-inverse-of-noise", "sample != transform.inverse(noise)", np64(s_only), np64(xn),
            tm * (1 + np.abs(np64(xn))))
    O.close("NFlow.sample_latent_distribution", "latent sample != distribution.sample", np64(zl), np64(zl0), tm * (1 + np.abs(np64(zl0))))
    ok = np64(torch.isfinite(lps) & torch.isfinite(bn)).astype(bool)
    for i in [int(i) for i in np.flatnonzero(ok)[:ntie]]:
        tie.add(f"flow nflow_slp {rat(bn[i])} {rat(ldin[i])}", float(lps[i]), tm, {"case": case, "i": i, "op": "NFlow.sample_and_log_prob"})
    extra = np.abs(np64(ld2))
    tol_ge = tol_of(np64(Klp), np64(lps), eps, extra)
    if ok.any():
        O.close("NFlow.sample_and_log_prob:log_prob(sample)", "log_prob(sample) != log-density returned with the sample",
                np64(lp2)[ok], np64(lps)[ok], tol_ge[ok], np64(s)[ok])
        O.close("NFlow.sample_and_log_prob:forward(sample)", "forward(sample) != noise the sample was generated from",
                np64(z2)[ok], np64(zn)[ok], tol_of(np64(Kz2), np64(zn), eps)[ok], np64(s)[ok])
    if torch.isnan(lps).any():
        O.fail("NFlow.sample_and_log_prob:nan", "NaN log-density returned with a sample")

    # ---- array-level interface (FlowModel) agrees with the torch model
    znp, lpnp = fm.forward_and_log_prob(x64)
    O.close("FlowModel.forward_and_log_prob:z", "array-level z != model", znp, np64(zf), tm * (1 + np.abs(np64(zf))), x64)
    O.close("FlowModel.forward_and_log_prob:log_prob", "array-level log_prob != model", lpnp, np64(lpf), tm * (1 + np.abs(np64(lpf))), x64)
    O.close("FlowModel.log_prob", "array-level log_prob != model", fm.log_prob(x64), np64(lp), tm * (1 + np.abs(np64(lp))), x64)
    if opts.get("distribution") == "uniform":
        # points of ZERO density (latent image outside the unit box of the uniform base distribution): the model reports -inf and
        # the array-level interface must report that very -inf
        xfar_t = fm.numpy_array_to_tensor(centre + width * 60.0 * (1.0 + gen_points(rng, 8, d, np.zeros(d), np.ones(d)) ** 2))
        with torch.inference_mode():
            lp_far = m.log_prob(xfar_t)
            _, lpf_far = m.forward_and_log_prob(xfar_t)
        if not torch.isnan(lp_far).any():
            xfar = np64(xfar_t)
            O.close("FlowModel.log_prob:zero-density", "array-level log_prob != model at points outside the support",
                    fm.log_prob(xfar), np64(lp_far), tm * (1 + np.abs(np64(lp_far))), xfar)
            O.close("FlowModel.forward_and_log_prob:zero-density", "array-level log_prob != model at points outside the support",
                    fm.forward_and_log_prob(xfar)[1], np64(lpf_far), tm * (1 + np.abs(np64(lpf_far))), xfar)
            ctx.hist["c08:zero-density-points:-inf"] += int(np.isneginf(np64(lp_far)).sum())
    torch.manual_seed(s1)
    s_np, lps_np = fm.sample_and_log_prob(N=N)
    O.close("FlowModel.sample_and_log_prob:samples", "array-level samples != model", s_np, np64(s), tm * (1 + np.abs(np64(s))))
    O.close("FlowModel.sample_and_log_prob:log_prob", "array-level log_prob != model", lps_np, np64(lps), tm * (1 + np.abs(np64(lps))))
    torch.manual_seed(s1)
    O.close("FlowModel.sample", "array-level samples != model", fm.sample(N), np64(xn), tm * (1 + np.abs(np64(xn))))
    torch.manual_seed(s1)
    O.close("FlowModel.sample_latent_distribution", "array-level latent samples != model", fm.sample_latent_distribution(N),
            np64(zl0), tm * (1 + np.abs(np64(zl0))))
    for i in [int(i) for i in np.flatnonzero(ok)[:ntie]]:
        tie.add(f"flow fm_slp 0 none {rat(bn[i])} 0 {rat(ldin[i])} 0", float(lps_np[i]), tm,
                {"case": case, "i": i, "op": "FlowModel.sample_and_log_prob(N)"})

    # ---- supplied latent points, with and without an alternative latent distribution
    if opts.get("distribution") == "uniform":
        zs = fm.numpy_array_to_tensor(rng.uniform(0.05, 0.95, size=(n, d)))
    else:
        zs = fm.numpy_array_to_tensor(np.clip(rng.normal(size=(n, d)) * 1.2, -5.5, 5.5))  # inside the box alternative
    zs64 = np64(zs)
    with torch.inference_mode():
        bz = m._distribution.log_prob(zs)
        xp, ldip = m._transform.inverse(zs)
    xo, lpo = fm.sample_and_log_prob(z=zs64)
    xo_t, lpo_t = fm.sample_and_log_prob(z=zs.clone())
    O.close("FlowModel.sample_and_log_prob(z):x", "x != model.inverse(z)", xo, np64(xp), tm * (1 + np.abs(np64(xp))), zs64)
    O.close("FlowModel.sample_and_log_prob(z):tensor-vs-array", "tensor z and array z give different densities", lpo_t, lpo,
            tm * (1 + np.abs(lpo)), zs64)
    okz = np.isfinite(lpo) & np64(torch.isfinite(bz)).astype(bool)
    from nessai.utils.distributions import get_uniform_distribution
    from nessai.flows.distributions import MultivariateNormal
    alts = [("mvn", MultivariateNormal([d], var=2.25)), ("box", get_uniform_distribution(d, 6.0))]
    alt_out = []
    for anm, alt in alts:
        with torch.inference_mode():
            a = alt.log_prob(zs)
        xa, lpa = fm.sample_and_log_prob(z=zs64, alt_dist=alt)
        alt_out.append((anm, np64(a), xa, lpa))
    for i in [int(i) for i in np.flatnonzero(okz)[:ntie]]:
        tie.add(f"flow fm_slp 1 none 0 {rat(bz[i])} 0 {rat(ldip[i])}", float(lpo[i]), tm,
                {"case": case, "i": i, "op": "FlowModel.sample_and_log_prob(z)"})
        for anm, a, xa, lpa in alt_out:
            if np.isfinite(a[i]) and np.isfinite(lpa[i]):
                tie.add(f"flow fm_slp 1 {rat(a[i])} 0 {rat(bz[i])} 0 {rat(ldip[i])}", float(lpa[i]), tm,
                        {"case": case, "i": i, "op": f"FlowModel.sample_and_log_prob(z, alt_dist={anm})"})
    xo_dt = fm.numpy_array_to_tensor(xo)
    with torch.inference_mode():
        (Klpo,) = sens(lambda t: (m.log_prob(t),), xo_dt)
        (Kzo,) = sens(lambda t: (m.forward(t)[0],), xo_dt)
        _, ldo = m._transform.forward(xo_dt)
    if okz.any():
        zb, lpb = fm.forward_and_log_prob(xo)
        O.close("FlowModel.sample_and_log_prob(z):log_prob(x)", "log_prob(x) != log-density returned for the supplied z",
                fm.log_prob(xo)[okz], lpo[okz], tol_of(np64(Klpo), lpo, eps, np.abs(np64(ldo)))[okz], zs64[okz])
        O.close("FlowModel.sample_and_log_prob(z):forward(x)", "forward_and_log_prob(x) does not return the supplied z",
                zb[okz], zs64[okz], tol_of(np64(Kzo), zs64, eps)[okz], zs64[okz])
        for anm, a, xa, lpa in alt_out:
            O.close("FlowModel.sample_and_log_prob(z,alt_dist):x", "alt_dist changes the generated points", xa, xo,
                    tm * (1 + np.abs(xo)), zs64)
            g = okz & np.isfinite(a) & np.isfinite(lpa)
            O.close("FlowModel.sample_and_log_prob(z,alt_dist):base-term",
                    f"with alt_dist={anm} the density is not alt.log_prob(z) - log|det J| (base term must be the alternative density)",
                    (lpa - a)[g], (lpo - np64(bz))[g], (tm * (1 + np.abs(lpo) + np.abs(a) + np.abs(np64(bz))))[g], zs64[g])

    # ---- nessai's own base distribution against the closed form
    if opts.get("distribution") in ("mvn", "normal"):
        var = (opts.get("distribution_kwargs") or {}).get("var", 1)
        want = -0.5 * (zs64 ** 2).sum(axis=1) / var - 0.5 * d * np.log(2 * np.pi * var)
        O.close("MultivariateNormal.log_prob:closed-form", "base log-density != N(0, var I) log-density", np64(bz), want,
                tm * (1 + np.abs(want)), zs64)

    # ---- normalisation in two dimensions (supporting evidence): integral of exp(log_prob) over the bounding box of 4000 of the
    # flow's samples on a product grid refined along the samples' marginal quantiles, compared with the fraction of an
    # independent sample that falls into the box; used only when a coarse and a twice finer grid agree (resolved)
    if d == 2 and gaussian_base and cfg.get("grid", 0):
        knots_n = cfg["grid"]
        torch.manual_seed(s1 + 1)
        big = fm.sample(4000)
        torch.manual_seed(s1 + 3)
        indep = fm.sample(4000)
        big = big[np.isfinite(big).all(axis=1)]
        indep = indep[np.isfinite(indep).all(axis=1)]
        levels = 0.5 * (1.0 - np.cos(np.pi * np.linspace(0.0, 1.0, knots_n + 1)))  # denser towards the tails
        knots = [np.unique(np.quantile(big[:, k], levels)) for k in range(2)]
        lo, hi = np.array([kn[0] for kn in knots]), np.array([kn[-1] for kn in knots])
        frac = float(((indep >= lo) & (indep <= hi)).all(axis=1).mean())
        mc = 3.0 * np.sqrt(max(frac * (1 - frac), 1.0 / len(indep)) / len(indep))
        vals = []
        for sub in (4, 8):
            nodes, wts = [], []
            for kn in knots:
                xs_, ws_ = [kn[:1]], [np.zeros(1)]
                for a_, b_ in zip(kn[:-1], kn[1:]):
                    seg = np.linspace(a_, b_, sub + 1)
                    h_ = (b_ - a_) / sub
                    ws_[-1][-1] += 0.5 * h_
                    xs_.append(seg[1:])
                    w_ = np.full(sub, h_)
                    w_[-1] = 0.5 * h_
                    ws_.append(w_)
                nodes.append(np.concatenate(xs_))
                wts.append(np.concatenate(ws_))
            xx, yy = np.meshgrid(nodes[0], nodes[1], indexing="ij")
            lpg = fm.log_prob(np.stack([xx.ravel(), yy.ravel()], axis=1)).reshape(len(nodes[0]), len(nodes[1]))
            dens = np.where(np.isfinite(lpg), np.exp(lpg), 0.0)
            vals.append(float(wts[0] @ dens @ wts[1]))
        gt = cfg.get("grid_tol", 0.05)
        half, mid = 0.5 * (hi - lo), 0.5 * (hi + lo)
        resolved = (abs(vals[0] - vals[1]) <= gt / 8 and min(len(kn) for kn in knots) > knots_n // 2
                    and bool((half > 1e4 * eps * np.maximum(1.0, np.abs(mid))).all()))
        rec = ctx.extra.setdefault("grid_integrals", {"resolved": 0, "unresolved": 0, "max_abs_dev": 0.0})
        rec["resolved" if resolved else "unresolved"] += 1
        if resolved:
            if abs(vals[1] - frac) > rec["max_abs_dev"]:
                rec["worst"] = {"ftype": cfg["ftype"], "dtype": dname, "opts": opts, "state": state, "coarse": vals[0], "fine": vals[1], "frac": frac}
            rec["max_abs_dev"] = max(rec["max_abs_dev"], round(abs(vals[1] - frac), 5))
            if not abs(vals[1] - frac) <= gt + mc:
                O.fail(f"{type(m).__name__}.log_prob:normalisation-2d",
                       f"2-d trapezoid integral of exp(log_prob) over the samples' bounding box is {vals[1]:.5f} but {frac:.5f} of "
                       f"{len(indep)} independent samples fall into it (tolerance {gt + mc:.4f}); a normalised density consistent "
                       f"with its samples requires equality",
                       failing={"integral": vals[1], "coarse": vals[0], "fraction_inside": frac, "box": [lo.tolist(), hi.tolist()]})

    nontrivial = bool(float(ld.abs().max()) > 1e-3)
    ctx.extra["points"] = ctx.extra.get("points", 0) + 3 * n
    ctx.case(("flow", json.dumps(cfg, sort_keys=True), state), nontrivial,
             {"layer": "flow", "ftype": cfg["ftype"], "dtype": dname, "opts": opts, "state": state, "n": n,
              "max_abs_logdet": round(float(ld.abs().max()), 4),
              "max_gen_eval_err": float(np.nanmax(np.abs(np64(lp2) - np64(lps))[ok])) if ok.any() else None},
             kind=f"flow:{cfg['ftype']}:{dname}:{state}")


# --------------------------------------------------------------------------- autoregressive layer (Lean executable instance)
def frac_str(f):
    return str(f.numerator) if f.denominator == 1 else f"{f.numerator}/{f.denominator}"


def flist(v):
    return "[" + ",".join(frac_str(Fraction(t)) for t in v) + "]"


def ftable(tab):
    return "[" + ",".join(flist(r) for r in tab) + "]"


def ar_reference(x, S, T):
    """independent exact reference: one-pass forward of the affine-in-prefix autoregressive layer"""
    n = len(x)
    s = [S[i][0] + sum(S[i][j + 1] * x[j] for j in range(i)) for i in range(n)]
    t = [T[i][0] + sum(T[i][j + 1] * x[j] for j in range(i)) for i in range(n)]
    J = Fraction(1)
    for v in s:
        J *= v
    return [x[i] * s[i] + t[i] for i in range(n)], s, J


def ar_reference_inverse(y, S, T):
    """independent exact reference: sequential substitution x_0, x_1, ... (not the sweep loop of the model)"""
    n = len(y)
    x = []
    for i in range(n):
        s = S[i][0] + sum(S[i][j + 1] * x[j] for j in range(i))
        t = T[i][0] + sum(T[i][j + 1] * x[j] for j in range(i))
        if s == 0:
            return None
        x.append((y[i] - t) / s)
    return x


def ar_selfcheck(ctx, tie):
    """the Lean autoregressive layer (one-pass forward, sweep-loop inverse) run by the driver on random rational
    conditioner tables, against exact sequential substitution in Python; dimensions 0..6"""
    rng = ctx.rng
    for k in range(ctx.scale(150, 1500)):
        n = rng.choice([0, 1, 2, 3, 3, 3, 4, 5, 6])
        q = lambda: Fraction(rng.randint(-6, 6), rng.randint(1, 4))  # noqa
        x = [q() for _ in range(n)]
        S = [[q() for _ in range(i + 1)] + [q() for _ in range(n - i)] for i in range(n)]  # entries beyond the prefix are ignored
        Tt = [[q() for _ in range(n + 1)] for i in range(n)]
        y, s, J = ar_reference(x, S, Tt)
        case = {"layer": "ar-model", "n": n, "x": [str(v) for v in x]}
        if any(v == 0 for v in s):
            tie.add(f"flow ar fwd {flist(x)} {ftable(S)} {ftable(Tt)}", "err=value", 0.0, case)
            ctx.case(("ar", k), False, None, kind="ar-model:zero-scale")
            continue
        tie.add(f"flow ar fwd {flist(x)} {ftable(S)} {ftable(Tt)}", f"{flist(y)} {frac_str(J)}", 0.0, case)
        xi = ar_reference_inverse(y, S, Tt)
        assert xi == x
        tie.add(f"flow ar inv {flist(y)} {ftable(S)} {ftable(Tt)}", f"{flist(x)} {frac_str(J)}", 0.0, case)
        ctx.case(("ar", n, k), n >= 2, case if k < 2 else None, kind=f"ar-model:n={n}")


def check_maf_layers(ctx, tie, fm, cfg, state, xt, O, case):
    """tie of the Lean autoregressive layer to glasflow's MaskedAffineAutoregressiveTransform inside a real MAF:
    (i) the conditioner outputs of feature i do not change when features >= i change (the strict-prefix hypothesis of
    `autoregressive_lawful`), (ii) forward values and log|det| equal the model's with the layer's own scale / shift at the
    point, (iii) the layer's inverse loop returns what the model's inverse returns"""
    torch = T()
    from glasflow.nflows.transforms.autoregressive import MaskedAffineAutoregressiveTransform
    m = fm.model
    dname = cfg["dtype"]
    tm = TOL_MODEL[dname]
    eps = float(torch.finfo(getattr(torch, dname)).eps)
    d = cfg["dims"]
    u = xt[: cfg.get("nar", 6)]
    for li, layer in enumerate(m._transform._transforms):
        if not isinstance(layer, MaskedAffineAutoregressiveTransform):
            with torch.inference_mode():
                u = layer.forward(u)[0]
            continue
        with torch.inference_mode():
            params = layer.autoregressive_net(u)
            us, shift = layer._unconstrained_scale_and_shift(params)
            scale = layer.scale_activation(us)
            y, ld = layer.forward(u)
            xinv, ldi = layer.inverse(y)
            (Kx,) = sens(lambda t: (layer.inverse(t)[0],), y)
            # strict-prefix dependence of the conditioner
            gen = torch.Generator().manual_seed(cfg["seed"] + li)
            for i in range(d):
                u2 = u.clone()
                u2[:, i:] = torch.randn(u[:, i:].shape, generator=gen, dtype=torch.float64).to(u.dtype) * 3.0
                us2, shift2 = layer._unconstrained_scale_and_shift(layer.autoregressive_net(u2))
                if not (torch.equal(us2[:, i], us[:, i]) and torch.equal(shift2[:, i], shift[:, i])):
                    O.fail("MaskedAffineAutoregressiveTransform:conditioner-depends-on-non-prefix",
                           f"scale/shift of feature {i} changed when features >= {i} were changed (layer {li})",
                           failing={"point": np64(u)[0].tolist(), "feature": i})
        okr = np64(torch.isfinite(y).all(dim=1) & torch.isfinite(ld) & torch.isfinite(xinv).all(dim=1)).astype(bool)
        for r in np.flatnonzero(okr):
            r = int(r)
            S = "[" + ",".join(f"[{rat(scale[r, i])}]" for i in range(d)) + "]"
            Tt = "[" + ",".join(f"[{rat(shift[r, i])}]" for i in range(d)) + "]"
            xs = "[" + ",".join(rat(v) for v in u[r]) + "]"
            ys = "[" + ",".join(rat(v) for v in y[r]) + "]"
            want_f = [float(v) for v in y[r]] + [float(torch.exp(ld[r].double()))]
            tie.add(f"flow ar fwd {xs} {S} {Tt}", ("ar", want_f), 64 * tm, {"case": case, "op": "MAF layer forward", "layer": li, "row": r})
            tol_inv = float(np.max(tol_of(np64(Kx)[r], np64(u)[r], eps) / (1 + np.abs(np64(u)[r]))))
            want_i = [float(v) for v in xinv[r]] + [float(torch.exp(-ldi[r].double()))]
            tie.add(f"flow ar inv {ys} {S} {Tt}", ("ar", want_i), max(64 * tm, tol_inv), {"case": case, "op": "MAF layer inverse", "layer": li, "row": r})
        ctx.case(("maf-layer", json.dumps(cfg, sort_keys=True), state, li), True, None, kind=f"ar-real-layer:{dname}")
        u = y


# --------------------------------------------------------------------------- FlowProposal (standard sampler)
def make_model(bounds=None):
    from nessai.model import Model

    class M(Model):
        def __init__(self):
            self.names = ["x", "y"]
            self.bounds = bounds or {"x": [-3.0, 5.0], "y": [0.0, 2.0]}

        def log_prior(self, x):
            lp = np.log(self.in_bounds(x), dtype="float")
            for n_ in self.names:
                lp -= np.log(self.bounds[n_][1] - self.bounds[n_][0])
            return lp

        def log_likelihood(self, x):
            return -0.5 * (x["x"] ** 2 + (x["y"] - 1.0) ** 2 / 0.1)

        def to_unit_hypercube(self, x):
            y = x.copy()
            for n_ in self.names:
                y[n_] = (x[n_] - self.bounds[n_][0]) / (self.bounds[n_][1] - self.bounds[n_][0])
            return y

        def from_unit_hypercube(self, x):
            y = x.copy()
            for n_ in self.names:
                y[n_] = x[n_] * (self.bounds[n_][1] - self.bounds[n_][0]) + self.bounds[n_][0]
            return y

    return M()


def reparam_arg(name):
    if name == "scale":
        return {"x": {"reparameterisation": "scale", "scale": 2.0}, "y": {"reparameterisation": "scale", "scale": 0.5}}
    if name == "mixed":
        return {"x": {"reparameterisation": "rescaletobounds"}, "y": {"reparameterisation": "logit"}}
    return name


def run_flowproposal(ctx, tie, cfg):
    torch = T()
    from nessai.proposal.flowproposal import FlowProposal
    from nessai.livepoint import live_points_to_array, numpy_array_to_live_points
    from nessai import config as nconfig
    out = tempfile.mkdtemp(prefix="c08_")
    case = {"layer": "flowproposal", "cfg": cfg}
    O = Oracle(ctx, case)
    dname = cfg["dtype"]
    tm = TOL_MODEL[dname]
    try:
        with default_dtype(dname):
            eps = float(torch.finfo(getattr(torch, dname)).eps)
            torch.manual_seed(cfg["seed"])
            np_state = np.random.get_state()
            np.random.seed(cfg["seed"] % (2 ** 32))
            try:
                model = make_model()
                fc = dict(n_blocks=2, n_neurons=8, n_layers=1, ftype=cfg["ftype"])
                fc.update(cfg.get("opts", {}))
                p = FlowProposal(model, flow_config=fc, training_config=dict(max_epochs=cfg.get("epochs", 6), patience=50, batch_size=100),
                                 output=out, poolsize=40, plot=False, latent_prior=cfg["latent_prior"],
                                 reparameterisations=reparam_arg(cfg["reparam"]), constant_volume_mode=False)
                p.initialise()
                live = model.new_point(200)
                live["logL"] = model.log_likelihood(live)
                live["logP"] = model.log_prior(live)
                p.train(live, plot=False)
                p.populate(live[np.argmin(live["logL"])], N=40, plot=False)
                n = cfg["n"]
                z0 = p.draw_latent_prior(n)
                m = p.flow.model
                for rescale in (True, False):
                    x, lq, zz = p.backward_pass(z0, rescale=rescale, return_z=True)
                    if len(x) != len(lq) or len(zz) != len(lq):
                        O.fail("FlowProposal.backward_pass:misaligned", "x, log_q and z have different lengths")
                        continue
                    if not len(x):
                        continue
                    z2, lq2 = p.forward_pass(x, rescale=rescale, compute_radius=False)
                    # primitives
                    zt = p.flow.numpy_array_to_tensor(zz)
                    with torch.inference_mode():
                        bz = m._distribution.log_prob(zt)
                        xpt, ldi = m._transform.inverse(zt)
                        alt = p.alt_dist.log_prob(zt) if p.alt_dist is not None else None
                    xp_struct = numpy_array_to_live_points(np64(xpt).astype(nconfig.livepoints.default_float_dtype), p.prime_parameters)
                    if rescale:
                        x_chk, jri = p.inverse_rescale(xp_struct)
                        xpr, jr = p.rescale(x, compute_radius=False)
                        xarr = live_points_to_array(xpr, names=p.prime_parameters, copy=True)
                    else:
                        jri = np.zeros(len(x))
                        jr = np.zeros(len(x))
                        xarr = live_points_to_array(x, names=p.prime_parameters, copy=True)
                    xat = p.flow.numpy_array_to_tensor(xarr)
                    # measured rounding of inverse_rescale followed by rescale (large near prior bounds with logit)
                    rt = np.abs(xarr - np64(xpt))
                    delta = torch.maximum(PERT * eps * torch.clamp(xat.abs(), min=1.0), torch.as_tensor(PERT * rt).to(xat.dtype))
                    jdiff = np.abs(jr + jri)
                    with torch.inference_mode():
                        zf, ldf = m._transform.forward(xat)
                        bf = m._distribution.log_prob(zf)
                        (Klp,) = sens(lambda t: (m.log_prob(t),), xat, delta)
                        (Kz,) = sens(lambda t: (m.forward(t)[0],), xat, delta)
                    phys = live_points_to_array(x, names=(model.names if rescale else p.prime_parameters), copy=True)
                    ok = np.isfinite(lq) & np.isfinite(lq2)
                    altn = None if alt is None else np64(alt)
                    for i in [int(i) for i in np.flatnonzero(ok)[:cfg.get("ntie", 40)]]:
                        tie.add(f"flow fp_fwd {int(rescale)} {rat(bf[i])} {rat(ldf[i])} {rat(jr[i])}", float(lq2[i]), tm,
                                {"case": case, "i": i, "op": f"FlowProposal.forward_pass(rescale={rescale})"})
                        tie.add(f"flow fp_bwd {int(rescale)} {'none' if altn is None else rat(altn[i])} {rat(bz[i])} {rat(ldi[i])} {rat(jri[i])}",
                                float(lq[i]), tm, {"case": case, "i": i, "op": f"FlowProposal.backward_pass(rescale={rescale})"})
                    extra = np.abs(np64(ldf)) + np.abs(jr)
                    tol = tol_of(np64(Klp), lq2, eps, extra) + 4.0 * jdiff
                    # only the n-ball latent priors draw from an alternative latent distribution (uniform in the ball), for which the
                    # attached density is by construction that distribution's; every other latent prior must attach the density
                    # the forward pass computes (seeded change C08-eB: 'uniform' silently got an alternative distribution too)
                    nball = cfg["latent_prior"] in ("uniform_nball", "uniform_nsphere")
                    if (altn is not None) != nball:
                        ctx.disagree("FlowProposal.get_alt_distribution: an alternative latent distribution is "
                                     + ("present" if altn is not None else "missing") + f" for latent_prior={cfg['latent_prior']!r}",
                                     {"case": case})
                    if altn is None or not nball:
                        O.close(f"FlowProposal.backward_pass:density-vs-forward_pass(rescale={rescale})",
                                "density attached by backward_pass != density forward_pass computes at the same point",
                                lq[ok], lq2[ok], tol[ok], phys[ok])
                    else:
                        O.close(f"FlowProposal.backward_pass:alt_dist-density-vs-forward_pass(rescale={rescale})",
                                "backward_pass density minus the alternative latent density != forward_pass density minus the flow's base density",
                                (lq - altn)[ok], (lq2 - np64(bf))[ok], (tol + tm * (np.abs(altn) + np.abs(np64(bf))))[ok], phys[ok])
                    O.close(f"FlowProposal.forward_pass:z-vs-backward_pass-input(rescale={rescale})",
                            "forward_pass does not return the latent point the sample was generated from",
                            z2[ok], zz[ok], tol_of(np64(Kz), zz, eps)[ok], phys[ok])
                    ctx.extra["points"] = ctx.extra.get("points", 0) + len(x)
                    ctx.case(("flowproposal", json.dumps(cfg, sort_keys=True), rescale), bool(np.abs(jr).max() > 1e-3 or np.abs(np64(ldf)).max() > 1e-3),
                             {"layer": "flowproposal", "cfg": cfg, "rescale": rescale, "n": int(len(x)),
                              "rescale_logJ_range": [float(np.min(jr)), float(np.max(jr))], "alt_dist": p.alt_dist is not None},
                             kind=f"flowproposal:{cfg['latent_prior']}:{cfg['reparam']}:{dname}:rescale={int(rescale)}")
            finally:
                np.random.set_state(np_state)
    except core.Infra:
        raise
    except Exception as e:  # noqa
        import traceback
        O.fail("FlowProposal:exception", f"proposal call raised {e!r}", trace=traceback.format_exc()[-1500:])
    finally:
        shutil.rmtree(out, ignore_errors=True)


# --------------------------------------------------------------------------- ImportanceFlowProposal (importance sampler)
def run_importance(ctx, tie, cfg):
    torch = T()
    from scipy.special import logsumexp
    from nessai.proposal.importance import ImportanceFlowProposal
    from nessai.livepoint import add_extra_parameters_to_live_points, reset_extra_live_points_parameters
    out = tempfile.mkdtemp(prefix="c08_")
    case = {"layer": "importance", "cfg": cfg}
    O = Oracle(ctx, case)
    dname = cfg["dtype"]
    tm = TOL_MODEL[dname]
    clip_defect = cfg["clip"] and cfg["reparam"] is None
    add_extra_parameters_to_live_points(["logW", "logQ", "logU"])
    np_state = np.random.get_state()
    try:
        with default_dtype(dname):
            eps = float(torch.finfo(getattr(torch, dname)).eps)
            eps64 = float(np.finfo(float).eps)
            torch.manual_seed(cfg["seed"])
            np.random.seed(cfg["seed"] % (2 ** 32))
            model = make_model()
            fc = dict(n_blocks=2, n_neurons=8, n_layers=1, ftype=cfg["ftype"])
            fc.update(cfg.get("opts", {}))
            if cfg.get("dist_instance"):
                # the latent distribution handed over as an INSTANCE with trainable tensors: every level's flow must own its copy
                # (seeded changes C03-fB / C08-hB: configure_model's shallow copy shared one between the levels)
                from nessai.flows.distributions import ResampledGaussian
                from nessai.flows.nets import MLP
                fc["distribution"] = ResampledGaussian([2], MLP([2], [1], [8, 8], activate_output=torch.sigmoid))
            p = ImportanceFlowProposal(model, out, flow_config=fc, training_config=dict(max_epochs=cfg.get("epochs", 6), patience=50, batch_size=100),
                                       reparameterisation=cfg["reparam"], clip=cfg["clip"], reset_flow=cfg.get("reset_flow", 2))
            p.initialise()
            n = cfg["n"]
            samples = model.sample_unit_hypercube(200)
            samples["logW"] = 0.0
            history = []  # (samples, log_q rows) drawn at earlier levels
            for level in range(cfg["levels"]):
                p.train(samples, plot=False)
                w = np.random.dirichlet(np.ones(level + 2))
                p.update_proposal_weights({k - 1: float(v) for k, v in enumerate(w / w.sum())})
                flows = list(p.flow.models)
                # every level's flow owns its tensors: a tensor shared between two saved proposals means that training one moves
                # the density of the other (seeded changes C03-fB / C08-hB)
                owner = {}
                for fi, f in enumerate(flows):
                    for nm, t in list(f.named_parameters()) + list(f.named_buffers()):
                        if t.numel() == 0:
                            continue
                        prev = owner.setdefault(t.data_ptr(), (fi, nm))
                        if prev[0] != fi:
                            O.fail("ImportanceFlowModel:flows-share-a-tensor", f"flow {prev[0]} ({prev[1]}) and flow {fi} ({nm}) "
                                   "hold the same tensor storage: the saved proposals are not independent")

                def prims(xs):
                    """primitives at the physical points xs: x'' = rescale(xs), log_j, per flow (base, logdet)"""
                    xpp, lj = p.rescale(xs)
                    xt = p.flow.numpy_array_to_tensor(xpp)
                    bl = []
                    with torch.inference_mode():
                        for f in flows:
                            zf, ldf = f._transform.forward(xt)
                            bl.append((np64(f._distribution.log_prob(zf)), np64(ldf)))
                    return xpp, lj, xt, bl

                def cond(xpp, xt):
                    """response of every flow's log_prob to the rounding of the logit(sigmoid(.)) round trip"""
                    delta = PERT * eps * torch.clamp(xt.abs(), min=1.0)
                    if cfg["reparam"] == "logit":
                        delta = torch.maximum(delta, torch.as_tensor(PERT * eps64 * (1.0 + np.exp(np.minimum(np.abs(xpp), 60.0)))).to(xt.dtype))
                    with torch.inference_mode():
                        Ks = [np64(sens(lambda t, f=f: (f.log_prob(t),), xt, delta)[0]) for f in flows]
                    return np.stack([np.zeros(len(xpp))] + Ks, axis=1)

                def pairs(bl, i):
                    return "[" + ",".join(f"{rat(b_[i])}:{rat(l_[i])}" for b_, l_ in bl) + "]"

                # later columns for samples drawn at earlier levels
                for hk, (xs_old, lq_old) in enumerate(history):
                    if lq_old.shape[1] != level + 1:
                        O.fail("ImportanceFlowProposal.update_log_q:shape", f"stored log_q has {lq_old.shape[1]} columns at level {level}")
                        continue
                    lq_u = p.update_log_q(xs_old, lq_old)
                    _, lq_f = p.compute_meta_proposal_samples(xs_old)
                    xpp, lj, xt, bl = prims(xs_old)
                    K = cond(xpp, xt)
                    mag = np.abs(lq_f) + np.abs(lj)[:, None]
                    if lq_u.shape != (len(xs_old), level + 2):
                        O.fail("ImportanceFlowProposal.update_log_q:shape", f"update_log_q returned shape {lq_u.shape}")
                        continue
                    O.close("ImportanceFlowProposal.update_log_q:carried-columns", "update_log_q changed the existing columns",
                            lq_u[:, :level + 1], lq_old[:, :level + 1], 0.0, None)
                    # the columns stored at EARLIER levels are still the densities of those (saved) proposals: training a later
                    # level must not move them
                    O.close(KEY_CLIP if clip_defect else "ImportanceFlowProposal:stored-columns-vs-earlier-proposals",
                            "log_q columns stored at earlier levels differ from those proposals re-evaluated now (a later training "
                            "changed an earlier proposal)", lq_old[:, 1:level + 1], lq_f[:, 1:level + 1],
                            tol_of(K, lq_f, eps, mag)[:, 1:level + 1], None)
                    O.close("ImportanceFlowProposal.update_log_q:new-column-vs-compute_meta_proposal_samples",
                            "column appended by update_log_q != log_q computed forwards for the same physical points",
                            lq_u[:, level + 1], lq_f[:, level + 1], tol_of(K, lq_f, eps, mag)[:, level + 1], None)
                    history[hk] = (xs_old, lq_u)
                    for i in range(min(len(xs_old), cfg.get("ntie", 20))):
                        if np.isfinite(lq_u[i]).all() and all(np.isfinite(b_[i]) for b_, _ in bl):
                            tie.add(f"flow ifp_upd {level} {rat(lj[i])} {pairs(bl, i)} [{','.join(rat(v) for v in lq_old[i, :level + 1])}]",
                                    [float(v) for v in lq_u[i]], tm, {"case": case, "i": i, "op": "update_log_q", "level": level})

                for flow_number in ([None] if level == 0 else [None, int(np.random.randint(level))]):
                    x, lq = p.draw(n, flow_number=flow_number)
                    if not len(x):
                        continue
                    logQ_f, lq_f = p.compute_meta_proposal_samples(x)
                    xpp, lj, xt, bl = prims(x)
                    K = cond(xpp, xt)
                    mag = np.abs(lq_f) + np.abs(lj)[:, None]
                    tol = tol_of(K, lq_f, eps, mag)
                    phys = np.stack([x[nm] for nm in model.names], axis=1)
                    key = KEY_CLIP if clip_defect else "ImportanceFlowProposal.draw:log_q-vs-compute_meta_proposal_samples"
                    O.close(key, "log_q row attached by draw != log_q computed forwards at the drawn physical point",
                            lq, lq_f, tol, phys)
                    O.close(KEY_CLIP if clip_defect else "ImportanceFlowProposal.draw:logQ-vs-compute_meta_proposal_samples",
                            "logQ attached by draw != meta-proposal computed forwards at the drawn physical point",
                            x["logQ"], logQ_f, tol.max(axis=1), phys)
                    wts = p.weights_array
                    with np.errstate(divide="ignore"):
                        want_Q = logsumexp(lq, b=wts, axis=1)
                    O.close("ImportanceFlowProposal.draw:logQ-is-weighted-logsumexp", "logQ != logsumexp(log_q, b=weights)",
                            x["logQ"], want_Q, 1e-9 * (1 + np.abs(want_Q)), phys)
                    O.close("ImportanceFlowProposal.draw:logW", "logW != logU - logQ", x["logW"], x["logU"] - x["logQ"],
                            1e-12 * (1 + np.abs(x["logQ"])), phys)
                    for i in range(min(len(x), cfg.get("ntie", 20))):
                        if all(np.isfinite(b_[i]) for b_, _ in bl) and np.isfinite(lq_f[i]).all():
                            tie.add(f"flow ifp_row {rat(lj[i])} {pairs(bl, i)}", [float(v) for v in lq_f[i]], tm,
                                    {"case": case, "i": i, "op": "compute_meta_proposal_samples", "level": level})
                            if not clip_defect:
                                fn = level if flow_number is None else flow_number
                                tie.add(f"flow ifp_draw {fn} {rat(lj[i])} {pairs(bl, i)}", [float(v) for v in lq[i]],
                                        float(max(tm, (tol[i] / (1 + np.abs(lq_f[i]))).max())),
                                        {"case": case, "i": i, "op": "draw", "level": level})
                    # the array-level interface on LARGE arrays: every row of log_prob_all is that point's density under every
                    # flow, whatever the size of the call (batched evaluation with a dropped remainder: seeded changes C12-fA/fB
                    # at 10^4 rows, C08-hA at 5·10^4; sizes straddle both)
                    if level == cfg["levels"] - 1 and flow_number is None:
                        for big in (10_001, 120_001):
                            reps = -(-big // len(xpp))
                            xb = np.tile(xpp, (reps, 1))[:big]
                            lb = p.flow.log_prob_all(xb)
                            ref = np.tile(p.flow.log_prob_all(xpp), (reps, 1))[:big]
                            O.close("ImportanceFlowModel.log_prob_all:large-array", f"log_prob_all on {big} rows differs from the same "
                                    "points evaluated in a small call", lb, ref, tm * (1 + np.abs(ref)), None)
                    # ImportanceFlowModel: log_prob_ith agrees with log_prob_all, column by column
                    la = p.flow.log_prob_all(xpp)
                    for k in range(len(flows)):
                        O.close("ImportanceFlowModel.log_prob_ith:vs-log_prob_all", f"log_prob_ith(x, {k}) != log_prob_all(x)[:, {k}]",
                                p.flow.log_prob_ith(xpp, k), la[:, k], tm * (1 + np.abs(la[:, k])), phys)
                    history.append((x, lq))
                    ctx.extra["points"] = ctx.extra.get("points", 0) + len(x)
                    ctx.case(("importance", json.dumps(cfg, sort_keys=True), level, flow_number), bool(np.abs(lj).max() > 1e-3 or cfg["reparam"] is None),
                             {"layer": "importance", "cfg": cfg, "level": level, "flow_number": flow_number, "n": int(len(x)),
                              "log_j_range": [float(lj.min()), float(lj.max())]},
                             kind=f"importance:{cfg['reparam']}:clip={int(cfg['clip'])}:{dname}:level{level}")

                # generation direction: the density a flow reports with its own sample, minus the inverse-rescaling Jacobian
                k = level
                torch.manual_seed(cfg["seed"] + 17 + level)
                xs_p = p.flow.sample_ith(k, N=n)
                torch.manual_seed(cfg["seed"] + 17 + level)
                with torch.inference_mode():
                    xs_t, lp_t = flows[k].sample_and_log_prob(n)
                O.close("ImportanceFlowModel.sample_ith:vs-flow", "sample_ith != the flow's own samples", xs_p, np64(xs_t), tm * (1 + np.abs(np64(xs_t))))
                xg, jinv = p.inverse_rescale(xs_p)
                inside = model.in_unit_hypercube(xg) & np.isfinite(jinv)
                if cfg["reparam"] == "logit":
                    inside &= (np.abs(xs_p) < 30).all(axis=1)
                if inside.any() and not clip_defect:
                    xg, jinv_i, lp_i = xg[inside], jinv[inside], np64(lp_t)[inside]
                    _, lq_f = p.compute_meta_proposal_samples(xg)
                    xpp, lj, xt, _ = prims(xg)
                    K = cond(xpp, xt)[:, k + 1]
                    O.close("ImportanceFlowProposal:generation-density-vs-compute_meta_proposal_samples",
                            "flow.sample_and_log_prob density minus inverse-rescaling log-Jacobian != log_q computed forwards at the physical point",
                            lp_i - jinv_i, lq_f[:, k + 1], tol_of(K, lq_f[:, k + 1], eps, np.abs(lj) + np.abs(lp_i)), None)
                samples = history[-1][0].copy() if history and len(history[-1][0]) >= 50 else samples
    except core.Infra:
        raise
    except Exception as e:  # noqa
        import traceback
        O.fail("ImportanceFlowProposal:exception", f"proposal call raised {e!r}", trace=traceback.format_exc()[-1500:])
    finally:
        np.random.set_state(np_state)
        reset_extra_live_points_parameters()
        shutil.rmtree(out, ignore_errors=True)


# --------------------------------------------------------------------------- case lists
REALNVP_OPTS = [
    {},
    {"linear_transform": None, "batch_norm_between_layers": False},
    {"linear_transform": "permutation"},
    {"net": "mlp", "actnorm": True, "batch_norm_between_layers": False},
    {"pre_transform": "batch_norm"},
    {"distribution": "mvn", "distribution_kwargs": {"var": 2.0}},
    {"use_volume_preserving": True},
    {"mask": [1, -1], "linear_transform": None},
    {"linear_transform": "svd"},
    # resampled (LARS) base distribution: its normalisation constant is re-estimated by FlowModel.finalise() after the best
    # weights have been restored; more epochs so that the acceptance network learns something (seeded change C08-eA)
    {"distribution": "lars", "_epochs": 30},
    # dropout inside the LARS acceptance network and inside the coupling networks: active while training, it has to be off
    # whenever a density is reported (eval mode must reach every sub-module; seeded change C08-fA)
    {"distribution": "lars", "distribution_kwargs": {"net_kwargs": {"dropout_probability": 0.25}}, "_epochs": 10},
    {"batch_norm_within_layers": True, "dropout_probability": 0.2},
    # a base distribution with bounded support (zero-density points exist: both tiers)
    {"distribution": "uniform", "batch_norm_between_layers": False},
]
REALNVP_MORE = [
    {"mask": [[1, -1], [-1, 1]], "linear_transform": None, "_blocks": 2},
    {"pre_transform": "batch_norm", "pre_transform_kwargs": {"eps": 1e-8}},
    {"scale_activation": "sigmoid"},
    {"net": "mlp", "batch_norm_within_layers": True, "dropout_probability": 0.5},
    {"distribution": "normal"},
    {"linear_transform": "lu", "batch_norm_between_layers": False, "actnorm": True},
]
MAF_OPTS = [
    {},
    {"batch_norm_between_layers": True, "use_random_permutations": True},
    {"use_residual_blocks": False, "use_random_masks": True},
]
MAF_MORE = [{"batch_norm_within_layers": True}, {"use_residual_blocks": False}, {"dropout_probability": 0.3}]
NSF_OPTS = [
    {},
    {"linear_transform": "lu", "batch_norm_between_layers": True},
    {"num_bins": 4, "linear_transform": None},
]
NSF_MORE = [{"linear_transform": "svd"}, {"num_bins": 10, "batch_norm_within_layers": True},
            {"tail_bound": 3.0}, {"distribution": "mvn", "distribution_kwargs": {"var": 0.5}}]


def flow_cases(ctx):
    quick = ctx.quick
    table = [("realnvp", REALNVP_OPTS + ([] if quick else REALNVP_MORE)),
             ("maf", MAF_OPTS + ([] if quick else MAF_MORE)),
             ("nsf", NSF_OPTS + ([] if quick else NSF_MORE))]
    cases = []
    reps = 1 if quick else 3
    for ftype, optlist in table:
        for k, opts in enumerate(optlist):
            for rep in range(reps):
                dtypes = ["float32", "float64"] if (k == 0 or not quick) else [ctx.rng.choice(["float32", "float64"])]
                for dname in dtypes:
                    o = {kk: v for kk, v in opts.items() if not kk.startswith("_")}
                    dims = 2 if (quick or rep < 2 or "mask" in o) else 3
                    nb = opts.get("_blocks", ctx.rng.choice([1, 2, 3]))
                    cases.append(dict(ftype=ftype, dtype=dname, opts=o, dims=dims, n_blocks=nb, n_layers=ctx.rng.choice([1, 2]),
                                      n_neurons=ctx.rng.choice([4, 8]), seed=ctx.rng.getrandbits(30),
                                      n=ctx.scale(200, 500), ntie=ctx.scale(25, 60), grid=ctx.scale(40, 64),
                                      epochs=opts.get("_epochs", ctx.scale(6, 20))))
    return cases


def proposal_cases(ctx):
    cases = []
    priors = ["truncated_gaussian", "uniform_nball", "gaussian", "flow", "uniform"] + ([] if ctx.quick else ["uniform_nsphere"])
    reparams = [None, "zscore", "logit", "scale", "null", "mixed"]
    for lat in priors:
        for rep in reparams:
            if ctx.quick and ctx.rng.random() < 0.45 and not (lat in ("uniform_nball", "uniform") and rep in (None, "logit")):
                continue
            for dname in (["float32", "float64"] if not ctx.quick else [ctx.rng.choice(["float32", "float64"])]):
                ftype = ctx.rng.choice(["realnvp", "realnvp", "maf", "nsf"])
                cases.append(dict(dtype=dname, ftype=ftype, latent_prior=lat, reparam=rep, seed=ctx.rng.getrandbits(30),
                                  n=ctx.scale(150, 400), ntie=ctx.scale(25, 60), epochs=ctx.scale(6, 20), opts={}))
    return cases


def importance_cases(ctx):
    cases = []
    for rep, clip in [("logit", False), ("logit", True), (None, False), (None, True)]:
        for dname in ["float32", "float64"]:
            for r in range(ctx.scale(1, 4)):
                cases.append(dict(dtype=dname, ftype=ctx.rng.choice(["realnvp", "nsf"]) if r else "realnvp", reparam=rep, clip=clip,
                                  reset_flow=ctx.rng.choice([1, 2, 0]), levels=ctx.scale(2, 3), seed=ctx.rng.getrandbits(30),
                                  n=ctx.scale(120, 300), ntie=ctx.scale(15, 40), epochs=ctx.scale(6, 20), opts={}))
    cases.append(dict(dtype="float32", ftype="realnvp", reparam="logit", clip=False, reset_flow=1, levels=3, seed=ctx.rng.getrandbits(30),
                      n=ctx.scale(120, 300), ntie=ctx.scale(15, 40), epochs=ctx.scale(10, 20), opts={}, dist_instance=True))
    return cases


def run_case(ctx, tie, layer, cfg):
    {"flow": run_flow, "flowproposal": run_flowproposal, "importance": run_importance}[layer](ctx, tie, cfg)


def corpus_cases():
    d = core.VERIF / "corpus" / "C08"
    out = []
    if d.exists():
        for f in sorted(d.glob("*.json")):
            for c in json.loads(f.read_text()):
                out.append((c["layer"], c["cfg"]))
    return out


def correspond(ctx):
    ctx.rule = ("one case = one (flow configuration, weight state) or (proposal configuration, rescale flag / level) checked on a batch "
                "of generated points; flows: RealNVP/MAF/NSF x option list x {float32,float64} x states fresh, randomly perturbed, "
                "trained on 200 Gaussian points, reset weights / permutations / both, retrained; points = Gaussian blobs of random "
                "scale placed on the flow's own sample cloud + boundary stream (cloud centre, tiny offset, +-4 widths, spline tail "
                "bound +-5 and the origin when inside the cloud) + the flow's own samples + supplied latent points; proposals: FlowProposal x latent priors x reparameterisations, ImportanceFlowProposal x {logit,None} x clip x "
                "2-3 levels; non-trivial = some |log det| or rescaling log-Jacobian on the batch exceeds 1e-3")
    ctx.assume("glasflow's spline and SVD layers are inverse pairs with opposite log-determinants (checked numerically on every batch, not "
               "proved; coupling, autoregressive, LU, affine and permutation layers are proved lawful in exact arithmetic)",
               "MADE conditioners only depend on the strict prefix (checked exactly on the real layers of every MAF case)",
               "Distribution.sample_and_log_prob returns the log_prob of the noise it returns (checked on every batch)",
               "reseeding torch's global generator reproduces the noise a sampling call consumed",
               "the rescaling log-Jacobians returned by the proposals' rescale / inverse_rescale are taken as primitives (C07 covers them)")
    ctx.trust("hand-written model Model/FlowAlgebra.lean; tie = this numeric correspondence on primitives read from the real objects",
              "torch / glasflow numerics (third party)")
    T()
    tie = Tie()
    for layer, cfg in corpus_cases():
        run_case(ctx, tie, layer, cfg)
    for cfg in flow_cases(ctx):
        run_flow(ctx, tie, cfg)
    for cfg in proposal_cases(ctx):
        run_flowproposal(ctx, tie, cfg)
    for cfg in importance_cases(ctx):
        run_importance(ctx, tie, cfg)
    ar_selfcheck(ctx, tie)
    # malformed stream of the protocol itself
    for line, want in (("flow nflow_lp 1/0 2", "bad-op"), ("flow fp_fwd 2 1 1 1", "bad-op"), ("flow ifp_upd 3 0 [1:2] [0]", "none"),
                       ("flow ifp_draw 1 0 [1:2]", "none"), ("flow ifp_row 0 []", [0.0]), ("flow ar up [1] [[1]] [[0]]", "bad-op"),
                       ("flow ar fwd [1] [[0]] [[0]]", "err=value"), ("flow ar fwd [] [] []", "[] 1")):
        tie.add(line, want, 0.0, {"layer": "protocol"})
    tie.flush(ctx)
    ctx.traces = ctx.evaluations


def search(ctx):
    """a tie or a proof broke without a failing input: widen the search with fresh seeds of every case list"""
    tie = Tie()
    for _ in range(2):
        for cfg in flow_cases(ctx):
            run_flow(ctx, tie, cfg)
            if ctx.fails:
                return
        for cfg in proposal_cases(ctx):
            run_flowproposal(ctx, tie, cfg)
        for cfg in importance_cases(ctx):
            run_importance(ctx, tie, cfg)
        if ctx.fails:
            return


def replay(ctx, obj):
    c = obj["case"]
    inner = c.get("case", c)
    T()
    tie = Tie()
    cfg = copy.deepcopy(inner["cfg"])
    run_case(ctx, tie, inner["layer"], cfg)
    tie.flush(ctx)
