import NessaiVerif.Gen.CrashFS
import NessaiVerif.Proofs.CrashFSHist
/-
C11 — the protocols GENERATED from the nessai source (`Gen/CrashFS.lean`) meet the
specifications the history theorems need.  These are the proof obligations that
break when `safe_file_dump`, `FlowModel.save_weights` or the `except` clauses of
`FlowSampler._resume_from_file` change in a way that matters.
-/
set_option linter.unusedSimpArgs false
namespace NessaiVerif.CrashFS
open Gen

/-- `safe_file_dump` as it is in the source meets `DumpSpec` (both `save_existing` values) -/
theorem gen_dumpSpec : DumpSpec dumpProg := by
  constructor
  · intro se d fs cp
    obtain ⟨j, ins, f⟩ := cp
    obtain ⟨c, hc⟩ : ∃ c, fs cb = c := ⟨_, rfl⟩
    have hc' : fs ⟨.ckpt, .base⟩ = c := hc
    cases se <;> cases c <;>
      simp [crashState, dumpProg, dyn, FS.has, runOps, opRun, FS.set, hc', Content.exists?] <;>
      (rcases j with _|_|_|_|_|_|_|_|j <;> cases ins <;>
        simp [crashOps, opRun, opCrash, opPend, settle, FS.set, hc'])
  · intro se d fs
    obtain ⟨c, hc⟩ : ∃ c, fs cb = c := ⟨_, rfl⟩
    have hc' : fs ⟨.ckpt, .base⟩ = c := hc
    cases se <;> cases c <;>
      simp [runProg, dumpProg, dyn, FS.has, runOps, opRun, FS.set, hc', Content.exists?]

/-- `FlowModel.save_weights` as it is in the source meets `SaveSpec` -/
theorem gen_saveSpec : SaveSpec saveWeightsProg := by
  constructor
  · intro fam d fs cp
    obtain ⟨j, ins, f⟩ := cp
    obtain ⟨c, hc⟩ : ∃ c, fs ⟨fam, .base⟩ = c := ⟨_, rfl⟩
    cases c <;>
      simp [crashState, saveWeightsProg, dyn, FS.has, runOps, opRun, FS.set, hc, Content.exists?] <;>
      (rcases j with _|_|_|_|_|j <;> cases ins <;>
        simp [crashOps, opRun, opCrash, opPend, settle, FS.set, hc] <;> (try split) <;> simp <;>
        first | omega | (right; omega))
  · intro fam d fs
    obtain ⟨c, hc⟩ : ∃ c, fs ⟨fam, .base⟩ = c := ⟨_, rfl⟩
    cases c <;>
      simp [runProg, saveWeightsProg, dyn, FS.has, runOps, opRun, FS.set, hc, Content.exists?]

/-- the `except` clauses of `_resume_from_file` as they are in the source do what
`CkptGood` needs: a missing primary file falls through to `.old` -/
theorem gen_resumeSpec (h : WeightsHandler) : ResumeSpec (resumeCfgWith h) := by
  intro kind top fs prev hg hw
  obtain ⟨_, _, hp⟩ := hg
  cases prev with
  | none =>
    obtain ⟨hb, ho⟩ := hp
    have hb' : fs ⟨.ckpt, .base⟩ = .absent := hb
    have ho' : fs ⟨.ckpt, .old⟩ = .absent := ho
    simp [resume, resumeCfgWith, FS.has, hb', ho', Content.exists?, specOf]
  | some vn =>
    obtain ⟨v, n⟩ := vn
    rcases hp with hb | ⟨hb, ho⟩
    · have hb' : fs ⟨.ckpt, .base⟩ = .complete v n := hb
      have := hw cb v n (Or.inl rfl) hb
      simp [resume, attempt, resumeCfgWith, FS.has, hb', Content.exists?, specOf] at this ⊢
      simp [this]
    · have hb' : fs ⟨.ckpt, .base⟩ = .absent := hb
      have ho' : fs ⟨.ckpt, .old⟩ = .complete v n := ho
      have := hw co v n (Or.inr rfl) ho
      simp [resume, attempt, resumeCfgWith, FS.has, hb', ho', Content.exists?, specOf, catches,
        ExcName.covers] at this ⊢
      simp [this]

/-! ### weights side of the standard sampler -/

theorem catches_torn (l : List ExcName) (h : coversTorn l = true) (e : Exc) :
    catches l e = true := by
  simp only [coversTorn, List.all_cons, List.all_nil, Bool.and_true, Bool.and_eq_true] at h
  obtain ⟨h1, h2, h3, h4, h5, h6⟩ := h
  cases e <;> assumption

/-- a handler that passes `WeightsHandler.safe` never lets the weights reload raise -/
theorem safe_handler_ok (h : WeightsHandler) (hs : h.safe = true) (fs : FS) (n : Nat) :
    stdWeightsResume h fs n = none := by
  simp only [WeightsHandler.safe, Bool.and_eq_true, Bool.or_eq_true] at hs
  obtain ⟨⟨⟨hskip, habs⟩, hcov⟩, hfb⟩ := hs
  have fb : ∀ e, runFallback fs .weights e h.fallback = none := by
    intro e
    cases hf : h.fallback with
    | reraise => rw [hf] at hfb; simp [Fallback.safe] at hfb
    | skip => rfl
    | loadOld g c2 =>
      rw [hf] at hfb
      simp only [Fallback.safe, Bool.and_eq_true, Bool.or_eq_true] at hfb
      obtain ⟨hg, hc⟩ := hfb
      simp only [runFallback, loadWeights]
      cases hw : fs ⟨.weights, .old⟩ with
      | absent =>
        rcases hg with hg | hg
        · simp [hg, FS.has, hw, Content.exists?]
        · simp [FS.has, hw, Content.exists?, hg]
      | complete v m => simp
      | torn k e => simp [catches_torn c2 hc e]
  unfold stdWeightsResume
  by_cases hn : n = 0
  · simp [hn, hskip]
  · simp only [hn, if_false, loadWeights]
    cases hw : fs ⟨.weights, .base⟩ with
    | absent =>
      rcases habs with hg | hg
      · simp [hg, FS.has, hw, Content.exists?]
      · simp [FS.has, hw, Content.exists?, hg, fb]
    | complete v m => simp
    | torn k e => simp [catches_torn h.excs hcov e, fb]

/-- with the handler as it is in the source, an untorn (absent or complete) weights file
never makes the resume raise -/
theorem gen_untorn_ok (fs : FS) (hu : (fs wb).isTorn = false) (n : Nat) :
    stdWeightsResume weightsHandler fs n = none := by
  have hu' : (fs ⟨.weights, .base⟩).isTorn = false := hu
  cases hw : fs ⟨.weights, .base⟩ with
  | torn k e => rw [hw] at hu'; simp at hu'
  | absent =>
    by_cases hn : n = 0 <;>
      simp [stdWeightsResume, weightsHandler, loadWeights, FS.has, hw, Content.exists?, hn,
        runFallback, catches, ExcName.covers]
  | complete v m =>
    by_cases hn : n = 0 <;>
      simp [stdWeightsResume, weightsHandler, loadWeights, FS.has, hw, Content.exists?, hn,
        runFallback, catches, ExcName.covers]

/-- a weights save that is not killed inside the write leaves the weights file untorn -/
theorem train_keeps_untorn (fs : FS) (w len : Nat) (e : Exc) (cp : Option CrashPt)
    (hok : (Ev.train w len e cp).noTornTrain = true) (hu : (fs wb).isTorn = false) :
    (trainResult protocol fs w len e cp wb).isTorn = false := by
  cases cp with
  | none =>
    simp only [trainResult]
    have := gen_saveSpec.final .weights ⟨w, 0, len, e⟩ fs
    simp only [protocol, protocolWith]
    rw [show (wb : Path) = ⟨.weights, .base⟩ from rfl, this]; rfl
  | some cp =>
    obtain ⟨j, ins, f⟩ := cp
    cases ins with
    | some k => simp [Ev.noTornTrain] at hok
    | none =>
      simp only [trainResult, protocol, protocolWith]
      rcases gen_saveSpec.views .weights ⟨w, 0, len, e⟩ fs ⟨j, none, f⟩ with ⟨h1, _⟩ | ⟨_, h1, _⟩ | ⟨h1 | ⟨k, hk, _⟩, _⟩
      · rw [show (wb : Path) = ⟨.weights, .base⟩ from rfl, h1]; exact hu
      · rw [show (wb : Path) = ⟨.weights, .base⟩ from rfl, h1]; rfl
      · rw [show (wb : Path) = ⟨.weights, .base⟩ from rfl, h1]; rfl
      · cases hk

end NessaiVerif.CrashFS
