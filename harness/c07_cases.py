"""C07 — case generators for the exact (affine) family.  Every random choice comes from the rng handed in."""
import json
import math
from pathlib import Path

import numpy as np

EDGE_TOK = {None: "unset", False: "off", "lower": "lower", "upper": "upper", "both": "both"}

RTB_NAMES = [("default", False), ("rescaletobounds", False), ("rescale-to-bounds", False), ("offset", False),
             ("inversion", False), ("inversion-duplicate", False), ("angle-sine", False), ("angle-cosine", False),
             ("time", True), ("mass", True), ("mass_ratio", True), ("distance", True)]
SS_NAMES = ["scale", "scaleandshift", "rescale", "zscore", "z-score"]
NULL_NAMES = ["none", "null"]
# data columns whose population standard deviation is rational (pattern * d + a)
STD_PATTERNS = [([-1, -1, 1, 1], 1), ([-7, -1, 1, 7], 5), ([-17, -7, 7, 17], 13), ([1, -1, 1, -1], 1), ([7, 1, -1, -7], 5)]


def dyadic(rng, bits=6):
    m = rng.choice([0, 1, 2, 3, 4])
    k = rng.randint(-(2 ** bits), 2 ** bits)
    return k / 2.0 ** m


def bounds_for(rng):
    kind = rng.random()
    if kind < 0.35:
        lo = dyadic(rng, 4)
        w = rng.choice([0.5, 1.0, 2.0, 4.0, 8.0])          # power-of-two width: float arithmetic exact
    elif kind < 0.85:
        lo = dyadic(rng, 6)
        w = rng.choice([0.75, 1.25, 3.0, 5.0, 6.5, 10.0, 0.375])
    else:
        lo = float(rng.choice([1000.0, -512.0, 4096.0]))     # wide offset, narrow width (the nessai time prior)
        w = rng.choice([0.25, 1.0, 0.2001953125])
    return [lo, lo + w]


def points_in(rng, lo, hi, k):
    pts = [lo, hi, float(np.nextafter(lo, hi)), float(np.nextafter(hi, lo)), lo + (hi - lo) / 2]
    for _ in range(k):
        f = rng.randint(1, 2 ** 10 - 1) / 2.0 ** 10
        pts.append(lo + (hi - lo) * f)
    return [min(max(p, lo), hi) for p in pts]


def rtb_kwargs(rng, params, name):
    kw = {}
    inv_cfg = name in ("inversion", "inversion-duplicate", "mass_ratio", "distance")
    if rng.random() < 0.4 and not inv_cfg:
        c = rng.random()
        rb = rng.choice([[0.0, 1.0], [-1.0, 1.0], [-3.0, 7.0], [0.5, 0.75], [-0.25, 2.25]])
        kw["rescale_bounds"] = rb if c < 0.6 else {p: rng.choice([[0.0, 1.0], [-2.0, 2.0], [-3.0, 7.0]]) for p in params}
    if rng.random() < 0.3:
        kw["offset"] = rng.random() < 0.7
    if rng.random() < 0.4:
        kw["update_bounds"] = rng.random() < 0.5
    if not inv_cfg and rng.random() < 0.35:
        c = rng.random()
        if c < 0.3:
            kw["boundary_inversion"] = True
        elif c < 0.55:
            kw["boundary_inversion"] = [params[0]]
        elif c < 0.8:
            kw["boundary_inversion"] = {params[0]: rng.choice(["split", "duplicate"])}
        else:
            kw["boundary_inversion"] = {p: rng.choice(["split", "duplicate"]) for p in params}
        if rng.random() < 0.5:
            kw["inversion_type"] = rng.choice(["split", "duplicate"])
        if rng.random() < 0.3:
            kw["detect_edges"] = True
    if rng.random() < 0.45 and name != "distance":
        kw["prior"] = "uniform"
    if rng.random() < 0.2 and name != "distance":
        kw["pre_rescaling"] = ["affine", rng.choice([0.5, 2.0, 1.0, 0.25]), rng.choice([0.0, 1.0, -0.5])]
    if rng.random() < 0.15:
        kw["post_rescaling"] = ["affine", rng.choice([2.0, 0.5, -1.0]), rng.choice([0.0, -1.0, 0.25])]
    return kw


def has_inversion(name, kw):
    return bool(kw.get("boundary_inversion")) or name in ("inversion", "inversion-duplicate", "mass_ratio", "distance")


def make_case(rng, specs, bounds, names, kind, site, reverse=False, with_update=None, combined=False, test=None):
    """choose update data, edge decision and points for the given reparameterisation specs"""
    from . import c07 as H
    inv = False
    updates = False
    zs = set()
    upd_params = set()
    for s in specs:
        rc, kw = H.merged_kwargs(s)
        if rc.__name__ in ("RescaleToBounds", "DistanceReparameterisation"):
            i = has_inversion(s["name"], kw)
            inv = inv or i
            if kw.get("update_bounds", True) or kw.get("detect_edges"):
                upd_params |= set(s["parameters"])
        elif kw.get("estimate_scale") or kw.get("estimate_shift"):
            zs |= set(s["parameters"])
            updates = True
    updates = updates or bool(upd_params)
    if with_update is None:
        with_update = rng.random() < 0.5
    if test is None:
        test = rng.choice(["lower", "upper", False, "both"]) if inv else False
    data = None
    if with_update:
        pat = {p: rng.choice(STD_PATTERNS) for p in names}
        data = []
        cols = {}
        for p in names:
            lo, hi = bounds[p]
            if p in zs:
                pt, _ = pat[p]
                m = max(abs(v) for v in pt)
                d = 2.0 ** (math.floor(math.log2((hi - lo) / (2 * m))) - 1)   # dyadic: the column is exact
                a = lo + (hi - lo) / 2
                cols[p] = [a + d * v for v in pt]
            else:
                c = sorted(lo + (hi - lo) * rng.randint(1, 63) / 64.0 for _ in range(4))
                if c[0] == c[-1]:
                    c[-1] = hi
                rng.shuffle(c)
                cols[p] = c
        data = [[cols[p][r] for p in names] for r in range(4)]
    # points: the whole box, except that after a data-dependent update an inverted parameter is only
    # regular on the data range at the reflecting side (the other points are exercised as a finding probe)
    cols = {}
    k = rng.randint(2, 5)
    for p in names:
        lo, hi = bounds[p]
        plo, phi = lo, hi
        if data is not None and p in upd_params and inv and test:
            col = [row[names.index(p)] for row in data]
            if test in ("lower", "both"):
                plo = min(col)
            if test == "upper":
                phi = max(col)
        cols[p] = points_in(rng, plo, phi, k)
        if data is not None:
            col = [row[names.index(p)] for row in data]
            cols[p][4] = min(col) if plo <= min(col) else cols[p][4]
            cols[p].append(max(col) if max(col) <= phi else cols[p][4])
        rng.shuffle(cols[p])
    n = min(len(c) for c in cols.values())
    points = [[cols[p][r] for p in names] for r in range(n)]
    if not inv and rng.random() < 0.5:
        # support check from the other side: points just outside the box must get a -inf prime prior
        p = rng.choice(names)
        i = names.index(p)
        lo, hi = bounds[p]
        for v in (lo - (hi - lo) / 1024.0, hi + (hi - lo) / 1024.0):
            row = list(points[0])
            row[i] = v
            points.append(row)
    # 'both' with a prime prior is a finding probe, not part of the regular stream
    if test == "both":
        for s in specs:
            if s.get("kwargs", {}).get("prior") == "uniform":
                test = "lower"
    return dict(layer="exact", kind=kind, site=site, names=names, bounds=bounds, reparams=specs, reverse=reverse,
                combined=combined, update=data, test=test, points=points, regular=True)


def site_of(spec):
    from . import c07 as H
    rc, _ = H.merged_kwargs(spec)
    return rc.__name__


def one_spec(rng, params, which=None):
    which = which or rng.choice(["rtb"] * 5 + ["ss"] * 2 + ["null"])
    if which == "rtb":
        name, gw = rng.choice(RTB_NAMES)
        if name == "distance":
            params = params[:1]
        return dict(name=name, gw=gw, parameters=params, kwargs=rtb_kwargs(rng, params, name))
    if which == "ss":
        name = rng.choice(SS_NAMES)
        kw = {}
        if name in ("scale", "scaleandshift", "rescale"):
            c = rng.random()
            vals = [rng.choice([2.0, 0.5, -4.0, 3.0, 10.0, 0.125]) for _ in params]
            kw["scale"] = vals[0] if c < 0.4 else (vals if c < 0.7 else dict(zip(params, vals)))
            if rng.random() < 0.6:
                sh = [rng.choice([1.0, -2.5, 0.0, 100.0]) for _ in params]
                c = rng.random()
                kw["shift"] = sh[0] if c < 0.4 else (sh if c < 0.7 else dict(zip(params, sh)))
            if rng.random() < 0.2:
                kw["estimate_shift"] = True
            if rng.random() < 0.15:
                kw["estimate_scale"] = True
        return dict(name=name, gw=False, parameters=params, kwargs=kw)
    return dict(name=rng.choice(NULL_NAMES), gw=False, parameters=params, kwargs={})


def exact_cases(ctx, rng):
    # ---- A. every registered name of the affine family, plain and with options, before and after update
    reps = ctx.scale(16, 100)
    for name, gw in RTB_NAMES:
        for rep in range(reps):
            for upd in (False, True):
                nparam = 1 if name == "distance" else rng.choice([1, 1, 2, 3])
                params = [f"p{i}" for i in range(nparam)]
                bounds = {p: bounds_for(rng) for p in params}
                kw = {} if rep == 0 else rtb_kwargs(rng, params, name)
                spec = dict(name=name, gw=gw, parameters=params, kwargs=kw)
                yield make_case(rng, [spec], bounds, params, "rtb:" + name + (":updated" if upd else ""),
                                "RescaleToBounds", with_update=upd)
    for name in SS_NAMES + NULL_NAMES:
        for rep in range(reps):
            for upd in (False, True):
                params = [f"p{i}" for i in range(rng.choice([1, 2, 3]))]
                bounds = {p: bounds_for(rng) for p in params}
                spec = one_spec(rng, params, "ss" if name in SS_NAMES else "null")
                spec["name"] = name
                if name in ("zscore", "z-score", "none", "null"):
                    spec["kwargs"] = {}
                elif "scale" not in spec["kwargs"]:
                    spec["kwargs"]["scale"] = 2.0
                yield make_case(rng, [spec], bounds, params, ("ss:" if name in SS_NAMES else "null:") + name
                                + (":updated" if upd else ""), site_of(spec), with_update=upd)
    # ---- B. every inversion decision x type on one parameter, before / after update
    for itype in ("split", "duplicate"):
        for test in ("lower", "upper", "both", False):
            for upd in (False, True):
                for prior in (None, "uniform"):
                    if test == "both" and prior:
                        continue
                    params = ["p0", "p1"]
                    bounds = {p: bounds_for(rng) for p in params}
                    kw = {"boundary_inversion": {"p0": itype}, "update_bounds": rng.random() < 0.7}
                    if prior:
                        kw["prior"] = prior
                    if rng.random() < 0.3:
                        kw["offset"] = True
                    spec = dict(name="default", gw=False, parameters=params, kwargs=kw)
                    c = make_case(rng, [spec], bounds, params, f"inversion:{itype}:{test}" + (":updated" if upd else ""),
                                  "RescaleToBounds", with_update=upd)
                    if c["test"] != test:
                        # re-draw the points for the requested decision
                        for _ in range(20):
                            c = make_case(rng, [spec], bounds, params, c["kind"], "RescaleToBounds", with_update=upd)
                            if c["test"] == test:
                                break
                    if c["test"] == test:
                        if rng.random() < 0.25:
                            c["compute_radius"] = True
                        yield c
    # ---- B2. the option grid of RescaleToBounds (every combination once)
    for rb in (None, [0.0, 1.0], [-3.0, 7.0]):
        for offset in (False, True):
            for update_bounds in (False, True):
                for itype, detect in ((None, False), ("split", False), ("split", True), ("duplicate", False), ("duplicate", True)):
                    for prior in (None, "uniform"):
                        for upd in (False, True):
                            for test in (("lower", "upper", False) if itype else (False,)):
                                if ctx.quick and rng.random() < 0.5:
                                    continue
                                kw = {"offset": offset, "update_bounds": update_bounds}
                                if rb and not itype:
                                    kw["rescale_bounds"] = rb
                                elif rb:
                                    continue
                                if itype:
                                    kw.update(boundary_inversion=True, inversion_type=itype, detect_edges=detect)
                                if prior:
                                    kw["prior"] = prior
                                params = ["p0"]
                                bounds = {"p0": bounds_for(rng)}
                                spec = dict(name="default", gw=False, parameters=params, kwargs=kw)
                                yield make_case(rng, [spec], bounds, params, "grid" + (":updated" if upd else ""),
                                                "RescaleToBounds", with_update=upd, test=test)
    # ---- C. CombinedReparameterisation of several objects, both orders
    for _ in range(ctx.scale(400, 4000)):
        k = rng.choice([2, 2, 3, 4])
        specs, names, bounds = [], [], {}
        idx = 0
        for _j in range(k):
            n = rng.choice([1, 1, 2])
            params = [f"q{idx + t}" for t in range(n)]
            idx += n
            s = one_spec(rng, params)
            names += s["parameters"]
            specs.append(s)
        for p in names:
            bounds[p] = bounds_for(rng)
        yield make_case(rng, specs, bounds, names, "combined:" + "+".join(sorted(site_of(s)[:4] for s in specs)),
                        "CombinedReparameterisation", reverse=rng.random() < 0.5, combined=True)
    # ---- D. boundary / malformed stream: the model must fail or misbehave exactly like the code
    yield from malformed_cases(ctx, rng)


def malformed_cases(ctx, rng):
    params = ["p0"]
    b = {"p0": [0.0, 1.0]}
    pts = [[0.0], [0.25], [1.0]]

    def mk(spec, kind, **extra):
        c = dict(layer="exact", kind="malformed:" + kind, site="malformed", names=params, bounds=b, reparams=[spec],
                 reverse=False, combined=False, update=None, test=False, points=pts, regular=False)
        c.update(extra)
        return c
    yield mk(dict(name="default", gw=False, parameters=params, kwargs={"detect_edges": True}), "detect-without-inversion")
    yield mk(dict(name="scale", gw=False, parameters=params, kwargs={}), "scale-missing")
    yield mk(dict(name="scale", gw=False, parameters=params, kwargs={"scale": 0}), "scale-zero")
    yield mk(dict(name="scaleandshift", gw=False, parameters=params, kwargs={"scale": 2.0, "shift": 0}), "shift-zero")
    yield mk(dict(name="scale", gw=False, parameters=params, kwargs={"scale": -2.0, "shift": 1.0}), "scale-negative")
    yield mk(dict(name="default", gw=False, parameters=params, kwargs={"rescale_bounds": [1.0, -1.0], "prior": "uniform"}),
             "rescale-bounds-reversed")
    yield mk(dict(name="default", gw=False, parameters=params,
                  kwargs={"pre_rescaling": ["affine", -1.0, 0.0], "offset": True}), "decreasing-pre-rescaling")
    yield mk(dict(name="default", gw=False, parameters=params, kwargs={"prior": "uniform"}), "update-with-constant-data",
             update=[[0.5], [0.5]])
    for _ in range(ctx.scale(40, 300)):
        name, gw = rng.choice(RTB_NAMES[:8])
        kw = rtb_kwargs(rng, params, name)
        kw["rescale_bounds"] = rng.choice([[1.0, -1.0], [2.0, 0.0], [0.0, -3.0]])
        bb = {"p0": bounds_for(rng)}
        c = make_case(rng, [dict(name=name, gw=gw, parameters=params, kwargs=kw)], bb, params,
                      "malformed:rescale-bounds-reversed", "malformed")
        c["regular"] = False
        yield c


def corpus_cases():
    d = Path(__file__).resolve().parent.parent / "corpus" / "C07"
    if not d.exists():
        return
    for f in sorted(d.glob("*.json")):
        obj = json.loads(f.read_text())
        if obj.get("layer") == "exact":
            yield obj
