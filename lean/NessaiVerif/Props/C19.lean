import NessaiVerif.Model.Encode
import NessaiVerif.Gen.Encode
import NessaiVerif.Proofs.Encode
import NessaiVerif.Proofs.EncodeH5
/-
C19 — saved results read back equal to the in-memory results.
Property theorems only.  `jsonChain`, `jsonFallback`, `h5Sentinel`, `extTable` are GENERATED from
nessai/utils/io.py and nessai/flowsampler.py on every run (Gen/Encode.lean), so every theorem below is
re-proved against the dispatch the source has now.  The json text layer, `ndarray.tolist`, `str(obj)` and the
h5py container are external: they are modelled (Model/Encode.lean, Model/EncodeLeaf.lean) and assumed.
-/
namespace NessaiVerif.C19
open NessaiVerif.Encode NessaiVerif.Gen.Encode

/-- The generated `NessaiJSONEncoder.default` chain dispatches as documented: numpy integers → `int`,
numpy floats → `float`, arrays → `tolist()`, every other non-native object (incl. `np.bool_`) → `str(obj)`. -/
theorem dispatch_spec : DispatchSpec jsonChain jsonFallback :=
  ⟨by decide, by decide, by decide, by decide, by decide⟩

/-- **JSON round trip.**  For every value tree whose dictionary keys the json module accepts, writing with
`save_to_json` never raises and `json.load` returns the documented canonical form, which consists of native
JSON values only: arrays → nested lists, numpy scalars → numbers (bit pattern kept, so NaN/±inf survive),
tuples → lists, other objects → their `str`. -/
theorem json_roundtrip (t : Tree) (h : KeysOk t) :
    jsonEncode jsonChain jsonFallback t = .ok (canon t) ∧ IsJson (canon t) :=
  ⟨jsonEncode_eq_canon dispatch_spec t h, canon_isJson t h⟩

example : KeysOk (.dict [(.str "history", .dict [(.str "logZ", .list [.npFloat .f64 0x7ff8000000000000 none, .none])]),
    (.int 3, .ndarray .float [1, 2] [.float 0, .float 0x7ff0000000000000]), (.str "cls", .opaque "<class 'A'>")]) := by
  simp [KeysOk, KeysOkKvs, KeysOkList]

/-- The hypothesis of `json_roundtrip` is needed: a key such as `np.int64(1)` or a tuple makes `json.dump`
raise TypeError (no file content is produced). -/
theorem json_bad_key_fails_without :
    jsonEncode jsonChain jsonFallback (.dict [(.bad, .int 1)]) = .error .type := by rfl

/-- A dictionary that already consists of native JSON values (None, bool, int, float incl. NaN/±inf, str,
lists, string-keyed dicts) reads back identical — value by value, in order. -/
theorem json_plain_identity (t : Tree) (h : IsJson t) : jsonEncode jsonChain jsonFallback t = .ok t := by
  have := jsonEncode_eq_canon dispatch_spec t (keysOk_of_isJson t h)
  rwa [canon_of_isJson t h] at this

example : IsJson (.dict [(.str "a", .list [.float 0x7ff8000000000000, .none, .int (-3)]), (.str "b", .dict [])]) := by
  simp [IsJson, IsJsonKvs, IsJsonList]

/-- Saving what was read back gives the same file again (the canonical form is a fixed point). -/
theorem json_canon_idempotent (t : Tree) (h : KeysOk t) : canon (canon t) = canon t :=
  canon_of_isJson _ (canon_isJson t h)

/-- numpy integer and floating scalars read back as the Python number with the same value: the integer itself,
and the binary64 pattern of `float(x)` (any pattern: NaN, +inf, −inf, −0.0 included). -/
theorem json_scalars_numbers (i : Int) (k : FKind) (bits : Nat) (e : Option String) :
    jsonEncode jsonChain jsonFallback (.npInt i) = .ok (.int i) ∧
    jsonEncode jsonChain jsonFallback (.npFloat k bits e) = .ok (.float bits) :=
  ⟨jsonEncode_eq_canon dispatch_spec _ (by simp [KeysOk]), jsonEncode_eq_canon dispatch_spec _ (by simp [KeysOk])⟩

/-- An array of any shape reads back as nested lists whose leaves are exactly the array's elements in C order:
nothing lost, duplicated or reordered (for elements that are native scalars, as `tolist` produces them). -/
theorem json_array_values_preserved (dt : DT) (shape : List Nat) (flat : List Tree)
    (hflat : ∀ x ∈ flat, IsJson x ∧ IsLeaf x) (hlen : flat.length = prod shape) :
    ∃ j, jsonEncode jsonChain jsonFallback (.ndarray dt shape flat) = .ok j ∧ leaves j = flat := by
  have hj : IsJsonList flat := (isJsonList_iff flat).2 (fun x hx => (hflat x hx).1)
  have hk : KeysOk (.ndarray dt shape flat) := by
    simpa [KeysOk] using keysOkList_of_isJson flat hj
  refine ⟨_, jsonEncode_eq_canon dispatch_spec _ hk, ?_⟩
  simp only [canon, canonList_of_isJson flat hj]
  exact leaves_nest shape flat (fun x hx => (hflat x hx).2) hlen

example : (∀ x ∈ [Tree.float 1, .float 2, .float 3, .float 4, .float 5, .float 6], IsJson x ∧ IsLeaf x) ∧
    [Tree.float 1, .float 2, .float 3, .float 4, .float 5, .float 6].length = prod [3, 2] := by
  simp [IsJson, IsLeaf, prod]

/-- **Partial** (a finding, stated as a theorem): structured arrays other than `posterior_samples` are written
as bare rows, so two arrays that differ only in their field names produce the same JSON file — the names of
`nested_samples` / `samples` / `training_samples` cannot be recovered from a JSON result. -/
theorem json_structured_forgets_names_partial (n1 n2 : List String) (nrows : Nat) (cells : List Tree)
    (h : n1.length = n2.length) :
    jsonEncode jsonChain jsonFallback (.structured n1 nrows cells) =
    jsonEncode jsonChain jsonFallback (.structured n2 nrows cells) := by
  simp [jsonEncode, h]

example : ["x", "logL"].length = ["y", "logP"].length := rfl

/-- **Partial** (a finding): a `np.bool_` is neither `np.integer` nor `np.floating`, so it falls through to
`str(obj)` and reads back as the string "True"/"False", not as a boolean. -/
theorem json_npbool_becomes_string_partial (b : Bool) :
    jsonEncode jsonChain jsonFallback (.npBool b) = .ok (.str (pyBoolStr b)) :=
  jsonEncode_eq_canon dispatch_spec _ (by simp [KeysOk])

/-- **Configuration file.**  For every dictionary of keyword arguments with string keys — values may be
classes, pools, callbacks (opaque), numpy values, nested containers — `save_kwargs` writes a file that the
standard JSON reader reads, and it holds the three keys `save_kwargs` adds. -/
theorem save_kwargs_readable (kwargs : List (Key × Tree)) (eps dtype ins : Tree)
    (hk : KeysOkKvs kwargs) (he : KeysOk eps) (hd : KeysOk dtype) (hi : KeysOk ins) :
    ∃ j, saveKwargs jsonChain jsonFallback (kwargsExtraKeys.zip [eps, dtype, ins]) kwargs = .ok j ∧ IsJson j := by
  have hx : ∀ e ∈ kwargsExtraKeys.zip [eps, dtype, ins], KeysOk e.2 := by
    intro e hmem
    have : e.2 ∈ [eps, dtype, ins] := (List.of_mem_zip hmem).2
    simp only [List.mem_cons, List.mem_nil_iff, or_false] at this
    rcases this with h | h | h <;> simp [h, he, hd, hi]
  have hok : KeysOk (.dict ((kwargsExtraKeys.zip [eps, dtype, ins]).foldl
      (fun d e => upsert (.str e.1) e.2 d) kwargs)) := by
    simpa [KeysOk] using keysOkKvs_extras _ kwargs hx hk
  exact ⟨_, jsonEncode_eq_canon dispatch_spec _ hok, canon_isJson _ hok⟩

example : KeysOkKvs [(.str "pool", .opaque "<multiprocessing.pool.Pool state=RUN pool_size=2>"),
    (.str "flow_config", .dict [(.str "model_config", .dict [(.str "ftype", .opaque "<class 'F'>")])]),
    (.str "nlive", .npInt 100)] := by
  simp [KeysOkKvs, KeysOk]

/-- **HDF5 round trip.**  For every nested dictionary whose keys are distinct strings that are single path
segments (non-empty, no '/', not "."), with no empty sub-dictionary and no genuine string equal to the
sentinel, `save_dict_to_hdf5` followed by reading groups as dictionaries and datasets as values (sentinel →
None) gives back the same dictionary: same keys at every level, same value at every leaf, None preserved.
(Leaf values are as h5py stores them; the container is modelled, see the header.) -/
theorem hdf5_roundtrip (kvs : List (Key × Tree)) (h : H5SafeKvs h5Sentinel kvs) :
    h5RoundTrip h5Sentinel kvs = .ok (.dict kvs) :=
  h5RoundTrip_safe h5Sentinel kvs h

example : H5SafeKvs h5Sentinel [(.str "log_evidence", .npFloat .f64 0 none), (.str "bootstrap_log_evidence", .none),
    (.str "history", .dict [(.str "logZ", .list [.float 1]), (.str "stopping_criteria", .dict [(.str "ratio", .list [])])])] := by
  simp [H5SafeKvs, H5Safe, keysOf]
  decide

/-- The syntactic condition that makes a key a single path segment. -/
theorem key_single_segment (k : String) (h1 : '/' ∉ k.toList) (h2 : k ≠ "") (h3 : k ≠ ".") : segs k = [k] :=
  segs_single k h1 h2 h3

example : '/' ∉ "log_evidence".toList ∧ "log_evidence" ≠ "" ∧ "log_evidence" ≠ "." := by decide

/-- `None` entries survive at any depth: written as the sentinel string, read back as `None`. -/
theorem none_roundtrip (k1 k2 : String) (h1 : segs k1 = [k1]) (h2 : segs k2 = [k2]) (hk : k1 ≠ k2) :
    h5RoundTrip h5Sentinel [(.str k1, .none), (.str k2, .dict [(.str k1, .none)])] =
      .ok (.dict [(.str k1, .none), (.str k2, .dict [(.str k1, .none)])]) := by
  apply hdf5_roundtrip
  simp [H5SafeKvs, H5Safe, keysOf, h1, h2, hk]

example : segs "bootstrap_log_evidence" = ["bootstrap_log_evidence"] ∧ segs "b" = ["b"] ∧ "bootstrap_log_evidence" ≠ "b" := by decide

/-- `hdf5_roundtrip` needs "no genuine string equals the sentinel": the string "__none__" reads back as None. -/
theorem sentinel_string_fails_without :
    h5RoundTrip h5Sentinel [(.str "a", .str h5Sentinel)] = .ok (.dict [(.str "a", .none)]) := by rfl

/-- `hdf5_roundtrip` needs "no empty sub-dictionary": an empty dict writes nothing, its key is lost. -/
theorem empty_dict_fails_without :
    h5RoundTrip h5Sentinel [(.str "a", .dict []), (.str "b", .int 1)] = .ok (.dict [(.str "b", .int 1)]) := by rfl

/-- `hdf5_roundtrip` needs slash-free keys: a key "a/b" comes back as a nested dictionary … -/
theorem slash_key_fails_without :
    h5RoundTrip h5Sentinel [(.str "a/b", .int 1)] = .ok (.dict [(.str "a", .dict [(.str "b", .int 1)])]) := by rfl

/-- … two different dictionaries produce the same file, and together with the nested spelling the write fails
(`OSError: name already exists`). -/
theorem slash_key_collides :
    h5RoundTrip h5Sentinel [(.str "a/b", .int 1)] = h5RoundTrip h5Sentinel [(.str "a", .dict [(.str "b", .int 1)])] ∧
    h5RoundTrip h5Sentinel [(.str "a/b", .int 1), (.str "a", .dict [(.str "b", .int 2)])] = .error .os := by
  constructor <;> rfl

/-- a key that is not a str makes the HDF5 writer raise TypeError (`path + key`) -/
theorem hdf5_nonstr_key_fails_without (i : Int) (v : Tree) (rest : List (Key × Tree)) :
    h5RoundTrip h5Sentinel ((.int i, v) :: rest) = .error .type := by
  simp [h5RoundTrip, h5Write, flattenKvs]

/-- **Extension handling.**  All three spellings select the documented writer, whether given through
`extension=` (appended to a bare file name) or taken from the file name. -/
theorem extension_cases :
    saveTarget extTable "" (some "json") = .ok (.json, true) ∧
    saveTarget extTable "" (some "hdf5") = .ok (.hdf5, true) ∧
    saveTarget extTable "" (some "h5") = .ok (.hdf5, true) ∧
    saveTarget extTable "json" none = .ok (.json, false) ∧
    saveTarget extTable "hdf5" none = .ok (.hdf5, false) ∧
    saveTarget extTable "h5" none = .ok (.hdf5, false) ∧
    saveTarget extTable "" none = .error .runtime :=
  ⟨rfl, rfl, rfl, rfl, rfl, rfl, rfl⟩

/-- Any other extension is rejected with RuntimeError, never silently written in some format. -/
theorem unknown_extension_rejected (e fe : String) (h : e ∉ ["json", "hdf5", "h5"]) :
    saveTarget extTable fe (some e) = .error .runtime := by
  simp only [List.mem_cons, List.mem_nil_iff, or_false, not_or] at h
  simp [saveTarget, resolveExt, extTable, formatOf, h.1, h.2.1, h.2.2]

example : "txt" ∉ ["json", "hdf5", "h5"] := by decide

end NessaiVerif.C19
