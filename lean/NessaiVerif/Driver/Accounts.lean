import NessaiVerif.Driver.Parse
import NessaiVerif.Model.Accounts
import NessaiVerif.Model.AccountsTables
import NessaiVerif.Gen.Accounts
/-
Line protocol of the accounts area (C12).

`acc run <resetStart 0/1> <rearmOnResume 0/1> <freshModel 0/1> <op;op;…>`
    ops: `L` resume (process start), `E` loop entry, `R:e:t:lt` run, `C` checkpoint, `K` kill, `D:d` down
    → one record per op, joined by `|`:
      `alive,mEvals,mLtime,stime,current,file(evals:ltime:stime:start | -),retE,retT,retL,comE,comT,comL`
`acc excluded <Class>` / `acc overrides <Class>` / `acc parts <Class>` / `acc dropped <Class>`  → tables of the `__getstate__` in force
`acc dropped/touched …`, `acc resets <Class>` → 0/1/none, `acc rearm` → 0/1 (does the resume re-arm the start?)
-/
namespace NessaiVerif.Driver.Accounts
open NessaiVerif NessaiVerif.Parse NessaiVerif.Accounts NessaiVerif.AccountsTables

def parseOp? (s : String) : Option Op :=
  match s.splitOn ":" with
  | ["L"] => some .resume
  | ["E"] => some .enterLoop
  | ["C"] => some .checkpoint
  | ["K"] => some .kill
  | ["D", d] => d.toNat?.map .down
  | ["R", e, t, lt] => do
      let e ← e.toNat?
      let t ← t.toNat?
      let lt ← lt.toNat?
      some (.run e t lt)
  | _ => none

def showState (s : St) (l : Log) : String :=
  let f := match s.file with
    | none => "-"
    | some sv => s!"{sv.evals}:{sv.ltime}:{sv.stime}:{sv.start}"
  s!"{showBool s.alive},{s.mEvals},{s.mLtime},{s.stime},{s.current},{f}," ++
  s!"{sumE l.retained},{sumT l.retained},{sumL l.retained},{sumE l.committed},{sumT l.committed},{sumL l.committed}"

def runAll (c : Cfg) (ops : List Op) : List String :=
  let rec go (s : St) (l : Log) : List Op → List String
    | [] => []
    | op :: rest =>
      let s' := step c s op
      let l' := logStep l op
      showState s' l' :: go s' l' rest
  go {} {} ops

def handle (toks : List String) : String :=
  match toks with
  | ["run", r, a, f, ops] =>
    match parseBool? r, parseBool? a, parseBool? f, (ops.splitOn ";").mapM parseOp? with
    | some r, some a, some f, some ops => "|".intercalate (runAll ⟨r, a, f⟩ ops)
    | _, _, _, _ => "bad-op"
  | ["rearm"] => showBool Gen.Accounts.resumeRearmsStart
  | ["touched", c, f] => showBool (touched Gen.Accounts.tables Gen.Accounts.sites c f)
  | ["excluded", c] =>
    match getstateOwner Gen.Accounts.tables c with
    | some t => t.name ++ " " ++ showList id t.excluded
    | none => "none"
  | ["overrides", c] =>
    match getstateOwner Gen.Accounts.tables c with
    | some t => t.name ++ " " ++ showList id (t.overrides.map (·.1)).eraseDups
    | none => "none"
  | ["parts", c] =>
    match getstateOwner Gen.Accounts.tables c with
    | some t => t.name ++ " " ++ showList id t.tupleParts
    | none => "none"
  | ["dropped", c] => showList id (droppedOf Gen.Accounts.tables c)
  | ["resets", c] => showOpt showBool (Gen.Accounts.loopResetsStart.lookup c)
  | _ => "bad-op"

end NessaiVerif.Driver.Accounts
