import NessaiVerif.Proofs.Results
import NessaiVerif.Proofs.Quadrature
/-
C05 — bridge between the bookkeeping model (Model/Results.lean) and the quadrature model (C02,
Model/Quadrature.lean): the integral state that saw the recorded `increment` calls reports the documented
quadrature of the returned likelihoods.
-/
namespace NessaiVerif.Results
open NessaiVerif.Quad

variable {K : Type} [LinearOrder K] {F : Type} [Field F]

theorem evidence_of_spec (shrink : Nat → F) (lin : K → F) (n : Nat) (hn : 1 ≤ n) (r : NS K) (sp : ResultSpec n r) :
    let st := (St.init n : St F).incrMany shrink (r.calls.map fun c => (lin c.1, c.2))
    let Ls := r.nested.map fun p => lin p.logL
    (r.finalised = true →
      computeWeights shrink Ls (.int n) = .ok (st.finalise, st.postW) ∧
      st.finalise = evidence Ls ((scheduleIncr r.iteration n).map shrink) ∧
      st.postW = weights Ls ((scheduleIncr r.iteration n).map shrink)) ∧
    (r.finalised = false →
      st.Z = rectOnePass Ls (vols ((List.replicate r.iteration n).map shrink)) ∧
      st.postW = weights Ls ((List.replicate r.iteration n).map shrink)) := by
  have hc := state_closed shrink n (r.calls.map fun c => (lin c.1, c.2))
  have hls : (r.calls.map fun c => ((lin c.1, c.2) : F × Option Nat)).map (·.1) = r.nested.map fun p => lin p.logL := by
    have := congrArg (List.map lin) sp.callsL
    simpa [List.map_map, Function.comp_def] using this
  have hres : resolved n (r.calls.map fun c => ((lin c.1, c.2) : F × Option Nat)) = r.nliveSeen := by
    simp [resolved, NS.nliveSeen, sp.nlive, Function.comp_def]
  simp only [hls, hres] at hc
  obtain ⟨h1, h2, _, h4, _, _⟩ := hc
  constructor
  · intro hfin
    have hN := sp.callsN
    rw [hfin] at hN
    simp only [↓reduceIte] at hN
    rw [hN] at h1 h2
    refine ⟨?_, h1, h2⟩
    rw [h1, h2]
    have hlen : (r.nested.map fun p => lin p.logL).length = r.iteration + n := by
      rw [List.length_map, sp.count, hfin]; simp
    have hne : (r.nested.map fun p => lin p.logL) ≠ [] := by
      intro e; rw [e] at hlen; simp at hlen; omega
    obtain ⟨last, hlast⟩ : ∃ last, (r.nested.map fun p => lin p.logL).getLast? = some last := by
      cases hq : (r.nested.map fun p => lin p.logL).getLast? with
      | none => exact absurd (List.getLast?_eq_none_iff.mp hq) hne
      | some x => exact ⟨x, rfl⟩
    have hD : (r.nested.map fun p => lin p.logL).getLastD 0 = last := by
      rw [List.getLastD_eq_getLast?, hlast]; rfl
    have hsched : scheduleOnePass (r.nested.map fun p => lin p.logL).length n = .ok (scheduleIncr r.iteration n) := by
      rw [hlen, scheduleOnePass_of_le _ _ hn (by omega)]
      simp [scheduleIncr]
    unfold computeWeights
    simp only [hsched, hlast]
    simp only [evidence, weights, closedL, closedX, vols, volsFrom, hD]
    rfl
  · intro hfin
    have hN := sp.callsN
    rw [hfin] at hN
    simp only [Bool.false_eq_true, ↓reduceIte] at hN
    rw [hN] at h2 h4
    exact ⟨h4, h2⟩

end NessaiVerif.Results
