"""C12 — resuming restores the checkpointed state and yields a valid, accounted run."""
import collections
import datetime
import hashlib
import os
import pickle
import re
import shutil
import tempfile
import time
import types
from unittest import mock

import numpy as np

from . import core
from . import c12_tx

PROPS_MODULE = "NessaiVerif.Props.C12"
MANIFEST = dict(
    text="PARTIAL: the property's clauses 'the restored sampler has the SAME VALUES as the one that wrote the checkpoint' and 'a run "
         "killed and resumed any number of times completes with a valid result' are established by the harness only (real round "
         "trips and kill/resume chains); what is proved is (a) table facts about the current sources and (b) the accounting model. "
         "(a) Tables regenerated from the nessai sources on every run (python ast -> Gen/Accounts.lean): for every class of the "
         "pickling chain (samplers, OrderedSamples, proposals, flow models, evidence states) the __getstate__ exclusion sets, "
         "explicit overrides and tuple parts, __setstate__, the attribute universe, and the attribute assignments / calls / `+=` "
         "updates of the resume path (incl. the pre-loop update_state). Lean theorems decided over these tables: every attribute in "
         "the property's list (iteration, live and discarded points, evidence state, insertion indices, history, pool, training "
         "counters, reparameterisation state, sample counts, proposal weights, density tables, flows, model) exists and is either "
         "dropped by __getstate__ AND assigned again by the resume path (any assignment counts; values are checked by the tie), or "
         "carried by the pickle AND not assigned by the resume path except for an explicit, exactness-checked list of 12 "
         "overwritten attributes; everything any __getstate__ drops is re-assigned; tuple parts are re-attached in order; no class "
         "outside the chain customises pickling; the likelihood counters cross the pickle as `_previous_*` and are ADDED to the "
         "fresh model; both sampling loops re-arm sampling_start_time while the resume itself does not; no local of a resume-path "
         "function can be unbound; the C01/C13/C02 run state is pickled and untouched (table fact) and therefore returned unchanged "
         "by resume∘checkpoint UNDER THE ASSUMPTION that pickle is faithful (state modelled as an attribute->value list; the "
         "assumption is observed by the round-trip tie, not proved). (b) Lean theorems, by induction over EVERY history of "
         "resume / loop entry / run / checkpoint / kill / down-time, about a model of the counters as the code keeps them (counter "
         "restarts at 0 in a fresh process and is re-seeded with += from the pickle; sampling_time += now - start at each "
         "checkpoint; the pickle carries the OLD start; the start is re-armed at the loop entry, not at the resume): evaluations "
         "and likelihood time equal the sums over the retained steps of a commit log (never double counted: sub-list of the "
         "performed steps; never reset: all of them without a kill); sampling time equals the retained in-loop ticks PROVIDED every "
         "checkpoint is written inside the loop; resume is idempotent on the accounts; with proved counter-examples for a reused "
         "model object, a loop that does not re-arm the start, and a checkpoint between the resume and the loop entry (signal "
         "handler: adds the last segment again plus the down-time — known finding, reproduced on the real code). "
         "Tie: the tables are compared with the real __getstate__ output of live objects; field-by-field digests of the writing "
         "sampler at every checkpoint of real runs (standard sampler with neural flows; importance sampler with exactly-known and "
         "with neural flows, with/without saved density tables; iteration-, time- and training-triggered checkpoints) against the "
         "sampler obtained through FlowSampler(resume=True / resume_data=) with a fresh model; kill/resume chains under a logical "
         "clock (kills raised inside chosen likelihood calls, optional handler checkpoint before the loop entry) whose every "
         "checkpoint, launch and final result is compared exactly with the Lean model and with an independent commit-log oracle; "
         "every consume_sample of every launch of the standard chains (recorded with harness.c01's wrappers across kills and "
         "resumes) is replayed through the C01 Lean model, whose live set must chain from step to step and equal the restored live "
         "set at every resume point; the importance-sampler stores are checked after every resume and at the end against the C04 "
         "predicates and the C03 bookkeeping; thousands of random histories through the real BaseNestedSampler.checkpoint / "
         "__getstate__ / resume_from_pickled_sampler code against the Lean model.",
    note="Pickle/torch.save fidelity is observed, not proved. The logical clock ticks once per likelihood call, once per iteration and "
         "three times per training inside the sampling loop (wall-clock is never compared). Optimiser state, cached latent-prior "
         "samplers and batch size are not in the property's list and are not restored by nessai (recorded in the evidence). The "
         "active-proposal pointer is compared as 'the proposal the next draw comes from'. In-place mutations by callees of the resume "
         "path are not table sites. The C05 result-consistency model is not replayed on the chains. Known findings: repeated history "
         "entry after a standard resume, checkpoint_on_training checkpoints written mid-iteration, handler checkpoint between resume "
         "and loop entry counts the down-time. (Fixed in /repo and required by the oracle: importance-sampler sampling_time after a "
         "resume, FlowProposal.resume with a NumPy mask / AugmentedFlowProposal.)",
    technique="Lean 4 proof (decide over source-generated tables; induction over histories) + ast translator + real checkpoint/resume round trips and kill chains",
    ref="5/C12")

EPOCH = datetime.datetime(2026, 1, 1)


# ----------------------------------------------------------------------------------------------------
# logical clock, kill signal, recorder
# ----------------------------------------------------------------------------------------------------
class Kill(BaseException):
    """simulated SIGKILL: raised inside a likelihood call, never caught by nessai"""


class _Clock:
    t = 0
    tick = False
    on_enter = None      # called when nested_sampling_loop is entered
    unit = 1             # seconds per tick (an exact binary fraction).  Integer seconds hide anything that keeps only a PART
    #                      of a duration (whole seconds, seconds without days): 1.5 s exercises the sub-second part, 40000.5 s
    #                      reaches days after three ticks (seeded change C12-gB: `timedelta.seconds` instead of total_seconds())


CLOCK = _Clock()


class FakeDT(datetime.datetime):
    """datetime whose now() reads the logical clock (seconds = ticks)"""

    @classmethod
    def now(cls, tz=None):
        return cls(2026, 1, 1) + datetime.timedelta(seconds=CLOCK.t * CLOCK.unit)


def _ticks(x):
    """timedelta / datetime / number -> integer ticks"""
    if isinstance(x, datetime.timedelta):
        s = x.total_seconds()
    elif isinstance(x, datetime.datetime):
        s = (x - EPOCH).total_seconds()
    else:
        s = float(x)
    s = s / CLOCK.unit
    if s != int(s):
        return s
    return int(s)


class LogicalTime:
    """patch the modules that keep the accounts so that they read the logical clock; tick only inside the sampling loop"""

    MODULES = ("nessai.samplers.base", "nessai.samplers.nestedsampler", "nessai.samplers.importancesampler", "nessai.model")

    def __init__(self, unit=1):
        self.unit = unit

    def __enter__(self):
        import importlib
        from nessai.samplers.nestedsampler import NestedSampler
        from nessai.samplers.importancesampler import ImportanceNestedSampler
        shim = types.SimpleNamespace(datetime=FakeDT, timedelta=datetime.timedelta)
        self.patches = [mock.patch.object(importlib.import_module(m), "datetime", shim) for m in self.MODULES]

        def wrap(cls):
            orig = cls.nested_sampling_loop

            def loop(self_, *a, **k):
                if CLOCK.on_enter is not None:
                    CLOCK.on_enter()
                CLOCK.tick = True
                try:
                    return orig(self_, *a, **k)
                finally:
                    CLOCK.tick = False
            return mock.patch.object(cls, "nested_sampling_loop", loop)
        self.patches += [wrap(NestedSampler), wrap(ImportanceNestedSampler)]

        def ticking(cls, name, amount):
            orig = getattr(cls, name)

            def f(self_, *a, **k):
                if CLOCK.tick:
                    CLOCK.t += amount     # time also passes outside the likelihood: per iteration, per training
                return orig(self_, *a, **k)
            return mock.patch.object(cls, name, f)
        self.patches += [ticking(NestedSampler, "consume_sample", 1), ticking(ImportanceNestedSampler, "update_evidence", 1),
                         ticking(NestedSampler, "train_proposal", 3)]
        for p in self.patches:
            p.start()
        CLOCK.t, CLOCK.tick, CLOCK.on_enter = 0, False, None
        CLOCK.unit = self.unit
        return self

    def __exit__(self, *a):
        for p in self.patches:
            p.stop()
        CLOCK.tick, CLOCK.on_enter = False, None
        CLOCK.unit = 1


class Recorder:
    """independent record of what the processes of one chain did (ops of Model/Accounts.lean)"""

    def __init__(self):
        self.ops, self.obs = [], []          # obs: (op index, kind, real counters)
        self.count = False
        self.calls = 0
        self.kill_at = None
        self.pe = self.plt = 0
        self.last_clock = 0
        self.on_write = None
        self.mid_ops = set()

    def flush(self):
        dt = CLOCK.t - self.last_clock
        if self.pe or self.plt or dt:
            self.ops.append(f"R:{self.pe}:{dt}:{self.plt}")
        self.pe = self.plt = 0
        self.last_clock = CLOCK.t

    def launch(self, kill_at):
        self.ops.append("L")
        self.calls, self.kill_at, self.count = 0, kill_at, False
        self.last_clock = CLOCK.t
        CLOCK.on_enter = self.enter_loop

    def enter_loop(self):
        self.flush()
        self.ops.append("E")

    def on_call(self):
        if not self.count:
            return
        self.calls += 1
        if CLOCK.tick:
            CLOCK.t += 1
        if self.kill_at is not None and self.calls == self.kill_at:
            raise Kill()

    def observe(self, kind, sampler):
        m = sampler.model
        self.obs.append((len(self.ops) - 1, kind, dict(
            evals=int(m.likelihood_evaluations), ltime=_ticks(m.likelihood_evaluation_time),
            stime=_ticks(sampler.sampling_time), iteration=int(sampler.iteration))))

    def checkpoint(self, sampler, filename):
        self.flush()
        self.ops.append("C")
        self.observe("checkpoint", sampler)
        if self.on_write:
            self.on_write(sampler, filename)

    def killed(self, down):
        self.flush()
        self.ops.append("K")
        self.count = False
        if down:
            CLOCK.t += down
        self.ops.append(f"D:{down}")
        self.last_clock = CLOCK.t


def instrument(model, rec):
    """subclass the model in place: likelihood calls tick the clock / may kill; evaluations are counted independently"""
    base = type(model)

    class Instrumented(base):
        def log_likelihood(self, x):
            rec.on_call()
            return base.log_likelihood(self, x)

        def evaluate_log_likelihood(self, x):
            if rec.count:
                rec.pe += int(x.size)
            return base.evaluate_log_likelihood(self, x)

        def batch_evaluate_log_likelihood(self, x, unit_hypercube=False):
            t0 = CLOCK.t
            out = base.batch_evaluate_log_likelihood(self, x, unit_hypercube=unit_hypercube)
            if rec.count:
                rec.pe += int(x.size)
                rec.plt += CLOCK.t - t0
            return out

    Instrumented.__name__ = base.__name__
    model.__class__ = Instrumented
    return model


def inside_consume_sample():
    """is the checkpoint being written from inside NestedSampler.consume_sample (i.e. in the middle of an iteration)?"""
    import sys
    f = sys._getframe(1)
    while f is not None:
        if f.f_code.co_name == "consume_sample" and f.f_code.co_filename.endswith("nestedsampler.py"):
            return True
        f = f.f_back
    return False


MID_KEY = "NestedSampler.train_proposal:checkpoint_on_training:checkpoint-inside-consume_sample"


class DumpHook:
    """wrap nessai.samplers.base.safe_file_dump: every completed checkpoint write is reported"""

    def __init__(self, fn):
        self.fn = fn

    def __enter__(self):
        import nessai.samplers.base as sb
        orig = sb.safe_file_dump
        hook = self.fn

        def dump(obj, filename, *a, **k):
            pre = hook(obj, filename, "before")
            orig(obj, filename, *a, **k)
            hook(obj, filename, "after", pre)
        self.p = mock.patch.object(sb, "safe_file_dump", dump)
        self.p.start()
        return self

    def __exit__(self, *a):
        self.p.stop()


# ----------------------------------------------------------------------------------------------------
# canonical digests
# ----------------------------------------------------------------------------------------------------
def canon(v, depth=0, seen=None):
    import torch
    seen = seen if seen is not None else set()
    if depth > 14:
        return "<deep>"
    if v is None or isinstance(v, (bool, int, str)):
        return v
    if isinstance(v, float):
        return v.hex()
    if isinstance(v, np.ndarray):
        return ["nd", str(v.dtype), list(v.shape), hashlib.sha1(np.ascontiguousarray(v).tobytes()).hexdigest()[:16]]
    if isinstance(v, np.generic):
        return ["np", str(v.dtype), hashlib.sha1(v.tobytes()).hexdigest()[:16]]
    if isinstance(v, torch.Tensor):
        return canon(v.detach().cpu().numpy(), depth + 1, seen)
    if isinstance(v, datetime.timedelta):
        return ["td", v.total_seconds().hex()]
    if isinstance(v, datetime.datetime):
        return ["dt", v.isoformat()]
    if isinstance(v, torch.nn.Module):
        return ["module", type(v).__name__, {k: canon(t, depth + 1, seen) for k, t in v.state_dict().items()}]
    if isinstance(v, (list, tuple, collections.deque)):
        return [canon(x, depth + 1, seen) for x in v]
    if isinstance(v, (set, frozenset)):
        return sorted(repr(canon(x, depth + 1, seen)) for x in v)
    if isinstance(v, dict):
        return {repr(k): canon(x, depth + 1, seen) for k, x in sorted(v.items(), key=lambda kv: repr(kv[0]))}
    if isinstance(v, type):
        return ["class", v.__name__]
    if id(v) in seen:
        return ["cycle", type(v).__name__]
    if callable(v) and not isinstance(v, torch.nn.Module):
        f = getattr(v, "__func__", v)
        return ["fn", getattr(f, "__qualname__", type(v).__name__)]
    if hasattr(v, "__dict__"):
        seen = seen | {id(v)}
        return ["obj", type(v).__name__,
                {k: canon(x, depth + 1, seen) for k, x in sorted(vars(v).items()) if k not in ("model", "_optimiser")}]
    return ["repr", repr(v)[:80]]


def diff(a, b, path=""):
    if type(a) is not type(b):
        return [(path, str(a)[:80], str(b)[:80])]
    if isinstance(a, dict):
        out = []
        for k in sorted(set(a) | set(b)):
            if k not in a:
                out.append((path + "/" + k, "<absent>", str(b[k])[:80]))
            elif k not in b:
                out.append((path + "/" + k, str(a[k])[:80], "<absent>"))
            else:
                out += diff(a[k], b[k], path + "/" + k)
        return out
    if isinstance(a, list):
        if len(a) != len(b):
            return [(path, f"len {len(a)}", f"len {len(b)}")]
        out = []
        for i, (x, y) in enumerate(zip(a, b)):
            out += diff(x, y, f"{path}[{i}]")
        return out
    return [] if a == b else [(path, str(a)[:80], str(b)[:80])]


_RESULT_FIELDS = None


def result_fields():
    """the property's list, read from the Lean text of Props/C12.lean so that harness and theorem use the same names"""
    global _RESULT_FIELDS
    if _RESULT_FIELDS is None:
        text = (core.LEAN / "NessaiVerif" / "Props" / "C12.lean").read_text()
        m = re.search(r"def resultFields[^\n]*:=\s*\[(.*?)\]\n", text, re.S)
        _RESULT_FIELDS = re.findall(r'\("(\w+)",\s*"(\w+)"\)', m.group(1))
    return _RESULT_FIELDS


def objects_of(ns):
    """class name (as in the tables) -> list of (label, object) of a sampler"""
    out = collections.OrderedDict()
    cn = type(ns).__name__
    out[cn] = [("sampler", ns)]
    if cn == "NestedSampler":
        out["_NSIntegralState"] = [("sampler.state", ns.state)]
        out[type(ns._flow_proposal).__name__] = [("sampler._flow_proposal", ns._flow_proposal)]
        out.setdefault(type(ns._uninformed_proposal).__name__, []).append(("sampler._uninformed_proposal", ns._uninformed_proposal))
    else:
        stores = [("sampler.training_samples", ns.training_samples)]
        if ns.iid_samples is not None:
            stores.append(("sampler.iid_samples", ns.iid_samples))
        out["OrderedSamples"] = stores
        out["_INSIntegralState"] = [(l + ".state", o.state) for l, o in stores]
        out["ImportanceFlowProposal"] = [("sampler.proposal", ns.proposal)]
        if getattr(ns.proposal, "flow", None) is not None:
            out["ImportanceFlowModel"] = [("sampler.proposal.flow", ns.proposal.flow)]
    return out


SUBOBJECT_FIELDS = {"_flow_proposal", "_uninformed_proposal", "training_samples", "iid_samples", "state"}


def digest(ns, fresh_model=None):
    """property's list -> canonical values.  Sub-objects are represented by their class (their own fields are listed
    separately); `model` by whether it is attached; `proposal` of the standard sampler by which proposal is active."""
    d = {}
    objs = objects_of(ns)
    for cls, field in result_fields():
        for label, o in objs.get(cls, []):
            key = f"{label}.{field}"
            if not hasattr(o, field) and field not in vars(type(o)):
                d[key] = "<missing>"
                continue
            if field == "model":
                m = getattr(o, "model", None)
                d[key] = "attached" if m is not None and (fresh_model is None or m is fresh_model) else "<not the model handed in>"
                continue
            v = getattr(o, field, "<missing>")
            if cls == "NestedSampler" and field == "proposal":
                # the proposal the next draw comes from: `check_state()` precedes every `consume_sample()` and switches to the
                # flow proposal under exactly this condition (so the pointer itself may lag by one call at the boundary)
                switch = (not ns.uninformed_sampling or ns.iteration >= ns.maximum_uninformed
                          or ns.mean_acceptance < ns.uninformed_acceptance_threshold)
                d[key] = "flow" if (v is ns._flow_proposal or switch) else ("uninformed" if v is ns._uninformed_proposal else "<other>")
            elif field in SUBOBJECT_FIELDS and cls in ("NestedSampler", "ImportanceNestedSampler") or field == "proposal":
                if field == "state":
                    d[key] = canon(v)
                else:
                    d[key] = ["class", type(v).__name__]
            elif field == "flow":
                if cls == "FlowProposal":
                    trained = bool(getattr(o, "training_count", 0)) and getattr(v, "weights_file", None) is not None
                    d[key] = ["flow", type(v).__name__, canon(v.model) if trained and v is not None else "untrained"]
                else:
                    d[key] = ["class", type(v).__name__]
            elif field == "nested_samples" and isinstance(v, list):
                d[key] = canon(np.array(v)) if v else []
            elif field == "log_q":
                d[key] = v       # compared specially
            else:
                d[key] = canon(v)
    return d


def compare_digests(ctx, site, dw, dr, case, save_log_q):
    bad = []
    for k in dw:
        a, b = dw[k], dr.get(k, "<missing>")
        if k.endswith(".log_q"):
            if a is None and b is None:
                continue
            if a is None or b is None or isinstance(b, str) or np.shape(a) != np.shape(b):
                bad.append((k, f"shape {np.shape(a)}", f"shape {np.shape(b) if not isinstance(b, str) else b}"))
            elif save_log_q:
                if not (a.tobytes() == b.tobytes()):
                    bad.append((k, "saved density table", "differs bytewise"))
            else:
                fin = np.isfinite(a) & np.isfinite(b)
                same_inf = np.array_equal(np.isfinite(a), np.isfinite(b)) and np.array_equal(a[~fin], b[~fin])
                if not same_inf or not np.allclose(a[fin], b[fin], rtol=1e-5, atol=1e-5):
                    err = float(np.max(np.abs(a[fin] - b[fin]))) if fin.any() else float("nan")
                    bad.append((k, "re-derived density table", f"max abs error {err}"))
            continue
        for p, x, y in diff(a, b):
            bad.append((k + p, x, y))
    for k, x, y in bad[:6]:
        field = k.split("/")[0].split("[")[0]
        ctx.oracle_fail(f"{site}:{field}", f"restored sampler differs from the one that wrote the checkpoint in {k}: "
                        f"written {x} restored {y}", {**case, "field": k, "written": x, "restored": y})
    return len(bad)


def full_diff_paths(ns_canon_w, ns_canon_r):
    """differences outside the property's list (evidence only)"""
    return sorted({re.sub(r"\[\d+\]", "", p) for p, _, _ in diff(ns_canon_w, ns_canon_r)})


# ----------------------------------------------------------------------------------------------------
# translator
# ----------------------------------------------------------------------------------------------------
def gen(ctx):
    path = core.LEAN / "NessaiVerif" / "Gen" / "Accounts.lean"
    try:
        ex = c12_tx.extract(core.REPO)
        text = c12_tx.render(ex)
    except c12_tx.Unknown as e:
        ctx.broken("translator: " + str(e), "the pickling/resume tables could not be regenerated from " + str(core.REPO))
        ctx._c12_ex = None
        return
    except SyntaxError as e:
        ctx.broken("translator: source does not parse: " + str(e))
        ctx._c12_ex = None
        return
    ctx._c12_ex = ex
    if not path.exists() or path.read_text() != text:
        path.parent.mkdir(exist_ok=True)
        path.write_text(text)
    ctx.extra["translator"] = {
        "output": "lean/NessaiVerif/Gen/Accounts.lean", "sha256": hashlib.sha256(text.encode()).hexdigest(),
        "classes": [t["name"] for t in ex["tables"]], "resume_sites": len(ex["sites"]), "calls": len(ex["calls"]),
        "maybe_unbound_locals": ex["unbound"], "loop_resets_start": ex["resets"]}


def check_tables_against_runtime(ctx, ns, case):
    """the static tables vs what the real __getstate__ of live objects does"""
    n = 0
    for cls, objs in objects_of(ns).items():
        for label, o in objs:
            if not hasattr(type(o), "__getstate__") or type(o).__getstate__ is object.__getstate__:
                own = ctx.model([f"acc excluded {cls}"])[0]
                if own != "none":
                    ctx.disagree("translator: table lists a __getstate__ for a class that has none at run time", {**case, "class": cls})
                continue
            st = o.__getstate__()
            parts = []
            if isinstance(st, tuple):
                st, parts = st[0], list(st[1:])
            d = vars(o)
            dyn_excl = sorted(set(d) - set(st))
            dyn_over = sorted(k for k in st if k not in d or st[k] is not d[k])
            ex_line, ov_line, pa_line = ctx.model([f"acc excluded {cls}", f"acc overrides {cls}", f"acc parts {cls}"])
            if ex_line == "none":
                ctx.disagree("translator: no __getstate__ in the tables for a class that pickles with one", {**case, "class": cls})
                continue
            lst = lambda s: [x for x in s.split(" ", 1)[1][1:-1].split(",") if x]
            s_excl, s_over, s_parts = lst(ex_line), lst(ov_line), lst(pa_line)
            want_excl = sorted(k for k in s_excl if k in d and k not in s_over)
            # a key both excluded and overridden (log_q) is in the state again
            if dyn_excl != want_excl:
                ctx.disagree("translator: exclusion set differs from the keys the real __getstate__ removes",
                             {**case, "object": label, "class": cls, "real": dyn_excl, "table": want_excl})
            if not set(dyn_over) <= set(s_over):
                ctx.disagree("translator: the real __getstate__ overrides keys the table does not list",
                             {**case, "object": label, "class": cls, "real": dyn_over, "table": s_over})
            real_parts = [n if (i < len(parts) and d.get(n, "?") is parts[i]) else "?" for i, n in enumerate(s_parts)]
            if real_parts != s_parts or len(parts) != len(s_parts):
                ctx.disagree("translator: tuple parts differ", {**case, "object": label, "real": real_parts, "table": s_parts})
            n += 1
    return n


# ----------------------------------------------------------------------------------------------------
# models and configurations
# ----------------------------------------------------------------------------------------------------
def make_gauss():
    from nessai.model import Model

    class Gauss(Model):
        def __init__(self):
            self.names = ["x", "y"]
            self.bounds = {"x": [-5.0, 5.0], "y": [-5.0, 5.0]}

        def log_prior(self, x):
            return np.log(self.in_bounds(x), dtype="float") - 2 * np.log(10.0)

        def log_likelihood(self, x):
            return -0.5 * (x["x"] ** 2 + x["y"] ** 2)

    return Gauss()


STD_BASE = dict(nlive=50, plot=False, checkpointing=True, proposal_plots=False, poolsize=100,
                flow_config=dict(n_blocks=2, n_neurons=4), training_config=dict(max_epochs=5, patience=5),
                stopping=0.5, max_iteration=400)
STD_CONFIGS = [
    dict(name="iter7-train-ckpt", vectorised=True, checkpoint_on_iteration=True, checkpoint_interval=7, maximum_uninformed=60,
         training_frequency=40, cooldown=20, checkpoint_on_training=True),
    dict(name="time-analytic", checkpoint_on_iteration=False, checkpoint_interval=5, maximum_uninformed=45,
         training_frequency=50, cooldown=25, analytic_priors=True),
    dict(name="iter5-bounds", checkpoint_on_iteration=True, checkpoint_interval=5, maximum_uninformed=30,
         training_frequency=35, cooldown=15,
         reparameterisations={"x": {"reparameterisation": "rescaletobounds", "update_bounds": True},
                              "y": {"reparameterisation": "rescaletobounds", "update_bounds": True}}),
    dict(name="time-reset", checkpoint_on_iteration=False, checkpoint_interval=3, maximum_uninformed=25,
         training_frequency=30, cooldown=10, reset_weights=2, checkpoint_on_training=True, memory=20),
    # the sampler is stored by a user CALLBACK instead of nessai's own file write (documented option checkpoint_callback):
    # the accounts must be kept exactly as on the default path (seeded change C12-eB: timer re-armed on the file path only)
    dict(name="iter6-callback", checkpoint_on_iteration=True, checkpoint_interval=6, maximum_uninformed=40,
         training_frequency=40, cooldown=20, checkpoint_callback="file"),
    # the whole run from prior-rejection pools (never switches to the flow): every pool a resumed run draws comes from the
    # NumPy stream, which must CONTINUE, not restart (seeded change C12-hB re-seeded on resume: the new pool repeated the
    # initial live points, and the copies of those still alive were accepted a second time)
    dict(name="iter4-uninformed-only", vectorised=True, checkpoint_on_iteration=True, checkpoint_interval=4,
         maximum_uninformed=10 ** 9, uninformed_acceptance_threshold=0.0, max_iteration=260),
]


def _file_callback(sampler):
    """a checkpoint callback that does what the default path does: pickle the sampler to its resume file"""
    import pickle
    import nessai.samplers.base as sb
    sb.safe_file_dump(sampler, sampler.resume_file, pickle, save_existing=True)



def std_kwargs(cfg, seed):
    import copy
    kw = copy.deepcopy(STD_BASE)          # nessai writes into the flow_config dictionary it is given
    kw.update({k: v for k, v in cfg.items() if k not in ("name", "vectorised")})
    if kw.get("checkpoint_callback") == "file":
        kw["checkpoint_callback"] = _file_callback
    kw["seed"] = seed
    return kw


def ins_kwargs(cfg, seed, time_trigger=None):
    kw = dict(nlive=cfg["nlive"], seed=seed, plot=False, checkpointing=True, checkpoint_on_iteration=True, checkpoint_interval=1,
              min_samples=cfg["min_samples"], min_remove=1, max_iteration=cfg["levels"], min_iteration=cfg["levels"],
              strict_threshold=cfg["strict"], replace_all=cfg["replace_all"], draw_constant=cfg["draw_constant"],
              draw_iid_live=cfg["iid"], reparameterisation=cfg["reparam"], threshold_kwargs={"q": cfg["q"]},
              save_log_q=cfg["save_log_q"], weighted_kl=cfg["weighted_kl"], stopping_criterion="ratio", tolerance=-1e9)
    if time_trigger:
        kw.update(checkpoint_on_iteration=False, checkpoint_interval=time_trigger)
    if cfg.get("neural"):
        kw.update(flow_config=dict(n_blocks=2, n_neurons=8, n_layers=1), training_config=dict(max_epochs=10, patience=5, batch_size=100))
        if cfg.get("lars"):
            # resampled (LARS) base distribution: its normalisation buffer is re-estimated by FlowModel.finalise() after training
            # and must be in the saved weights (seeded change C12-d: weights saved before finalise)
            kw["flow_config"].update(distribution="lars")
    return kw


def ins_configs():
    from .c03 import CONFIGS
    out = []
    for i, c in enumerate(CONFIGS):
        c = dict(c)
        c["levels"] = min(c["levels"], 4)
        c["name"] = f"tilt{i}:logq={int(c['save_log_q'])}:iid={int(c['iid'])}:{c['reparam']}"
        out.append(c)
    n1 = dict(CONFIGS[1]); n1.update(neural=True, nlive=60, levels=3, name="neural:logq=0:iid=1:logit", save_log_q=False)
    n2 = dict(CONFIGS[0]); n2.update(neural=True, nlive=60, levels=3, name="neural:logq=1:iid=1:none", save_log_q=True)
    n3 = dict(CONFIGS[1]); n3.update(neural=True, lars=True, nlive=60, levels=3, name="neural-lars:logq=0:iid=1:logit", save_log_q=False)
    return out, [n1, n2, n3]


class NoFlows:
    def __enter__(self):
        return self

    def __exit__(self, *a):
        pass


def flows_ctx(cfg):
    if cfg.get("neural") or "dims" not in cfg:
        return NoFlows()
    from .c03 import FakeFlows
    return FakeFlows(cfg["dims"], cfg["reparam"] == "logit", None)


def build_sampler(kind, cfg, seed, model, out, resume, resume_data=None, time_trigger=None):
    from nessai.flowsampler import FlowSampler
    if kind == "std":
        return FlowSampler(model, output=out, resume=resume, resume_data=resume_data, signal_handling=False, **std_kwargs(cfg, seed))
    return FlowSampler(model, output=out, resume=resume, resume_data=resume_data, importance_nested_sampler=True,
                       signal_handling=False, **ins_kwargs(cfg, seed, time_trigger))


def base_model(kind, cfg, seed):
    if kind == "std":
        m = make_gauss()
        # point-by-point evaluation unless the configuration asks for the vectorised path: more likelihood calls to place kills in
        m.allow_vectorised = bool(cfg.get("vectorised", False))
        return m
    from .c03 import make_model
    return make_model(cfg["dims"], seed)


def run_sampler(kind, fs):
    if kind == "std":
        fs.run(plot=False, save=False)
    else:
        fs.ns.nested_sampling_loop()


def resume_file_of(out):
    return os.path.join(out, "nested_sampler_resume.pkl")


# ----------------------------------------------------------------------------------------------------
# (1) round trips: digest at every checkpoint vs the sampler the real resume path returns
# ----------------------------------------------------------------------------------------------------
def roundtrip_run(ctx, kind, cfg, seed, max_resumes=None):
    import torch
    case = {"kind": f"roundtrip-{kind}", "cfg": cfg, "seed": seed}
    tmp = tempfile.mkdtemp(prefix="c12rt_")
    snaps = []
    flags = {}
    rec = Recorder()
    sampler_site = "NestedSampler" if kind == "std" else "ImportanceNestedSampler"
    time_trigger = cfg.get("time_trigger")

    forced = {"now": False, "done": 0}

    def hook(obj, filename, when, pre=None):
        if when == "before":
            full = canon(obj) if len(snaps) % 7 == 0 else None
            cl = classify(kind, obj)
            if kind == "std":
                cl["mid_iteration"] = int(inside_consume_sample())
                cl["mid_population"] = int(forced["now"])
                counts = (len(obj.nested_samples), len(obj.insertion_indices), len(obj.state.logLs) - 1)
                # (the checkpoint forced in the middle of a population stands for the signal handler's: that window of
                #  consume_sample is C13's known finding and is not judged here — only the state round trip is)
                if not obj.finalised and counts != (obj.iteration,) * 3 and not forced["now"]:
                    ctx.oracle_fail(MID_KEY if cl["mid_iteration"] else "NestedSampler.checkpoint:state-between-iterations",
                                    f"checkpoint written at iteration {obj.iteration} holds {counts[0]} nested samples, {counts[1]} insertion "
                                    f"indices and {counts[2]} integrated points: the worst point has been recorded and the iteration counted but "
                                    "the live point not yet replaced, so a run resumed from this file records and integrates that point again",
                                    {**case, "checkpoint": len(snaps), "iteration": int(obj.iteration), "counts": list(counts), **cl})
            return digest(obj), full, cl
        dg, full, cl = pre
        copy = f"{filename}.{len(snaps)}"
        shutil.copy(filename, copy)
        # the weights file is overwritten by later trainings: keep the one this checkpoint refers to
        wf = getattr(getattr(getattr(obj, "_flow_proposal", None), "flow", None), "weights_file", None)
        if wf and os.path.exists(wf):
            shutil.copy(wf, copy + ".pt")
        snaps.append(dict(digest=dg, full=full, cls=cl, file=copy, iteration=int(obj.iteration), weights=wf))
        first_flow = kind == "std" and cl["phase"] == "flow" and not flags.get("flow")
        if len(snaps) in (1, 4) or first_flow:
            if first_flow:
                flags["flow"] = True
            ctx.hist["table-vs-runtime objects"] += check_tables_against_runtime(ctx, obj, {**case, "checkpoint": len(snaps)})

    # a checkpoint written WHILE the flow proposal is populating its pool (what FlowSampler.safe_exit does when a signal
    # arrives there): `populating` is True in it and must come back True, otherwise the resumed sampler retrains the flow it
    # had just trained (seeded change C12-c).  Forced from inside the second and the fifth population of the run.
    holder = {}
    from nessai.proposal.flowproposal import FlowProposal as _FP
    orig_backward = _FP.backward_pass

    def backward_pass(self_, *a, **k):
        out_ = orig_backward(self_, *a, **k)
        ns_ = holder.get("ns")
        if kind == "std" and ns_ is not None and self_.populating and not forced["now"] \
                and getattr(self_, "populated_count", 0) in (1, 4) and forced["done"] <= (0 if self_.populated_count == 1 else 1):
            forced["now"] = True
            forced["done"] += 1
            try:
                ns_.checkpoint()
            finally:
                forced["now"] = False
        return out_

    try:
        with LogicalTime(), flows_ctx(cfg), DumpHook(hook), mock.patch.object(_FP, "backward_pass", backward_pass):
            np.random.seed(seed)
            torch.manual_seed(seed)
            rec.launch(None)
            model = instrument(base_model(kind, cfg, seed), rec)
            try:
                fs = build_sampler(kind, cfg, seed, model, tmp, resume=False, time_trigger=time_trigger)
                holder["ns"] = fs.ns
                rec.count = True
                run_sampler(kind, fs)
            except Exception as e:  # noqa
                ctx.oracle_fail(f"{sampler_site}:run-raised", f"uninterrupted run raised {type(e).__name__}: {e}",
                                {**case, "exception": repr(e)[:300]})
                return
            writer = fs.ns
            order = list(range(len(snaps)))
            if max_resumes and len(order) > max_resumes:
                groups = collections.defaultdict(list)
                for i in order:
                    groups[tuple(sorted(snaps[i]["cls"].items()))].append(i)
                keep = {0, len(order) - 1}
                for g in groups.values():           # every kind of checkpoint is represented
                    keep |= set(ctx.rng.sample(g, min(3, len(g))))
                rest = [i for i in order if i not in keep]
                keep |= set(ctx.rng.sample(rest, max(0, min(len(rest), max_resumes - len(keep)))))
                order = [i for i in order if i in keep]
            extra_paths = set()
            for i in order:
                s = snaps[i]
                c = {**case, "checkpoint": i, "iteration": s["iteration"], **s["cls"]}
                shutil.copy(s["file"], resume_file_of(tmp))
                if s["weights"] and os.path.exists(s["file"] + ".pt"):
                    shutil.copy(s["file"] + ".pt", s["weights"])
                fresh = base_model(kind, cfg, seed)
                via = "resume_data" if i % 3 == 2 else "resume_file"
                try:
                    if via == "resume_data":
                        with open(s["file"], "rb") as f:
                            data = pickle.load(f)
                        fs2 = build_sampler(kind, cfg, seed, fresh, tmp, True, resume_data=data, time_trigger=time_trigger)
                    else:
                        fs2 = build_sampler(kind, cfg, seed, fresh, tmp, True, time_trigger=time_trigger)
                    if kind == "std":
                        # what run() does before the loop continues
                        fs2.ns.initialise()
                        fs2.ns.check_resume()
                except Exception as e:  # noqa
                    ctx.oracle_fail(f"{sampler_site}.resume:raised", f"resume from a complete checkpoint raised {type(e).__name__}: {e}",
                                    {**c, "via": via, "exception": repr(e)[:300]})
                    ctx.case(("rt", kind, cfg["name"], seed, i), True, kind="resume-raised")
                    continue
                dr = digest(fs2.ns, fresh)
                nbad = compare_digests(ctx, f"{sampler_site}.resume", s["digest"], dr, {**c, "via": via}, cfg.get("save_log_q", False))
                # the accounts as restored
                got = (int(fresh.likelihood_evaluations), fs2.ns.sampling_time)
                if s["full"] is not None:
                    extra_paths |= set(full_diff_paths(s["full"], canon(fs2.ns)))
                tag = ":".join(f"{k}={v}" for k, v in sorted(s["cls"].items()))
                ctx.case(("rt", kind, cfg["name"], seed, i), True,
                         {"kind": c["kind"], "cfg": cfg["name"], "seed": seed, "checkpoint": i, **s["cls"], "via": via,
                          "fields_compared": len(s["digest"]), "differences": nbad, "restored_evals": got[0]},
                         kind=f"{kind}:{tag}")
            ctx.hist[f"{kind} checkpoints written"] += len(snaps)
            calls_seen(ctx)[(kind, cfg["name"].split(":time")[0])] = rec.calls
            ctx.extra.setdefault("fields_outside_the_list_that_differ_after_resume", [])
            cur = set(ctx.extra["fields_outside_the_list_that_differ_after_resume"])
            ctx.extra["fields_outside_the_list_that_differ_after_resume"] = sorted(cur | {p[:90] for p in extra_paths})[:60]
            ctx.traces += 1
            del writer
    finally:
        shutil.rmtree(tmp, ignore_errors=True)


def classify(kind, ns):
    if kind == "std":
        fp = ns._flow_proposal
        return dict(phase="flow" if getattr(ns, "proposal", None) is fp else "uninformed",
                    pool="populated" if (fp.populated and len(fp.indices or []) > 0) else "empty",
                    trained=int(fp.training_count > 0), final=int(bool(ns.finalised)),
                    trigger="iteration" if ns.checkpoint_on_iteration else "time")
    return dict(levels=int(ns.proposal.level_count + 1), final=int(bool(ns.finalised)), logq=int(ns.save_log_q),
                trigger="iteration" if ns.checkpoint_on_iteration else "time")


# ----------------------------------------------------------------------------------------------------
# (2) kill / resume chains under the logical clock
# ----------------------------------------------------------------------------------------------------
def py_commit_log(ops):
    """independent oracle: the property's accounting, written as a commit log (no counter is ever reset or re-seeded);
    sampling time = ticks spent inside the sampling loop"""
    alive, in_loop, committed, pending = False, False, [0, 0, 0], [0, 0, 0]
    out = []
    for op in ops:
        p = op.split(":")
        if p[0] == "L":
            alive, in_loop, pending = True, False, [0, 0, 0]
        elif p[0] == "E" and alive:
            in_loop = True
        elif p[0] == "R" and alive:
            pending = [pending[0] + int(p[1]), pending[1] + (int(p[2]) if in_loop else 0), pending[2] + int(p[3])]
        elif p[0] == "C" and alive:
            committed = [committed[i] + pending[i] for i in range(3)]
            pending = [0, 0, 0]
        elif p[0] == "K":
            alive = in_loop = False
        out.append(dict(evals=committed[0] + pending[0], ticks=committed[1] + pending[1], ltime=committed[2] + pending[2],
                        c_evals=committed[0], c_ticks=committed[1], c_ltime=committed[2]))
    return out


def ckpt_in_loop(ops):
    """is every checkpoint of the history written from inside the sampling loop?"""
    alive = in_loop = False
    for op in ops:
        k = op[0]
        if k == "L":
            alive, in_loop = True, False
        elif k == "E" and alive:
            in_loop = True
        elif k == "K":
            alive = in_loop = False
        elif k == "C" and alive and not in_loop:
            return False
    return True


HANDLER_KEY = "BaseNestedSampler.checkpoint:between-resume-and-loop-entry:down-time-counted"


def chain(ctx, kind, cfg, seed, kills, downs, handler_ckpt=False, train_signal=None):
    """train_signal=k: in the first launch a signal arrives while the k-th flow training is running — the handler checkpoints
    (FlowSampler.safe_exit) and the process exits; the resumed run redoes the interrupted training (seeded change C12-eA: the
    training counter advanced before the training).
    handler_ckpt: after every resume, before the loop is entered, call `ns.checkpoint()` as the signal handler
    (FlowSampler.safe_exit -> terminate_run) does"""
    import torch
    case = {"kind": f"chain-{kind}", "cfg": cfg, "seed": seed, "kills": kills, "downs": downs, "handler_ckpt": handler_ckpt}
    sampler_cls = "NestedSampler" if kind == "std" else "ImportanceNestedSampler"
    tmp = tempfile.mkdtemp(prefix="c12ch_")
    rec = Recorder()
    time_trigger = cfg.get("time_trigger")
    steps_rec = None          # harness.c01 recorder: live set before/after, candidates, insertion index of every consume_sample
    segments = []             # one list of recorded steps per launch
    written = {}              # importance sampler: the stores as they were when the last checkpoint was written

    def hook(obj, filename, when, pre=None):
        if when == "before":
            return kind == "std" and inside_consume_sample()
        rec.checkpoint(obj, filename)
        if pre:
            rec.mid_ops.add(len(rec.ops) - 1)
        if kind == "ins":
            written.clear()
            written.update(store_image(obj), iteration=int(obj.iteration))

    trainings = {"n": 0, "armed": train_signal is not None, "ns": None}

    def launch(kill_at, attempt):
        rec.launch(kill_at)
        if steps_rec is not None:
            steps_rec.steps = []
            segments.append(steps_rec.steps)
        model = instrument(base_model(kind, cfg, seed), rec)
        fs = build_sampler(kind, cfg, seed, model, tmp, resume=True, time_trigger=time_trigger)
        trainings["ns"] = fs.ns
        rec.observe("launch", fs.ns)
        if handler_ckpt and fs.ns.iteration > 0:
            fs.ns.checkpoint()          # what FlowSampler.terminate_run does on SIGTERM/SIGINT/SIGALRM
        if kind == "ins" and written and fs.ns.iteration > 0:
            ins_structure(ctx, fs.ns, {**case, "attempt": attempt}, "resumed", base_model(kind, cfg, seed), written)
        rec.count = True
        run_sampler(kind, fs)
        rec.flush()
        rec.count = False
        return fs

    from nessai.flowmodel.base import FlowModel as _FM
    orig_train = _FM.train

    def train_with_signal(self_, *a, **k):
        trainings["n"] += 1
        if trainings["armed"] and trainings["n"] == train_signal and trainings["ns"] is not None:
            trainings["armed"] = False
            trainings["ns"].checkpoint()      # the signal handler's checkpoint, taken while the flow is being trained
            raise Kill()
        return orig_train(self_, *a, **k)

    final = None
    survived = 0
    try:
        with LogicalTime(unit=(1, 1.5, 40000.5)[seed % 3]), flows_ctx(cfg), DumpHook(hook), \
                (mock.patch.object(_FM, "train", train_with_signal) if (kind == "std" and train_signal is not None) else NoFlows()):
            if kind == "std":
                from . import c01
                steps_rec = c01.Recorder(c01._nessai())
                steps_rec.install()
            try:
                np.random.seed(seed)
                torch.manual_seed(seed)
                for attempt in range(len(kills) + 2):
                    try:
                        # the last launch is never killed
                        final = launch(kills[attempt] if attempt < len(kills) else None, attempt)
                        break
                    except Kill:
                        survived += 1
                        rec.killed(downs[attempt])
                    except Exception as e:  # noqa
                        import traceback
                        ctx.oracle_fail(f"{sampler_cls}.resume:run-raised",
                                        f"launch {attempt} of a kill/resume chain raised {type(e).__name__}: {e}",
                                        {**case, "attempt": attempt, "ops": rec.ops[-12:], "where": traceback.format_exc()[-500:]})
                        ctx.case(("chain", kind, cfg["name"], seed, tuple(kills)), True, kind=f"chain-{kind}:raised")
                        return
            finally:
                if steps_rec is not None:
                    steps_rec.remove()
            ns = final.ns
            rec.observe("final", ns)
            resumed_mid = check_chain(ctx, kind, sampler_cls, rec, ns, case, survived)
            if kind == "std":
                replay_live_set(ctx, segments, ns, case, bool(resumed_mid))
            else:
                ins_structure(ctx, ns, case, "finalised", base_model(kind, cfg, seed), written, final=True)
    finally:
        shutil.rmtree(tmp, ignore_errors=True)


# ---- the chained standard run through the C01 model -------------------------------------------------
def replay_live_set(ctx, segments, ns, case, resumed_mid):
    """every consume_sample of every launch of the chain (recorded with harness.c01's wrappers) is replayed through the
    C01 Lean model (`ls step`); the model's live set after step k must be the real live set before step k+1, and after a
    resume the restored live set must be the model's live set at the checkpointed iteration"""
    from . import c01
    from numpy.lib.recfunctions import structured_to_unstructured
    T = c01._nessai()
    model = make_gauss()
    names = list(model.names)
    nlive = int(ns.nlive)
    case = {k: v for k, v in case.items() if k != "ops"}

    def coords(a):
        return structured_to_unstructured(np.atleast_1d(a)[names])

    lines, impls, metas = [], [], []
    for si, steps in enumerate(segments):
        for st in steps:
            cdict = {**case, "launch": si, "iteration": st["snap"]["iter"] + 1}
            c01.oracle_step(ctx, T["np"], model, st["snap"], c01.View(st, nlive), cdict, tag="consume_sample(chain)")
            line, impl = c01.step_line(T["np"], model, st, nlive)
            lines.append(line)
            impls.append(impl)
            metas.append((si, st, cdict))
    outs = ctx.model(lines)
    by_iter = {}          # iteration -> coordinates of the MODEL's live set after that iteration (surviving lineage)
    surviving = {}        # iteration index -> recorded step of the surviving lineage
    prev = None
    nbad = 0
    for (si, st, cdict), line, mo, io in zip(metas, lines, outs, impls):
        if mo != io:
            nbad += 1
            if nbad <= 5:
                ctx.disagree("C01 model consume != recorded step of a kill/resume chain", {"line": line[:300], "model": mo[:300], "impl": io[:300], "case": cdict})
            prev = None
            continue
        m = re.match(r"live=\[(.*?)\] i=", mo)
        ids = [int(t.split(":")[0]) for t in m.group(1).split(",")] if m and m.group(1) else []
        live0, draws = st["snap"]["live"], st["draws"]
        model_after = np.concatenate([coords(live0[i]) if i < nlive else coords(draws[i - nlive][0]) for i in ids]) if ids else coords(live0)[:0]
        it0 = st["snap"]["iter"]
        first_of_launch = prev is None or prev[0] != si
        if not first_of_launch and not np.array_equal(prev[1], coords(live0)):
            ctx.oracle_fail("NestedSampler:between-iterations:untouched",
                            "the live set before an iteration is not the C01 model's live set after the previous one", cdict)
        if first_of_launch and si > 0 and it0 > 0:
            ref = by_iter.get(it0)
            if ref is None or not np.array_equal(ref, coords(live0)):
                ctx.oracle_fail(MID_KEY if resumed_mid else "NestedSampler.resume:live-set-not-the-checkpointed-one",
                                f"after the resume at iteration {it0} the live set is not the C01 model's live set at that iteration "
                                "(resume is not the identity on the C01 state)", {**cdict, "known_iterations": len(by_iter)})
        by_iter[st["iter_after"]] = model_after
        if not np.array_equal(model_after, coords(st["after"])):
            ctx.disagree("C01 model live set after the step differs from the real one", cdict)
        surviving[it0] = st
        prev = (si, model_after)
        ctx.case(("chain-step", case["cfg"]["name"], case["seed"], tuple(case["kills"]), si, it0), True, None,
                 kind="chain-step:" + st["proposal"] + (":resumed" if si else ""))
    # the record of the finished run is the surviving lineage of steps
    nested = np.array(ns.nested_samples)
    for it0, st in surviving.items():
        if it0 >= len(nested) or not np.array_equal(coords(nested[it0]), coords(st["snap"]["live"][0])):
            ctx.oracle_fail(MID_KEY if resumed_mid else "NestedSampler:resumed-run:recorded-once",
                            f"nested sample #{it0} of the finished run is not the point the surviving lineage removed at that iteration", case)
            break
        if it0 >= len(ns.insertion_indices) or int(ns.insertion_indices[it0]) != st["idx"]:
            ctx.oracle_fail(MID_KEY if resumed_mid else "NestedSampler:resumed-run:index-recorded-once",
                            f"insertion index #{it0} of the finished run is not the one recorded at that iteration", case)
            break
    if len(surviving) != ns.iteration and not resumed_mid:
        ctx.oracle_fail("NestedSampler:resumed-run:iterations", f"{len(surviving)} iterations in the surviving lineage, the sampler reports {ns.iteration}", case)
    ctx.hist["chain steps replayed through the C01 model"] += len(lines)
    ctx.traces += 1


# ---- importance sampler: C04 store invariants and C03 bookkeeping after every resume and at the end ----
def store_image(ns):
    out = {}
    for name in ("training_samples", "iid_samples"):
        st = getattr(ns, name)
        if st is None or st.samples is None:
            out[name] = None
            continue
        out[name] = (st.samples.tobytes(), None if st.live_points_indices is None else np.asarray(st.live_points_indices).tobytes(),
                     np.asarray(st.nested_samples_indices).tobytes(), len(st.samples))
    return out


def ins_structure(ctx, ns, case, tag, plain_model, written, final=False):
    """C04 predicates (sorted store, strictly increasing index sets that partition it, rows attached) and the C03
    bookkeeping (weights = fractions of the counts, logW = logU - logQ, Q = mixture of the row, rows = the proposals'
    densities at the sample) on the real stores — the predicates of harness/c04.Oracle and harness/c03.oracle_snapshot"""
    from .c03 import snapshot, oracle_snapshot, tilt_density, flog
    case = {k: v for k, v in case.items() if k != "ops"}
    site = f"ImportanceNestedSampler:{tag}"
    names = list(plain_model.names)
    for name in ("training_samples", "iid_samples"):
        st = getattr(ns, name)
        if st is None or st.samples is None:
            continue
        s, n = st.samples, len(st.samples)
        if np.any(np.diff(s["logL"]) < 0):
            ctx.oracle_fail(site + ":sorted", f"{name}: store not sorted by likelihood", case)
        lv = [] if st.live_points_indices is None else [int(v) for v in st.live_points_indices]
        nsi = [int(v) for v in st.nested_samples_indices]
        if any(b <= a for a, b in zip(lv, lv[1:])) or any(b <= a for a, b in zip(nsi, nsi[1:])):
            ctx.oracle_fail(site + ":strictly-increasing", f"{name}: index sets not strictly increasing", case)
        if sorted(lv + nsi) != list(range(n)):
            ctx.oracle_fail(site + ":partition", f"{name}: live ({len(lv)}) and nested ({len(nsi)}) indices do not partition the {n} samples", case)
        if st.log_q is None or st.log_q.shape[0] != n:
            ctx.oracle_fail(site + ":rows", f"{name}: density table has {None if st.log_q is None else st.log_q.shape} rows for {n} samples", case)
        # resume is the identity on the C04 state; nothing ever leaves the store afterwards
        img = written.get(name)
        if img is not None and not final:
            now = store_image(ns)[name]
            if now != img:
                ctx.oracle_fail("ImportanceNestedSampler.resume:store-not-the-checkpointed-one",
                                f"{name}: samples / live indices / nested indices after the resume differ from those written at iteration "
                                f"{written.get('iteration')}", case)
    if not getattr(ns.proposal, "flow", None) or not hasattr(ns.proposal.flow.models[0] if ns.proposal.flow.n_models else None, "c"):
        lq = None
    else:
        level_c = [m.c.numpy().copy() for m in ns.proposal.flow.models]

        def lq(recs, nlev):
            cols = [np.zeros(len(recs))]
            for c in level_c:
                cols.append(np.array([flog(tilt_density(c, [r[n] for n in names])) for r in recs]))
            return np.stack(cols, axis=1)[:, :nlev]
    snap = snapshot(ns, tag)
    nlev = len(snap["weights"])
    oracle_snapshot(ctx, snap, plain_model, names, {**case, "at": tag, "iteration": snap["iteration"]},
                    level_logq=(lambda recs: lq(recs, nlev)) if lq else None)
    ctx.hist[f"ins stores checked ({tag})"] += 1


def check_chain(ctx, kind, sampler_cls, rec, ns, case, kills_hit):
    ops = rec.ops
    resets = ctx.model([f"acc resets {sampler_cls}"])[0]
    rearm = ctx.model(["acc rearm"])[0]
    line = f"acc run {resets if resets in ('0', '1') else '1'} {rearm if rearm in ('0', '1') else '0'} 1 " + ";".join(ops)
    in_loop_only = ckpt_in_loop(ops)
    out = ctx.model([line])[0]
    case = {**case, "ops": ops if len(ops) < 80 else ops[:40] + ["..."] + ops[-30:]}
    if out == "bad-op":
        ctx.disagree("the model rejects the recorded history", case)
        return
    states = []
    for rec_s in out.split("|"):
        f = rec_s.split(",")
        states.append(dict(alive=f[0] == "1", evals=int(f[1]), ltime=int(f[2]), stime=int(f[3]), current=int(f[4]),
                           retE=int(f[6]), retT=int(f[7]), retL=int(f[8]), comE=int(f[9]), comT=int(f[10]), comL=int(f[11])))
    spec = py_commit_log(ops)
    n_resumes = sum(1 for i, o in enumerate(ops) if o == "L" and i > 0)
    for idx, what, real in rec.obs:
        m, sp = states[idx], spec[idx]
        where = {**case, "at": what, "op_index": idx, "iteration": real["iteration"]}
        # model == implementation (the model follows the code: resetStart is read from the generated table)
        if what == "launch" and not in_loop_only and real["iteration"] > 0:
            continue        # taken before the handler checkpoint of that launch; the checkpoint itself is observed next
        if (real["evals"], real["ltime"], real["stime"]) != (m["evals"], m["ltime"], m["stime"]):
            ctx.disagree("accounts of the real sampler differ from the Lean model on the recorded history",
                         {**where, "real": real, "model": {k: m[k] for k in ("evals", "ltime", "stime")}})
        # oracle: the property itself
        if real["evals"] != sp["evals"]:
            ctx.oracle_fail(f"{sampler_cls}:likelihood_evaluations-not-cumulative",
                            f"likelihood_evaluations = {real['evals']} at {what}, the retained evaluations are {sp['evals']}",
                            {**where, "real": real, "required": sp})
        if real["ltime"] != sp["ltime"]:
            ctx.oracle_fail(f"{sampler_cls}:likelihood_evaluation_time-not-cumulative",
                            f"likelihood_evaluation_time = {real['ltime']} ticks at {what}, retained {sp['ltime']}",
                            {**where, "real": real, "required": sp})
        want_t = sp["ticks"] if what != "launch" else sp["c_ticks"]
        if real["stime"] != want_t:
            ctx.oracle_fail(f"{sampler_cls}.resume:sampling_time-not-cumulative" if in_loop_only else HANDLER_KEY,
                            f"sampling_time = {real['stime']} ticks at {what} (iteration {real['iteration']}), the retained sampling "
                            f"ticks are {want_t}: the time before the resumed checkpoint and/or the down-time is counted again",
                            {**where, "real": real, "required": sp})
    ctx.traces += 1
    # was some launch resumed from a checkpoint that had been written in the middle of an iteration?
    resumed_mid, last_c = False, None
    for i, o in enumerate(ops):
        if o == "C":
            last_c = i
        elif o == "L" and last_c is not None and last_c in rec.mid_ops:
            resumed_mid = True
    invariants(ctx, kind, sampler_cls, ns, case, n_resumes, resumed_mid)
    rv_resumed_mid = resumed_mid
    ctx.case(("chain", kind, case["cfg"]["name"], case["seed"], tuple(case["kills"])), True,
             {"kind": case["kind"], "cfg": case["cfg"]["name"], "seed": case["seed"], "kills": case["kills"], "downs": case["downs"],
              "kills_hit": kills_hit, "ops": len(ops), "checkpoints": ops.count("C"), "final": rec.obs[-1][2]},
             kind=f"chain-{kind}:kills={kills_hit}")
    ctx.hist["chain checkpoints compared"] += sum(1 for o in rec.obs if o[1] == "checkpoint")
    return rv_resumed_mid


def invariants(ctx, kind, sampler_cls, ns, case, n_resumes, resumed_mid=False):
    """the invariants of an uninterrupted run, demanded of the run that was killed and resumed"""
    site = f"{sampler_cls}:resumed-run"
    if resumed_mid:
        case = {**case, "resumed_from_mid_iteration_checkpoint": True}
    tot = int(ns.model.likelihood_evaluations)
    h = ns.history
    if not ns.finalised and not (kind == "std" and ns.iteration >= ns.max_iteration):
        ctx.oracle_fail(site + ":not-finished", "the resumed run returned without finishing", case)
    he = list(h["likelihood_evaluations"])
    if any(b < a for a, b in zip(he, he[1:])) or (he and he[-1] > tot):
        ctx.oracle_fail(site + ":history-evaluations", f"history of likelihood evaluations is not non-decreasing / exceeds the total {tot}: {he[-6:]}", case)
    if kind == "std":
        nsamp = np.array(ns.nested_samples)
        want = ns.iteration + (ns.nlive if ns.finalised else 0)
        if len(nsamp) != want:
            ctx.oracle_fail(site + ":count", f"{len(nsamp)} nested samples for iteration {ns.iteration} + nlive {ns.nlive}", case)
        if len(nsamp) and np.any(np.diff(nsamp["logL"]) < 0):
            ctx.oracle_fail(site + ":order", "nested samples are not sorted by log-likelihood", case)
        if not np.isfinite(ns.state.logZ) or not np.isfinite(ns.state.log_evidence_error):
            ctx.oracle_fail(site + ":evidence", f"log-evidence {ns.state.logZ} +/- {ns.state.log_evidence_error}", case)
        if len(ns.insertion_indices) != ns.iteration or any(not (0 <= i < ns.nlive) for i in ns.insertion_indices):
            ctx.oracle_fail(MID_KEY if resumed_mid else site + ":insertion-indices",
                            f"{len(ns.insertion_indices)} insertion indices for {ns.iteration} iterations", case)
        if len(nsamp):
            flat = np.stack([nsamp[n] for n in ns.model.names] + [nsamp["logL"]], axis=1)
            ndup = len(flat) - len(np.unique(flat, axis=0))
            if ndup:
                ctx.oracle_fail(MID_KEY if resumed_mid else site + ":repeated-nested-sample",
                                f"{ndup} nested sample(s) recorded (and integrated) twice", case)
        if len(ns.state.logLs) != len(nsamp) + 1:
            ctx.oracle_fail(site + ":evidence-state", f"integral state holds {len(ns.state.logLs) - 1} points for {len(nsamp)} nested samples", case)
        hs = list(h["sampling_time"])
        if any(b < a for a, b in zip(hs, hs[1:])):
            ctx.oracle_fail(site + ":history-sampling-time", f"history of sampling time decreases: {hs[-6:]}", case)
        its = list(h["iterations"])
        body = its[:-1] if ns.finalised else its
        dup = [a for a, b in zip(body, body[1:]) if b <= a]
        if dup:
            ctx.oracle_fail("NestedSampler.nested_sampling_loop:resume:history-entry-repeated",
                            f"history['iterations'] repeats {dup[:4]} (an uninterrupted run records each iteration once): "
                            "update_state() runs again on entry after a resume",
                            {**case, "repeated": dup[:8], "resumes": n_resumes})
        ti = list(h["training_iterations"])
        if any(b < a for a, b in zip(ti, ti[1:])) or len(ti) != ns._flow_proposal.training_count:
            ctx.oracle_fail(site + ":training-counters", f"training_iterations {ti} vs training_count {ns._flow_proposal.training_count}", case)
    else:
        s = ns.training_samples.samples
        if np.any(np.diff(s["logL"]) < 0):
            ctx.oracle_fail(site + ":order", "samples are not sorted by log-likelihood", case)
        for name, store in (("training", ns.training_samples), ("iid", ns.iid_samples)):
            if store is None:
                continue
            if store.log_q is None or store.log_q.shape != (len(store.samples), ns.proposal.n_proposals):
                ctx.oracle_fail(site + ":density-table", f"{name}: density table shape {None if store.log_q is None else store.log_q.shape} "
                                f"for {len(store.samples)} samples and {ns.proposal.n_proposals} proposals", case)
        ref = ns.iid_samples if ns.iid_samples is not None else ns.training_samples
        if sum(ns.sample_counts.values()) != len(ref.samples):
            ctx.oracle_fail(site + ":sample-counts", f"sample counts {ns.sample_counts} do not add up to {len(ref.samples)} samples", case)
        w = np.fromiter(ns.proposal.weights.values(), float)
        if not np.isclose(w.sum(), 1.0, atol=1e-12):
            ctx.oracle_fail(site + ":weights", f"proposal weights sum to {w.sum()}", case)
        if not np.isfinite(ns.log_evidence):
            ctx.oracle_fail(site + ":evidence", f"log-evidence {ns.log_evidence}", case)
        if ns.proposal.flow.n_models != ns.iteration or len(h["logZ"]) != ns.iteration:
            ctx.oracle_fail(site + ":levels", f"{ns.proposal.flow.n_models} flows, {len(h['logZ'])} history entries for {ns.iteration} iterations", case)
        per_level = collections.Counter(int(i) for i in ref.samples["it"])
        if {k: v for k, v in ns.sample_counts.items() if v} != dict(per_level):
            ctx.oracle_fail(site + ":sample-counts", f"sample counts {ns.sample_counts} differ from the stored samples' levels {dict(per_level)}", case)


# ----------------------------------------------------------------------------------------------------
# (3) random histories through the real base-class code
# ----------------------------------------------------------------------------------------------------
Micro = None


def _micro_class():
    """smallest concrete sampler: everything under test is inherited from BaseNestedSampler (module level: it is pickled)"""
    global Micro
    if Micro is None:
        from nessai.samplers.base import BaseNestedSampler

        class _Micro(BaseNestedSampler):
            def log_state(self):
                pass

            def nested_sampling_loop(self):
                pass

            @property
            def posterior_effective_sample_size(self):
                return 0

        _Micro.__name__ = _Micro.__qualname__ = "Micro"
        _Micro.__module__ = __name__
        Micro = _Micro
    return Micro


def gen_micro_ops(rng):
    """random well-formed history; a timed run (lt > 0) has at least one evaluation"""
    ops, alive = [], False
    for _ in range(rng.randrange(2, 14)):
        choices = ["L"] if not alive else ["R", "R", "R", "C", "C", "K"]
        if not alive and ops:
            choices.append("D")
        op = rng.choice(choices)
        if op == "L":
            alive = True
            ops.append("L")
        elif op == "R":
            e, pre = rng.randrange(0, 6), rng.randrange(0, 4)
            lt = rng.randrange(1, 5) if (e and rng.random() < 0.7) else 0
            inner = lt if lt else (rng.randrange(0, 3) if e else 0)     # ticks inside an untimed evaluation
            ops.append(f"R:{e}:{pre + inner}:{lt}")
        elif op == "K":
            alive = False
            ops.append("K")
        elif op == "D":
            ops.append(f"D:{rng.randrange(0, 9)}")
        else:
            ops.append("C")
    return ops


def exec_micro(ops, tmp):
    """run a history through the REAL BaseNestedSampler.checkpoint / __getstate__ / resume_from_pickled_sampler and
    Model.evaluate_log_likelihood / batch_evaluate_log_likelihood; returns the accounts after every op with a live process"""
    from nessai.livepoint import numpy_array_to_live_points
    cls = _micro_class()
    fn = os.path.join(tmp, "nested_sampler_resume.pkl")
    for f in (fn, fn + ".old"):
        if os.path.exists(f):
            os.remove(f)
    CLOCK.t = 0
    tick = {"n": 0}

    class Rec:
        count = False
        pe = plt = 0

        @staticmethod
        def on_call():
            CLOCK.t += tick["n"]

    sampler = model = None
    have_file = False
    obs = []
    for idx, op in enumerate(ops):
        p = op.split(":")
        if p[0] == "L":
            model = instrument(make_gauss(), Rec)
            model._vectorised_likelihood = True
            tick["n"] = 0                      # construction (verify_model) is outside the accounts
            if have_file:
                sampler = cls.resume(fn, model)
            else:
                sampler = cls(model, nlive=10, output=tmp, seed=1, checkpointing=True, plot=False)
        elif p[0] == "R" and sampler is not None:
            e, t, lt = int(p[1]), int(p[2]), int(p[3])
            if e:
                x = numpy_array_to_live_points(np.zeros((e, 2)), model.names)
                if lt:
                    CLOCK.t += t - lt
                    tick["n"] = lt
                    model.batch_evaluate_log_likelihood(x)
                else:
                    tick["n"] = t
                    model.evaluate_log_likelihood(x)
                tick["n"] = 0
            else:
                CLOCK.t += t
        elif p[0] == "C" and sampler is not None:
            sampler.checkpoint(periodic=True, force=True)
            have_file = True
        elif p[0] == "K":
            sampler = model = None
        elif p[0] == "D" and sampler is None:
            CLOCK.t += int(p[1])
        if sampler is not None:
            obs.append((idx, int(model.likelihood_evaluations), _ticks(model.likelihood_evaluation_time),
                        _ticks(sampler.sampling_time), _ticks(sampler.current_sampling_time)))
    return obs


def micro_histories(ctx, n):
    """corpus + random histories: real base-class code vs the Lean model (the base class never re-arms the start: resetStart=0)"""
    import json
    tmp = tempfile.mkdtemp(prefix="c12mi_")
    lines, impls, cases = [], [], []
    rearm = ctx.model(["acc rearm"])[0]       # does the resume itself re-arm the start (generated from the sources)?
    rearm = rearm if rearm in ("0", "1") else "0"
    try:
        corpus = core.VERIF / "corpus" / "C12" / "histories.json"
        hist = json.loads(corpus.read_text())["histories"] if corpus.exists() else []
        for h in hist:
            out = ctx.model([f"acc run {h['reset']} {h.get('rearm', 0)} {h['fresh']} " + ";".join(h["ops"])])[0]
            last = out.split("|")[-1].split(",")
            got = dict(evals=int(last[1]), ltime=int(last[2]), stime=int(last[3]), current=int(last[4]))
            if got != h["expect"]:
                ctx.disagree("corpus history: driver output differs from the recorded expectation", {"kind": "micro-history", **h, "got": got})
            ctx.case(("corpus", tuple(h["ops"]), h["reset"], h["fresh"]), True, kind="corpus-history")
        with LogicalTime():
            todo = [h["ops"] for h in hist if h["reset"] == 0 and h["fresh"] == 1 and str(h.get("rearm", 0)) == rearm and "E" not in h["ops"]] + [gen_micro_ops(ctx.rng) for _ in range(n)]
            for k, ops in enumerate(todo):
                obs = exec_micro(ops, tmp)
                lines.append(f"acc run 0 {rearm} 1 " + ";".join(ops))
                impls.append(obs)
                cases.append({"kind": "micro-history", "ops": ops})
                ctx.case(("micro", tuple(ops)), "C" in ops and ops.count("L") > 1, {"kind": "micro-history", "ops": ops} if k < 2 else None,
                         kind=f"micro:launches={min(ops.count('L'), 3)}")
        outs = ctx.model(lines)
        for line, out, obs, case in zip(lines, outs, impls, cases):
            st = [r.split(",") for r in out.split("|")]
            spec = py_commit_log(case["ops"])
            for idx, e, lt, stime, cur in obs:
                m = st[idx]
                if (e, lt, stime, cur) != (int(m[1]), int(m[2]), int(m[3]), int(m[4])):
                    ctx.disagree("BaseNestedSampler accounts differ from the Lean model on a random history",
                                 {**case, "op_index": idx, "real": [e, lt, stime, cur], "model": m[1:5]})
                    break
                if e != spec[idx]["evals"] or lt != spec[idx]["ltime"]:
                    ctx.oracle_fail("BaseNestedSampler:likelihood_evaluations-not-cumulative",
                                    f"counters ({e}, {lt}) differ from the retained ({spec[idx]['evals']}, {spec[idx]['ltime']})",
                                    {**case, "op_index": idx})
                    break
    finally:
        shutil.rmtree(tmp, ignore_errors=True)


# ----------------------------------------------------------------------------------------------------
# (4) the unbound local in FlowProposal.resume
# ----------------------------------------------------------------------------------------------------
def mask_case(ctx, mask_kind="ndarray"):
    """a run whose saved flow mask is a NumPy array (flow_config['mask'] given as an array — documented as array_like — or
    any AugmentedFlowProposal run, which builds its mask as an array) must resume like any other, at every checkpoint"""
    import torch
    from nessai.flowsampler import FlowSampler
    case = {"kind": "mask", "mask": mask_kind}
    tmp = tempfile.mkdtemp(prefix="c12mk_")
    try:
        import copy
        kw = copy.deepcopy(STD_BASE)
        kw.update(checkpoint_on_iteration=True, checkpoint_interval=5, maximum_uninformed=10, training_frequency=40, cooldown=20,
                  max_iteration=25, seed=5)
        if mask_kind == "augmented":
            # stays in the uninformed phase: the mask is pickled from the initialised flow's configuration all the same
            kw.update(flow_proposal_class="AugmentedFlowProposal", maximum_uninformed=1000, max_iteration=20)
        else:
            kw["flow_config"] = dict(n_blocks=2, n_neurons=4, mask=np.array([1.0, -1.0]) if mask_kind == "ndarray" else [1.0, -1.0])
        np.random.seed(5)
        torch.manual_seed(5)
        fs = FlowSampler(make_gauss(), output=tmp, resume=False, signal_handling=False, **kw)
        fs.run(plot=False, save=False)
        saved_iteration = fs.ns.iteration
        saved_mask = fs.ns._flow_proposal.flow.flow_config.get("mask")
        try:
            fs2 = FlowSampler(make_gauss(), output=tmp, resume=True, signal_handling=False, **kw)
            fs2.ns.initialise()
            fs2.ns.check_resume()
            got = fs2.ns._flow_proposal.flow.flow_config.get("mask")
            if fs2.ns.iteration != saved_iteration:
                ctx.oracle_fail("FlowProposal.resume:mask", f"resumed at iteration {fs2.ns.iteration}, checkpoint was written at {saved_iteration}", case)
            if (saved_mask is None) != (got is None) or (saved_mask is not None and not np.array_equal(np.asarray(saved_mask), np.asarray(got))):
                ctx.oracle_fail("FlowProposal.resume:mask", f"the rebuilt flow uses mask {got}, the run that wrote the checkpoint used {saved_mask}", case)
        except Exception as e:  # noqa
            ctx.oracle_fail("FlowProposal.resume:mask-not-a-list:unbound-local",
                            f"a run whose flow mask is saved as a NumPy array ({mask_kind}) checkpoints but cannot be resumed: "
                            f"{type(e).__name__}: {e}", {**case, "exception": repr(e)[:200]})
        ctx.case(("mask", mask_kind), True, case, kind="mask:" + mask_kind)
    finally:
        shutil.rmtree(tmp, ignore_errors=True)


# ----------------------------------------------------------------------------------------------------
def calls_seen(ctx):
    if not hasattr(ctx, "_c12_calls"):
        ctx._c12_calls = {}
    return ctx._c12_calls


def gen_kills(ctx, kind, cfg, n):
    """kill positions = index of the likelihood call (counted from the launch) inside which the process dies; scaled by
    the number of calls an uninterrupted run of this configuration made, so that most kills land inside the run"""
    rng = ctx.rng
    total = calls_seen(ctx).get((kind, cfg["name"].split(":time")[0]), 60 if kind == "std" else 500)
    kills = []
    for _ in range(n):
        mode = rng.random()
        if mode < 0.15:
            kills.append(rng.randrange(1, 4))                      # during the very first evaluations
        else:
            kills.append(rng.randrange(2, max(3, int(total * rng.choice([0.3, 0.6, 0.9])))))
    return kills, [rng.choice([0, 1, 7, 60, 1000]) for _ in range(n)]


def setup():
    import logging
    import torch
    torch.set_num_threads(1)
    logging.getLogger("nessai").setLevel(logging.CRITICAL)
    os.environ.setdefault("TQDM_DISABLE", "1")
    from nessai.samplers.importancesampler import ImportanceNestedSampler
    ImportanceNestedSampler.add_fields()


def correspond(ctx):
    setup()
    from nessai import config
    ctx.rule = ("round trips: every checkpoint (iteration-, time- and training-triggered; uninformed/flow phase; populated/empty pool; "
                "before/after training; final) of complete real runs over a configuration list x seeds is resumed through "
                "FlowSampler(resume=True) / resume_data with a fresh model and compared field by field (arrays bytewise, re-derived "
                "density tables to 1e-5) on the property's list; chains: 1..3 (quick) / 1..5 (thorough) kills raised inside randomly "
                "chosen likelihood calls, random down-times, every checkpoint/launch/final account compared exactly with the Lean model "
                "and the commit-log oracle under a logical clock; micro: random histories through the real BaseNestedSampler code; "
                "non-trivial = distinct (config, seed, checkpoint) / (config, seed, kills) / history with a resume after a checkpoint")
    ctx.assume("pickle and torch.save/load reproduce what they are given (observed by the round trips, not proved)",
               "the logical clock ticks once per likelihood call, once per iteration and three times per call of train_proposal inside the sampling loop, and by the down-time between a kill and the next launch; nothing else advances it",
               "a kill is an exception raised inside a likelihood call that nessai does not catch; the next launch uses a fresh Model")
    ctx.trust("harness/c12_tx.py (ast translator; exercised against the real __getstate__ of live objects on every run)",
              "hand-written model Model/Accounts.lean; tie = exact comparison with real runs under the logical clock")
    base = ctx.seed * 1000
    tiles, neural = ins_configs()
    try:
        micro_histories(ctx, ctx.scale(1000, 20000))
        # ---- round trips
        std_list = STD_CONFIGS
        for ci, cfg in enumerate(std_list):
            for s in range(ctx.scale(2, 6)):
                roundtrip_run(ctx, "std", cfg, base + 11 * ci + s + 1, max_resumes=ctx.scale(40, None))
        ins_list = tiles if not ctx.quick else [tiles[0], tiles[1], tiles[3], tiles[4]]
        for ci, cfg in enumerate(ins_list):
            for s in range(ctx.scale(1, 5)):
                c = dict(cfg)
                if (ci + s) % 2 == 1:
                    c["time_trigger"] = 2
                    c["name"] += ":time"
                roundtrip_run(ctx, "ins", c, base + 40 + 7 * ci + s)
        for ci, cfg in enumerate([neural[0], neural[2]] if ctx.quick else neural):
            roundtrip_run(ctx, "ins", cfg, base + 90 + ci)
        # more than 10^4 stored samples: the density tables re-derived on resume come from ONE call over every stored sample;
        # anything that treats a large array differently from a small one (batching with an off-by-one) only shows up here
        # (seeded changes C12-fA / C12-fB)
        big = dict(tiles[1])
        big.update(nlive=3600, levels=3, min_samples=1000, name="tilt-big:logq=0:iid=1:logit")
        roundtrip_run(ctx, "ins", big, base + 97)
        # ---- chains
        nk = ctx.scale(3, 5)
        for ci, cfg in enumerate(STD_CONFIGS):
            for s in range(ctx.scale(3, 10)):
                kills, downs = gen_kills(ctx, "std", cfg, 1 + (ci + s) % nk if ctx.quick else ctx.rng.randrange(1, nk + 1))
                if s == 0:
                    kills, downs = gen_kills(ctx, "std", cfg, nk)
                chain(ctx, "std", cfg, base + 200 + 13 * ci + s, kills, downs)
        for ci, cfg in enumerate(tiles[: ctx.scale(5, 6)]):
            for s in range(ctx.scale(2, 8)):
                c = dict(cfg)
                if (ci + s) % 3 == 2:
                    c["time_trigger"] = 2
                    c["name"] += ":time"
                kills, downs = gen_kills(ctx, "ins", c, 1 + (ci + s) % nk)
                chain(ctx, "ins", c, base + 300 + 5 * ci + s, kills, downs)
        # ---- a signal-handler checkpoint between the resume and the loop entry (standard sampler; the importance
        #      sampler refuses non-periodic checkpoints)
        for k in range(ctx.scale(1, 4)):
            cfg = STD_CONFIGS[(2 + k) % len(STD_CONFIGS)]
            total = calls_seen(ctx).get(("std", cfg["name"]), 600)
            # the first kill lands well inside the run, after several checkpoints
            kills = [int(total * ctx.rng.uniform(0.35, 0.75))] + gen_kills(ctx, "std", cfg, k % 3)[0]
            chain(ctx, "std", cfg, base + 400 + k, kills, [ctx.rng.choice([7, 60, 1000]) for _ in kills], handler_ckpt=True)
        # a signal during the first / second flow training, then a resume
        for k, cfg in enumerate(STD_CONFIGS[: ctx.scale(2, 4)]):
            chain(ctx, "std", cfg, base + 450 + k, [10 ** 9], [ctx.rng.choice([7, 60])], train_signal=1 + k % 2)
        # ---- FlowProposal.resume with a mask that is not a list
        mask_case(ctx, "ndarray")
        mask_case(ctx, "list")
        mask_case(ctx, "augmented")
    finally:
        config.livepoints.reset()


def search(ctx):
    """a tie / proof broke and no failing input is known yet: more seeds, longer chains (time-boxed)"""
    setup()
    from nessai import config
    t_end = time.time() + (60 if ctx.quick else 600)
    tiles, neural = ins_configs()
    k = 0
    try:
        while time.time() < t_end and not ctx.fails:
            k += 1
            seed = 7000 + ctx.seed * 100 + k
            cfg = STD_CONFIGS[k % len(STD_CONFIGS)]
            roundtrip_run(ctx, "std", cfg, seed, max_resumes=25)
            if ctx.fails:
                break
            c = tiles[k % len(tiles)]
            roundtrip_run(ctx, "ins", c, seed)
            if ctx.fails:
                break
            kills, downs = gen_kills(ctx, "std", cfg, 1 + k % 5)
            chain(ctx, "std", cfg, seed + 1, kills, downs)
            kills, downs = gen_kills(ctx, "ins", c, 1 + k % 4)
            chain(ctx, "ins", c, seed + 2, kills, downs)
    finally:
        config.livepoints.reset()


def replay(ctx, obj):
    setup()
    from nessai import config
    c = obj["case"]
    kind = c.get("kind", "")
    try:
        if kind.startswith("roundtrip-"):
            roundtrip_run(ctx, kind.split("-")[1], c["cfg"], c["seed"])
        elif kind.startswith("chain-"):
            chain(ctx, kind.split("-")[1], c["cfg"], c["seed"], c["kills"], c["downs"], handler_ckpt=c.get("handler_ckpt", False))
        elif kind == "mask":
            mask_case(ctx, c.get("mask", "ndarray"))
        elif kind == "micro-history":
            tmp = tempfile.mkdtemp(prefix="c12mi_")
            try:
                with LogicalTime():
                    obs = exec_micro(c["ops"], tmp)
                out = ctx.model([f"acc run 0 {ctx.model(['acc rearm'])[0]} 1 " + ";".join(c["ops"])])[0].split("|")
                spec = py_commit_log(c["ops"])
                for idx, e, lt, stime, cur in obs:
                    m = out[idx].split(",")
                    if (e, lt, stime, cur) != (int(m[1]), int(m[2]), int(m[3]), int(m[4])):
                        ctx.disagree("BaseNestedSampler accounts differ from the Lean model", {**c, "op_index": idx, "real": [e, lt, stime, cur], "model": m[1:5]})
                    if e != spec[idx]["evals"] or lt != spec[idx]["ltime"]:
                        ctx.oracle_fail(obj.get("key", "BaseNestedSampler:likelihood_evaluations-not-cumulative"),
                                        f"counters ({e}, {lt}) differ from the retained ({spec[idx]['evals']}, {spec[idx]['ltime']})", c)
                ctx.case(("micro", tuple(c["ops"])), True, c, kind="micro")
            finally:
                shutil.rmtree(tmp, ignore_errors=True)
        else:
            correspond(ctx)
    finally:
        config.livepoints.reset()
