import NessaiVerif.Model.Term
import NessaiVerif.Gen.Term
import NessaiVerif.Proofs.Term
import NessaiVerif.Proofs.TermLoops
/-
C20 — every algorithmic option runs to completion or is rejected up front.   PARTIAL.

What is proved here
  (1) termination / boundedness of the loops a run depends on, on models of the real loops
      (Model/Term.lean), each under the progress hypothesis that the real code relies on, together
      with the counter-example showing that the hypothesis is needed (the loop has no other guard);
  (2) interface conformance of the post-sampling paths: in the tables generated from the nessai
      sources (Gen/Term.lean) every keyword passed at a call site is accepted by the callee and every
      attribute read is defined in the class hierarchy — EXCEPT the sites listed in
      `knownKwExceptions` / `knownAttrExceptions`, which are proved to be exactly the violations
      (a new non-conforming site, or the repair of a listed one, breaks the theorem).
  (3) where option values are validated: in the table of `raise` statements guarded by an option
      (generated from the sources, classified "upfront" = reachable from the constructors / before the
      live points are drawn, "late" = reachable only once sampling has started) the options tested late
      are exactly `knownLateOptions`.
What is NOT proved:
  * the property's first half as such — "an unacceptable configuration is rejected BEFORE sampling
    starts": (3) only locates the explicit `raise` statements that mention an option; that every bad
    value is caught by one of the up-front sites (rather than by an exception deep inside sampling) is
    checked by the sweep only (invalid-choice runs), not proved;
  * that a complete run with any option (pair) terminates and returns valid results — that is an
    integration sweep on the real code (harness/c20_sweep.py), evidence and failing-input search.
-/
namespace NessaiVerif.C20
open NessaiVerif.Term

/-! ## FlowProposal.populate -/

/-- A batch that is Good (non-empty after the `log_q` truncation, finite maximum log-weight) makes the loop
body accept at least one point — the point attaining the maximum, since `0 > log u` for every `u ∈ [0,1)`. -/
theorem populate_good_batch_progress (N : Nat) (m : Option EF) (u : Nat → Nat → LU) (st : StdState) (b : Batch)
    (hg : isGood m b = true) : st.nAcc + 1 ≤ (stdStep N m u st b).nAcc :=
  stdStep_good N m u st b ((isGood_iff m b).mp hg)

example : 0 + 1 ≤ (stdStep 3 none (fun _ _ => .half 0) {} ⟨2, [⟨1, .fin 0, .fin (-7)⟩, ⟨2, .fin 0, .ninf⟩]⟩).nAcc :=
  populate_good_batch_progress 3 none _ {} _ (by decide)

/-- …and a batch that is NOT Good accepts nothing at all: nothing survives the truncation, or ONE weight is NaN
(then `log_w.max()` is NaN), or the maximum is +∞ (`inf - inf` is NaN, `finite - inf` is −∞) or −∞. -/
theorem populate_not_good_no_progress (N : Nat) (m : Option EF) (u : Nat → Nat → LU) (st : StdState) (b : Batch)
    (hg : isGood m b = false) : (stdStep N m u st b).nAcc = st.nAcc := by
  have hb : ¬ Good m b := by
    intro h; have := (isGood_iff m b).mpr h; rw [hg] at this; cases this
  rw [stdStep_nAcc_eq, batchAcc_zero m u st.calls b hb]; rfl

/-- one NaN among finite weights, and a +∞ maximum: nothing accepted -/
example : (stdStep 3 none (fun _ _ => .ninf) {} ⟨3, [⟨1, .fin 0, .fin 5⟩, ⟨2, .fin 0, .nan⟩, ⟨3, .fin 0, .fin 1⟩]⟩).nAcc = 0 :=
  populate_not_good_no_progress 3 none _ {} _ (by decide)
example : (stdStep 3 none (fun _ _ => .ninf) {} ⟨2, [⟨1, .fin 0, .pinf⟩, ⟨2, .fin 0, .fin 1⟩]⟩).nAcc = 0 :=
  populate_not_good_no_progress 3 none _ {} _ (by decide)

/-- **Exact termination criterion** of the rejection-sampling branch (`accumulate_weights=False`), for ANY stream
of batches: the `while n_accepted < N` loop has ended within the stream iff the batches accept at least `N`
points in total (`stdAccepted`: the sum of the per-batch acceptance counts; only Good batches contribute). -/
theorem populate_terminates_iff (N : Nat) (m : Option EF) (u : Nat → Nat → LU) (bs : List Batch) :
    (populateStd N m u bs {}).isDone = true ↔ N ≤ stdAccepted m u bs 0 := by
  have := populateStd_isDone_iff N m u bs {}
  simpa using this

example : (populateStd 2 none (fun _ _ => .half 0) [⟨1, [⟨1, .fin 0, .nan⟩]⟩, ⟨1, [⟨2, .fin 0, .fin 0⟩]⟩, ⟨1, [⟨3, .fin 0, .fin 4⟩]⟩] {}).isDone = true :=
  (populate_terminates_iff 2 none _ _).mpr (by decide)

/-- only Good batches contribute, and each contributes at least one point -/
theorem populate_accepted_bounds (m : Option EF) (u : Nat → Nat → LU) (bs : List Batch) :
    bs.countP (isGood m) ≤ stdAccepted m u bs 0 ∧
    ((∀ b ∈ bs, isGood m b = false) → stdAccepted m u bs 0 = 0) :=
  ⟨countGood_le_stdAccepted m u bs 0, stdAccepted_zero m u bs 0⟩

example : stdAccepted none (fun _ _ => .ninf) [⟨1, [⟨1, .fin 0, .nan⟩]⟩, ⟨1, [⟨2, .fin 0, .pinf⟩]⟩] 0 = 0 :=
  (populate_accepted_bounds none _ _).2 (by decide)

/-- Sufficient form (partial: it needs the progress hypothesis): if the stream contains at least `N` Good
batches — in any position, interleaved with any other batches — the loop ends with a pool of exactly `N`
points; if ALL batches are Good it ends within `N` batches. -/
theorem populate_terminates_partial (N : Nat) (m : Option EF) (u : Nat → Nat → LU) (bs : List Batch)
    (hlen : N ≤ bs.countP (isGood m)) :
    (populateStd N m u bs {}).isDone = true ∧
    ((∀ b ∈ bs, isGood m b = true) → ∃ s, populateStd N m u bs {} = .done s ∧ s.used ≤ N ∧ s.xs.length = N) := by
  refine ⟨(populate_terminates_iff N m u bs).mpr (Nat.le_trans hlen (countGood_le_stdAccepted m u bs 0)), ?_⟩
  intro hall
  have hl : N ≤ bs.length := Nat.le_trans hlen (List.countP_le_length)
  obtain ⟨s, h, _, h2, h3⟩ := populateStd_done N m u bs {} (fun b hb => (isGood_iff m b).mp (hall b hb))
    (by simpa using hl) (by simp)
  exact ⟨s, h, by simp at h2; omega, h3⟩

example : (populateStd 2 (some (.fin 0)) (fun _ _ => .half 1)
    [⟨3, [⟨1, .fin 1, .fin (-2)⟩, ⟨2, .fin 0, .fin 5⟩, ⟨3, .fin 2, .fin 0⟩]⟩, ⟨3, [⟨4, .fin 1, .nan⟩]⟩,
     ⟨3, [⟨6, .fin 1, .fin 1⟩]⟩] {}).isDone = true :=
  (populate_terminates_partial 2 (some (.fin 0)) _ _ (by decide)).1

example : (match populateStd 2 (some (.fin 0)) (fun _ _ => .half 1)
    [⟨3, [⟨1, .fin 1, .fin (-2)⟩, ⟨2, .fin 0, .fin 5⟩, ⟨3, .fin 2, .fin 0⟩]⟩, ⟨3, [⟨4, .fin 1, .fin (-5)⟩, ⟨5, .fin 1, .fin 0⟩]⟩,
     ⟨3, [⟨6, .fin 1, .fin 1⟩]⟩] {} with | .done s => some (s.xs, s.used) | .spin _ => none) = some ([3, 5], 2) := by
  decide +kernel

/-- The excluded case, in full: the loop has NO guard in this branch.  If NO batch of the stream is Good
the loop is still spinning after any number of batches, with nothing accepted. -/
theorem populate_can_spin (N : Nat) (hN : 1 ≤ N) (m : Option EF) (u : Nat → Nat → LU) (bs : List Batch)
    (hs : ∀ b ∈ bs, isGood m b = false) : (populateStd N m u bs {}).isDone = false := by
  have h0 := stdAccepted_zero m u bs 0 hs
  cases hd : (populateStd N m u bs {}).isDone with
  | false => rfl
  | true => have := (populate_terminates_iff N m u bs).mp hd; omega

/-- a stream mixing the three kinds of useless batch: a single NaN weight, a +∞ maximum, truncated to nothing -/
example : (populateStd 1 (some (.fin 0)) (fun _ _ => .ninf)
    [⟨2, [⟨1, .fin 1, .fin 3⟩, ⟨2, .fin 1, .nan⟩]⟩, ⟨2, [⟨3, .fin 1, .pinf⟩, ⟨4, .fin 1, .fin 0⟩]⟩, ⟨2, [⟨5, .fin 0, .fin 0⟩]⟩] {}).isDone = false :=
  populate_can_spin 1 (by decide) _ _ _ (by decide)

/-- the progress hypothesis of `populate_terminates_partial` cannot be dropped: three all-NaN batches, still spinning -/
theorem populate_terminates_fails_without :
    (match populateStd 1 none (fun _ _ => .ninf) (List.replicate 3 ⟨2, [⟨1, .fin 0, .nan⟩, ⟨2, .fin 0, .nan⟩]⟩) {} with
      | .done _ => none | .spin s => some (s.used, s.nAcc)) = some (3, 0) := by decide +kernel

/-- `FlowProposal.populate`, `accumulate_weights=True`: whatever the weights are (NaN included), if every
batch proposes at least one point and at least one survives the truncation, the `max_samples` guard ends
the loop after at most `max_samples + 1` batches; the pool holds at most `N` points (possibly fewer). -/
theorem populate_accumulate_bounded_partial (N maxS : Nat) (m : Option EF) (u : Nat → Nat → LU) (bs : List Batch)
    (hg : ∀ b ∈ bs, NonEmpty m b) (hlen : maxS + 1 ≤ bs.length) :
    ∃ r, populateAcc N m maxS u bs {} = .done r ∧ r.used ≤ maxS + 1 ∧ r.xs.length ≤ N := by
  obtain ⟨r, h, h1, h2⟩ := populateAcc_done N m maxS u bs {} hg (by simpa using hlen) (by simp)
  exact ⟨r, h, by simpa using h1, h2⟩

example : ∃ r, populateAcc 2 none 1 (fun _ _ => .half 1)
    [⟨3, [⟨1, .fin 0, .nan⟩]⟩, ⟨3, [⟨2, .fin 0, .nan⟩]⟩] {} = .done r ∧ r.used ≤ 1 + 1 ∧ r.xs.length ≤ 2 :=
  populate_accumulate_bounded_partial 2 1 none _ _ (by decide) (by decide)

example : (match populateAcc 2 none 5 (fun _ _ => .half 1)
    [⟨3, [⟨1, .fin 0, .fin 0⟩]⟩, ⟨3, [⟨2, .fin 0, .fin 0⟩, ⟨3, .fin 0, .fin (-1)⟩]⟩] {} with
      | .done r => some r.xs | .spin _ => none) = some [1, 2] := by decide +kernel

/-- …but the `continue` for an empty batch sits BEFORE the `max_samples` test: if the truncation discards
every point of every batch the accumulate branch spins as well, `max_samples` notwithstanding. -/
theorem populate_accumulate_can_spin (N maxS : Nat) (hN : 1 ≤ N) (m : Option EF) (u : Nat → Nat → LU) (bs : List Batch)
    (he : ∀ b ∈ bs, b.items.filter (keep m) = []) :
    ∃ r, populateAcc N m maxS u bs {} = .spin r ∧ r.used = bs.length := by
  obtain ⟨r, h, h1⟩ := populateAcc_spin N m maxS u bs {} he (by simp; omega)
  exact ⟨r, h, by simpa using h1⟩

example : ∃ r, populateAcc 1 (some (.fin 5)) 0 (fun _ _ => .half 0) (List.replicate 4 ⟨10, [⟨1, .fin 0, .fin 0⟩]⟩) {} = .spin r ∧ r.used = 4 :=
  populate_accumulate_can_spin 1 0 (by decide) (some (.fin 5)) _ _ (by decide)

example : (match populateAcc 1 (some (.fin 5)) 0 (fun _ _ => .half 0) (List.replicate 4 ⟨10, [⟨1, .fin 0, .fin 0⟩]⟩) {} with
      | .done _ => none | .spin r => some r.nProp) = some 40 := by decide +kernel

/-! ## ImportanceFlowProposal.draw -/

/-- **Exact termination criterion** of `ImportanceFlowProposal.draw(n)` (n ≥ 1), for ANY stream of batches:
the loop body accepts exactly the points that pass both masks, so `while n_accepted < n` has ended within the
stream iff the stream contains at least `n` such points in total (`okTotal`). -/
theorem ins_draw_terminates_iff (n : Nat) (hn : 1 ≤ n) (bs : List (List (Nat × PK))) :
    (insDraw n bs).isDone = true ↔ n ≤ okTotal bs := by
  have h := insLoop_isDone_iff n (insNDraw_pos n hn) bs {}
  have he : (insDraw n bs).isDone = (insLoop n bs {}).isDone := by
    unfold insDraw; cases insLoop n bs {} <;> rfl
  rw [he, h]; simp

example : (insDraw 3 [[(1, .rej1), (2, .ok)], [(3, .rej2), (4, .rej1)], [(5, .ok), (6, .ok)]]).isDone = true :=
  (ins_draw_terminates_iff 3 (by decide) _).mpr (by decide)
example : (insDraw 3 [[(1, .rej1), (2, .ok)], [(3, .rej2), (4, .rej1)], [(5, .ok), (6, .rej2)]]).isDone = false := by
  have := ins_draw_terminates_iff 3 (by decide) [[(1, .rej1), (2, .ok)], [(3, .rej2), (4, .rej1)], [(5, .ok), (6, .rej2)]]
  cases h : (insDraw 3 [[(1, .rej1), (2, .ok)], [(3, .rej2), (4, .rej1)], [(5, .ok), (6, .rej2)]]).isDone with
  | false => rfl
  | true => exact absurd (this.mp h) (by decide)

/-- Sufficient form (partial: it needs the progress hypothesis): if every batch contains at least one point that
passes both masks, the loop ends after at most `n` batches and returns exactly `n` points. -/
theorem ins_draw_terminates_partial (n : Nat) (bs : List (List (Nat × PK))) (hg : ∀ b ∈ bs, HasOk b)
    (hlen : n ≤ bs.length) : ∃ xs used, insDraw n bs = .done (xs, used) ∧ used ≤ n ∧ xs.length = n := by
  obtain ⟨s, h, hu, hn, hl⟩ := insLoop_done n bs {} hg (by simpa using hlen) rfl
  refine ⟨s.xs.take n, s.used, by simp [insDraw, h], by simp at hu; omega, ?_⟩
  rcases hn with hn | hn
  · simp [List.length_take, hl]; omega
  · have : n = 0 := by unfold insNDraw at hn; omega
    subst this; simp

example : ∃ xs used, insDraw 2 [[(1, .rej1), (2, .ok)], [(3, .ok), (4, .rej1)], [(5, .ok), (6, .ok)]] = .done (xs, used)
    ∧ used ≤ 2 ∧ xs.length = 2 :=
  ins_draw_terminates_partial 2 _ (by decide) (by decide)

example : insDraw 2 [[(1, .rej1), (2, .ok)], [(3, .rej2), (4, .rej1)], [(5, .ok), (6, .ok)]] = .done ([2, 5], 3) := by
  decide +kernel

/-- `draw(0)`: `n_draw = int(1.01·0) = 0`, the loop is not entered and nothing is drawn. -/
theorem ins_draw_zero (bs : List (List (Nat × PK))) : insDraw 0 bs = .done ([], 0) := by
  cases bs <;> simp [insDraw, insLoop]

/-- The excluded case: no iteration limit exists; if no point of any batch passes both masks, the loop
is still running after any number of batches. -/
theorem ins_draw_can_spin (n : Nat) (hn : 1 ≤ n) (bs : List (List (Nat × PK))) (hb : ∀ b ∈ bs, NoOk b) :
    ∃ xs, insDraw n bs = .spin (xs, bs.length) := by
  obtain ⟨s, h, hu, _⟩ := insLoop_spin n bs {} hb (by simp; omega) (insNDraw_pos n hn)
  exact ⟨s.xs.take n, by simp [insDraw, h, hu]⟩

example : ∃ xs, insDraw 2 [[(1, .rej1), (2, .rej2)], [(3, .rej2)], []] = .spin (xs, 3) :=
  ins_draw_can_spin 2 (by decide) _ (by decide)

/-- the hypothesis of `ins_draw_terminates_partial` cannot be dropped -/
theorem ins_draw_terminates_fails_without :
    insDraw 1 (List.replicate 5 [(1, .rej1), (2, .rej2)]) = .spin ([], 5) := by decide +kernel

/-! ## FlowModel.check_batch_size -/

/-- `check_batch_size` always terminates: the `while True` loop decreases the batch size and raises at
`batch_size < 2`, so the model's fuel (`batch_size + 1` iterations) is never exhausted — for every length,
batch size (negative ones included) and fraction. -/
theorem check_batch_size_terminates (len : Nat) (b : Int) (num den : Nat) :
    checkBatchSize len b num den ≠ .error .fuel := by
  unfold checkBatchSize
  split
  · simp
  · split
    · simp
    · simp only []
      split
      · exact cbsLoop_no_fuel _ _ _ _ (by omega) (by omega)
      · simp

/-- post-condition: a returned batch size is either the requested one (already acceptable) or a smaller
one, at least 2, whose final batch is empty, or has at least `min_batch_size` points, or (once at/below
`min_batch_size`) more than one point. -/
theorem check_batch_size_post (len : Nat) (b r : Int) (num den : Nat)
    (h : checkBatchSize len b num den = .ok r) :
    (r = b ∧ ¬ (Int.fmod len b ≠ 0 ∧ Int.fmod len b < minBatch num den b)) ∨
    (2 ≤ r ∧ r < b ∧ (Int.fmod len r = 0 ∨ minBatch num den b ≤ Int.fmod len r ∨
      (r ≤ minBatch num den b ∧ 1 < Int.fmod len r))) := by
  unfold checkBatchSize at h
  split at h
  · cases h
  · split at h
    · cases h
    · simp only [] at h
      split at h
      · right; exact cbsLoop_post _ _ _ _ _ h
      · rename_i hc
        injection h with h; subst h
        left; exact ⟨rfl, hc⟩

/-- the guarantee the training loop relies on (batch normalisation needs two samples): an accepted batch size never
leaves a final batch of exactly one sample — for every length, requested batch size and fraction.  (False before the
`fix:` of F57: `check_batch_size(21 samples, 10)` returned 10, final batch 1, and the importance sampler's flow
collapsed so that `ImportanceFlowProposal.draw` never returned.) -/
theorem check_batch_size_final_ne_one (len : Nat) (b r : Int) (num den : Nat)
    (h : checkBatchSize len b num den = .ok r) : Int.fmod len r ≠ 1 := by
  have hm : (2 : Int) ≤ minBatch num den b := by unfold minBatch; omega
  rcases check_batch_size_post len b r num den h with ⟨rfl, hc⟩ | ⟨_, _, h0 | h1 | h2⟩
  · intro h1
    apply hc
    omega
  · omega
  · omega
  · omega

example : (checkBatchSize 21 10 1 10).toOption = some 9 ∧ Int.fmod (21 : Nat) 9 = 3 := by decide +kernel

/-- applied: batch size 1000 on 1005 points is lowered to 905 (final batch of exactly min_batch_size = 100 points) -/
example :
    ((905 : Int) = 1000 ∧ ¬ (Int.fmod (1005 : Nat) 1000 ≠ 0 ∧ Int.fmod (1005 : Nat) 1000 < minBatch 1 10 1000)) ∨
    ((2 : Int) ≤ 905 ∧ (905 : Int) < 1000 ∧ (Int.fmod (1005 : Nat) 905 = 0 ∨ minBatch 1 10 1000 ≤ Int.fmod (1005 : Nat) 905 ∨
      ((905 : Int) ≤ minBatch 1 10 1000 ∧ 1 < Int.fmod (1005 : Nat) 905))) :=
  check_batch_size_post 1005 1000 905 1 10 (by
    have ht : (checkBatchSize 1005 1000 1 10).toOption = some 905 := by decide +kernel
    cases h : checkBatchSize 1005 1000 1 10 with
    | ok r => rw [h] at ht; simp [Except.toOption] at ht; rw [ht]
    | error e => rw [h] at ht; simp [Except.toOption] at ht)

example : (checkBatchSize 1005 1000 1 10).toOption = some 905 ∧ (checkBatchSize 1005 100 1 10).toOption = some 99 ∧
    (checkBatchSize 7 1 1 10).toOption = none ∧ (checkBatchSize 3 2 1 1).toOption = none := by decide +kernel

/-! ## draw_final_samples -/

/-- batch-size halving of `draw_final_samples` terminates (the fuel `batch_size + 1` is never exhausted) -/
theorem batch_halving_terminates (b : Nat) (mx : Int) : halve b mx ≠ some none :=
  halveLoop_no_fuel mx (b + 1) b (by omega)

/-- …its post-condition: the batch size returned does not exceed `max_batch_size` (nor the initial one);
the RuntimeError is raised only for `max_batch_size < 1`, i.e. for `max_batch_size ≥ 1` a batch size is found. -/
theorem batch_halving_post (b : Nat) (mx : Int) :
    (∀ r, halve b mx = some (some r) → (r : Int) ≤ mx ∧ r ≤ b) ∧ (halve b mx = none → mx < 1) ∧
    (1 ≤ mx → ∃ r, halve b mx = some (some r)) := by
  refine ⟨fun r h => halveLoop_post mx _ b r h, fun h => halveLoop_err mx _ b h, fun h1 => ?_⟩
  cases hh : halve b mx with
  | none => have := halveLoop_err mx _ b hh; omega
  | some o =>
    cases o with
    | none => exact absurd hh (batch_halving_terminates b mx)
    | some r => exact ⟨r, rfl⟩

example : ∃ r, halve 105000 20000 = some (some r) := (batch_halving_post 105000 20000).2.2 (by decide)
example : ((13125 : Nat) : Int) ≤ 20000 ∧ 13125 ≤ 105000 := (batch_halving_post 105000 20000).1 13125 (by decide +kernel)

example : halve (finalBatch0 100000) 20000 = some (some 13125) ∧ halve 5 0 = none ∧ halve 0 0 = some (some 0) := by
  decide +kernel

/-- the redraw loop of `draw_final_samples` performs at most `max_its` iterations, whatever the flows
return and whatever the ESS does (for `max_its ≤ 0` it performs none). -/
theorem draw_final_bounded (cfg : FinalCfg) (s : List (Nat × Nat)) (hlen : cfg.maxIts.toNat ≤ s.length) :
    (finalLoop cfg s {}).1 ≠ .fuel ∧ (finalLoop cfg s {}).2.it ≤ cfg.maxIts.toNat := by
  have := finalLoop_bounded cfg s {} (by simpa using hlen)
  exact ⟨this.1, by have := this.2; simp at this; omega⟩

example : (finalLoop ⟨some 10, 50, 3, some 100⟩ [(20, 7), (20, 15), (20, 19), (20, 40)] {}).1 ≠ .fuel ∧
    (finalLoop ⟨some 10, 50, 3, some 100⟩ [(20, 7), (20, 15), (20, 19), (20, 40)] {}).2.it ≤ (3 : Int).toNat :=
  draw_final_bounded ⟨some 10, 50, 3, some 100⟩ _ (by decide)

example : finalLoop ⟨some 10, 50, 3, some 100⟩ [(20, 7), (20, 15), (20, 19), (20, 40)] {} =
    (.maxIts, { it := 3, size := 60, ess2 := 19 }) := by decide +kernel

/-! ## populate_live_points of both samplers -/

/-- `NestedSampler.populate_live_points`: a drawn point is stored iff its log-prior and its (possibly
re-evaluated) log-likelihood are finite — the nested guards of `yield_sample`/`populate_live_points`
amount to exactly that. -/
theorem ns_live_stored_iff (c : Cand) : candStored c = (c.logP.isFinite && (candL c).isFinite) :=
  candStored_iff c

/-- **Exact termination criterion** of `NestedSampler.populate_live_points`, for ANY stream of proposal draws:
it has ended within the stream iff the stream contains at least `nlive` points that get stored. -/
theorem ns_live_terminates_iff (nlive : Nat) (cs : List Cand) :
    (nsLive nlive cs {}).isDone = true ↔ nlive ≤ cs.countP candStored := by
  have := nsLive_isDone_iff nlive cs {}
  simpa using this

example : (nsLive 1 [⟨1, .fin 0, .nan, .fin 1, true⟩, ⟨2, .pinf, .fin 1, .fin 1, true⟩, ⟨3, .fin 0, .fin 0, .fin 2, true⟩] {}).isDone = true :=
  (ns_live_terminates_iff 1 _).mpr (by decide)

/-- …so it ends as soon as `nlive` such points have been drawn, with exactly `nlive` live points. -/
theorem ns_live_terminates_partial (nlive : Nat) (cs : List Cand) (h : nlive ≤ cs.countP candStored) :
    ∃ s, nsLive nlive cs {} = .done s ∧ s.ids.length = nlive ∧ s.draws ≤ cs.length := by
  obtain ⟨s, hs, _, h2, h3⟩ := nsLive_done nlive cs {} (by simpa using h) rfl (by simp)
  exact ⟨s, hs, h2, by simpa using h3⟩

example : ∃ s, nsLive 2 [⟨1, .fin 0, .nan, .fin 1, true⟩, ⟨2, .fin 0, .fin 0, .fin (-3), true⟩, ⟨3, .ninf, .fin 1, .fin 1, false⟩,
    ⟨4, .fin (-1), .fin (-2), .nan, true⟩] {} = .done s ∧ s.ids.length = 2 ∧ s.draws ≤ 4 :=
  ns_live_terminates_partial 2 _ (by decide)

example : (match nsLive 2 [⟨1, .fin 0, .nan, .fin 1, true⟩, ⟨2, .fin 0, .fin 0, .fin (-3), true⟩, ⟨3, .ninf, .fin 1, .fin 1, false⟩,
    ⟨4, .fin (-1), .fin (-2), .nan, true⟩] {} with | .done s => some (s.ids, s.draws) | .spin _ => none) = some ([2, 4], 4) := by
  decide +kernel

/-- The excluded case: there is no limit on the number of draws; a proposal (or likelihood) that never
yields a finite point keeps `populate_live_points` running for ever. -/
theorem ns_live_can_spin (nlive : Nat) (hn : 1 ≤ nlive) (cs : List Cand) (h : ∀ c ∈ cs, candStored c = false) :
    ∃ s, nsLive nlive cs {} = .spin s ∧ s.draws = cs.length := by
  obtain ⟨s, hs, _, h2⟩ := nsLive_spin nlive cs {} h (by simp; omega)
  exact ⟨s, hs, by simpa using h2⟩

example : ∃ s, nsLive 1 [⟨1, .fin 0, .nan, .fin 1, true⟩, ⟨2, .ninf, .fin 1, .fin 1, false⟩, ⟨3, .fin 0, .fin 0, .pinf, true⟩] {} = .spin s
    ∧ s.draws = 3 := ns_live_can_spin 1 (by decide) _ (by decide)

/-- **Exact termination criterion** of `ImportanceNestedSampler.populate_live_points`, for ANY stream of prior
batches: it has ended within the stream iff the batches contain at least `target` finite-prior points in total. -/
theorem ins_live_terminates_iff (target : Nat) (bs : List (List (Nat × Bool))) :
    (insLive target bs {}).isDone = true ↔ target ≤ finiteTotal bs := by
  have := insLive_isDone_iff target bs {} (by simp)
  simpa using this

example : (insLive 3 [[(1, true), (2, false)], [], [(3, true), (4, true)]] {}).isDone = true :=
  (ins_live_terminates_iff 3 _).mpr (by decide)

/-- Sufficient form: if every batch of prior draws contains a point with a finite log-prior, the
`while n < target` loop ends after at most `target` batches with `target` points. -/
theorem ins_live_terminates_partial (target : Nat) (bs : List (List (Nat × Bool))) (hg : ∀ b ∈ bs, HasFinite b)
    (hlen : target ≤ bs.length) :
    ∃ s, insLive target bs {} = .done s ∧ s.ids.length = target ∧ s.used ≤ target := by
  obtain ⟨s, hs, _, h2, h3⟩ := insLive_done target bs {} hg (by simpa using hlen) rfl (by simp)
  exact ⟨s, hs, h2, by simpa using h3⟩

example : ∃ s, insLive 2 [[(1, true), (2, false), (3, true)], [(4, true), (5, true), (6, true)]] {} = .done s ∧
    s.ids.length = 2 ∧ s.used ≤ 2 := ins_live_terminates_partial 2 _ (by decide) (by decide)

example : (match insLive 3 [[(1, true), (2, false), (3, true)], [(4, true), (5, true), (6, true)]] {} with
    | .done s => some (s.ids, s.used) | .spin _ => none) = some ([1, 3, 4], 2) := by decide +kernel

/-- The excluded case: a prior that is never finite on the unit hypercube keeps it running for ever. -/
theorem ins_live_can_spin (target : Nat) (ht : 1 ≤ target) (bs : List (List (Nat × Bool)))
    (hb : ∀ b ∈ bs, ∀ p ∈ b, p.2 = false) : ∃ s, insLive target bs {} = .spin s ∧ s.used = bs.length := by
  obtain ⟨s, hs, _, h2⟩ := insLive_spin target bs {} hb (by simp; omega)
  exact ⟨s, hs, by simpa using h2⟩

example : ∃ s, insLive 2 [[(1, false), (2, false)], [(3, false)]] {} = .spin s ∧ s.used = 2 :=
  ins_live_can_spin 2 (by decide) _ (by decide)

/-! ## interface conformance of the post-sampling paths (tables generated from the sources) -/

/-- KNOWN non-conforming call sites (caller, callee, keyword), each a genuine defect of the pinned tree:
  * `train_final_flow=True`: `FlowModel(config=…)` — no such keyword (TypeError after the last iteration)
      finding `ImportanceNestedSampler.train_final_flow:TypeError-after-sampling`; the same method then calls
      `_INSIntegralState(normalised=False)`, which takes no argument;
  * `bootstrap=True`: `proposal.draw(…, update_counts=False)`
      finding `ImportanceNestedSampler.bootstrap:AttributeError-after-sampling`. -/
def knownKwExceptions : List (String × String × String) := [
  ("ImportanceNestedSampler.train_final_flow", "FlowModel", "config"),
  ("ImportanceNestedSampler.train_final_flow", "_INSIntegralState", "normalised"),
  ("ImportanceNestedSampler.adjust_final_samples", "ImportanceFlowProposal.draw", "update_counts")]

/-- KNOWN reads of attributes that are defined nowhere (caller, class, attribute):
  * `bootstrap=True`: `self.proposal.n_requested`   (finding `…bootstrap:AttributeError-after-sampling`)
  * `redraw_samples=True, optimise_weights=True`: `self.imp_post`, then `self._log_q_ns`
      (finding `ImportanceNestedSampler.draw_final_samples:optimise_weights-undefined-attribute`)
  * `redraw_samples=True` (every value of the other options): `self.proposal.unnormalised_weights`, and with
      `use_counts=True` also `self.proposal.normalisation_constant`
      (finding `ImportanceNestedSampler.draw_final_samples:redraw_samples-undefined-attribute`)
  * `add_level_post_sampling` calls three methods that do not exist (public method, reached by no option)
  * `plot_extra_state=True`: `self.checkpoint_iterations` (a plotting option: the value lives in `self.history`). -/
def knownAttrExceptions : List (String × String × String) := [
  ("ImportanceNestedSampler.adjust_final_samples", "ImportanceFlowProposal", "n_requested"),
  ("ImportanceNestedSampler.draw_final_samples", "ImportanceNestedSampler", "imp_post"),
  ("ImportanceNestedSampler.draw_final_samples", "ImportanceNestedSampler", "_log_q_ns"),
  ("ImportanceNestedSampler.draw_final_samples", "ImportanceFlowProposal", "unnormalised_weights"),
  ("ImportanceNestedSampler.draw_final_samples", "ImportanceFlowProposal", "normalisation_constant"),
  ("ImportanceNestedSampler.add_level_post_sampling", "ImportanceNestedSampler", "update_live_points"),
  ("ImportanceNestedSampler.add_level_post_sampling", "ImportanceNestedSampler", "update_nested_samples"),
  ("ImportanceNestedSampler.add_level_post_sampling", "ImportanceNestedSampler", "add_to_nested_samples"),
  ("ImportanceNestedSampler.plot_extra_state", "ImportanceNestedSampler", "checkpoint_iterations")]

/-- meaning of the violation list, for ANY table: a keyword of a call site that is not reported is accepted
by the callee (it is one of its parameters, or the callee takes `**kwargs`). -/
theorem kw_violations_sound (t : List CallSite) (s : CallSite) (hs : s ∈ t) (k : String) (hk : k ∈ s.kwargs)
    (h : (s.caller, s.callee, k) ∉ kwViolations t) : s.varkw = true ∨ k ∈ s.posParams ∨ k ∈ s.kwonly := by
  cases hvk : s.varkw with
  | true => exact Or.inl rfl
  | false =>
    right
    apply Classical.byContradiction
    intro hc
    apply h
    have hmem : k ∈ s.kwargs.filter (fun k => !(s.posParams.contains k || s.kwonly.contains k)) := by
      rw [List.mem_filter]
      refine ⟨hk, ?_⟩
      have h1 : k ∉ s.posParams := fun hm => hc (Or.inl hm)
      have h2 : k ∉ s.kwonly := fun hm => hc (Or.inr hm)
      simp [h1, h2]
    unfold kwViolations
    rw [List.mem_flatMap]
    refine ⟨s, hs, ?_⟩
    unfold siteViolations
    simp only [hvk, Bool.false_eq_true, if_false]
    rw [List.mem_map]
    exact ⟨k, List.mem_append.mpr (Or.inl (List.mem_append.mpr (Or.inl hmem))), rfl⟩

/-- meaning of the attribute violation list, for ANY table: an attribute read that is not reported is
defined in the class hierarchy of the object it is read from. -/
theorem attr_violations_sound (d : List (String × List String)) (t : List AttrRead) (r : AttrRead) (hr : r ∈ t)
    (h : (r.caller, r.cls, r.attr) ∉ attrViolations d t) : attrDefined d r.cls r.attr = true := by
  apply Classical.byContradiction
  intro hc
  apply h
  unfold attrViolations
  rw [List.mem_map]
  exact ⟨r, List.mem_filter.mpr ⟨hr, by simpa using hc⟩, rfl⟩

/-- In the tables generated from the current sources the violations of the call-site table are exactly
`knownKwExceptions` (both inclusions, decided by evaluation). -/
theorem kwargs_table_exact :
    (kwViolations Gen.Term.callSites).all (knownKwExceptions.contains ·) = true ∧
    knownKwExceptions.all ((kwViolations Gen.Term.callSites).contains ·) = true := by
  constructor <;> decide +kernel

/-- …and those of the attribute table are exactly `knownAttrExceptions`. -/
theorem attrs_table_exact :
    (attrViolations Gen.Term.definedAttrs Gen.Term.attrReads).all (knownAttrExceptions.contains ·) = true ∧
    knownAttrExceptions.all ((attrViolations Gen.Term.definedAttrs Gen.Term.attrReads).contains ·) = true := by
  constructor <;> decide +kernel

/-- **Keyword conformance of the post-sampling paths** (partial: up to the listed known defects).  Every
keyword passed at a resolved call site of the methods reachable after sampling is accepted by the callee,
except the listed sites. -/
theorem kwargs_conform_partial (s : CallSite) (hs : s ∈ Gen.Term.callSites) (k : String) (hk : k ∈ s.kwargs)
    (hx : (s.caller, s.callee, k) ∉ knownKwExceptions) : s.varkw = true ∨ k ∈ s.posParams ∨ k ∈ s.kwonly := by
  apply kw_violations_sound Gen.Term.callSites s hs k hk
  intro hm
  have := List.all_eq_true.mp kwargs_table_exact.1 _ hm
  exact hx (by simpa [List.contains_eq_mem] using this)

/-- **Attribute definedness on the post-sampling paths** (partial: up to the listed known defects).  Every
attribute read on `self` or on an object of known class in those methods is assigned somewhere in the
class hierarchy (or is a method / property / class attribute), except the listed reads. -/
theorem attrs_defined_partial (r : AttrRead) (hr : r ∈ Gen.Term.attrReads)
    (hx : (r.caller, r.cls, r.attr) ∉ knownAttrExceptions) :
    attrDefined Gen.Term.definedAttrs r.cls r.attr = true := by
  apply attr_violations_sound Gen.Term.definedAttrs Gen.Term.attrReads r hr
  intro hm
  have := List.all_eq_true.mp attrs_table_exact.1 _ hm
  exact hx (by simpa [List.contains_eq_mem] using this)

/-- applied to a concrete table: the keyword `x` of the site is not reported, hence accepted -/
example : (false = true) ∨ "x" ∈ ["a", "x"] ∨ "x" ∈ ([] : List String) :=
  kw_violations_sound [⟨"A.f", "B.g", 1, false, ["x", "bad"], ["a", "x"], [], ["a"], false, false⟩]
    ⟨"A.f", "B.g", 1, false, ["x", "bad"], ["a", "x"], [], ["a"], false, false⟩ (by decide) "x" (by decide) (by decide)

example : attrDefined [("C", ["a", "b"])] "C" "b" = true :=
  attr_violations_sound [("C", ["a", "b"])] [⟨"C.f", "C", "b"⟩, ⟨"C.f", "C", "zz"⟩] ⟨"C.f", "C", "b"⟩ (by decide) (by decide)

/-- the hypotheses of the two conformance theorems are met by the current tables, and they apply to every row -/
example : (∃ s ∈ Gen.Term.callSites, ∃ k ∈ s.kwargs, (s.caller, s.callee, k) ∉ knownKwExceptions) ∧
    (∃ r ∈ Gen.Term.attrReads, (r.caller, r.cls, r.attr) ∉ knownAttrExceptions) := by
  constructor <;> decide +kernel
example : ∀ s ∈ Gen.Term.callSites, ∀ k ∈ s.kwargs, (s.caller, s.callee, k) ∉ knownKwExceptions →
    (s.varkw = true ∨ k ∈ s.posParams ∨ k ∈ s.kwonly) := fun s hs k hk hx => kwargs_conform_partial s hs k hk hx
example : ∀ r ∈ Gen.Term.attrReads, (r.caller, r.cls, r.attr) ∉ knownAttrExceptions →
    attrDefined Gen.Term.definedAttrs r.cls r.attr = true := fun r hr hx => attrs_defined_partial r hr hx

/-- non-vacuity: the tables are not empty and contain conforming sites with keywords -/
example : 100 ≤ Gen.Term.callSites.length ∧ 300 ≤ Gen.Term.attrReads.length ∧
    (Gen.Term.callSites.filter (fun s => !s.kwargs.isEmpty && (siteViolations s).isEmpty)).length ≥ 20 := by
  decide +kernel

/-- the table check is not vacuous: a site passing an unknown keyword is reported -/
example : kwViolations [⟨"A.f", "B.g", 1, false, ["x", "bad"], ["a", "x"], [], ["a"], false, false⟩] = [("A.f", "B.g", "bad")] := by
  decide +kernel

/-! ## where option values are validated (table of `raise` sites generated from the sources)

This is NOT the property's first half ("every unacceptable configuration is rejected before sampling starts"):
it only classifies the explicit `raise` statements whose guarding condition mentions an option. -/

/-- Options tested by a `raise` that is reachable ONLY once sampling has started (the sampling loops, the run
methods, and for the importance sampler `proposal.initialise()`, which runs after the live points are drawn):
  * `threshold_method`, `reparameterisation` (importance sampler): unknown values rejected at the first iteration /
      in `proposal.initialise()` — findings `…threshold_method=<unknown>…`, `…reparameterisation=<unknown>…`;
  * `posterior_sampling_method`, `result_extension`: unknown values rejected after sampling has FINISHED
      (`draw_posterior_samples`, `save_results`);
  * `batch_size`: `1` / a non-integer is rejected at the first training (`check_batch_size`, `prep_data`);
  * `n_draw`+`n_posterior_samples`, `optimisation_method`/`optimise_weights`: argument checks inside `draw_final_samples`;
  * `trace_parameters`: unknown parameter names rejected by `plot_trace`;
  * `weighted_kl`, `strict_threshold`, `nlive`: internal consistency checks whose condition happens to mention
      the option (not a validation of its value). -/
def knownLateOptions : List String :=
  ["threshold_method", "reparameterisation", "posterior_sampling_method", "result_extension", "batch_size",
   "n_draw", "n_posterior_samples", "optimisation_method", "optimise_weights", "trace_parameters",
   "weighted_kl", "strict_threshold", "nlive"]

/-- meaning of `lateOptions`, for ANY table: an option tested by a late site is in the list -/
theorem late_options_sound (t : List RaiseSite) (r : RaiseSite) (hr : r ∈ t) (hp : r.phase = "late")
    (o : String) (ho : o ∈ r.options) : o ∈ lateOptions t := by
  unfold lateOptions
  rw [List.mem_flatMap]
  exact ⟨r, List.mem_filter.mpr ⟨hr, by simp [hp]⟩, ho⟩

example : "b" ∈ lateOptions [⟨"upfront", "A.__init__", "ValueError", ["a"]⟩, ⟨"late", "A.run", "ValueError", ["b", "c"]⟩] :=
  late_options_sound _ ⟨"late", "A.run", "ValueError", ["b", "c"]⟩ (by decide) rfl "b" (by decide)

/-- In the table generated from the current sources, the options tested late are exactly `knownLateOptions`
(both inclusions): a new `raise` on an option in code that runs only after sampling started — or the move of a
listed one to the constructors — breaks this obligation. -/
theorem late_validation_exact :
    (lateOptions Gen.Term.raiseSites).all (knownLateOptions.contains ·) = true ∧
    knownLateOptions.all ((lateOptions Gen.Term.raiseSites).contains ·) = true := by
  constructor <;> decide +kernel

/-- **Validation sites** (partial): every `raise` statement of the table that tests an option outside
`knownLateOptions` is reachable up front (from the constructors of FlowSampler / the samplers / their proposals,
or from `NestedSampler.initialise`, i.e. before the live points are drawn). -/
theorem validation_sites_upfront_partial (r : RaiseSite) (hr : r ∈ Gen.Term.raiseSites)
    (o : String) (ho : o ∈ r.options) (hx : o ∉ knownLateOptions) : r.phase ≠ "late" := by
  intro hp
  have hm := late_options_sound Gen.Term.raiseSites r hr hp o ho
  have := List.all_eq_true.mp late_validation_exact.1 _ hm
  exact hx (by simpa [List.contains_eq_mem] using this)

/-- applied: the hypotheses are met by the current table (e.g. `latent_prior`, `stopping_criterion`, `ftype`
are tested by up-front sites only) and the theorem applies to every row -/
example : ∃ r ∈ Gen.Term.raiseSites, ∃ o ∈ r.options, o ∉ knownLateOptions := by decide +kernel
example : ∀ r ∈ Gen.Term.raiseSites, ∀ o ∈ r.options, o ∉ knownLateOptions → r.phase ≠ "late" :=
  fun r hr o ho hx => validation_sites_upfront_partial r hr o ho hx
example : 10 ≤ (Gen.Term.raiseSites.filter (fun r => r.phase != "late")).length := by decide +kernel

end NessaiVerif.C20
