import NessaiVerif.Model.Accounts
import NessaiVerif.Model.AccountsTables
/-
C12 — helper lemmas: the invariant that links the code-shaped account state (`St`: counters that restart at 0 in a
fresh process and are re-seeded with `+=` from the pickle, a sampling clock whose start is re-armed at the loop entry)
with the commit log (`Log`), preserved by every step.
-/
namespace NessaiVerif.Accounts

theorem sumE_append (a b) : sumE (a ++ b) = sumE a + sumE b := by simp [sumE, List.map_append, List.sum_append]
theorem sumT_append (a b) : sumT (a ++ b) = sumT a + sumT b := by simp [sumT, List.map_append, List.sum_append]
theorem sumL_append (a b) : sumL (a ++ b) = sumL a + sumL b := by simp [sumL, List.map_append, List.sum_append]
@[simp] theorem sumE_nil : sumE [] = 0 := rfl
@[simp] theorem sumT_nil : sumT [] = 0 := rfl
@[simp] theorem sumL_nil : sumL [] = 0 := rfl
@[simp] theorem sumE_single (e t l) : sumE [(e, t, l)] = e := by simp [sumE]
@[simp] theorem sumT_single (e t l) : sumT [(e, t, l)] = t := by simp [sumT]
@[simp] theorem sumL_single (e t l) : sumL [(e, t, l)] = l := by simp [sumL]

/-- The counters part of the invariant (needs only a fresh model on every resume). -/
structure InvC (s : St) (l : Log) : Prop where
  alive : l.alive = s.alive
  inLoop : l.inLoop = s.inLoop
  dead : s.alive = false → s.inLoop = false
  noFile : s.file = none → l.committed = []
  fileE : ∀ sv, s.file = some sv → sv.evals = sumE l.committed ∧ sv.ltime = sumL l.committed
  liveE : s.alive = true → s.mEvals = sumE l.committed + sumE l.pending
  liveL : s.alive = true → s.mLtime = sumL l.committed + sumL l.pending

/-- The sampling-time part (needs the loop to re-arm the start and every checkpoint to be written inside the loop). -/
structure InvT (s : St) (l : Log) : Prop where
  fileT : ∀ sv, s.file = some sv → sv.stime = sumT l.committed
  liveS : s.alive = true → s.stime = sumT l.committed
  liveP : s.alive = true → s.inLoop = true → s.start ≤ s.clock ∧ s.clock - s.start = sumT l.pending
  preP : s.alive = true → s.inLoop = false → sumT l.pending = 0

/-- The weaker sampling-time invariant that needs neither (stale start, checkpoints anywhere). -/
structure InvTle (s : St) (l : Log) : Prop where
  fileT : ∀ sv, s.file = some sv → sumT l.committed ≤ sv.stime ∧ sv.start ≤ s.clock
  liveS : s.alive = true → sumT l.committed ≤ s.stime
  liveP : s.alive = true → s.start ≤ s.clock ∧ sumT l.pending ≤ s.clock - s.start
  preP : s.alive = true → s.inLoop = false → sumT l.pending = 0

theorem invC_init : InvC {} {} := by constructor <;> simp
theorem invT_init : InvT {} {} := by constructor <;> simp
theorem invTle_init : InvTle {} {} := by constructor <;> simp

theorem invC_step (c : Cfg) (hf : c.freshModel = true) (s : St) (l : Log) (op : Op) (h : InvC s l) :
    InvC (step c s op) (logStep l op) := by
  obtain ⟨ha, hi, hd, hn, hfe, hle, hll⟩ := h
  cases op with
  | resume =>
    cases hfile : s.file with
    | none =>
      have hc := hn hfile
      constructor <;> simp [step, logStep, hfile, hf, hc]
    | some sv =>
      have ⟨h1, h2⟩ := hfe sv hfile
      constructor <;> simp [step, logStep, hfile, hf, h1, h2]
  | enterLoop =>
    cases hal : s.alive <;> cases hil : s.inLoop <;>
      (constructor <;> simp_all [step, logStep])
  | run e t lt =>
    cases hal : s.alive with
    | true =>
      have h1 := hle hal
      have h2 := hll hal
      constructor
      · simp [step, logStep, hal, ha]
      · simp [step, logStep, hal, ha, hi]
      · simp [step, hal]
      · intro hfile; simp [step, hal] at hfile; simp [logStep, ha, hal, hn hfile]
      · intro sv hfile; simp [step, hal] at hfile; simpa [logStep, ha, hal] using hfe sv hfile
      · intro _; simp [step, logStep, hal, ha, sumE_append, h1]; omega
      · intro _; simp [step, logStep, hal, ha, sumL_append, h2]; omega
    | false => constructor <;> simp_all [step, logStep]
  | checkpoint =>
    cases hal : s.alive with
    | true =>
      have h1 := hle hal
      have h2 := hll hal
      constructor
      · simp [step, logStep, hal, ha]
      · simp [step, logStep, hal, ha, hi]
      · simp [step, hal]
      · intro hfile; simp [step, hal] at hfile
      · intro sv hfile
        simp [step, hal] at hfile
        subst hfile
        simp [logStep, ha, hal, sumE_append, sumL_append, h1, h2]
      · intro _; simp [step, logStep, hal, ha, sumE_append, h1]
      · intro _; simp [step, logStep, hal, ha, sumL_append, h2]
    | false => constructor <;> simp_all [step, logStep]
  | kill =>
    constructor
    · simp [step, logStep]
    · simp [step, logStep]
    · simp [step]
    · intro hfile; simp [step] at hfile; simpa [logStep] using hn hfile
    · intro sv hfile; simp [step] at hfile; simpa [logStep] using hfe sv hfile
    · simp [step]
    · simp [step]
  | down d =>
    cases hal : s.alive <;> (constructor <;> simp_all [step, logStep])

theorem invT_step (c : Cfg) (hr : c.resetStart = true) (s : St) (l : Log) (op : Op)
    (hck : op = Op.checkpoint → s.alive = true → s.inLoop = true)
    (hc : InvC s l) (h : InvT s l) : InvT (step c s op) (logStep l op) := by
  obtain ⟨ha, hi, hd, hn, _, _, _⟩ := hc
  obtain ⟨hft, hls, hlp, hpp⟩ := h
  cases op with
  | resume =>
    cases hfile : s.file with
    | none =>
      have hcm := hn hfile
      constructor <;> simp [step, logStep, hfile, hcm]
    | some sv =>
      have h1 := hft sv hfile
      constructor <;> simp [step, logStep, hfile, h1]
  | enterLoop =>
    cases hal : s.alive with
    | false => constructor <;> simp_all [step, logStep]
    | true =>
      cases hil : s.inLoop with
      | true => constructor <;> simp_all [step, logStep]
      | false =>
        have h0 := hpp hal hil
        have h1 := hls hal
        constructor
        · intro sv hfile; simp [step, hal, hil] at hfile; simpa [logStep, ha, hi, hal, hil] using hft sv hfile
        · intro _; simp [step, logStep, hal, hil, ha, hi, h1]
        · intro _ _; simp [step, logStep, hal, hil, ha, hi, hr, h0]
        · intro _ h2; simp [step, hal, hil] at h2
  | run e t lt =>
    cases hal : s.alive with
    | false => constructor <;> simp_all [step, logStep]
    | true =>
      have h1 := hls hal
      cases hil : s.inLoop with
      | true =>
        have ⟨h2, h3⟩ := hlp hal hil
        constructor
        · intro sv hfile; simp [step, hal] at hfile; simpa [logStep, ha, hal] using hft sv hfile
        · intro _; simp [step, logStep, hal, ha, h1]
        · intro _ _; simp [step, logStep, hal, hil, ha, hi, sumT_append]; omega
        · intro _ h4; simp [step, hal, hil] at h4
      | false =>
        have h0 := hpp hal hil
        constructor
        · intro sv hfile; simp [step, hal] at hfile; simpa [logStep, ha, hal] using hft sv hfile
        · intro _; simp [step, logStep, hal, ha, h1]
        · intro _ h4; simp [step, hal, hil] at h4
        · intro _ _; simp [logStep, hal, hil, ha, hi, sumT_append, h0]
  | checkpoint =>
    cases hal : s.alive with
    | false => constructor <;> simp_all [step, logStep]
    | true =>
      have hil := hck rfl hal
      have h1 := hls hal
      have ⟨h2, h3⟩ := hlp hal hil
      constructor
      · intro sv hfile
        simp [step, hal] at hfile
        subst hfile
        simp [logStep, ha, hal, sumT_append, h1, h3]
      · intro _; simp [step, logStep, hal, ha, sumT_append, h1, h3]
      · intro _ _; simp [step, logStep, hal, ha]
      · intro _ _; simp [logStep, hal, ha]
  | kill =>
    constructor
    · intro sv hfile; simp [step] at hfile; simpa [logStep] using hft sv hfile
    · simp [step]
    · simp [step]
    · simp [step]
  | down d =>
    cases hal : s.alive <;> (constructor <;> simp_all [step, logStep])

theorem invTle_step (c : Cfg) (s : St) (l : Log) (op : Op)
    (hc : InvC s l) (h : InvTle s l) : InvTle (step c s op) (logStep l op) := by
  obtain ⟨ha, hi, hd, hn, _, _, _⟩ := hc
  obtain ⟨hft, hls, hlp, hpp⟩ := h
  cases op with
  | resume =>
    cases hfile : s.file with
    | none =>
      have hcm := hn hfile
      constructor <;> simp [step, logStep, hfile, hcm]
    | some sv =>
      have ⟨h1, h2⟩ := hft sv hfile
      constructor
      · intro sv' hf'; simp [step, hfile] at hf'; subst hf'; simp [step, hfile, logStep, h1, h2]
      · intro _; simp [step, logStep, hfile, h1]
      · intro _; cases hrs : c.rearmOnResume <;> simp [step, logStep, hfile, hrs, h2]
      · intro _ _; simp [logStep]
  | enterLoop =>
    cases hal : s.alive with
    | false => constructor <;> simp_all [step, logStep]
    | true =>
      cases hil : s.inLoop with
      | true => constructor <;> simp_all [step, logStep]
      | false =>
        have h0 := hpp hal hil
        have h1 := hls hal
        have ⟨h2, h3⟩ := hlp hal
        constructor
        · intro sv hfile; simp [step, hal, hil] at hfile; simpa [step, logStep, ha, hi, hal, hil] using hft sv hfile
        · intro _; simp [step, logStep, hal, hil, ha, hi, h1]
        · intro _; cases hrs : c.resetStart <;> simp [step, logStep, hal, hil, ha, hi, hrs, h0, h2]
        · intro _ h4; simp [step, hal, hil] at h4
  | run e t lt =>
    cases hal : s.alive with
    | false => constructor <;> simp_all [step, logStep]
    | true =>
      have h1 := hls hal
      have ⟨h2, h3⟩ := hlp hal
      cases hil : s.inLoop with
      | true =>
        constructor
        · intro sv hfile; simp [step, hal] at hfile
          have := hft sv hfile
          simp [step, logStep, hal, ha]; omega
        · intro _; simp [step, logStep, hal, ha, h1]
        · intro _; simp [step, logStep, hal, hil, ha, hi, sumT_append]; omega
        · intro _ h4; simp [step, hal, hil] at h4
      | false =>
        have h0 := hpp hal hil
        constructor
        · intro sv hfile; simp [step, hal] at hfile
          have := hft sv hfile
          simp [step, logStep, hal, ha]; omega
        · intro _; simp [step, logStep, hal, ha, h1]
        · intro _; simp [step, logStep, hal, hil, ha, hi, sumT_append, h0]; omega
        · intro _ _; simp [logStep, hal, hil, ha, hi, sumT_append, h0]
  | checkpoint =>
    cases hal : s.alive with
    | false => constructor <;> simp_all [step, logStep]
    | true =>
      have h1 := hls hal
      have ⟨h2, h3⟩ := hlp hal
      constructor
      · intro sv hfile
        simp [step, hal] at hfile
        subst hfile
        simp [step, logStep, hal, ha, sumT_append]; omega
      · intro _; simp [step, logStep, hal, ha, sumT_append]; omega
      · intro _; simp [step, logStep, hal, ha]
      · intro _ _; simp [logStep, hal, ha]
  | kill =>
    constructor
    · intro sv hfile; simp [step] at hfile; simpa [logStep, step] using hft sv hfile
    · simp [step]
    · simp [step]
    · simp [step]
  | down d =>
    cases hal : s.alive with
    | true => constructor <;> simp_all [step, logStep]
    | false =>
      constructor
      · intro sv hfile; simp [step, hal] at hfile
        have := hft sv hfile
        simp [step, logStep, hal]; omega
      · simp [step, hal]
      · simp [step, hal]
      · simp [step, hal]

/-- the invariants along any history -/
theorem inv_exec (c : Cfg) (hf : c.freshModel = true) (h : List Op) :
    ∀ (s : St) (l : Log), InvC s l → InvC (exec c s h) (logOf l h) := by
  induction h with
  | nil => intro s l hi; simpa [exec, logOf] using hi
  | cons op h ih =>
    intro s l hi
    simpa [exec, logOf] using ih _ _ (invC_step c hf s l op hi)

theorem invT_exec (c : Cfg) (hf : c.freshModel = true) (hr : c.resetStart = true) (h : List Op) :
    ∀ (s : St) (l : Log), InvC s l → InvT s l → ckptInLoop l.alive l.inLoop h = true →
      InvT (exec c s h) (logOf l h) := by
  induction h with
  | nil => intro s l _ hi _; simpa [exec, logOf] using hi
  | cons op h ih =>
    intro s l hc hi hk
    have hc' := invC_step c hf s l op hc
    have hck : op = Op.checkpoint → s.alive = true → s.inLoop = true := by
      intro ho hal
      subst ho
      simp [ckptInLoop, hc.alive, hc.inLoop, hal] at hk
      exact hk.1
    have hk' : ckptInLoop (logStep l op).alive (logStep l op).inLoop h = true := by
      cases op <;> simp [ckptInLoop, logStep] at hk ⊢
      · exact hk
      · cases hla : l.alive <;> cases hli : l.inLoop <;> simp_all
      · cases hla : l.alive <;> simp_all
      · cases hla : l.alive <;> simp_all
        have h2 := hk.2
        rw [hk.1] at h2
        exact h2
      · exact hk
      · exact hk
    simpa [exec, logOf] using ih _ _ hc' (invT_step c hr s l op hck hc hi) hk'

theorem invTle_exec (c : Cfg) (hf : c.freshModel = true) (h : List Op) :
    ∀ (s : St) (l : Log), InvC s l → InvTle s l → InvTle (exec c s h) (logOf l h) := by
  induction h with
  | nil => intro s l _ hi; simpa [exec, logOf] using hi
  | cons op h ih =>
    intro s l hc hi
    simpa [exec, logOf] using ih _ _ (invC_step c hf s l op hc) (invTle_step c s l op hc hi)

/-! ### the commit log never counts a step twice and loses steps only to kills -/

theorem retained_sublist (h : List Op) :
    ∀ l : Log, ((logOf l h).retained).Sublist (l.retained ++ performed l.alive l.inLoop h) := by
  induction h with
  | nil => intro l; simp [logOf, performed]
  | cons op h ih =>
    intro l
    cases op with
    | resume =>
      have := ih { l with alive := true, inLoop := false, pending := [] }
      simp only [logOf, List.foldl_cons, logStep, performed] at this ⊢
      refine this.trans ?_
      simp only [Log.retained, List.append_nil]
      exact List.Sublist.append (List.sublist_append_left _ _) (List.Sublist.refl _)
    | enterLoop =>
      cases hal : l.alive <;> cases hil : l.inLoop
      all_goals
        first
        | (have := ih l; simpa [logOf, logStep, performed, hal, hil] using this)
        | (have := ih { l with inLoop := true }; simpa [logOf, logStep, performed, hal, hil, Log.retained] using this)
    | run e t lt =>
      cases hal : l.alive with
      | true =>
        have := ih { l with pending := l.pending ++ [(e, if l.inLoop then t else 0, lt)] }
        simp only [logOf, List.foldl_cons, logStep, performed, hal, if_true] at this ⊢
        simpa [Log.retained, List.append_assoc, hal] using this
      | false =>
        have := ih l
        simpa [logOf, logStep, performed, hal] using this
    | checkpoint =>
      cases hal : l.alive with
      | true =>
        have := ih { l with committed := l.committed ++ l.pending, pending := [], hasFile := true }
        simp only [logOf, List.foldl_cons, logStep, performed, hal, if_true] at this ⊢
        simpa [Log.retained, hal] using this
      | false =>
        have := ih l
        simpa [logOf, logStep, performed, hal] using this
    | kill =>
      have := ih { l with alive := false, inLoop := false }
      simpa [logOf, logStep, performed, Log.retained] using this
    | down d =>
      have := ih l
      simpa [logOf, logStep, performed] using this

theorem retained_all_without_kill (h : List Op) :
    ∀ l : Log, (l.alive = false → l.pending = []) → wellFormed l.alive h = true → (∀ op ∈ h, op ≠ Op.kill) →
      (logOf l h).retained = l.retained ++ performed l.alive l.inLoop h := by
  induction h with
  | nil => intro l _ _ _; simp [logOf, performed]
  | cons op h ih =>
    intro l hp hw hk
    have hk' : ∀ o ∈ h, o ≠ Op.kill := fun o ho => hk o (List.mem_cons_of_mem _ ho)
    cases op with
    | resume =>
      simp [wellFormed] at hw
      have hpe := hp hw.1
      have := ih { l with alive := true, inLoop := false, pending := [] } (by simp) (by simpa using hw.2) hk'
      simp only [logOf, List.foldl_cons, logStep, performed] at this ⊢
      rw [this]; simp [Log.retained, hpe]
    | enterLoop =>
      simp [wellFormed] at hw
      cases hil : l.inLoop with
      | true =>
        have := ih l hp (by simpa [hw.1] using hw.2) hk'
        simpa [logOf, logStep, performed, hw.1, hil] using this
      | false =>
        have := ih { l with inLoop := true } (by simpa using hp) (by simpa [hw.1] using hw.2) hk'
        simpa [logOf, logStep, performed, hw.1, hil, Log.retained] using this
    | run e t lt =>
      simp [wellFormed] at hw
      have := ih { l with pending := l.pending ++ [(e, if l.inLoop then t else 0, lt)] } (by simp [hw.1])
        (by simpa [hw.1] using hw.2) hk'
      simp only [logOf, List.foldl_cons, logStep, performed, hw.1, if_true] at this ⊢
      rw [this]; simp [Log.retained]
    | checkpoint =>
      simp [wellFormed] at hw
      have := ih { l with committed := l.committed ++ l.pending, pending := [], hasFile := true } (by simp)
        (by simpa [hw.1] using hw.2) hk'
      simp only [logOf, List.foldl_cons, logStep, performed, hw.1, if_true] at this ⊢
      rw [this]; simp [Log.retained]
    | kill => exact absurd rfl (hk Op.kill (List.mem_cons_self ..))
    | down d =>
      simp [wellFormed] at hw
      have := ih l hp hw hk'
      simpa [logOf, logStep, performed] using this

end NessaiVerif.Accounts

namespace NessaiVerif.AccountsTables

theorem lookup_filter_key {α : Type} (p : String → Bool) (f : String) (s : List (String × α)) :
    (s.filter fun kv => p kv.1).lookup f = if p f then s.lookup f else none := by
  induction s with
  | nil => simp [List.lookup]
  | cons kv s ih =>
    obtain ⟨k, v⟩ := kv
    by_cases hk : f == k
    · have hfk : f = k := by simpa using hk
      subst hfk
      by_cases hp : p f
      · simp [List.filter, hp, List.lookup]
      · simp [List.filter, hp, ih]
    · by_cases hp : p k
      · simp [List.filter, hp, List.lookup, hk, ih]
      · simp [List.filter, hp, List.lookup, hk, ih]

theorem lookup_append_none {α : Type} (f : String) (a b : List (String × α)) (h : a.lookup f = none) :
    (a ++ b).lookup f = b.lookup f := by
  induction a with
  | nil => rfl
  | cons kv a ih =>
    obtain ⟨k, v⟩ := kv
    cases hk : (f == k) with
    | true => simp only [List.lookup_cons, hk] at h; cases h
    | false =>
      simp only [List.cons_append, List.lookup_cons, hk] at h ⊢
      exact ih h

/-- `resume ∘ checkpoint` is the identity on every attribute that the `__getstate__` in force does not drop and that
the resume path does not assign — for every state and whatever the resume path derives. -/
theorem resume_pickle_lookup {α : Type} (ts : List ClassTable) (sites : List Site) (c f : String)
    (s fresh : List (String × α)) (hd : dropped ts c f = false) (ht : touched ts sites c f = false) :
    (resumeState ts sites c fresh (pickleState ts c s)).lookup f = s.lookup f := by
  unfold resumeState pickleState
  rw [lookup_append_none]
  · rw [lookup_filter_key (fun k => !dropped ts c k)]
    simp [hd]
  · rw [lookup_filter_key (fun k => touched ts sites c k)]
    simp [ht]

end NessaiVerif.AccountsTables
