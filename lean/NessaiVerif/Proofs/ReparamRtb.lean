import NessaiVerif.Proofs.Reparam
/-
C07 — RescaleToBounds: the core step is a lawful scalar pair under the exact regularity guard, its reported factor is
the slope, and `determine_rescaled_bounds` is the image of the prior interval.
-/
namespace NessaiVerif.Reparam

variable {K : Type} [Field K] [LinearOrder K] [IsStrictOrderedRing K]

/-- the value of `rescale_zero_to_one(y - offset, b0, b1)` -/
def Rtb.unit (r : Rtb K) (y : K) : K := (y - r.offset - r.b0) / (r.b1 - r.b0)

/-- does `_apply_inversion` reflect (edge truthy)? -/
def Rtb.reflects (r : Rtb K) : Prop :=
  r.inversion.isSome = true ∧ r.edge ≠ .unset ∧ r.edge ≠ .off

/-- Regularity guard of the reflection: the rescaled value lies on the side of the edge that is kept,
i.e. the value that gets a random sign is non-negative. -/
def Rtb.ReflectOK (r : Rtb K) (y : K) : Prop :=
  r.reflects → if r.edge = .upper then r.unit y ≤ 1 else 0 ≤ r.unit y

/-- guard of the plain rescaling: the target interval is not degenerate -/
def Rtb.FactorOK (r : Rtb K) : Prop := r.inversion = none → r.r0 ≠ r.r1

theorem abs_step (v : K) (hv : 0 ≤ v) (neg : Bool) :
    (if (if neg = true then -v else v) < 0 then -(if neg = true then -v else v) else (if neg = true then -v else v)) = v := by
  cases neg
  · simp [not_lt.mpr hv]
  · simp only [if_true]
    rcases eq_or_lt_of_le hv with h | h
    · simp [← h]
    · simp [h]

theorem rtbCore_lawful (r : Rtb K) (neg : Bool) (y : K) (hb : r.b0 ≠ r.b1) (hf : r.FactorOK)
    (hok : r.ReflectOK y) : ScalarLawfulAt (rtbCore r neg) (rtbCoreInv r) y := by
  have hne : r.b1 - r.b0 ≠ 0 := sub_ne_zero.mpr (Ne.symm hb)
  have h2 : (2 : K) ≠ 0 := two_ne_zero
  unfold ScalarLawfulAt rtbCore rtbCoreInv
  cases hinv : r.inversion with
  | none =>
    have hfac : r.factor ≠ 0 := by unfold Rtb.factor; exact ptp_ne_zero (hf hinv)
    simp only
    constructor
    · field_simp; ring
    · field_simp
  | some t =>
    have hrefl : r.edge ≠ .unset → r.edge ≠ .off → (if r.edge = .upper then r.unit y ≤ 1 else 0 ≤ r.unit y) :=
      fun h1 h2 => hok ⟨by simp [hinv], h1, h2⟩
    simp only [Rtb.unit] at hrefl
    cases hedge : r.edge with
    | unset =>
      simp only [rescaleMinusOneToOne, inverseRescaleMinusOneToOne, two_eq]
      constructor
      · field_simp; ring
      · field_simp
    | off =>
      simp only [rescaleMinusOneToOne, inverseRescaleMinusOneToOne, two_eq]
      constructor
      · field_simp; ring
      · field_simp
    | upper =>
      have hv : 0 ≤ 1 - (y - r.offset - r.b0) / (r.b1 - r.b0) := by
        have := hrefl (by simp [hedge]) (by simp [hedge])
        simp only [hedge, if_true] at this
        linarith
      simp only [rescaleZeroToOne, inverseRescaleZeroToOne, if_true]
      rw [abs_step _ hv neg]
      constructor
      · field_simp; ring
      · field_simp
    | lower =>
      have hv : 0 ≤ (y - r.offset - r.b0) / (r.b1 - r.b0) := by
        have := hrefl (by simp [hedge]) (by simp [hedge])
        simpa [hedge] using this
      simp only [rescaleZeroToOne, inverseRescaleZeroToOne, reduceCtorEq, if_false]
      rw [abs_step _ hv neg]
      constructor
      · field_simp; ring
      · field_simp
    | both =>
      have hv : 0 ≤ (y - r.offset - r.b0) / (r.b1 - r.b0) := by
        have := hrefl (by simp [hedge]) (by simp [hedge])
        simpa [hedge] using this
      simp only [rescaleZeroToOne, inverseRescaleZeroToOne, reduceCtorEq, if_false]
      rw [abs_step _ hv neg]
      constructor
      · field_simp; ring
      · field_simp
    | other =>
      have hv : 0 ≤ (y - r.offset - r.b0) / (r.b1 - r.b0) := by
        have := hrefl (by simp [hedge]) (by simp [hedge])
        simpa [hedge] using this
      simp only [rescaleZeroToOne, inverseRescaleZeroToOne, reduceCtorEq, if_false]
      rw [abs_step _ hv neg]
      constructor
      · field_simp; ring
      · field_simp

/-- hooks lawful at the points where they are applied -/
def Rtb.HooksOK (r : Rtb K) (neg : Bool) (x : K) : Prop :=
  ScalarLawfulAt r.preF r.preI x ∧ ScalarLawfulAt r.postF r.postI (rtbCore r neg (r.preF x).1).1

theorem rtb_lawful (r : Rtb K) (neg : Bool) (x : K) (hb : r.b0 ≠ r.b1) (hf : r.FactorOK)
    (hok : r.ReflectOK (r.preF x).1) (hh : r.HooksOK neg x) :
    ScalarLawfulAt (rtbFwd r neg) (rtbInv r) x := by
  obtain ⟨⟨hp1, hp2⟩, ⟨hq1, hq2⟩⟩ := hh
  obtain ⟨hc1, hc2⟩ := rtbCore_lawful r neg (r.preF x).1 hb hf hok
  unfold ScalarLawfulAt rtbFwd rtbInv
  simp only
  rw [hq1, hc1, hp1]
  refine ⟨rfl, ?_⟩
  calc (r.preF x).2 * (rtbCore r neg (r.preF x).1).2 * (r.postF (rtbCore r neg (r.preF x).1).1).2 *
        ((r.postI (r.postF (rtbCore r neg (r.preF x).1).1).1).2 * (rtbCoreInv r (rtbCore r neg (r.preF x).1).1).2 *
          (r.preI (r.preF x).1).2)
      = ((r.preF x).2 * (r.preI (r.preF x).1).2) *
        ((rtbCore r neg (r.preF x).1).2 * (rtbCoreInv r (rtbCore r neg (r.preF x).1).1).2) *
        ((r.postF (rtbCore r neg (r.preF x).1).1).2 * (r.postI (r.postF (rtbCore r neg (r.preF x).1).1).1).2) := by ring
    _ = 1 := by rw [hp2, hc2, hq2]; ring

theorem hooksOK_none (r : Rtb K) (neg : Bool) (x : K) (h1 : r.pre = none) (h2 : r.post = none) : r.HooksOK neg x := by
  unfold Rtb.HooksOK ScalarLawfulAt Rtb.preF Rtb.preI Rtb.postF Rtb.postI
  rw [h1, h2]; simp

/-! ### the reported factor is the slope -/

theorem rtbCore_affineJ (r : Rtb K) (neg : Bool) (hb : r.b0 < r.b1) : AffineJ (rtbCore r neg) := by
  have hpos : 0 < r.b1 - r.b0 := sub_pos.mpr hb
  have hne : r.b1 - r.b0 ≠ 0 := ne_of_gt hpos
  have habs : |r.b1 - r.b0| = r.b1 - r.b0 := abs_of_pos hpos
  have key : ∀ (c : K) (x y : K), |c * ((x - r.offset - r.b0) / (r.b1 - r.b0)) - c * ((y - r.offset - r.b0) / (r.b1 - r.b0))|
      = |c| / (r.b1 - r.b0) * |x - y| := by
    intro c x y
    have : c * ((x - r.offset - r.b0) / (r.b1 - r.b0)) - c * ((y - r.offset - r.b0) / (r.b1 - r.b0))
        = c * (x - y) / (r.b1 - r.b0) := by field_simp; ring
    rw [this, abs_div, abs_mul, habs]; ring
  unfold rtbCore
  cases hinv : r.inversion with
  | none =>
    refine ⟨r.factor / (r.b1 - r.b0), div_nonneg (ptp_nonneg _ _) hpos.le, fun _ => rfl, fun x y => ?_⟩
    simp only
    have := key r.factor x y
    have hfn : 0 ≤ r.factor := ptp_nonneg r.r0 r.r1
    rw [abs_of_nonneg hfn] at this
    rw [← this]; congr 1; ring
  | some t =>
    have hunit : ∀ (s : K), (s = 1 ∨ s = -1) → ∀ x y : K,
        |s * ((x - r.offset - r.b0) / (r.b1 - r.b0)) - s * ((y - r.offset - r.b0) / (r.b1 - r.b0))|
          = 1 / (r.b1 - r.b0) * |x - y| := by
      intro s hs x y
      rw [key s x y]
      rcases hs with rfl | rfl <;> simp
    cases hedge : r.edge with
    | unset =>
      refine ⟨2 / (r.b1 - r.b0), by positivity, fun _ => by simp [rescaleMinusOneToOne, two_eq], fun x y => ?_⟩
      simp only [rescaleMinusOneToOne, two_eq]
      have := key 2 x y
      rw [abs_of_pos (two_pos : (0:K) < 2)] at this
      rw [← this]; congr 1; ring
    | off =>
      refine ⟨2 / (r.b1 - r.b0), by positivity, fun _ => by simp [rescaleMinusOneToOne, two_eq], fun x y => ?_⟩
      simp only [rescaleMinusOneToOne, two_eq]
      have := key 2 x y
      rw [abs_of_pos (two_pos : (0:K) < 2)] at this
      rw [← this]; congr 1; ring
    | upper =>
      refine ⟨1 / (r.b1 - r.b0), by positivity, fun _ => by simp [rescaleZeroToOne], fun x y => ?_⟩
      simp only [rescaleZeroToOne, if_true]
      cases neg
      · rw [← hunit (-1) (Or.inr rfl) x y]; simp only [Bool.false_eq_true, if_false]; congr 1; ring
      · rw [← hunit 1 (Or.inl rfl) x y]; simp only [if_true]; congr 1; ring
    | lower =>
      refine ⟨1 / (r.b1 - r.b0), by positivity, fun _ => by simp [rescaleZeroToOne], fun x y => ?_⟩
      simp only [rescaleZeroToOne, reduceCtorEq, if_false]
      cases neg
      · rw [← hunit 1 (Or.inl rfl) x y]; simp only [Bool.false_eq_true, if_false]; congr 1; ring
      · rw [← hunit (-1) (Or.inr rfl) x y]; simp only [if_true]; congr 1; ring
    | both =>
      refine ⟨1 / (r.b1 - r.b0), by positivity, fun _ => by simp [rescaleZeroToOne], fun x y => ?_⟩
      simp only [rescaleZeroToOne, reduceCtorEq, if_false]
      cases neg
      · rw [← hunit 1 (Or.inl rfl) x y]; simp only [Bool.false_eq_true, if_false]; congr 1; ring
      · rw [← hunit (-1) (Or.inr rfl) x y]; simp only [if_true]; congr 1; ring
    | other =>
      refine ⟨1 / (r.b1 - r.b0), by positivity, fun _ => by simp [rescaleZeroToOne], fun x y => ?_⟩
      simp only [rescaleZeroToOne, reduceCtorEq, if_false]
      cases neg
      · rw [← hunit 1 (Or.inl rfl) x y]; simp only [Bool.false_eq_true, if_false]; congr 1; ring
      · rw [← hunit (-1) (Or.inr rfl) x y]; simp only [if_true]; congr 1; ring

/-- explicit affine form of the core step: value `c·y + d`, reported factor `|c|` -/
theorem rtbCore_affine_form (r : Rtb K) (neg : Bool) (hb : r.b0 < r.b1) :
    ∃ c d : K, (∀ y, (rtbCore r neg y).1 = c * y + d) ∧ (∀ y, (rtbCore r neg y).2 = |c|) := by
  have hpos : 0 < r.b1 - r.b0 := sub_pos.mpr hb
  have hne : r.b1 - r.b0 ≠ 0 := ne_of_gt hpos
  have hinvpos : 0 < 1 / (r.b1 - r.b0) := by positivity
  have habs1 : |1 / (r.b1 - r.b0)| = 1 / (r.b1 - r.b0) := abs_of_pos hinvpos
  have habs2 : |-(1 / (r.b1 - r.b0))| = 1 / (r.b1 - r.b0) := by rw [abs_neg, habs1]
  have habs3 : |2 / (r.b1 - r.b0)| = 2 / (r.b1 - r.b0) := abs_of_pos (by positivity)
  unfold rtbCore
  cases hinv : r.inversion with
  | none =>
    have hfn : 0 ≤ r.factor := ptp_nonneg r.r0 r.r1
    refine ⟨r.factor / (r.b1 - r.b0), r.factor * ((-r.offset - r.b0) / (r.b1 - r.b0)) + r.shift, fun y => ?_, fun y => ?_⟩
    · simp only; field_simp; ring
    · simp only; rw [abs_of_nonneg (div_nonneg hfn hpos.le)]
  | some t =>
    cases hedge : r.edge with
    | unset =>
      refine ⟨2 / (r.b1 - r.b0), 2 * (-r.offset - r.b0) / (r.b1 - r.b0) - 1, fun y => ?_, fun y => ?_⟩
      · simp only [rescaleMinusOneToOne, two_eq]; field_simp; ring
      · simp only [rescaleMinusOneToOne, two_eq]; rw [habs3]
    | off =>
      refine ⟨2 / (r.b1 - r.b0), 2 * (-r.offset - r.b0) / (r.b1 - r.b0) - 1, fun y => ?_, fun y => ?_⟩
      · simp only [rescaleMinusOneToOne, two_eq]; field_simp; ring
      · simp only [rescaleMinusOneToOne, two_eq]; rw [habs3]
    | upper =>
      cases neg
      · refine ⟨-(1 / (r.b1 - r.b0)), 1 - (-r.offset - r.b0) / (r.b1 - r.b0), fun y => ?_, fun y => ?_⟩
        · simp only [rescaleZeroToOne, if_true, Bool.false_eq_true, if_false]; field_simp; ring
        · simp only [rescaleZeroToOne]; rw [habs2]
      · refine ⟨1 / (r.b1 - r.b0), -(1 - (-r.offset - r.b0) / (r.b1 - r.b0)), fun y => ?_, fun y => ?_⟩
        · simp only [rescaleZeroToOne, if_true]; field_simp; ring
        · simp only [rescaleZeroToOne]; rw [habs1]
    | lower =>
      cases neg
      · refine ⟨1 / (r.b1 - r.b0), (-r.offset - r.b0) / (r.b1 - r.b0), fun y => ?_, fun y => ?_⟩
        · simp only [rescaleZeroToOne, reduceCtorEq, if_false, Bool.false_eq_true]; field_simp; ring
        · simp only [rescaleZeroToOne]; rw [habs1]
      · refine ⟨-(1 / (r.b1 - r.b0)), -((-r.offset - r.b0) / (r.b1 - r.b0)), fun y => ?_, fun y => ?_⟩
        · simp only [rescaleZeroToOne, reduceCtorEq, if_false, if_true]; field_simp; ring
        · simp only [rescaleZeroToOne]; rw [habs2]
    | both =>
      cases neg
      · refine ⟨1 / (r.b1 - r.b0), (-r.offset - r.b0) / (r.b1 - r.b0), fun y => ?_, fun y => ?_⟩
        · simp only [rescaleZeroToOne, reduceCtorEq, if_false, Bool.false_eq_true]; field_simp; ring
        · simp only [rescaleZeroToOne]; rw [habs1]
      · refine ⟨-(1 / (r.b1 - r.b0)), -((-r.offset - r.b0) / (r.b1 - r.b0)), fun y => ?_, fun y => ?_⟩
        · simp only [rescaleZeroToOne, reduceCtorEq, if_false, if_true]; field_simp; ring
        · simp only [rescaleZeroToOne]; rw [habs2]
    | other =>
      cases neg
      · refine ⟨1 / (r.b1 - r.b0), (-r.offset - r.b0) / (r.b1 - r.b0), fun y => ?_, fun y => ?_⟩
        · simp only [rescaleZeroToOne, reduceCtorEq, if_false, Bool.false_eq_true]; field_simp; ring
        · simp only [rescaleZeroToOne]; rw [habs1]
      · refine ⟨-(1 / (r.b1 - r.b0)), -((-r.offset - r.b0) / (r.b1 - r.b0)), fun y => ?_, fun y => ?_⟩
        · simp only [rescaleZeroToOne, reduceCtorEq, if_false, if_true]; field_simp; ring
        · simp only [rescaleZeroToOne]; rw [habs2]

/-- with bounds in order and a non-degenerate target interval the core factor is strictly positive
(so the code's `log` of it is a real number, not NaN / -inf) and it does not depend on the sign bit -/
theorem rtbCore_jac_pos (r : Rtb K) (neg : Bool) (y : K) (hb : r.b0 < r.b1) (hf : r.FactorOK) :
    0 < (rtbCore r neg y).2 := by
  have hpos : 0 < r.b1 - r.b0 := sub_pos.mpr hb
  unfold rtbCore
  cases hinv : r.inversion with
  | none =>
    have hfac : 0 < r.factor := lt_of_le_of_ne (ptp_nonneg _ _) (Ne.symm (ptp_ne_zero (hf hinv)))
    exact div_pos hfac hpos
  | some t =>
    cases hedge : r.edge <;> simp only [rescaleMinusOneToOne, rescaleZeroToOne, two_eq] <;> positivity

theorem rtbCore_jac_neg (r : Rtb K) (neg : Bool) (y y' : K) : (rtbCore r neg y).2 = (rtbCore r false y').2 := by
  unfold rtbCore
  cases r.inversion with
  | none => rfl
  | some t => cases r.edge <;> simp [rescaleMinusOneToOne, rescaleZeroToOne]

/-- the factors the hooks report at the points where they are applied are positive (they are `exp` of a log-Jacobian) -/
def Rtb.HooksPos (r : Rtb K) (neg : Bool) (x : K) : Prop :=
  0 < (r.preF x).2 ∧ 0 < (r.postF (rtbCore r neg (r.preF x).1).1).2

theorem hooksPos_none (r : Rtb K) (neg : Bool) (x : K) (h1 : r.pre = none) (h2 : r.post = none) : r.HooksPos neg x := by
  unfold Rtb.HooksPos Rtb.preF Rtb.postF
  rw [h1, h2]; simp

/-- round trip, reciprocal factors, and both factors strictly positive: "J_fwd·J_inv = 1" is then literally
"log J_fwd = −log J_inv" with both logarithms defined -/
theorem rtb_lawful_pos (r : Rtb K) (neg : Bool) (x : K) (hb : r.b0 < r.b1) (hf : r.FactorOK)
    (hok : r.ReflectOK (r.preF x).1) (hh : r.HooksOK neg x) (hp : r.HooksPos neg x) :
    ScalarLawfulAt (rtbFwd r neg) (rtbInv r) x ∧ 0 < (rtbFwd r neg x).2 ∧ 0 < (rtbInv r (rtbFwd r neg x).1).2 := by
  have hl := rtb_lawful r neg x (ne_of_lt hb) hf hok hh
  have hJ : 0 < (rtbFwd r neg x).2 := by
    simp only [rtbFwd]
    exact mul_pos (mul_pos hp.1 (rtbCore_jac_pos r neg _ hb hf)) hp.2
  refine ⟨hl, hJ, ?_⟩
  have h1 := hl.2
  by_contra hneg
  have : (rtbFwd r neg x).2 * (rtbInv r (rtbFwd r neg x).1).2 ≤ 0 :=
    mul_nonpos_of_nonneg_of_nonpos hJ.le (not_lt.mp hneg)
  rw [h1] at this
  exact absurd this (not_le.mpr one_pos)

theorem rtbFwd_affineJ (r : Rtb K) (neg : Bool) (hb : r.b0 < r.b1) (hpre : AffineJ r.preF) (hpost : AffineJ r.postF) :
    AffineJ (rtbFwd r neg) := by
  have h1 := AffineJ.comp hpre (rtbCore_affineJ r neg hb)
  have h2 := AffineJ.comp h1 hpost
  exact h2

theorem preF_affineJ_none (r : Rtb K) (h : r.pre = none) : AffineJ r.preF := by
  unfold Rtb.preF; rw [h]; exact AffineJ.id

theorem postF_affineJ_none (r : Rtb K) (h : r.post = none) : AffineJ r.postF := by
  unfold Rtb.postF; rw [h]; exact AffineJ.id

end NessaiVerif.Reparam
