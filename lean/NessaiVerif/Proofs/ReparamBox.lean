import NessaiVerif.Proofs.ReparamRtb
/-
C07 — the regularity guards of `rtb_lawful` hold on the whole prior box for the state `RescaleToBounds.__init__`
builds, and after `update(data)` on the data range of the reflecting side (everywhere if nothing is reflected).
-/
namespace NessaiVerif.Reparam

variable {K : Type} [Field K] [LinearOrder K] [IsStrictOrderedRing K]

theorem rtbInit_ok (p0 p1 : K) (rb : Option (K × K)) (inv : Option InvType) (oinv det off upd : Bool)
    (pre post : Option (Hook K)) (plog prior : Bool) (r : Rtb K)
    (h : rtbInit p0 p1 rb inv oinv det off upd pre post plog prior = .ok r) :
    r = rtbMk p0 p1 rb inv det off upd pre post plog prior := by
  unfold rtbInit at h
  split_ifs at h <;> exact (Except.ok.inj h).symm

/-- the fields of the state built by the constructor (no pre-rescaling, no named log/logit post-rescaling) -/
theorem rtbMk_fields (p0 p1 : K) (rb : Option (K × K)) (inv : Option InvType) (det off upd : Bool)
    (post : Option (Hook K)) (prior : Bool) :
    let r := rtbMk p0 p1 rb inv det off upd none post false prior
    r.pre = none ∧ r.post = post ∧ r.inversion = inv ∧ r.edge = .unset ∧
    r.b0 = p0 - r.offset ∧ r.b1 = p1 - r.offset ∧
    (inv = none → (r.r0, r.r1) = rb.getD (-1, 1)) := by
  refine ⟨rfl, rfl, rfl, rfl, rfl, rfl, ?_⟩
  intro h; subst h; cases rb <;> simp [rtbMk]

theorem rtbDetect_fields (r : Rtb K) (test : Edge) :
    (rtbDetect r test).b0 = r.b0 ∧ (rtbDetect r test).b1 = r.b1 ∧ (rtbDetect r test).offset = r.offset ∧
    (rtbDetect r test).pre = r.pre ∧ (rtbDetect r test).post = r.post ∧ (rtbDetect r test).inversion = r.inversion ∧
    (rtbDetect r test).r0 = r.r0 ∧ (rtbDetect r test).r1 = r.r1 := by
  unfold rtbDetect; split <;> simp

/-- **before any update**: every point of the prior box is regular, for every edge decision and sign bit -/
theorem rtb_lawful_on_box (p0 p1 : K) (rb : Option (K × K)) (inv : Option InvType) (oinv det off upd : Bool)
    (prior : Bool) (r0 : Rtb K) (hp : p0 < p1) (hrb : ∀ b, rb = some b → b.1 ≠ b.2)
    (h : rtbInit p0 p1 rb inv oinv det off upd none none false prior = .ok r0)
    (test : Edge) (neg : Bool) (x : K) (hx0 : p0 ≤ x) (hx1 : x ≤ p1) :
    ScalarLawfulAt (rtbFwd (rtbDetect r0 test) neg) (rtbInv (rtbDetect r0 test)) x ∧
    0 < (rtbFwd (rtbDetect r0 test) neg x).2 ∧
    0 < (rtbInv (rtbDetect r0 test) (rtbFwd (rtbDetect r0 test) neg x).1).2 := by
  have hr0 := rtbInit_ok p0 p1 rb inv oinv det off upd none none false prior r0 h
  obtain ⟨hpre, hpost, hinv, _, hb0, hb1, hrr⟩ := rtbMk_fields p0 p1 rb inv det off upd none prior
  rw [← hr0] at hpre hpost hinv hb0 hb1 hrr
  obtain ⟨d0, d1, doff, dpre, dpost, dinv, dr0, dr1⟩ := rtbDetect_fields r0 test
  set r := rtbDetect r0 test with hr
  have hw : 0 < p1 - p0 := sub_pos.mpr hp
  have hbb : r.b1 - r.b0 = p1 - p0 := by rw [d0, d1, hb0, hb1]; ring
  have hpreF : ∀ t, (r.preF t).1 = t := by intro t; unfold Rtb.preF; rw [dpre, hpre]
  refine rtb_lawful_pos r neg x ?_ ?_ ?_ (hooksOK_none r neg x (by rw [dpre, hpre]) (by rw [dpost, hpost]))
    (hooksPos_none r neg x (by rw [dpre, hpre]) (by rw [dpost, hpost]))
  · linarith
  · intro hnone
    rw [dinv, hinv] at hnone
    have this : (r.r0, r.r1) = rb.getD ((-1 : K), (1 : K)) := by
      rw [dr0, dr1]; exact hrr hnone
    cases hrb' : rb with
    | none =>
      rw [hrb'] at this
      have e0 : r.r0 = -1 := (Prod.mk.inj this).1
      have e1 : r.r1 = 1 := (Prod.mk.inj this).2
      rw [e0, e1]; norm_num
    | some b =>
      rw [hrb'] at this
      have e0 : r.r0 = b.1 := (Prod.mk.inj this).1
      have e1 : r.r1 = b.2 := (Prod.mk.inj this).2
      rw [e0, e1]; exact hrb b hrb'
  · intro _
    have hu : r.unit (r.preF x).1 = (x - p0) / (p1 - p0) := by
      unfold Rtb.unit; rw [hpreF, hbb, d0, doff, hb0]; congr 1; ring
    rw [hu]
    split
    · exact (div_le_one hw).mpr (by linarith)
    · exact div_nonneg (by linarith) hw.le

/-- **after `update(data)`** with `_update` enabled: bounds are the data minimum / maximum; a point is regular if nothing is
reflected, or if it lies on the data range at the reflecting side -/
theorem rtb_lawful_after_update (r0 : Rtb K) (d : K) (ds : List K) (hupd : r0.update = true)
    (hpre : r0.pre = none) (hpost : r0.post = none) (hf : r0.FactorOK)
    (hmM : minL d ds < maxL d ds) (test : Edge) (neg : Bool) (x : K)
    (hside : (rtbDetect (rtbUpdate r0 (d :: ds)) test).reflects →
      if (rtbDetect (rtbUpdate r0 (d :: ds)) test).edge = .upper then x ≤ maxL d ds else minL d ds ≤ x) :
    ScalarLawfulAt (rtbFwd (rtbDetect (rtbUpdate r0 (d :: ds)) test) neg) (rtbInv (rtbDetect (rtbUpdate r0 (d :: ds)) test)) x ∧
    0 < (rtbFwd (rtbDetect (rtbUpdate r0 (d :: ds)) test) neg x).2 ∧
    0 < (rtbInv (rtbDetect (rtbUpdate r0 (d :: ds)) test) (rtbFwd (rtbDetect (rtbUpdate r0 (d :: ds)) test) neg x).1).2 := by
  obtain ⟨d0, d1, doff, dpre, dpost, dinv, dr0, dr1⟩ := rtbDetect_fields (rtbUpdate r0 (d :: ds)) test
  have u0 : (rtbUpdate r0 (d :: ds)).b0 = minL d ds - r0.offset := by
    simp [rtbUpdate, hupd, Rtb.preF, hpre]
  have u1 : (rtbUpdate r0 (d :: ds)).b1 = maxL d ds - r0.offset := by
    simp [rtbUpdate, hupd, Rtb.preF, hpre]
  have uoff : (rtbUpdate r0 (d :: ds)).offset = r0.offset := by simp [rtbUpdate, hupd]
  have upre : (rtbUpdate r0 (d :: ds)).pre = none := by simp [rtbUpdate, hupd, hpre]
  have upost : (rtbUpdate r0 (d :: ds)).post = none := by simp [rtbUpdate, hupd, hpost]
  have uinv : (rtbUpdate r0 (d :: ds)).inversion = r0.inversion := by simp [rtbUpdate, hupd]
  have ur0 : (rtbUpdate r0 (d :: ds)).r0 = r0.r0 := by simp [rtbUpdate, hupd]
  have ur1 : (rtbUpdate r0 (d :: ds)).r1 = r0.r1 := by simp [rtbUpdate, hupd]
  set r := rtbDetect (rtbUpdate r0 (d :: ds)) test with hr
  have hw : 0 < maxL d ds - minL d ds := sub_pos.mpr hmM
  have hbb : r.b1 - r.b0 = maxL d ds - minL d ds := by rw [d0, d1, u0, u1]; ring
  have hpreF : ∀ t, (r.preF t).1 = t := by intro t; unfold Rtb.preF; rw [dpre, upre]
  refine rtb_lawful_pos r neg x ?_ ?_ ?_ (hooksOK_none r neg x (by rw [dpre, upre]) (by rw [dpost, upost]))
    (hooksPos_none r neg x (by rw [dpre, upre]) (by rw [dpost, upost]))
  · linarith
  · intro hnone
    rw [dr0, dr1, ur0, ur1]; exact hf (by rw [← uinv, ← dinv]; exact hnone)
  · intro hrefl
    have hu : r.unit (r.preF x).1 = (x - minL d ds) / (maxL d ds - minL d ds) := by
      unfold Rtb.unit; rw [hpreF, hbb, d0, doff, u0, uoff]; congr 1; ring
    rw [hu]
    have hs := hside hrefl
    split
    · rename_i he; rw [if_pos he] at hs
      exact (div_le_one hw).mpr (by linarith)
    · rename_i he; rw [if_neg he] at hs
      exact div_nonneg (by linarith) hw.le

end NessaiVerif.Reparam
