/-
C02 — model of the nested-sampling quadrature of `nessai/evidence.py`
(`_NSIntegralState.increment / finalise / log_posterior_weights /
get_logx_live_points`, `log_integrate_log_trap`, `logsubexp`), of the loop in
`NestedSampler.finalise` that feeds the remaining live points to the state, and of
`nessai/posterior.py: compute_weights`.

The code works in log space in float64; the model works in the LINEAR domain
(`L = exp logL`, `X = exp log_vol`, `t = exp logt`, `-inf ↦ 0`) over any type `K`
with the core operation classes, so that the very same definitions are
  * executed by the driver at `K := Rat` (exact: this is the independent
    arbitrary-precision evaluation of the quadrature), and
  * the subject of the theorems of `Props/C02.lean` for every linearly ordered field.

Dictionary log space → linear domain
  `a + b` ↦ `a * b`      `logaddexp(a, b)` ↦ `a + b`     `logsumexp(v)` ↦ `Σ v`
  `logsubexp(a, b)` ↦ `a - b`   `x - log 2` ↦ `x / (1 + 1)`   `np.cumsum` ↦ cumulative product
  `log1p(-exp(logt))` ↦ `1 - t`

The expected shrinkage is a parameter `shrink : Nat → K` (live count ↦ `t`):
  expectation = "t"    : `logt = -log1p(1/n)`  ↦ `tOfN n = 1 / (1 + 1/n)`  (= n/(n+1))
  expectation = "logt" : `logt = -1/n`         ↦ `exp(-1/n)` — transcendental, supplied by the
                          caller (ℝ in the theorems, a dyadic approximation in the driver).
-/
namespace NessaiVerif.Quad

inductive Err | valueErr | indexErr
deriving Repr, DecidableEq

/-- `np.arange(n, 0, -1)` -/
def countdown : Nat → List Nat
  | 0 => []
  | n + 1 => (n + 1) :: countdown n

/-- live counts seen by the state when the sampler consumes `k` dead points and then
`NestedSampler.finalise` hands over the `n` live points with `nlive - i`. -/
def scheduleIncr (k n : Nat) : List Nat := List.replicate k n ++ countdown n

/-- `compute_weights` with an integer `nlive`:
`nlive_per_iteration = nlive * ones_like(samples); nlive_per_iteration[-nlive:] = arange(nlive, 0, -1)`.
The slice `[-n:]` has `min n len` entries (all `len` of them when `n = 0`); NumPy assigns an array of
shape `(n,)` to it only if the shapes agree or `n = 1` — otherwise `ValueError` (broadcast). -/
def scheduleOnePass (len n : Nat) : Except Err (List Nat) :=
  if n = 0 then (if len = 0 then .ok [] else .error .valueErr)
  else if n ≤ len then .ok ((List.replicate len n).take (len - n) ++ countdown n)
  else if n = 1 then .ok (List.replicate len 1)
  else .error .valueErr

/-- NumPy's `a[-n:] = b` for one-dimensional arrays: the slice is the last `n` entries — the WHOLE array when `n = 0` (`-0` is `0`)
or `n > len(a)` —, and `b` must have the slice's length or a single entry (broadcast); anything else raises `ValueError` -/
def npAssignTail {α : Type} (a : List α) (n : Nat) (b : List α) : Except Err (List α) :=
  let k := if n = 0 ∨ a.length < n then a.length else n
  if b.length = k then .ok (a.take (a.length - k) ++ b)
  else match b with
    | [x] => .ok (a.take (a.length - k) ++ List.replicate k x)
    | _ => .error .valueErr

inductive NLive
  | int (n : Nat)
  | arr (ns : List Nat)
deriving Repr

section
variable {K : Type} [Add K] [Sub K] [Mul K] [Div K] [OfNat K 0] [OfNat K 1]

/-- expectation = "t": `logt = -np.log1p(1 / nlive)`, i.e. `t = 1 / (1 + 1/n)`.
Domain `n ≥ 1`: for `nlive = 0` the code raises `ZeroDivisionError` (`increment`) or produces `-inf`/NaN
(`compute_weights`), whereas a field gives `1/0 = 0` and hence `tOfN 0 = 1`; the theorems carry `1 ≤ n`. -/
def tOfN [NatCast K] (n : Nat) : K := 1 / (1 + 1 / (n : K))

/-- `np.cumsum(logt)` started from `logw` (linear domain: cumulative product started from `w`) -/
def cumprodFrom (w : K) : List K → List K
  | [] => []
  | t :: ts => (w * t) :: cumprodFrom (w * t) ts

/-- `v[1:-1] = new` (a step-1 slice assignment that keeps the length: NumPy raises unless `new` has `len(v) - 2` entries) -/
def setInner (v new : List K) : List K := v.take 1 ++ new ++ v.drop (v.length - 1)

/-- the volumes `[w, w t₁, w t₁ t₂, …]` -/
def volsFrom (w : K) (ts : List K) : List K := w :: cumprodFrom w ts

/-- `log_vols` of a state that has seen the shrinkages `ts`: starts at `X = 1` (log-volume 0) -/
def vols (ts : List K) : List K := volsFrom 1 ts

/-- `np.cumsum` (log-domain specification used by the real-valued bridge theorems) -/
def cumsumFrom (a : K) : List K → List K
  | [] => []
  | x :: xs => (a + x) :: cumsumFrom (a + x) xs

/-- `logsubexp(v[:-1], v[1:])` : adjacent differences `vᵢ - vᵢ₊₁` -/
def diffs : List K → List K
  | x0 :: x1 :: xs => (x0 - x1) :: diffs (x1 :: xs)
  | _ => []

/-- `np.logaddexp(f[:-1], f[1:]) - np.log(2)` : adjacent means -/
def avgs : List K → List K
  | f0 :: f1 :: fs => ((f0 + f1) / (1 + 1)) :: avgs (f1 :: fs)
  | _ => []

/-- `logsumexp(a + b)` : `Σ aᵢ bᵢ` -/
def dot : List K → List K → K
  | a :: as, b :: bs => a * b + dot as bs
  | _, _ => 0

/-- `logsumexp(v)` -/
def sumL : List K → K
  | [] => 0
  | x :: xs => x + sumL xs

/-- `log_integrate_log_trap(log_func, log_support)` -/
def trap (f X : List K) : K := dot (avgs f) (diffs X)

/-- the rectangle rule in one pass: `Σ Lᵢ (Xᵢ₋₁ - Xᵢ)` over volumes `X = [X₀, X₁, …]` -/
def rectOnePass (Ls X : List K) : K := dot Ls (diffs X)

/-- `log_L[1:-1] + log_w[:-1] - log_Z` with `log_w = logsubexp(log_vols[:-1], log_vols[1:])` -/
def postWeights (L X : List K) (Z : K) : List K :=
  List.zipWith (fun l d => l * d / Z) L.tail.dropLast (diffs X).dropLast

/-- `_NSIntegralState` (fields `base_nlive, logZ, logw, logLs, log_vols, nlive`; the information
`info` and the plotting gradients are not modelled) -/
structure St (K : Type) where
  base : Nat
  Z : K
  w : K
  Ls : List K
  Xs : List K
  ns : List Nat

/-- `__init__`: `logZ = -inf, logw = 0, logLs = [-inf], log_vols = [0.0], nlive = []` -/
def St.init (n : Nat) : St K := ⟨n, 0, 1, [0], [1], []⟩

/-- `increment(logL, nlive=None)`:
`Wt = logw + logL + log1p(-exp(logt)); logZ = logaddexp(logZ, Wt); logw += logt;`
`logLs.append(logL); log_vols.append(logw); nlive.append(nlive)` -/
def St.increment (shrink : Nat → K) (s : St K) (L : K) (nlive : Option Nat) : St K :=
  let n := nlive.getD s.base
  let t := shrink n
  { s with
    Z := s.Z + s.w * L * (1 - t)
    w := s.w * t
    Ls := s.Ls ++ [L]
    Xs := s.Xs ++ [s.w * t]
    ns := s.ns ++ [n] }

/-- a sequence of `increment` calls with explicit `nlive` arguments -/
def St.incrMany (shrink : Nat → K) (s : St K) : List (K × Option Nat) → St K
  | [] => s
  | (L, n) :: rest => St.incrMany shrink (s.increment shrink L n) rest

/-- `get_logx_live_points(nlive)` : `logw + cumsum(logt(arange(nlive, 0, -1)))` -/
def St.logxLive (shrink : Nat → K) (s : St K) (n : Nat) : List K :=
  cumprodFrom s.w ((countdown n).map shrink)

/-- `finalise()`: trapezoid over `logLs + [logLs[-1]]`, `log_vols + [-inf]` -/
def St.finalise (s : St K) : K :=
  trap (s.Ls ++ [s.Ls.getLastD 0]) (s.Xs ++ [0])

/-- `log_posterior_weights` -/
def St.postW (s : St K) : List K :=
  let L := s.Ls ++ [s.Ls.getLastD 0]
  let X := s.Xs ++ [0]
  postWeights L X (trap L X)

/-- `NestedSampler.consume_sample` as far as the integral is concerned: `state.increment(worst["logL"])` -/
def consume (shrink : Nat → K) (s : St K) (dead : List K) : St K :=
  s.incrMany shrink (dead.map fun L => (L, none))

/-- `NestedSampler.finalise`: `for i, p in enumerate(live_points): state.increment(p["logL"], nlive=nlive - i)` -/
def finaliseLoopFrom (shrink : Nat → K) (nlive : Nat) (i : Nat) (s : St K) : List K → St K
  | [] => s
  | p :: ps => finaliseLoopFrom shrink nlive (i + 1) (s.increment shrink p (some (nlive - i))) ps

/-- state of a sampler with `n` live points after consuming `dead` and handing over `live` -/
def sampler (shrink : Nat → K) (n : Nat) (dead live : List K) : St K :=
  finaliseLoopFrom shrink n 0 (consume shrink (St.init n) dead) live

/-- `compute_weights(samples, nlive, expectation)` → `(evidence, posterior weights)` -/
def computeWeights (shrink : Nat → K) (samples : List K) (nl : NLive) : Except Err (K × List K) :=
  let sched : Except Err (List Nat) :=
    match nl with
    | .int n => scheduleOnePass samples.length n
    | .arr ns => if ns.length ≠ samples.length then .error .valueErr else .ok ns
  match sched with
  | .error e => .error e
  | .ok sched =>
    match samples.getLast? with
    | none => .error .indexErr            -- `samples[-1]`
    | some last =>
      let X := [1] ++ cumprodFrom 1 (sched.map shrink) ++ [0]
      let L := [0] ++ samples ++ [last]
      let Z := trap L X
      .ok (Z, postWeights L X Z)

/-! ### the documented quadrature (specification)
`Z = Σ_{i=0}^{N} ½ (Lᵢ + Lᵢ₊₁)(Xᵢ - Xᵢ₊₁)` with `L₀ = 0, X₀ = 1` (the whole prior), `Xᵢ = t₁⋯tᵢ`,
`L_{N+1} = L_N, X_{N+1} = 0` (closing point), and posterior weights `wᵢ = Lᵢ (Xᵢ₋₁ - Xᵢ) / Z`, `i = 1..N`. -/

def closedL (samples : List K) : List K := [0] ++ samples ++ [samples.getLastD 0]
def closedX (ts : List K) : List K := vols ts ++ [0]
def evidence (samples ts : List K) : K := trap (closedL samples) (closedX ts)
def weights (samples ts : List K) : List K :=
  postWeights (closedL samples) (closedX ts) (evidence samples ts)

/-- the volumes `compute_weights` builds internally (`log_vols`, closing point included) -/
def cwVols (shrink : Nat → K) (sched : List Nat) : List K :=
  [1] ++ cumprodFrom 1 (sched.map shrink) ++ [0]

end
end NessaiVerif.Quad
