import NessaiVerif.Model.Interrupt
import NessaiVerif.Gen.Interrupt
import NessaiVerif.Driver.Parse
/-
`int run <n> [key:id,…] op;op;…` — start from a populated live set (iteration 0) and apply ops:
  `c key:id`            one complete iteration with that accepted candidate
  `p j key:id`          the state pickled by an interruption after `j` mutating statements (then the run ends there)
  `r key:id`            a complete iteration after resuming (same as `c`; kept separate for readability)
  `f`                   finalise
  `order`               prints the statement order extracted from the source
State: `live=[key:id,…] nested=[id,…] evid=[key,…] idx=[…] iter=k ok=0|1` (ok = the consistency predicate).
-/
namespace NessaiVerif.Driver.Interrupt
open NessaiVerif NessaiVerif.Parse NessaiVerif.Interrupt

def parsePt? (s : String) : Option Pt :=
  match s.splitOn ":" with
  | [k, i] => do some { key := (← parseInt? k), id := (← parseNat? i) }
  | _ => none

def showTag : Tag → String
  | .setMin => "setMin" | .increment => "increment" | .appendNested => "appendNested" | .iter => "iter"
  | .shift => "shift" | .place => "place" | .idx => "idx"

def showState (n : Nat) (s : NS) : String :=
  s!"live={showList (fun p : Pt => s!"{p.key}:{p.id}") s.live} nested={showList (fun p : Pt => toString p.id) s.nested} " ++
  s!"evid={showList toString s.evid} idx={showList toString s.idx} iter={s.iter} ok={showBool (consistent n s)}"

def stepOp (n : Nat) (s : NS) (op : String) : Option (NS × String) :=
  match (op.splitOn " ").filter (· ≠ "") with
  | ["c", p] => do
      let p ← parsePt? p
      let s' := consume Gen.Interrupt.consumeOrder s p
      some (s', showState n s')
  | ["r", p] => do
      let p ← parsePt? p
      let s' := consume Gen.Interrupt.consumeOrder s p
      some (s', showState n s')
  | ["p", j, p] => do
      let j ← parseNat? j
      let p ← parsePt? p
      let s' := runTags s p (Gen.Interrupt.consumeOrder.take j)
      some (s', showState n s')
  | ["f"] => let s' := finalise s; some (s', showState n s')
  | ["order"] => some (s, showList showTag Gen.Interrupt.consumeOrder ++ s!" insGuardFirst={showBool Gen.Interrupt.insGuardFirst}")
  | _ => none

def runOps (n : Nat) (s : NS) : List String → List String
  | [] => []
  | op :: ops =>
    match stepOp n s op with
    | some (s', out) => out :: runOps n s' ops
    | none => ["bad-op"]

def handle (toks : List String) : String :=
  match toks with
  | "run" :: n :: live :: rest =>
    match parseNat? n, parseList? parsePt? live with
    | some n, some live =>
      "|".intercalate (runOps n { live := live } ((" ".intercalate rest).splitOn ";"))
    | _, _ => "bad-op"
  | _ => "bad-op"

end NessaiVerif.Driver.Interrupt
