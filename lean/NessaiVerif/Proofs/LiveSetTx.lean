import NessaiVerif.Gen.LiveSetTx
import NessaiVerif.Proofs.Np
/-
C01 — the definition GENERATED from `NestedSampler.insert_live_point` (Gen/LiveSetTx.lean, Python/NumPy indexing
semantics of Model/PySlice.lean) computes the hand-written slice program `LiveSet.insertLive`, for every live set and point.
-/
namespace NessaiVerif.LiveSetTx
open NessaiVerif NessaiVerif.Np NessaiVerif.LiveSet NessaiVerif.Py

/-- NumPy's exceptions as the model names them -/
def toLS : Py.Err → LiveSet.Err
  | .value => .shape
  | .index => .index
  | .type => .index

theorem ssl_le_length' (a : List Int) (v : Int) : ssl a v ≤ a.length := by
  unfold ssl
  induction a with
  | nil => simp
  | cons x xs ih => simp only [List.takeWhile_cons]; split <;> simp <;> omega

theorem normBound_nat (n k : Nat) : normBound n (k : Int) = min k n := by
  unfold normBound
  have : ¬ ((k : Int) < 0) := by omega
  simp [this]

theorem normBound_neg_one (n : Nat) : normBound n (-1) = n - 1 := by
  unfold normBound
  simp
  omega

theorem getSlice_one (l : List α) (k : Nat) (h : k + 1 ≤ l.length) :
    getSlice l (some (1 : Int)) (some ((k + 1 : Nat) : Int)) = (l.take (k + 1)).drop 1 := by
  unfold getSlice sliceRange
  have e1 : normBound l.length (1 : Int) = 1 := by
    have := normBound_nat l.length 1
    simp at this
    rw [this]; omega
  simp only [e1, normBound_nat]
  have : max 1 (min (k + 1) l.length) = k + 1 := by omega
  rw [this]

theorem getSlice_one_zero (l : List α) : getSlice l (some (1 : Int)) (some ((0 : Nat) : Int)) = [] := by
  unfold getSlice sliceRange
  have e0 : normBound l.length ((0 : Nat) : Int) = 0 := by rw [normBound_nat]; omega
  simp only [e0]
  simp

theorem setSlice_prefix (l v : List α) (k : Nat) (hk : k ≤ l.length) (hv : v.length = k) :
    setSlice l none (some (k : Int)) v = .ok (v ++ l.drop k) := by
  unfold setSlice sliceRange
  simp only [normBound_nat]
  have : max 0 (min k l.length) = k := by omega
  simp [this, hv]

theorem setItem_nat (l : List α) (k : Nat) (h : k < l.length) (x : α) :
    setItem l (k : Int) x = .ok (l.set k x) := by
  unfold setItem normIndex
  have h0 : (0 : Int) ≤ (k : Int) := by omega
  simp [h0, h]

theorem setItem_neg_one (l : List α) (x : α) :
    setItem l (-1) x = if l.length = 0 then .error .index else .ok (l.set (l.length - 1) x) := by
  unfold setItem normIndex
  by_cases h : l.length = 0
  · simp [h]
  · have h1 : (0 : Int) ≤ -1 + (l.length : Int) := by omega
    have h2 : (-1 + (l.length : Int)).toNat = l.length - 1 := by omega
    simp [h, h1, h2]

theorem setSlice_neg_one_nil (l : List α) :
    setSlice l none (some (-1)) ([] : List α) = if l.length ≤ 1 then .ok (l.drop (l.length - 1)) else .error .value := by
  unfold setSlice sliceRange
  simp only [normBound_neg_one]
  by_cases h : l.length ≤ 1
  · have : max 0 (l.length - 1) - 0 = 0 := by omega
    have e : max 0 (l.length - 1) = l.length - 1 := by omega
    simp [h, this, e]
  · simp [h]
    omega

/-- **The generated definition is the hand-written slice program.** -/
theorem insert_live_point_eq (live : List Pt) (p : Pt) :
    (Gen.LiveSetTx.insert_live_point live p).mapError toLS = insertLive live p := by
  unfold Gen.LiveSetTx.insert_live_point insertLive
  have hle := ssl_le_length' (live.map (·.logL)) p.logL
  simp only [List.length_map] at hle
  generalize hidx : ssl (live.map (·.logL)) p.logL = idx at hle
  dsimp only
  cases idx with
  | zero =>
    have e0 : getSlice live (some (1 : Int)) (some ((0 : Nat) : Int)) = [] := getSlice_one_zero live
    have em : (((0 : Nat) : Int) - (1 : Int)) = -1 := by omega
    rw [e0, em, setSlice_neg_one_nil]
    by_cases h1 : live.length ≤ 1
    · by_cases h0 : live.length = 0
      · have : live = [] := List.length_eq_zero_iff.mp h0
        subst this
        simp [bind, Except.bind, setItem_neg_one, Except.mapError, toLS]
      · have hl : live.length = 1 := by omega
        simp [h1, bind, Except.bind, setItem_neg_one, hl, Except.mapError, pure, Except.pure]
    · have hst : ¬ (0 = live.length - 1) := by omega
      simp [h1, hst, bind, Except.bind, Except.mapError, toLS]
  | succ k =>
    have hk : k + 1 ≤ live.length := hle
    have ei : (((k + 1 : Nat) : Int) - (1 : Int)) = (k : Int) := by omega
    rw [ei, getSlice_one live k hk]
    have hlen : ((live.take (k + 1)).drop 1).length = k := by simp; omega
    rw [setSlice_prefix live _ k (by omega) hlen]
    have hl2 : k < ((live.take (k + 1)).drop 1 ++ live.drop k).length := by simp; omega
    have hn0 : ¬ (live.length = 0) := by omega
    have hmin : min (k + 1) live.length - 1 = k := by omega
    simp only [bind, Except.bind]
    rw [setItem_nat _ k hl2]
    simp [hmin, hn0, Except.mapError, pure, Except.pure]

end NessaiVerif.LiveSetTx
