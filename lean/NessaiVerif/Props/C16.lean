import NessaiVerif.Proofs.ResampleCdf
import Mathlib.Analysis.SpecialFunctions.Log.Basic
/-
C16 — posterior resampling follows the posterior weights.
Property theorems only (helper lemmas live in Proofs/Resample*.lean).

Weights are in the linear domain (`w = exp(log_w)`, `-inf ↦ 0`); `u` are the uniform
draws handed to the code by the random number generator.  Everything generic is proved
for an arbitrary linearly ordered field `K` (so for ℚ, which the driver executes, and ℝ).
-/
set_option linter.unusedSectionVars false

namespace NessaiVerif.C16
open NessaiVerif.Np NessaiVerif.Resample

variable {K : Type} [Field K] [LinearOrder K] [IsStrictOrderedRing K] {α : Type}

/-! ## the linear-domain model is the log-space code -/

/-- The acceptance test of the code, `log_w - max(log_w) > log(u)`, is `u < w / w_max`
(positive `u`, `w`; for `u = 0` the code has `log u = -inf`, for `w = 0` it has `log w = -inf`:
both limits agree with the strict linear inequality, see `rejection_zero_never` and the tie). -/
theorem log_space_accept_iff (u w wmax : ℝ) (hu : 0 < u) (hw : 0 < w) (hm : 0 < wmax) :
    Real.log w - Real.log wmax > Real.log u ↔ u < w / wmax := by
  show Real.log u < Real.log w - Real.log wmax ↔ _
  rw [← Real.log_div hw.ne' hm.ne', Real.log_lt_log_iff hu (div_pos hw hm)]

example : Real.log 1 - Real.log 2 > Real.log (1 / 4) ↔ (1 / 4 : ℝ) < 1 / 2 :=
  log_space_accept_iff _ _ _ (by norm_num) (by norm_num) (by norm_num)

/-- `np.exp(log_w - logsumexp(log_w))` is `w / Σw`. -/
theorem log_space_probability (w S : ℝ) (hw : 0 < w) (hS : 0 < S) :
    Real.exp (Real.log w - Real.log S) = w / S := by
  rw [Real.exp_sub, Real.exp_log hw, Real.exp_log hS]

example : Real.exp (Real.log 1 - Real.log 3) = (1 : ℝ) / 3 :=
  log_space_probability 1 3 (by norm_num) (by norm_num)

/-- Shifting a log-weight by a constant `a` multiplies the weight by the positive constant `exp a`. -/
theorem log_shift_is_scale (lw a : ℝ) : Real.exp (lw + a) = Real.exp a * Real.exp lw ∧ 0 < Real.exp a := by
  exact ⟨by rw [Real.exp_add, mul_comm], Real.exp_pos a⟩

example : Real.exp (0 + 1) = Real.exp 1 * Real.exp 0 ∧ 0 < Real.exp 1 := log_shift_is_scale 0 1

/-! ## rejection sampling -/

/-- Sample `i` is accepted exactly when its own uniform draw is below `wᵢ / w_max`
(strictly): each decision depends on `uᵢ` and `wᵢ / w_max` only. -/
theorem rejection_keep_iff (w u : List K) (i : Nat) :
    i ∈ rejectionIndices w u ↔
      ∃ (hw : i < w.length) (hu : i < u.length), u[i] < w[i] / lmax w := by
  unfold rejectionIndices
  rw [mem_rejGo]
  constructor
  · rintro ⟨j, hj, h⟩
    have : i = j := by omega
    subst this; exact h
  · intro h; exact ⟨i, by omega, h⟩

example : (1 : Nat) ∈ rejectionIndices [(1 : ℚ), 1 / 2, 0] [9 / 10, 1 / 4, 0] := by decide +kernel

/-- A sample carrying the maximum weight is accepted for every draw `u ∈ [0, 1)`
(weights not all zero). -/
theorem rejection_max_kept (w u : List K) (i : Nat) (hw : i < w.length) (hu : i < u.length)
    (hmax : w[i] = lmax w) (hpos : 0 < lmax w) (hu1 : u[i] < 1) :
    i ∈ rejectionIndices w u := by
  rw [rejection_keep_iff]
  refine ⟨hw, hu, ?_⟩
  rw [hmax, div_self hpos.ne']
  exact hu1

example : (0 : Nat) ∈ rejectionIndices [(2 : ℚ), 1] [999 / 1000, 0] :=
  rejection_max_kept _ _ 0 (by simp) (by simp) (by decide +kernel) (by decide +kernel) (by decide +kernel)

/-- Without "not all zero" nothing is accepted, not even the maximum-weight sample. -/
theorem rejection_max_kept_fails_without :
    (0 : Nat) ∉ rejectionIndices [(0 : ℚ), 0] [0, 0] := by decide +kernel

/-- With non-negative weights that are not all zero and all draws below one, rejection
sampling returns at least one sample (the maximum is attained somewhere). -/
theorem rejection_some_kept (w u : List K) (hw : ∀ x ∈ w, 0 ≤ x) (hpos : 0 < lmax w)
    (hlen : w.length ≤ u.length) (hu1 : ∀ x ∈ u, x < 1) :
    rejectionIndices w u ≠ [] := by
  have hne : w ≠ [] := by rintro rfl; simp at hpos
  obtain ⟨i, hi, hmax⟩ := List.getElem_of_mem (lmax_mem hne hw)
  have hiu : i < u.length := by omega
  have := rejection_max_kept w u i hi hiu hmax hpos (hu1 _ (List.getElem_mem hiu))
  intro h
  rw [h] at this
  simp at this

example : rejectionIndices [(1 : ℚ), 3, 2] [1 / 2, 1 / 2, 1 / 2] ≠ [] :=
  rejection_some_kept _ _ (by decide +kernel) (by decide +kernel) (by simp) (by decide +kernel)

/-- A zero-weight sample (log-weight `-inf`) is never accepted, whatever the draw `u ≥ 0`,
including `u = 0`. -/
theorem rejection_zero_never (w u : List K) (i : Nat) (hw : i < w.length) (hu : i < u.length)
    (hz : w[i] = 0) (hu0 : 0 ≤ u[i]) : i ∉ rejectionIndices w u := by
  rw [rejection_keep_iff]
  rintro ⟨_, _, h⟩
  rw [hz, zero_div] at h
  exact absurd hu0 (not_le.mpr h)

example : (1 : Nat) ∉ rejectionIndices [(1 : ℚ), 0] [0, 0] :=
  rejection_zero_never _ _ 1 (by simp) (by simp) (by simp) (by simp)

/-- The guard `0 ≤ u` is needed (a uniform draw is never negative). -/
theorem rejection_zero_never_fails_without :
    (1 : Nat) ∈ rejectionIndices [(1 : ℚ), 0] [0, -1] := by decide +kernel

/-- The accepted indices are strictly increasing, in range, and at most `N` many. -/
theorem rejection_indices_sorted (w u : List K) :
    (rejectionIndices w u).Pairwise (· < ·) ∧ (∀ i ∈ rejectionIndices w u, i < w.length) ∧
      (rejectionIndices w u).length ≤ w.length := by
  refine ⟨rejGo_sorted _ _ _ _, ?_, rejGo_length_le _ _ _ _⟩
  intro i hi
  have := (rejGo_bounds _ _ _ _ i hi).2
  omega

example : rejectionIndices [(1 : ℚ), 1 / 2, 0, 1] [9 / 10, 1 / 4, 0, 0] = [0, 1, 3] := by decide +kernel

/-- Rejection sampling does not depend on the normalisation of the weights
(a constant shift of all log-weights). -/
theorem rejection_scale_invariant (w u : List K) (c : K) (hc : 0 < c) :
    rejectionIndices (w.map (fun x => c * x)) u = rejectionIndices w u := by
  unfold rejectionIndices
  rw [lmax_map_mul_left hc]
  generalize lmax w = m
  generalize 0 = k
  induction w generalizing k u with
  | nil => simp [rejGo]
  | cons x xs ih =>
    cases u with
    | nil => simp [rejGo]
    | cons y ys =>
      have hk : keep (c * m) (c * x) y = keep m x y := by
        unfold keep; rw [mul_div_mul_left _ _ hc.ne']
      simp only [List.map_cons, rejGo, hk, ih]

example : rejectionIndices ([(1 : ℚ), 1 / 2].map (fun x => 8 * x)) [1 / 2, 1 / 4] =
    rejectionIndices [(1 : ℚ), 1 / 2] [1 / 2, 1 / 4] := rejection_scale_invariant _ _ 8 (by norm_num)

/-! ## the returned samples are the nested samples at the returned indices -/

/-- Looking indices up in the nested samples only ever yields nested samples, and for indices
in range the `k`-th returned sample is the nested sample at the `k`-th returned index. -/
theorem indices_identify (nested : List α) (idx : List Nat) :
    (∀ s ∈ takeIdx nested idx, s ∈ nested) ∧
      ((∀ i ∈ idx, i < nested.length) →
        (takeIdx nested idx).length = idx.length ∧
          ∀ k (hk : k < idx.length), (takeIdx nested idx)[k]? = nested[idx[k]]?) :=
  ⟨takeIdx_mem nested idx, fun h => ⟨takeIdx_length nested idx h, takeIdx_getElem nested idx h⟩⟩

example : takeIdx [10, 11, 12, 13] [3, 0, 0] = [13, 10, 10] := by decide

/-- For rejection sampling the returned samples are exactly the nested samples whose
acceptance test succeeded, in their original order (one sample per index, no repeats). -/
theorem indices_identify_rejection (nested : List α) (w u : List K) :
    takeIdx nested (rejectionIndices w u) = rejMask (lmax w) w u nested := by
  rw [takeIdx_eq]
  exact filterMap_rejGo (lmax w) w u nested []

example : takeIdx [10, 11, 12] (rejectionIndices [(1 : ℚ), 0, 1 / 2] [1 / 2, 0, 1 / 4]) = [10, 12] := by
  decide +kernel

/-! ## multinomial resampling -/

/-- With non-negative weights of positive total and a draw `0 ≤ u < 1`, index `i` is selected
exactly when `u ∈ [cdf_{i-1}, cdf_i)` where `cdf_i = (w₀+…+wᵢ)/Σw` — the table legacy
`RandomState.choice` builds (`cumsum(p) / cumsum(p)[-1]`, `searchsorted(side='right')`). -/
theorem multinomial_index_iff (w : List K) (hw : ∀ x ∈ w, 0 ≤ x) (hS : 0 < lsum w) (u : K)
    (hu0 : 0 ≤ u) (hu1 : u < 1) (i : Nat) :
    multIndex w u = i ↔
      i < w.length ∧ lsum (w.take i) / lsum w ≤ u ∧ u < lsum (w.take (i + 1)) / lsum w :=
  multIndex_eq_iff w hw hS u hu0 hu1 i

example : multIndex [(1 : ℚ), 2, 1] (1 / 2) = 1 := by decide +kernel

/-- Without `u < 1` the look-up runs off the end of the table (index `N`, not a sample). -/
theorem multinomial_index_iff_fails_without : multIndex [(1 : ℚ), 2, 1] 1 = 3 := by decide +kernel

/-- The interval of draws that select `i` has length `wᵢ / Σw`: under a uniform draw the
selection frequency is proportional to the weight. -/
theorem multinomial_interval_length (w : List K) (i : Nat) (hi : i < w.length) :
    lsum (w.take (i + 1)) / lsum w - lsum (w.take i) / lsum w = w[i] / lsum w := by
  rw [lsum_take_succ w i hi]
  ring

example : lsum ([(1 : ℚ), 2, 1].take 2) / 4 - lsum ([(1 : ℚ), 2, 1].take 1) / 4 = 2 / 4 := by
  decide +kernel

/-- Every multinomial draw is a valid index, and never the index of a zero-weight sample. -/
theorem multinomial_zero_never (w : List K) (hw : ∀ x ∈ w, 0 ≤ x) (hS : 0 < lsum w) (u : K)
    (hu0 : 0 ≤ u) (hu1 : u < 1) :
    ∃ hi : multIndex w u < w.length, w[multIndex w u] ≠ 0 := by
  obtain ⟨hi, hlo, hhi⟩ := (multinomial_index_iff w hw hS u hu0 hu1 _).mp rfl
  refine ⟨hi, ?_⟩
  intro hz
  rw [lsum_take_succ w _ hi, hz, add_zero] at hhi
  exact absurd (lt_of_le_of_lt hlo hhi) (lt_irrefl _)

example : multIndex [(0 : ℚ), 1, 0, 1] 0 = 1 ∧ multIndex [(0 : ℚ), 1, 0, 1] (1 / 2) = 3 := by
  decide +kernel

/-- Multinomial resampling returns exactly the requested number of draws, each a valid index
of a sample with non-zero weight. -/
theorem multinomial_count (w : List K) (n : Nat) (us : List K) (hn : n ≤ us.length) :
    (multinomialIndices w n us).length = n ∧
      ((∀ x ∈ w, 0 ≤ x) → 0 < lsum w → (∀ x ∈ us, 0 ≤ x ∧ x < 1) →
        ∀ i ∈ multinomialIndices w n us, ∃ hi : i < w.length, w[i] ≠ 0) := by
  constructor
  · simp [multinomialIndices, List.length_take, hn]
  · intro hw hS hu i hi
    simp only [multinomialIndices, List.mem_map] at hi
    obtain ⟨x, hx, rfl⟩ := hi
    have := hu x (List.mem_of_mem_take hx)
    exact multinomial_zero_never w hw hS x this.1 this.2

example : multinomialIndices [(1 : ℚ), 2, 1] 3 [0, 1 / 2, 7 / 8, 1 / 3] = [0, 1, 2] := by decide +kernel

/-- Multinomial resampling does not depend on the normalisation of the weights. -/
theorem multinomial_scale_invariant (w : List K) (n : Nat) (us : List K) (c : K) (hc : c ≠ 0) :
    multinomialIndices (w.map (fun x => c * x)) n us = multinomialIndices w n us := by
  unfold multinomialIndices cdf
  rw [probs_map_mul_left hc]

example : multinomialIndices ([(1 : ℚ), 2].map (fun x => 5 * x)) 1 [1 / 2] =
    multinomialIndices [(1 : ℚ), 2] 1 [1 / 2] :=
  multinomial_scale_invariant [(1 : ℚ), 2] 1 [1 / 2] 5 (by norm_num)

/-! ## Kish's effective sample size -/

/-- The quantity the code computes, `1 / Σ pᵢ²` with `pᵢ = wᵢ/Σw`, is Kish's `(Σw)² / Σw²`. -/
theorem ess_eq_kish (w : List K) : ess w = lsum w * lsum w / lsum (w.map (fun x => x * x)) :=
  Resample.ess_eq_kish w

example : ess [(1 : ℚ), 1, 2] = 8 / 3 := by decide +kernel

/-- `1 ≤ ESS ≤ N` for non-negative weights that are not all zero. -/
theorem ess_bounds (w : List K) (hw : ∀ x ∈ w, 0 ≤ x) (hS : 0 < lsum w) :
    1 ≤ ess w ∧ ess w ≤ (w.length : K) := by
  rw [Resample.ess_eq_kish]
  have hQ := sumSq_pos w hS
  constructor
  · rw [one_le_div hQ]; exact sumSq_le_sq_sum w hw
  · rw [div_le_iff₀ hQ]; exact sq_sum_le_length_mul_sumSq w

example : 1 ≤ ess [(1 : ℚ), 0, 2] ∧ ess [(1 : ℚ), 0, 2] ≤ 3 := by decide +kernel

/-- The lower bound needs non-negative weights (which `exp(log_w)` always are). -/
theorem ess_bounds_fails_without : ess [(2 : ℚ), -1] < 1 := by decide +kernel

/-- All-zero weights (every log-weight `-inf`) are outside the bounds: the model yields 0
(the code yields NaN). -/
theorem ess_bounds_fails_without_total : ess [(0 : ℚ), 0] = 0 := by decide +kernel

/-- The ESS does not change when all weights are multiplied by a constant
(all log-weights shifted by a constant). -/
theorem ess_scale_invariant (w : List K) (c : K) (hc : c ≠ 0) :
    ess (w.map (fun x => c * x)) = ess w := by
  unfold ess
  rw [probs_map_mul_left hc]

example : ess ([(1 : ℚ), 1, 2].map (fun x => 7 * x)) = ess [(1 : ℚ), 1, 2] :=
  ess_scale_invariant _ 7 (by norm_num)

/-- `effective_n_posterior_samples` is the same quantity, with 0 for an empty state. -/
theorem effectiveN_eq (w : List K) : effectiveN w = if w = [] then 0 else ess w := by
  unfold effectiveN
  cases w <;> simp

example : effectiveN ([] : List ℚ) = 0 ∧ effectiveN [(1 : ℚ), 1] = 2 := by decide +kernel

/-- The default number of multinomial draws is the integer part of the ESS, and lies in `[1, N]`. -/
theorem default_count (w : List ℚ) (hw : ∀ x ∈ w, 0 ≤ x) (hS : 0 < lsum w) :
    ((defaultN w : ℚ) ≤ ess w ∧ ess w < (defaultN w : ℚ) + 1) ∧ 1 ≤ defaultN w ∧ defaultN w ≤ w.length := by
  obtain ⟨h1, hN⟩ := ess_bounds w hw hS
  have hfl : (1 : ℤ) ≤ (ess w).floor := Rat.le_floor_iff.mpr (by simpa using h1)
  have hcast : ((defaultN w : ℕ) : ℤ) = (ess w).floor := by
    unfold defaultN
    exact Int.toNat_of_nonneg (by omega)
  have hq : (defaultN w : ℚ) = ((ess w).floor : ℚ) := by
    rw [← hcast]; simp
  refine ⟨⟨?_, ?_⟩, ?_, ?_⟩
  · rw [hq]; exact Rat.floor_le _
  · rw [hq]
    have := Rat.lt_floor_add_one (ess w)
    simpa using this
  · omega
  · have h2 : ((ess w).floor : ℚ) ≤ (w.length : ℚ) := le_trans (Rat.floor_le _) hN
    have h3 : (ess w).floor ≤ (w.length : ℤ) := by exact_mod_cast h2
    omega

example : defaultN [(1 : ℚ), 1, 2] = 2 := by decide +kernel

/-! ## the whole function -/

/-- `draw_posterior_samples(method="rejection_sampling")` on matching non-empty inputs returns the
accepted indices and the nested samples at those indices; `n` is ignored. -/
theorem draw_rejection (nested : List α) (w u : List ℚ) (n : Option Nat)
    (hN : nested ≠ []) (hw : w.length = nested.length) (hu : nested.length ≤ u.length) :
    drawPosterior "rejection_sampling" n nested w u =
      .ok (rejectionIndices w u, takeIdx nested (rejectionIndices w u)) := by
  have h1 : methodOf "rejection_sampling" = some .rejection := by decide
  have h2 : ¬ (nested.length = 0 ∨ w.length ≠ nested.length) := by
    simp [hw, hN]
  have h3 : ¬ u.length < nested.length := by omega
  simp only [drawPosterior, h1, if_neg h2, if_neg h3]

example : (drawPosterior "rejection_sampling" none [10, 11, 12] [1, 1 / 2, 0] [1 / 2, 1 / 2, 0]).toOption =
    some ([0], [10]) := by decide +kernel

/-- `draw_posterior_samples` with `method="multinomial_resampling"` (or its alias
`"importance_sampling"`) returns exactly `n` samples — `⌊ESS⌋` of them when `n` is not given —
each of them the nested sample at the returned index. -/
theorem draw_multinomial (method : String)
    (hm : method = "multinomial_resampling" ∨ method = "importance_sampling")
    (nested : List α) (w u : List ℚ) (n : Option Nat)
    (hN : nested ≠ []) (hlen : w.length = nested.length) (hw : ∀ x ∈ w, 0 ≤ x) (hS : 0 < lsum w)
    (hu : ∀ x ∈ u, 0 ≤ x ∧ x < 1) (hk : n.getD (defaultN w) ≤ u.length) :
    ∃ idx s, drawPosterior method n nested w u = .ok (idx, s) ∧
      idx.length = n.getD (defaultN w) ∧ s.length = idx.length ∧
      (∀ i ∈ idx, i < nested.length) ∧ (∀ x ∈ s, x ∈ nested) ∧
      ∀ k (hk : k < idx.length), s[k]? = nested[idx[k]]? := by
  have h1 : methodOf method = some .multinomial := by
    rcases hm with rfl | rfl <;> decide
  have h2 : ¬ (nested.length = 0 ∨ w.length ≠ nested.length) := by
    simp [hlen, hN]
  have h3 : ¬ lsum w = 0 := ne_of_gt hS
  have h4 : ¬ u.length < n.getD (defaultN w) := by omega
  refine ⟨multinomialIndices w (n.getD (defaultN w)) u,
    takeIdx nested (multinomialIndices w (n.getD (defaultN w)) u), ?_, ?_⟩
  · simp only [drawPosterior, h1, if_neg h2, if_neg h3, if_neg h4]
  · obtain ⟨hc, hv⟩ := multinomial_count w (n.getD (defaultN w)) u hk
    have hrange : ∀ i ∈ multinomialIndices w (n.getD (defaultN w)) u, i < nested.length := by
      intro i hi
      obtain ⟨h, _⟩ := hv hw hS hu i hi
      omega
    obtain ⟨hmem, hrest⟩ := indices_identify nested (multinomialIndices w (n.getD (defaultN w)) u)
    obtain ⟨hl, hget⟩ := hrest hrange
    exact ⟨hc, hl, hrange, hmem, hget⟩

example : (drawPosterior "importance_sampling" none [10, 11, 12] [1, 1, 2] [0, 1 / 2, 3 / 4]).toOption =
    some ([0, 2], [10, 12]) := by decide +kernel

/-- An unknown method string is rejected. -/
theorem draw_unknown_method (nested : List α) (w u : List ℚ) (n : Option Nat) :
    drawPosterior "nested_sampling" n nested w u = .error .valueErr := by
  have h1 : methodOf "nested_sampling" = none := by decide
  simp only [drawPosterior, h1]

example : (drawPosterior "nested_sampling" none [1] [1] [0]).toOption = none := by decide +kernel

end NessaiVerif.C16
