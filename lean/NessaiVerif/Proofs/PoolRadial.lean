import NessaiVerif.Model.Pool
import Mathlib.Algebra.Order.Field.Basic
import Mathlib.Tactic.FieldSimp
import Mathlib.Tactic.Ring
import Mathlib.Algebra.Order.Ring.Rat
import Mathlib.Algebra.Order.Field.Rat
import Mathlib.Tactic.NormNum.Basic
/-
C09 — the real-valued part: radially truncated latent draws (Mathlib; any ordered field, hence ℚ and ℝ).
-/
namespace NessaiVerif.Pool

theorem normSq_radialScale {K : Type} [Field K] (p s : K) (hs : s ≠ 0) (xs : List K) :
    normSq (radialScale p s xs) = (p * p) / (s * s) * normSq xs := by
  induction xs with
  | nil => simp [normSq, radialScale]
  | cons x xs ih =>
    have ih' : List.foldr (fun x acc => x * x + acc) 0 (List.map (fun x => p * x / s) xs)
        = (p * p) / (s * s) * List.foldr (fun x acc => x * x + acc) 0 xs := by
      simpa [normSq, radialScale] using ih
    simp only [normSq, radialScale, List.map_cons, List.foldr_cons]
    rw [ih']
    field_simp

theorem normSq_nonneg {K : Type} [Field K] [LinearOrder K] [IsStrictOrderedRing K] (xs : List K) :
    0 ≤ normSq xs := by
  induction xs with
  | nil => simp [normSq]
  | cons x xs ih =>
    have : normSq (x :: xs) = x * x + normSq xs := rfl
    rw [this]
    exact add_nonneg (mul_self_nonneg x) ih

end NessaiVerif.Pool
