import NessaiVerif.Model.Batch
import NessaiVerif.Proofs.Np
import NessaiVerif.Gen.BatchTx
/-
C10 — batched, chunked and pooled evaluation equals pointwise evaluation, once.
Property theorems only (helper lemmas live in Proofs/).
-/
namespace NessaiVerif.C10
open NessaiVerif.Np NessaiVerif.Batch

variable {α β : Type}

/-- Hypotheses of the property: the user function is batch-consistent (what
`check_vectorised_function` tests) and `pool.map` is order-preserving `map`. -/
def Consistent (F : List α → List β) (f : α → β) : Prop := ∀ b, F b = b.map f
def PoolLawful (pmap : (List α → List β) → List (List α) → List (List β)) : Prop :=
  ∀ g ys, pmap g ys = ys.map g

/-- `array_split_chunksize` loses, duplicates and reorders nothing (any length incl. 0). -/
theorem concat_split_chunk (xs : List α) (c : Int) (hc : 1 ≤ c) :
    ∃ chunks, arraySplitChunksize xs c = .ok chunks ∧ chunks.flatten = xs ∧ chunks ≠ [] := by
  refine ⟨splitChunk c.toNat xs, ?_, flatten_splitChunk _ _, splitChunk_ne_nil _ _⟩
  unfold arraySplitChunksize
  have : ¬ c < 1 := by omega
  simp [this]

/-- the documented guarantee: the function is never called with more than `chunksize` points -/
theorem chunk_len_le (xs : List α) (c : Int) (hc : 1 ≤ c) :
    ∀ chunks, arraySplitChunksize xs c = .ok chunks → ∀ ch ∈ chunks, (ch.length : Int) ≤ c := by
  intro chunks h ch hch
  unfold arraySplitChunksize at h
  have hlt : ¬ c < 1 := by omega
  simp [hlt] at h
  subst h
  have := splitChunk_len_le c.toNat (by omega) xs ch hch
  omega

/-- a chunk size below one is rejected, not silently accepted -/
theorem chunksize_zero_rejected (xs : List α) (c : Int) (hc : c < 1) :
    arraySplitChunksize xs c = .error .valueErr := by
  simp [arraySplitChunksize, hc]

/-- `np.array_split(x, n_pool)` loses, duplicates and reorders nothing, for every pool size -/
theorem concat_split_n (xs : List α) (n : Nat) (hn : 1 ≤ n) :
    (splitN n xs).flatten = xs ∧ (splitN n xs).length = n :=
  ⟨flatten_splitN n hn xs, length_splitN n xs⟩

/-- Every point is handed to the user function exactly once, in order, in every branch. -/
theorem calls_cover_once (vectorised : Bool) (chunk : Option Int) (pool : Bool)
    (nPool : Option Nat) (xs : List α) (calls : List (List α))
    (h : batchCalls vectorised chunk pool nPool xs = .ok calls) : calls.flatten = xs := by
  have hsingle : (xs.map fun x => [x]).flatten = xs := flatten_singletons xs
  unfold batchCalls splitPool arraySplitChunksize at h
  split at h
  · split at h
    · split at h
      · split at h
        · cases h; simp
        · split at h
          · cases h
          · cases h; exact flatten_splitChunk _ _
      · cases h; simp
    · cases h; exact hsingle
  · split at h
    · split at h
      · split at h
        · split at h
          · split at h
            · cases h
            · cases h; exact flatten_splitN _ (by omega) _
          · cases h
        · split at h
          · cases h
          · cases h; exact flatten_splitChunk _ _
      · split at h
        · split at h
          · cases h
          · cases h; exact flatten_splitN _ (by omega) _
        · cases h
    · cases h; exact hsingle

/-- **Main theorem.**  Whenever the batch interface returns, it returns exactly the
pointwise values in the input order — for every chunk size, pool size, vectorised or not. -/
theorem batchEval_eq_map (F : List α → List β) (f : α → β)
    (pmap : (List α → List β) → List (List α) → List (List β))
    (hF : Consistent F f) (hP : PoolLawful pmap)
    (vectorised : Bool) (chunk : Option Int) (pool : Bool) (nPool : Option Nat)
    (xs : List α) (out : List β)
    (h : batchEval F f pmap vectorised chunk pool nPool xs = .ok out) : out = xs.map f := by
  unfold batchEval at h
  split at h
  · cases h
  · rename_i calls hcalls
    have hcov := calls_cover_once vectorised chunk pool nPool xs calls hcalls
    have hg : ∀ b : List α, (if vectorised then F else fun b => b.map f) b = b.map f := by
      intro b; cases vectorised <;> simp [hF b]
    have hmap : (calls.map (if vectorised then F else fun b => b.map f)).flatten = xs.map f := by
      rw [← hcov, List.map_flatten]
      congr 1
      apply List.map_congr_left
      intro b _
      exact hg b
    cases pool
    · simp at h; rw [← h]; exact hmap
    · simp [hP _ _] at h; rw [← h]; exact hmap

/-- The batch interface fails only for the configurations the code rejects:
negative chunk size, or a pool whose size is unknown/zero with a vectorised function
and no chunk size. -/
theorem batchEval_total (F : List α → List β) (f : α → β)
    (pmap : (List α → List β) → List (List α) → List (List β))
    (vectorised : Bool) (chunk : Option Int) (pool : Bool) (nPool : Option Nat) (xs : List α)
    (hchunk : ∀ c, chunk = some c → 0 ≤ c)
    (hpool : pool = true → vectorised = true → (chunk = none ∨ chunk = some 0) → ∃ n, nPool = some n ∧ 1 ≤ n) :
    ∃ out, batchEval F f pmap vectorised chunk pool nPool xs = .ok out := by
  unfold batchEval batchCalls arraySplitChunksize
  cases pool <;> cases vectorised <;> simp
  · cases chunk with
    | none => simp
    | some c =>
      have := hchunk c rfl
      by_cases h0 : c = 0
      · simp [h0]
      · have : ¬ c < 1 := by omega
        simp [h0, this]
  · cases chunk with
    | none =>
      obtain ⟨n, hn, h1⟩ := hpool rfl rfl (Or.inl rfl)
      have : n ≠ 0 := by omega
      simp [splitPool, hn, this]
    | some c =>
      have := hchunk c rfl
      by_cases h0 : c = 0
      · obtain ⟨n, hn, h1⟩ := hpool rfl rfl (Or.inr (by simp [h0]))
        have : n ≠ 0 := by omega
        simp [splitPool, h0, hn, this]
      · have : ¬ c < 1 := by omega
        simp [h0, this]

/-- The likelihood-evaluation counter grows by exactly the batch size, once.
DEFINITIONAL: the model's `batchEvalCount` returns the batch length by construction, so this restates the model; that the
real `Model.batch_evaluate_log_likelihood` adds `len(x)` to `likelihood_evaluations` exactly once per call (all chunkings,
pool or no pool) is established by the correspondence, which reads the real counter before and after every call. -/
theorem counter_once (before : Nat) (xs : List α) :
    counterAfter before xs.length = before + xs.length := rfl

/-- non-vacuity: a concrete chunked, pooled evaluation meets the hypotheses and returns the map -/
example : (batchEval (fun b => b.map (· + 1)) (· + 1) (fun g ys => ys.map g)
    true (some 2) true (some 3) [1, 2, 3, 4, 5]).toOption = some [2, 3, 4, 5, 6] := by decide +kernel

/-! ## The dispatch tree of the source, regenerated on every run, IS the model's -/

/-- `Gen.BatchTx.batchCallsTx` is generated by `harness/c10_tx.py` from the current text of `batch_evaluate_function`
(its `if` tree and the way each leaf calls the user function).  For every input it hands the user function exactly the
batches `batchCalls` says, and goes through `pool.map` exactly when a pool was given — so `calls_cover_once`,
`batchEval_eq_map` and `batchEval_total` are theorems about the source as it is now. -/
theorem batch_calls_source_eq_model (vectorised : Bool) (chunk : Option Int) (pool : Bool) (nPool : Option Nat) (xs : List α) :
    Gen.BatchTx.batchCallsTx vectorised chunk (!pool) nPool xs =
      tagCalls pool (batchCalls vectorised chunk pool nPool xs) := by
  unfold Gen.BatchTx.batchCallsTx batchCalls
  cases pool <;> cases vectorised <;> cases chunk <;> simp
  all_goals (rename_i c; by_cases h : c = 0 <;> simp [h])

example : Gen.BatchTx.batchCallsTx true (some 2) true none [1, 2, 3] = .ok (false, [[1, 2], [3]]) := by
  simp [Gen.BatchTx.batchCallsTx, tagCalls, arraySplitChunksize, splitChunk]

end NessaiVerif.C10
