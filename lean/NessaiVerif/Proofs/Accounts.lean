import NessaiVerif.Model.Accounts
import NessaiVerif.Model.AccountsTables
/-
C12 — helper lemmas: the invariant that links the code-shaped account state (`St`: counters that restart at 0 in a
fresh process and are re-seeded with `+=` from the pickle, a sampling clock with a re-armed start) with the
commit log (`Log`), preserved by every step.
-/
namespace NessaiVerif.Accounts

theorem sumE_append (a b) : sumE (a ++ b) = sumE a + sumE b := by simp [sumE, List.map_append, List.sum_append]
theorem sumT_append (a b) : sumT (a ++ b) = sumT a + sumT b := by simp [sumT, List.map_append, List.sum_append]
theorem sumL_append (a b) : sumL (a ++ b) = sumL a + sumL b := by simp [sumL, List.map_append, List.sum_append]
@[simp] theorem sumE_nil : sumE [] = 0 := rfl
@[simp] theorem sumT_nil : sumT [] = 0 := rfl
@[simp] theorem sumL_nil : sumL [] = 0 := rfl
@[simp] theorem sumE_single (e t l) : sumE [(e, t, l)] = e := by simp [sumE]
@[simp] theorem sumT_single (e t l) : sumT [(e, t, l)] = t := by simp [sumT]
@[simp] theorem sumL_single (e t l) : sumL [(e, t, l)] = l := by simp [sumL]

/-- The counters part of the invariant (needs only a fresh model on every launch). -/
structure InvC (s : St) (l : Log) : Prop where
  alive : s.alive = l.alive
  noFile : s.file = none → l.committed = []
  fileE : ∀ sv, s.file = some sv → sv.evals = sumE l.committed ∧ sv.ltime = sumL l.committed
  liveE : s.alive = true → s.mEvals = sumE l.committed + sumE l.pending
  liveL : s.alive = true → s.mLtime = sumL l.committed + sumL l.pending

/-- The sampling-time part (needs the loop to re-arm the start). -/
structure InvT (s : St) (l : Log) : Prop where
  fileT : ∀ sv, s.file = some sv → sv.stime = sumT l.committed
  liveS : s.alive = true → s.stime = sumT l.committed
  liveP : s.alive = true → s.start ≤ s.clock ∧ s.clock - s.start = sumT l.pending

/-- The weaker sampling-time invariant that survives a stale start (importance sampler). -/
structure InvTle (s : St) (l : Log) : Prop where
  fileT : ∀ sv, s.file = some sv → sumT l.committed ≤ sv.stime ∧ sv.start ≤ s.clock
  liveS : s.alive = true → sumT l.committed ≤ s.stime
  liveP : s.alive = true → s.start ≤ s.clock ∧ sumT l.pending ≤ s.clock - s.start

theorem invC_init : InvC {} {} := by
  constructor <;> simp

theorem invT_init : InvT {} {} := by
  constructor <;> simp

theorem invTle_init : InvTle {} {} := by
  constructor <;> simp

theorem invC_step (c : Cfg) (hf : c.freshModel = true) (s : St) (l : Log) (op : Op) (h : InvC s l) :
    InvC (step c s op) (logStep l op) := by
  obtain ⟨ha, hn, hfe, hle, hll⟩ := h
  cases op with
  | launch =>
    cases hfile : s.file with
    | none =>
      have hc := hn hfile
      constructor <;> simp [step, logStep, hfile, hf, hc]
    | some sv =>
      have ⟨h1, h2⟩ := hfe sv hfile
      constructor <;> simp [step, logStep, hfile, hf, h1, h2]
  | run e t lt =>
    by_cases hal : s.alive = true
    · have hal' : l.alive = true := by rw [← ha]; exact hal
      have h1 := hle hal
      have h2 := hll hal
      constructor
      · simp [step, logStep, hal, hal']
      · intro hfile; simp [step, hal] at hfile; simp [logStep, hal', hn hfile]
      · intro sv hfile; simp [step, hal] at hfile; simpa [logStep, hal'] using hfe sv hfile
      · intro _; simp [step, logStep, hal, hal', sumE_append, h1]; omega
      · intro _; simp [step, logStep, hal, hal', sumL_append, h2]; omega
    · have hal0 : s.alive = false := by simpa using hal
      have hal' : l.alive = false := by rw [← ha]; exact hal0
      constructor <;> simp_all [step, logStep]
  | checkpoint =>
    by_cases hal : s.alive = true
    · have hal' : l.alive = true := by rw [← ha]; exact hal
      have h1 := hle hal
      have h2 := hll hal
      constructor
      · simp [step, logStep, hal, hal']
      · intro hfile; simp [step, hal] at hfile
      · intro sv hfile
        simp [step, hal] at hfile
        subst hfile
        simp [logStep, hal', sumE_append, sumL_append, h1, h2]
      · intro _; simp [step, logStep, hal, hal', sumE_append, h1]
      · intro _; simp [step, logStep, hal, hal', sumL_append, h2]
    · have hal0 : s.alive = false := by simpa using hal
      have hal' : l.alive = false := by rw [← ha]; exact hal0
      constructor <;> simp_all [step, logStep]
  | kill =>
    constructor
    · simp [step, logStep]
    · intro hfile; simp [step] at hfile; simpa [logStep] using hn hfile
    · intro sv hfile; simp [step] at hfile; simpa [logStep] using hfe sv hfile
    · simp [step]
    · simp [step]
  | down d =>
    by_cases hal : s.alive = true
    · constructor <;> simp_all [step, logStep]
    · have hal0 : s.alive = false := by simpa using hal
      constructor
      · simp [step, logStep, hal0, ha.symm ▸ hal0]
      · intro hfile; simp [step, hal0] at hfile; simpa [logStep] using hn hfile
      · intro sv hfile; simp [step, hal0] at hfile; simpa [logStep] using hfe sv hfile
      · simp [step, hal0]
      · simp [step, hal0]

theorem invT_step (c : Cfg) (hr : c.resetStart = true) (s : St) (l : Log) (op : Op)
    (hc : InvC s l) (h : InvT s l) : InvT (step c s op) (logStep l op) := by
  obtain ⟨ha, hn, _, _, _⟩ := hc
  obtain ⟨hft, hls, hlp⟩ := h
  cases op with
  | launch =>
    cases hfile : s.file with
    | none =>
      have hcm := hn hfile
      constructor <;> simp [step, logStep, hfile, hcm]
    | some sv =>
      have h1 := hft sv hfile
      constructor <;> simp [step, logStep, hfile, hr, h1]
  | run e t lt =>
    by_cases hal : s.alive = true
    · have hal' : l.alive = true := by rw [← ha]; exact hal
      have h1 := hls hal
      have ⟨h2, h3⟩ := hlp hal
      constructor
      · intro sv hfile; simp [step, hal] at hfile; simpa [logStep, hal'] using hft sv hfile
      · intro _; simp [step, logStep, hal, hal', h1]
      · intro _; simp [step, logStep, hal, hal', sumT_append]; omega
    · have hal0 : s.alive = false := by simpa using hal
      have hal' : l.alive = false := by rw [← ha]; exact hal0
      constructor <;> simp_all [step, logStep]
  | checkpoint =>
    by_cases hal : s.alive = true
    · have hal' : l.alive = true := by rw [← ha]; exact hal
      have h1 := hls hal
      have ⟨h2, h3⟩ := hlp hal
      constructor
      · intro sv hfile
        simp [step, hal] at hfile
        subst hfile
        simp [logStep, hal', sumT_append, h1, h3]
      · intro _; simp [step, logStep, hal, hal', sumT_append, h1, h3]
      · intro _; simp [step, logStep, hal, hal']
    · have hal0 : s.alive = false := by simpa using hal
      have hal' : l.alive = false := by rw [← ha]; exact hal0
      constructor <;> simp_all [step, logStep]
  | kill =>
    constructor
    · intro sv hfile; simp [step] at hfile; simpa [logStep] using hft sv hfile
    · simp [step]
    · simp [step]
  | down d =>
    by_cases hal : s.alive = true
    · constructor <;> simp_all [step, logStep]
    · have hal0 : s.alive = false := by simpa using hal
      constructor
      · intro sv hfile; simp [step, hal0] at hfile; simpa [logStep] using hft sv hfile
      · simp [step, hal0]
      · simp [step, hal0]

theorem invTle_step (c : Cfg) (s : St) (l : Log) (op : Op)
    (hc : InvC s l) (h : InvTle s l) : InvTle (step c s op) (logStep l op) := by
  obtain ⟨ha, hn, _, _, _⟩ := hc
  obtain ⟨hft, hls, hlp⟩ := h
  cases op with
  | launch =>
    cases hfile : s.file with
    | none =>
      have hcm := hn hfile
      constructor <;> simp [step, logStep, hfile, hcm]
    | some sv =>
      have ⟨h1, h2⟩ := hft sv hfile
      constructor
      · intro sv' hf'; simp [step, hfile] at hf'; subst hf'; simp [step, hfile, logStep, h1, h2]
      · intro _; simp [step, logStep, hfile, h1]
      · intro _
        cases hrs : c.resetStart <;> simp [step, logStep, hfile, hrs, h2]
  | run e t lt =>
    by_cases hal : s.alive = true
    · have hal' : l.alive = true := by rw [← ha]; exact hal
      have h1 := hls hal
      have ⟨h2, h3⟩ := hlp hal
      constructor
      · intro sv hfile; simp [step, hal] at hfile
        have := hft sv hfile
        simp [step, logStep, hal, hal']; omega
      · intro _; simp [step, logStep, hal, hal', h1]
      · intro _; simp [step, logStep, hal, hal', sumT_append]; omega
    · have hal0 : s.alive = false := by simpa using hal
      have hal' : l.alive = false := by rw [← ha]; exact hal0
      constructor <;> simp_all [step, logStep]
  | checkpoint =>
    by_cases hal : s.alive = true
    · have hal' : l.alive = true := by rw [← ha]; exact hal
      have h1 := hls hal
      have ⟨h2, h3⟩ := hlp hal
      constructor
      · intro sv hfile
        simp [step, hal] at hfile
        subst hfile
        simp [step, logStep, hal, hal', sumT_append]; omega
      · intro _; simp [step, logStep, hal, hal', sumT_append]; omega
      · intro _; simp [step, logStep, hal, hal']
    · have hal0 : s.alive = false := by simpa using hal
      have hal' : l.alive = false := by rw [← ha]; exact hal0
      constructor <;> simp_all [step, logStep]
  | kill =>
    constructor
    · intro sv hfile; simp [step] at hfile; simpa [logStep, step] using hft sv hfile
    · simp [step]
    · simp [step]
  | down d =>
    by_cases hal : s.alive = true
    · constructor <;> simp_all [step, logStep]
    · have hal0 : s.alive = false := by simpa using hal
      constructor
      · intro sv hfile; simp [step, hal0] at hfile
        have := hft sv hfile
        simp [step, logStep, hal0]; omega
      · simp [step, hal0]
      · simp [step, hal0]

/-- all three invariants along any history -/
theorem inv_exec (c : Cfg) (hf : c.freshModel = true) (h : List Op) :
    ∀ (s : St) (l : Log), InvC s l → InvC (exec c s h) (logOf l h) := by
  induction h with
  | nil => intro s l hi; simpa [exec, logOf] using hi
  | cons op h ih =>
    intro s l hi
    simpa [exec, logOf] using ih _ _ (invC_step c hf s l op hi)

theorem invT_exec (c : Cfg) (hf : c.freshModel = true) (hr : c.resetStart = true) (h : List Op) :
    ∀ (s : St) (l : Log), InvC s l → InvT s l → InvT (exec c s h) (logOf l h) := by
  induction h with
  | nil => intro s l _ hi; simpa [exec, logOf] using hi
  | cons op h ih =>
    intro s l hc hi
    simpa [exec, logOf] using ih _ _ (invC_step c hf s l op hc) (invT_step c hr s l op hc hi)

theorem invTle_exec (c : Cfg) (hf : c.freshModel = true) (h : List Op) :
    ∀ (s : St) (l : Log), InvC s l → InvTle s l → InvTle (exec c s h) (logOf l h) := by
  induction h with
  | nil => intro s l _ hi; simpa [exec, logOf] using hi
  | cons op h ih =>
    intro s l hc hi
    simpa [exec, logOf] using ih _ _ (invC_step c hf s l op hc) (invTle_step c s l op hc hi)

/-! ### the commit log never counts a step twice and loses steps only to kills -/

theorem retained_sublist (h : List Op) :
    ∀ l : Log, ((logOf l h).retained).Sublist (l.retained ++ performed l.alive h) := by
  induction h with
  | nil => intro l; simp [logOf, performed]
  | cons op h ih =>
    intro l
    cases op with
    | launch =>
      have := ih { l with alive := true, pending := [] }
      simp only [logOf, List.foldl_cons, logStep, performed] at this ⊢
      refine this.trans ?_
      simp only [Log.retained, List.append_nil]
      exact List.Sublist.append (List.sublist_append_left _ _) (List.Sublist.refl _)
    | run e t lt =>
      cases hal : l.alive with
      | true =>
        have := ih { l with pending := l.pending ++ [(e, t, lt)] }
        simp only [logOf, List.foldl_cons, logStep, performed, hal, if_true] at this ⊢
        simpa [Log.retained, List.append_assoc, hal] using this
      | false =>
        have := ih l
        simpa [logOf, logStep, performed, hal] using this
    | checkpoint =>
      cases hal : l.alive with
      | true =>
        have := ih { l with committed := l.committed ++ l.pending, pending := [], hasFile := true }
        simp only [logOf, List.foldl_cons, logStep, performed, hal, if_true] at this ⊢
        simpa [Log.retained, hal] using this
      | false =>
        have := ih l
        simpa [logOf, logStep, performed, hal] using this
    | kill =>
      have := ih { l with alive := false }
      simpa [logOf, logStep, performed, Log.retained] using this
    | down d =>
      have := ih l
      simpa [logOf, logStep, performed] using this

theorem retained_all_without_kill (h : List Op) :
    ∀ l : Log, (l.alive = false → l.pending = []) → wellFormed l.alive h = true → (∀ op ∈ h, op ≠ Op.kill) →
      (logOf l h).retained = l.retained ++ performed l.alive h := by
  induction h with
  | nil => intro l _ _ _; simp [logOf, performed]
  | cons op h ih =>
    intro l hp hw hk
    have hk' : ∀ o ∈ h, o ≠ Op.kill := fun o ho => hk o (List.mem_cons_of_mem _ ho)
    cases op with
    | launch =>
      simp [wellFormed] at hw
      have hpe := hp hw.1
      have := ih { l with alive := true, pending := [] } (by simp) (by simpa using hw.2) hk'
      simp only [logOf, List.foldl_cons, logStep, performed] at this ⊢
      rw [this]; simp [Log.retained, hpe]
    | run e t lt =>
      simp [wellFormed] at hw
      have := ih { l with pending := l.pending ++ [(e, t, lt)] } (by simp [hw.1]) (by simpa [hw.1] using hw.2) hk'
      simp only [logOf, List.foldl_cons, logStep, performed, hw.1, if_true] at this ⊢
      rw [this]; simp [Log.retained]
    | checkpoint =>
      simp [wellFormed] at hw
      have := ih { l with committed := l.committed ++ l.pending, pending := [], hasFile := true } (by simp)
        (by simpa [hw.1] using hw.2) hk'
      simp only [logOf, List.foldl_cons, logStep, performed, hw.1, if_true] at this ⊢
      rw [this]; simp [Log.retained]
    | kill => exact absurd rfl (hk Op.kill (List.mem_cons_self ..))
    | down d =>
      simp [wellFormed] at hw
      have := ih l hp hw hk'
      simpa [logOf, logStep, performed] using this

end NessaiVerif.Accounts

namespace NessaiVerif.AccountsTables

theorem lookup_filter_key {α : Type} (p : String → Bool) (f : String) (s : List (String × α)) :
    (s.filter fun kv => p kv.1).lookup f = if p f then s.lookup f else none := by
  induction s with
  | nil => simp [List.lookup]
  | cons kv s ih =>
    obtain ⟨k, v⟩ := kv
    by_cases hk : f == k
    · have hfk : f = k := by simpa using hk
      subst hfk
      by_cases hp : p f
      · simp [List.filter, hp, List.lookup]
      · simp [List.filter, hp, ih]
    · by_cases hp : p k
      · simp [List.filter, hp, List.lookup, hk, ih]
      · simp [List.filter, hp, List.lookup, hk, ih]

theorem lookup_append_none {α : Type} (f : String) (a b : List (String × α)) (h : a.lookup f = none) :
    (a ++ b).lookup f = b.lookup f := by
  induction a with
  | nil => rfl
  | cons kv a ih =>
    obtain ⟨k, v⟩ := kv
    cases hk : (f == k) with
    | true => simp only [List.lookup_cons, hk] at h; cases h
    | false =>
      simp only [List.cons_append, List.lookup_cons, hk] at h ⊢
      exact ih h

/-- `resume ∘ checkpoint` is the identity on every attribute that the `__getstate__` in force does not drop and that
the resume path does not assign — for every state and whatever the resume path derives. -/
theorem resume_pickle_lookup {α : Type} (ts : List ClassTable) (sites : List Site) (c f : String)
    (s fresh : List (String × α)) (hd : dropped ts c f = false) (ht : touched ts sites c f = false) :
    (resumeState ts sites c fresh (pickleState ts c s)).lookup f = s.lookup f := by
  unfold resumeState pickleState
  rw [lookup_append_none]
  · rw [lookup_filter_key (fun k => !dropped ts c k)]
    simp [hd]
  · rw [lookup_filter_key (fun k => touched ts sites c k)]
    simp [ht]

end NessaiVerif.AccountsTables
