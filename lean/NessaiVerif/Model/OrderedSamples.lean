import NessaiVerif.Model.Np
/-
C04 — literal model of `nessai.samplers.importancesampler.OrderedSamples`
(add_initial_samples, add_samples, add_to_nested_samples, remove_samples,
update_log_likelihood_threshold, finalise).  Core Lean only.

A sample is `(key, id)`: `key` is its log-likelihood (an integer-valued float in the
harness, so every comparison is exact), `id` stands for the whole record.  `rows` is
the parallel `log_q` table, one row token per sample.
-/
namespace NessaiVerif.Ordered
open NessaiVerif.Np

structure Smp where
  key : Int
  id : Nat
deriving DecidableEq, Repr, Inhabited

inductive Err | typeErr | valueErr | runtimeErr
deriving DecidableEq, Repr

structure OS where
  samples : Option (List Smp) := none     -- `None` before add_initial_samples
  rows : List Nat := []
  live : Option (List Nat) := none        -- live_points_indices
  nested : List Nat := []                 -- nested_samples_indices
  thr : Option Int := none                -- log_likelihood_threshold
  strict : Bool := false
  replAll : Bool := false
deriving Repr

/-- order used by `np.argsort(samples, order="logL")`: logL, ties by the remaining
    fields in dtype order (the harness puts the unique id first). -/
def leSmp (a b : Smp) : Bool := a.key < b.key || (a.key == b.key && a.id ≤ b.id)

/-- insert into a list sorted by `leSmp` (before the first element that is not smaller) -/
def insSorted (x : Smp × Nat) : List (Smp × Nat) → List (Smp × Nat)
  | [] => [x]
  | y :: ys => if leSmp x.1 y.1 then x :: y :: ys else y :: insSorted x ys

/-- `sort_samples(samples, log_q)`: the batch sorted by (logL, id) (insertion sort; the order is total on
    distinct ids, so the result does not depend on the sorting algorithm) -/
def sortBatch (b : List (Smp × Nat)) : List (Smp × Nat) :=
  b.foldr insSorted []

def keys (l : List Smp) : List Int := l.map (·.key)

/-- `add_initial_samples` -/
def addInitial (s : OS) (b : List (Smp × Nat)) : OS :=
  let sb := sortBatch b
  { s with samples := some (sb.map (·.1)), rows := sb.map (·.2),
           live := some (List.range sb.length) }

/-- `indices + np.arange(len(indices))` -/
def shiftIdx : List Nat → Nat → List Nat
  | [], _ => []
  | i :: is, k => (i + k) :: shiftIdx is (k + 1)

/-- `add_to_nested_samples(indices)` -/
def addToNested (nested idxs : List Nat) : List Nat :=
  insertMany nested (idxs.map (ssl nested)) idxs 0

/-- number of entries strictly below the threshold (`np.count_nonzero(x < thr)`) -/
def countBelow (t : Int) (ks : List Int) : Nat := (ks.filter (· < t)).length

/-! primitives named by the definitions GENERATED from the source (`Gen/OrderedOps.lean`, harness/pyidx2lean.py) -/

/-- `np.count_nonzero(col < threshold)`: `array < None` raises TypeError (`none`), except for an empty array -/
def countBelowOpt (thr : Option Int) (ks : List Int) : Option Nat :=
  if ks.isEmpty then some 0 else thr.map (countBelow · ks)

/-- `get_inverse_indices(n, indices)`: `indices.max()` of an empty array raises ValueError -/
def inverseIndices (n : Nat) (idx : List Nat) : Except Err (List Nat) :=
  if idx.isEmpty then .error .valueErr else .ok (complement n idx)

/-- `a[b]` for two index arrays (in range by the store invariant; NumPy would raise IndexError otherwise) -/
def fancy (a b : List Nat) : List Nat := b.map (fun i => a.getD i 0)

/-- `samples[indices]` -/
def fancySmp (smp : List Smp) (idx : List Nat) : List Smp := idx.map (fun i => smp.getD i default)

/-- `add_samples` -/
def addSamples (s : OS) (b : List (Smp × Nat)) : Except Err OS :=
  match s.samples with
  | none => .error .typeErr
  | some old =>
    let sb := sortBatch b
    let new := sb.map (·.1)
    let newRows := sb.map (·.2)
    let idx := new.map (fun v => ssl (keys old) v.key)
    let samples' := insertMany old idx new 0
    let rows' := insertMany s.rows idx newRows 0
    if s.strict then
      -- `array < None` raises TypeError, except for an empty array (empty result)
      match (if samples'.isEmpty then some 0 else s.thr.map (countBelow · (keys samples'))) with
      | none => .error .typeErr
      | some n =>
        .ok { s with samples := some samples', rows := rows',
                     nested := List.range n,
                     live := some (List.range' n (samples'.length - n)) }
    else
      let newIdx := shiftIdx idx 0
      -- get_inverse_indices: `indices.max()` of an empty array raises ValueError
      if newIdx.isEmpty then .error .valueErr else
      let oldIdx := complement samples'.length newIdx
      if oldIdx.length != samples'.length - new.length then .error .runtimeErr else
      let nested' := s.nested.map (fun i => oldIdx.getD i 0)
      match s.live with
      | none =>
        .ok { s with samples := some samples', rows := rows', nested := nested',
                     live := some newIdx }
      | some l =>
        let l' := l.map (fun i => oldIdx.getD i 0)
        let ins := newIdx.map (ssl l')
        .ok { s with samples := some samples', rows := rows', nested := nested',
                     live := some (insertMany l' ins newIdx 0) }

/-- `remove_samples`; returns the new state and the reported count -/
def removeSamples (s : OS) : Except Err (OS × Nat) :=
  match s.samples, s.live with
  | some smp, some l =>
    if s.replAll then
      .ok ({ s with nested := addToNested s.nested l, live := none }, l.length)
    else
      match (if l.isEmpty then some 0
             else s.thr.map (countBelow · (l.map (fun i => (smp.getD i default).key)))) with
      | none => .error .typeErr
      | some n =>
        .ok ({ s with nested := addToNested s.nested (l.take n), live := some (l.drop n) }, n)
  | _, _ => .error .typeErr

/-- `finalise` (the evidence update is not part of this model) -/
def finalise (s : OS) : Except Err OS :=
  match s.samples, s.live with
  | some _, some l => .ok { s with nested := addToNested s.nested l, live := none }
  | _, _ => .error .typeErr

def setThreshold (s : OS) (t : Int) : OS := { s with thr := some t }

inductive Op
  | init (b : List (Smp × Nat))
  | add (b : List (Smp × Nat))
  | thr (t : Int)
  | remove
  | finalise

/-- one operation; the output is the value returned to the caller (`remove` only) -/
def step (s : OS) : Op → Except Err (OS × Option Nat)
  | .init b => .ok (addInitial s b, none)
  | .add b => (addSamples s b).map (·, none)
  | .thr t => .ok (setThreshold s t, none)
  | .remove => (removeSamples s).map (fun (s', n) => (s', some n))
  | .finalise => (finalise s).map (·, none)

/-- run an op list, stopping at the first error -/
def run (s : OS) : List Op → Except Err OS
  | [] => .ok s
  | op :: ops => match step s op with
    | .ok (s', _) => run s' ops
    | .error e => .error e

/-- what a user observes -/
def liveSamples (s : OS) : List Smp :=
  match s.samples, s.live with
  | some smp, some l => l.map (fun i => smp.getD i default)
  | _, _ => []

def nestedSamples (s : OS) : List Smp :=
  match s.samples with
  | some smp => s.nested.map (fun i => smp.getD i default)
  | none => []

end NessaiVerif.Ordered
