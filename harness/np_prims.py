"""Validation of the NumPy primitive models (Model/Np.lean) against NumPy itself.
Called from the checks that rely on them (C04); also runnable alone through ctx."""
import numpy as np


def fl(v):
    return "[" + ",".join(str(int(x)) for x in v) + "]"


def validate(ctx, n_cases):
    rng = np.random.default_rng(ctx.rng.getrandbits(64))
    lines, impls, cases = [], [], []
    for k in range(n_cases):
        n = int(rng.integers(0, 9))
        a = np.sort(rng.integers(-3, 6, size=n))
        v = int(rng.integers(-4, 7))
        lines.append(f"np ssl {fl(a)} {v}"); impls.append(str(int(np.searchsorted(a, v, side='left')))); cases.append(("ssl", a.tolist(), v))
        lines.append(f"np ssr {fl(a)} {v}"); impls.append(str(int(np.searchsorted(a, v, side='right')))); cases.append(("ssr", a.tolist(), v))
        m = int(rng.integers(0, 6))
        vals = np.sort(rng.integers(-3, 6, size=m))
        idx = np.searchsorted(a, vals) if k % 2 == 0 else np.sort(rng.integers(0, n + 1, size=m))
        lines.append(f"np insert {fl(a)} {fl(idx)} {fl(vals)}"); impls.append(fl(np.insert(a, idx, vals))); cases.append(("insert", a.tolist(), idx.tolist(), vals.tolist()))
        b = rng.integers(0, 2, size=int(rng.integers(1, 8))).astype(bool)
        if k % 5 == 0:
            b[:] = False
        lines.append(f"np argmax {fl(b)}"); impls.append(str(int(np.argmax(b)))); cases.append(("argmax", b.astype(int).tolist()))
        tot = int(rng.integers(1, 12))
        sub = np.unique(rng.integers(0, tot, size=int(rng.integers(1, tot + 1))))
        from nessai.utils.structures import get_inverse_indices
        lines.append(f"np complement {tot} {fl(sub)}"); impls.append(fl(get_inverse_indices(tot, sub))); cases.append(("complement", tot, sub.tolist()))
        c = rng.integers(-5, 6, size=int(rng.integers(0, 8)))
        lines.append(f"np cumsum {fl(c)}"); impls.append(fl(np.cumsum(c))); cases.append(("cumsum", c.tolist()))
    # Python / NumPy indexing (Model/PySlice.lean): exhaustive over lengths 0..4 and every bound / index in -6..6 or None
    def ob(v):
        return "none" if v is None else str(v)

    def run(f):
        try:
            return f()
        except ValueError:
            return "err=value"
        except IndexError:
            return "err=index"
    bounds = [None] + list(range(-6, 7))
    for n in range(0, 5):
        a = np.arange(10, 10 + n)
        for s in bounds:
            for e in bounds:
                lines.append(f"np getslice {fl(a)} {ob(s)} {ob(e)}"); impls.append(fl(a[s:e])); cases.append(("getslice", n, s, e))
                for m in (0, 1, 2, 3):
                    v = np.arange(50, 50 + m)

                    def setsl():
                        b = a.copy()
                        b[s:e] = v
                        return fl(b)
                    lines.append(f"np setslice {fl(a)} {ob(s)} {ob(e)} {fl(v)}"); impls.append(run(setsl)); cases.append(("setslice", n, s, e, m))
        for i in range(-6, 7):
            lines.append(f"np getitem {fl(a)} {i}"); impls.append(run(lambda: str(int(a[i])))); cases.append(("getitem", n, i))

            def setit():
                b = a.copy()
                b[i] = 77
                return fl(b)
            lines.append(f"np setitem {fl(a)} {i} 77"); impls.append(run(setit)); cases.append(("setitem", n, i))
    bad = ctx.diff_model(lines, impls, cases, what="NumPy primitive model != NumPy")
    ctx.hist["numpy_primitive_cases"] += len(lines)
    ctx.extra["numpy_primitives_validated"] = len(lines) - bad
    return bad
