import NessaiVerif.Model.LiveSet
/- Helper lemmas for C01 (live-set model). -/
namespace NessaiVerif.LiveSet
open NessaiVerif.Np

/-! ### takeWhile / dropWhile -/

theorem take_length_takeWhile {α : Type} (P : α → Bool) (l : List α) :
    l.take (l.takeWhile P).length = l.takeWhile P := by
  induction l with
  | nil => rfl
  | cons x xs ih =>
    by_cases h : P x
    · simp [h, ih]
    · simp [h]

theorem drop_length_takeWhile {α : Type} (P : α → Bool) (l : List α) :
    l.drop (l.takeWhile P).length = l.dropWhile P := by
  induction l with
  | nil => rfl
  | cons x xs ih =>
    by_cases h : P x
    · simp [h, ih]
    · simp [h]

theorem length_takeWhile_le' {α : Type} (P : α → Bool) (l : List α) :
    (l.takeWhile P).length ≤ l.length := by
  induction l with
  | nil => simp
  | cons x xs ih =>
    by_cases h : P x
    · simp [h]; exact ih
    · simp [h]

theorem mem_takeWhile_sat {α : Type} (P : α → Bool) (l : List α) :
    ∀ x ∈ l.takeWhile P, P x = true := by
  induction l with
  | nil => simp
  | cons y ys ih =>
    intro x hx
    by_cases h : P y
    · simp [h] at hx
      rcases hx with rfl | hx
      · exact h
      · exact ih x hx
    · simp [h] at hx

/-- `searchsorted(live["logL"], v)` counts the leading points strictly below `v` -/
theorem ssl_map_logL (l : List Pt) (p : Pt) :
    ssl (l.map (·.logL)) p.logL = rankIn p l := by
  unfold ssl rankIn
  rw [List.takeWhile_map, List.length_map]
  rfl

theorem rankIn_le (p : Pt) (l : List Pt) : rankIn p l ≤ l.length :=
  length_takeWhile_le' _ _

theorem rankIn_cons_lt (p w : Pt) (t : List Pt) (h : w.logL < p.logL) :
    rankIn p (w :: t) = rankIn p t + 1 := by
  simp [rankIn, h]

theorem rankIn_cons_ge (p w : Pt) (t : List Pt) (h : p.logL ≤ w.logL) :
    rankIn p (w :: t) = 0 := by
  have : ¬ w.logL < p.logL := by omega
  simp [rankIn, this]

theorem insSorted_eq_take_drop (p : Pt) (t : List Pt) :
    insSorted p t = t.take (rankIn p t) ++ p :: t.drop (rankIn p t) := by
  unfold insSorted rankIn
  rw [take_length_takeWhile, drop_length_takeWhile]

/-! ### insert_live_point -/

/-- With the new point strictly above the current minimum the slice program is a sorted insert
into the tail: the minimum is dropped, nothing else moves. -/
theorem insertLive_of_lt (w : Pt) (t : List Pt) (p : Pt) (h : w.logL < p.logL) :
    insertLive (w :: t) p = .ok (insSorted p t, (rankIn p t : Int)) := by
  have hk := rankIn_le p t
  unfold insertLive
  rw [ssl_map_logL, rankIn_cons_lt p w t h]
  simp only [Nat.add_one_ne_zero, if_false, Nat.add_sub_cancel, List.take_succ_cons, List.drop_one,
    List.tail_cons, List.length_take, List.length_cons]
  have hmin : min (rankIn p t) t.length = rankIn p t := Nat.min_eq_left hk
  rw [hmin]
  simp only [ne_eq, not_true_eq_false, if_false]
  have hd : (w :: t).drop (rankIn p t) ≠ [] := by
    intro h0
    have := congrArg List.length h0
    simp at this
    omega
  obtain ⟨y, ys, hys⟩ := List.exists_cons_of_ne_nil hd
  have hys' : t.drop (rankIn p t) = ys := by
    have h1 : ((w :: t).drop (rankIn p t)).drop 1 = ys := by rw [hys]; rfl
    rw [List.drop_drop] at h1
    rw [List.drop_succ_cons] at h1
    exact h1
  rw [hys, List.set_append]
  simp only [List.length_take, hmin, Nat.lt_irrefl, if_false, Nat.sub_self, List.set_cons_zero]
  rw [insSorted_eq_take_drop, hys']
  congr 2
  omega

/-- `insert_live_point` with a point that is not strictly above the minimum: `index = 0`,
and the first slice assignment cannot be broadcast (for every live set of two or more points). -/
theorem insertLive_at_zero (w : Pt) (t : List Pt) (p : Pt) (h : p.logL ≤ w.logL) (ht : t ≠ []) :
    insertLive (w :: t) p = .error .shape := by
  unfold insertLive
  rw [ssl_map_logL, rankIn_cons_ge p w t h]
  have : t.length ≠ 0 := by
    intro h0; exact ht (List.eq_nil_of_length_eq_zero h0)
  simp
  omega

/-! ### sorted insert -/

theorem insSorted_perm (p : Pt) (t : List Pt) : (insSorted p t).Perm (p :: t) := by
  unfold insSorted
  refine List.perm_middle.trans ?_
  rw [List.takeWhile_append_dropWhile]

theorem insSorted_length (p : Pt) (t : List Pt) : (insSorted p t).length = t.length + 1 := by
  have := (insSorted_perm p t).length_eq
  simpa using this

theorem dropWhile_ge_of_sorted (p : Pt) (t : List Pt) (hs : SortedL t) :
    ∀ y ∈ t.dropWhile (fun x => decide (x.logL < p.logL)), p.logL ≤ y.logL := by
  induction t with
  | nil => simp
  | cons x xs ih =>
    intro y hy
    have hs' := List.pairwise_cons.mp hs
    by_cases h : x.logL < p.logL
    · simp [h] at hy
      exact ih hs'.2 y (by simpa using hy)
    · simp [h] at hy
      rcases hy with rfl | hy
      · omega
      · have := hs'.1 y hy
        omega

theorem insSorted_sorted (p : Pt) (t : List Pt) (hs : SortedL t) : SortedL (insSorted p t) := by
  unfold insSorted SortedL
  have hsplit : t.takeWhile (fun x => decide (x.logL < p.logL)) ++ t.dropWhile (fun x => decide (x.logL < p.logL)) = t :=
    List.takeWhile_append_dropWhile
  have hs2 : List.Pairwise (fun a b : Pt => a.logL ≤ b.logL)
      (t.takeWhile (fun x => decide (x.logL < p.logL)) ++ t.dropWhile (fun x => decide (x.logL < p.logL))) := by
    rw [hsplit]; exact hs
  obtain ⟨h1, h2, h3⟩ := List.pairwise_append.mp hs2
  have hlt := mem_takeWhile_sat (fun x : Pt => decide (x.logL < p.logL)) t
  have hge := dropWhile_ge_of_sorted p t hs
  refine List.pairwise_append.mpr ⟨h1, List.pairwise_cons.mpr ⟨hge, h2⟩, ?_⟩
  intro a ha b hb
  have hap := hlt a ha
  simp at hap
  rcases List.mem_cons.mp hb with rfl | hb
  · omega
  · have := hge b hb
    omega

/-- the new point sits at position `rankIn p t` -/
theorem insSorted_getElem (p : Pt) (t : List Pt) :
    (insSorted p t)[rankIn p t]? = some p := by
  unfold insSorted rankIn
  rw [List.getElem?_append_right (Nat.le_refl _)]
  simp

/-- points before the new one are strictly below it -/
theorem insSorted_before (p : Pt) (t : List Pt) (j : Nat) (hj : j < rankIn p t) :
    ∀ y, (insSorted p t)[j]? = some y → y.logL < p.logL := by
  intro y hy
  unfold insSorted at hy
  unfold rankIn at hj
  rw [List.getElem?_append_left hj] at hy
  have hm : y ∈ t.takeWhile (fun x => decide (x.logL < p.logL)) := List.mem_of_getElem? hy
  have := mem_takeWhile_sat _ _ y hm
  simpa using this

/-- points after the new one are not below it (for a sorted tail) -/
theorem insSorted_after (p : Pt) (t : List Pt) (hs : SortedL t) (j : Nat) (hj : rankIn p t < j) :
    ∀ y, (insSorted p t)[j]? = some y → p.logL ≤ y.logL := by
  intro y hy
  unfold insSorted at hy
  unfold rankIn at hj
  rw [List.getElem?_append_right (Nat.le_of_lt hj)] at hy
  have hpos : j - (t.takeWhile (fun x => decide (x.logL < p.logL))).length
      = (j - (t.takeWhile (fun x => decide (x.logL < p.logL))).length - 1) + 1 := by omega
  rw [hpos, List.getElem?_cons_succ] at hy
  exact dropWhile_ge_of_sorted p t hs y (List.mem_of_getElem? hy)

/-! ### the draw loops -/

theorem accepts_some {m : Option Int} {c : Cand} {v : Int} (h : accepts m c = some v) :
    c.logP ≠ .ninf ∧ effL c = .fin v ∧ gtMin v m = true := by
  unfold accepts at h
  split at h
  · cases h
  · rename_i hp
    split at h
    · rename_i v' hv
      split at h
      · rename_i hg
        cases h
        exact ⟨hp, hv, hg⟩
      · cases h
    · cases h

theorem consumeLoop_spec (m : Option Int) (cands : List Cand) (k r : Nat)
    (c : Cand) (v : Int) (k' r' : Nat) (rest : List Cand)
    (h : consumeLoop m cands k r = some (c, v, k', r', rest)) :
    accepts m c = some v ∧
    ∃ pre, cands = pre ++ c :: rest ∧ (∀ x ∈ pre, accepts m x = none) ∧
      k' = k + pre.length + 1 ∧ r' = r + (pre.filter (fun x => !x.popd)).length := by
  induction cands generalizing k r with
  | nil => simp [consumeLoop] at h
  | cons x xs ih =>
    unfold consumeLoop at h
    split at h
    · rename_i v' hv
      simp only [Option.some.injEq, Prod.mk.injEq] at h
      obtain ⟨rfl, rfl, rfl, rfl, rfl⟩ := h
      exact ⟨hv, [], by simp, by simp, by simp, by simp⟩
    · rename_i hv
      obtain ⟨ha, pre, hpre, hrej, hk, hr⟩ := ih _ _ h
      refine ⟨ha, x :: pre, by simp [hpre], ?_, ?_, ?_⟩
      · intro y hy
        rcases List.mem_cons.mp hy with rfl | hy
        · exact hv
        · exact hrej y hy
      · simp; omega
      · by_cases hp : x.popd
        · simp [hp] at hr ⊢; exact hr
        · simp [hp] at hr ⊢; omega

/-- the merged loop is the iteration of the literal `yield_sample` model -/
theorem consumeLoop_eq_yield (m : Option Int) (cands : List Cand) (k r : Nat) :
    consumeLoop m cands k r =
      match yieldSample m 0 cands with
      | .exhausted => none
      | .acc c cand v rest => some (cand, v, k + c, r, rest)
      | .empty c rest => consumeLoop m rest (k + c) (r + 1) := by
  suffices H : ∀ j, consumeLoop m cands (k + j) r =
      match yieldSample m j cands with
      | .exhausted => none
      | .acc c cand v rest => some (cand, v, k + c, r, rest)
      | .empty c rest => consumeLoop m rest (k + c) (r + 1) by
    simpa using H 0
  induction cands generalizing k with
  | nil => intro j; simp [consumeLoop, yieldSample]
  | cons x xs ih =>
    intro j
    conv => lhs; unfold consumeLoop
    unfold yieldSample
    cases hx : accepts m x with
    | some v => simp [Nat.add_assoc]
    | none =>
      by_cases hp : x.popd
      · simp only [hp, if_true]
        have := ih k (j + 1)
        rw [← Nat.add_assoc] at this
        exact this
      · simp [hp, Nat.add_assoc]

theorem populateLoop_spec (n : Nat) (cands : List Cand) (acc : List Pt) (lmax : Option Int)
    (out : List Pt) (lmax' : Option Int) (rest : List Cand)
    (h : populateLoop n acc lmax cands = .ok (out, lmax', rest)) :
    ∃ used, cands = used ++ rest ∧ out = acc ++ used.filterMap storeOf ∧
      (acc.length ≤ n → out.length = n) := by
  induction cands generalizing acc lmax with
  | nil =>
    unfold populateLoop at h
    split at h
    · cases h
      exact ⟨[], by simp, by simp, by omega⟩
    · cases h
  | cons c cs ih =>
    unfold populateLoop at h
    split at h
    · cases h
      exact ⟨[], by simp, by simp, by omega⟩
    · rename_i hn
      cases hs : storeOf c with
      | some p =>
        simp only [hs] at h
        obtain ⟨used, hu, ho, hl⟩ := ih _ _ h
        refine ⟨c :: used, by simp [hu], ?_, ?_⟩
        · simp [List.filterMap_cons, hs, ho]
        · intro _
          apply hl
          simp; omega
      | none =>
        simp only [hs] at h
        obtain ⟨used, hu, ho, hl⟩ := ih _ _ h
        refine ⟨c :: used, by simp [hu], ?_, ?_⟩
        · simp [List.filterMap_cons, hs, ho]
        · intro _
          apply hl
          omega

theorem storeOf_some {c : Cand} {p : Pt} (h : storeOf c = some p) :
    ∃ v, accepts none c = some v ∧ c.logP = .fin ∧ p = mkPt c v 0 := by
  unfold storeOf at h
  split at h
  · rename_i v hv
    split at h
    · rename_i hp
      cases h
      exact ⟨v, hv, hp, rfl⟩
    · cases h
  · cases h

/-! ### the initial sort -/

theorem leKey_trans (a b c : Pt) (h1 : leKey a b = true) (h2 : leKey b c = true) : leKey a c = true := by
  simp [leKey] at *
  omega

theorem leKey_total (a b : Pt) : (leKey a b || leKey b a) = true := by
  simp [leKey]
  omega

theorem insKey_perm (p : Pt) (l : List Pt) : (insKey p l).Perm (p :: l) := by
  induction l with
  | nil => simp [insKey]
  | cons x xs ih =>
    unfold insKey
    split
    · exact List.Perm.refl _
    · exact (List.Perm.cons x ih).trans (List.Perm.swap p x xs)

theorem sortKey_perm (l : List Pt) : (sortKey l).Perm l := by
  induction l with
  | nil => simp [sortKey]
  | cons x xs ih =>
    unfold sortKey
    exact (insKey_perm x _).trans (List.Perm.cons x ih)

theorem insKey_pairwise (p : Pt) (l : List Pt) (h : l.Pairwise (fun a b => leKey a b = true)) :
    (insKey p l).Pairwise (fun a b => leKey a b = true) := by
  induction l with
  | nil => simp [insKey]
  | cons x xs ih =>
    obtain ⟨hx, hxs⟩ := List.pairwise_cons.mp h
    unfold insKey
    split
    · rename_i hle
      refine List.pairwise_cons.mpr ⟨?_, h⟩
      intro y hy
      rcases List.mem_cons.mp hy with rfl | hy
      · exact hle
      · exact leKey_trans _ _ _ hle (hx y hy)
    · rename_i hle
      have hxp : leKey x p = true := by
        have := leKey_total p x
        simp only [Bool.or_eq_true] at this
        rcases this with h1 | h1
        · exact absurd h1 hle
        · exact h1
      refine List.pairwise_cons.mpr ⟨?_, ih hxs⟩
      intro y hy
      have := (insKey_perm p xs).mem_iff.mp hy
      rcases List.mem_cons.mp this with rfl | hy
      · exact hxp
      · exact hx y hy

theorem sorted_sortKey (l : List Pt) : SortedL (sortKey l) := by
  have hp : (sortKey l).Pairwise (fun a b => leKey a b = true) := by
    induction l with
    | nil => simp [sortKey]
    | cons x xs ih => unfold sortKey; exact insKey_pairwise x _ ih
  refine List.Pairwise.imp ?_ hp
  intro a b h
  simp [leKey] at h
  omega

/-- the initial sort orders ties by id -/
theorem sortKey_key_sorted (l : List Pt) : (sortKey l).Pairwise (fun a b => leKey a b = true) := by
  induction l with
  | nil => simp [sortKey]
  | cons x xs ih => unfold sortKey; exact insKey_pairwise x _ ih

end NessaiVerif.LiveSet
