"""C20 — correspondence of the Lean loop models (Model/Term.lean) with the real loops of nessai.

Every loop is run on the REAL method with everything random / flow-dependent scripted: a finite stream of batches
(when the real loop asks for more than the stream holds the script raises `Exhausted`: the loop was still spinning)
and a table of uniforms.  Log-weights are integer multiples of ln 2 (or NaN, +-inf), `rand()` returns 2^-(k+1/2) or 0,
so that every comparison the loops make is decided by a margin of at least (ln 2)/2 and the model's integer
arithmetic is exact for it.
"""
import logging
import math
import os
import shutil
import tempfile
from unittest import mock

import numpy as np

LN2 = math.log(2.0)
EF_TOKENS = ["nan", "-inf", "inf"]


class Exhausted(Exception):
    """the scripted stream ended while the real loop was still asking for more"""


def ef_float(t):
    if t == "nan":
        return math.nan
    if t == "-inf":
        return -math.inf
    if t == "inf":
        return math.inf
    return int(t) * LN2


def lu_rand(t):
    return 0.0 if t == "n" else 2.0 ** (-(int(t) + 0.5))


def ids_str(v):
    return "[" + ",".join(str(int(round(float(t)))) for t in v) + "]"


# ------------------------------------------------------------------------------------------------
# model used by the scripted runs (2 parameters, id carried in x0)
# ------------------------------------------------------------------------------------------------
def make_model():
    from nessai.model import Model

    class M(Model):
        def __init__(self):
            self.names = ["x0", "x1"]
            self.bounds = {"x0": [0.0, 4096.0], "x1": [-1.0, 1.0]}

        def log_prior(self, x):
            return np.log(self.in_bounds(x), dtype="float") - math.log(8192.0)

        def log_likelihood(self, x):
            return -0.5 * (x["x1"] ** 2) + x["x0"] / 4096.0

        def to_unit_hypercube(self, x):
            y = x.copy()
            y["x0"] = x["x0"] / 4096.0
            y["x1"] = (x["x1"] + 1.0) / 2.0
            return y

        def from_unit_hypercube(self, x):
            y = x.copy()
            y["x0"] = x["x0"] * 4096.0
            y["x1"] = 2.0 * x["x1"] - 1.0
            return y

    return M()


# ------------------------------------------------------------------------------------------------
# FlowProposal.populate
# ------------------------------------------------------------------------------------------------
def gen_populate(rng, boundary):
    """(N, m, batches, us, acc, maxS): batches = [(drawn, [(id, q, w)])], tokens as protocol strings"""
    N = rng.choice([1, 1, 2, 3, 4, 6])
    acc = rng.random() < 0.5
    trunc = rng.random() < 0.4
    m = rng.choice(["-1", "0", "1", "-inf", "nan"]) if trunc else None
    nb = rng.randint(0, 9)
    batches, nid = [], 1

    def weight():
        r = rng.random()
        if boundary:
            if r < 0.45:
                return rng.choice(EF_TOKENS)
            return str(rng.randint(-3, 3))
        if r < 0.04:
            return rng.choice(EF_TOKENS)
        return str(rng.randint(-4, 2))

    mode = rng.choice(["mixed", "allnan", "allninf", "empty", "mixed"]) if boundary else "mixed"
    for _ in range(nb):
        k = rng.randint(0, 5)
        items = []
        for _ in range(k):
            if mode == "allnan":
                w = "nan"
            elif mode == "allninf":
                w = "-inf"
            else:
                w = weight()
            q = rng.choice(["-2", "-1", "0", "1", "2", "2", "nan", "-inf"]) if trunc else "0"
            if mode == "empty" and trunc and m not in ("nan",):
                q = "-inf"
            items.append((nid, q, w))
            nid += 1
        batches.append((k + rng.randint(0, 2), items))
    ncalls = nb + 2
    total = nid + 1
    us = [[rng.choice(["0", "0", "1", "2", "3", "5", "n"] if boundary else ["0", "1", "1", "2", "3", "4"]) for _ in range(total)]
          for _ in range(ncalls)]
    maxS = rng.choice([0, 1, 3, 6, 10, 1000]) if acc else None
    return dict(N=N, m=m, batches=batches, us=us, acc=acc, maxS=maxS)


def populate_line(c):
    bs = "[" + ",".join("[" + ",".join([str(d)] + [f"{i};{q};{w}" for i, q, w in items]) + "]" for d, items in c["batches"]) + "]"
    us = "[" + ",".join("[" + ",".join(u) + "]" for u in c["us"]) + "]"
    m = "none" if c["m"] is None else c["m"]
    if c["acc"]:
        return f"term pacc {c['N']} {m} {c['maxS']} {bs} {us}"
    return f"term pstd {c['N']} {m} {bs} {us}"


def run_populate(c, tmp):
    """the real FlowProposal.populate on the scripted stream -> canonical string"""
    from nessai.proposal.flowproposal import FlowProposal
    from nessai.livepoint import numpy_array_to_live_points
    model = make_model()
    script = {"i": 0, "cur": None, "calls": 0, "nprop": 0}
    weights = {}
    for _, items in c["batches"]:
        for i, q, w in items:
            weights[i] = (ef_float(q), ef_float(w))

    class Scripted(FlowProposal):
        def prep_latent_prior(self):
            pass

        def get_alt_distribution(self):
            return None

        def draw_latent_prior(self, n):
            if script["i"] >= len(c["batches"]):
                raise Exhausted()
            script["cur"] = c["batches"][script["i"]]
            script["i"] += 1
            script["nprop"] += script["cur"][0]
            return np.zeros((script["cur"][0], 2))

        def backward_pass(self, z, rescale=True, **kw):
            items = script["cur"][1]
            arr = np.array([[float(i), 0.25] for i, _, _ in items]).reshape(len(items), 2)
            x = numpy_array_to_live_points(arr, self.model.names)
            return x, np.array([weights[i][0] for i, _, _ in items], dtype=float)

        def forward_pass(self, x, **kw):
            return None, np.array([ef_float(c["m"]), math.inf])

        def compute_weights(self, x, log_q, return_log_prior=False):
            return np.array([weights[int(round(v))][1] for v in x["x0"]], dtype=float)

    fp = Scripted(model, poolsize=c["N"], drawsize=5, output=tmp, plot=False, fixed_radius=1.0,
                  accumulate_weights=c["acc"], truncate_log_q=c["m"] is not None, latent_prior="truncated_gaussian")
    fp.parameters = list(model.names)
    fp.initialised = True
    fp.training_data = np.zeros(1)

    def rand(*shape):
        n = shape[0] if shape else 1
        row = c["us"][script["calls"]]
        script["calls"] += 1
        if n > len(row):
            raise AssertionError("uniform table too short")
        return np.array([lu_rand(t) for t in row[:n]])

    worst = numpy_array_to_live_points(np.array([[1.0, 0.0]]), model.names)[0]
    kwargs = {"max_samples": c["maxS"]} if c["acc"] else {}
    try:
        with mock.patch("numpy.random.rand", rand), np.errstate(all="ignore"):
            fp.populate(worst, N=c["N"], plot=False, **kwargs)
    except Exhausted:
        if c["acc"]:
            return f"spin used={script['i']}", fp
        return f"spin used={script['i']} rand={script['calls']}", fp
    except Exception as e:  # noqa
        return f"err={type(e).__name__}: {str(e)[:80]}", fp
    nprop = script["nprop"]
    nacc = int(round(fp.population_acceptance * nprop)) if nprop else 0
    return f"done x={ids_str(fp.x['x0'])} nacc={nacc} nprop={nprop} used={script['i']} rand={script['calls']}", fp


def oracle_populate(ctx, c, canon, fp):
    """what the property demands of one population on the real code"""
    good = [any(True for _ in items) for _, items in c["batches"]]
    if canon.startswith("done"):
        # a finished population holds at most N points, all of them from the stream, and is marked populated
        n = len(fp.x)
        if n > c["N"] or len(fp.indices) != n or not fp.populated:
            ctx.oracle_fail("FlowProposal.populate:pool-size", f"pool of {n} points / {len(fp.indices)} indices for N={c['N']}", c)
    return good


# ------------------------------------------------------------------------------------------------
# ImportanceFlowProposal.draw
# ------------------------------------------------------------------------------------------------
def gen_insdraw(rng, boundary):
    n = rng.choice([0, 1, 2, 3, 5, 8, 100, 150]) if boundary else rng.choice([1, 2, 3, 4, 6, 9, 12])
    nd = int(1.01 * n)
    nb = rng.randint(0, 7)
    mode = rng.choice(["mixed", "allrej1", "allrej2", "mixed"]) if boundary else "mixed"
    batches, nid = [], 1
    for _ in range(nb):
        b = []
        for _ in range(nd):
            if mode == "allrej1":
                k = 1
            elif mode == "allrej2":
                k = 2
            else:
                k = rng.choice([0, 0, 0, 1, 2]) if not boundary else rng.choice([0, 1, 1, 2, 2])
            b.append((nid, k))
            nid += 1
        batches.append(b)
    return dict(n=n, batches=batches, variant=rng.randint(0, 2))


def insdraw_line(c):
    return f"term insdraw {c['n']} [" + ",".join("[" + ",".join(f"{i};{k}" for i, k in b) + "]" for b in c["batches"]) + "]"


def run_insdraw(c, tmp):
    from nessai.proposal.importance import ImportanceFlowProposal
    model = make_model()
    prop = ImportanceFlowProposal(model, output=tmp, reparameterisation=None)
    kinds = {i: k for b in c["batches"] for i, k in b}
    script = {"i": 0, "asked": []}

    class Flow:
        n_models = 1
        models = []

        def sample_ith(self, i=None, N=None):
            script["asked"].append(int(N))
            if script["i"] >= len(c["batches"]):
                raise Exhausted()
            b = c["batches"][script["i"]]
            script["i"] += 1
            out = np.empty((len(b), 2))
            for r, (pid, k) in enumerate(b):
                out[r] = [(pid + 0.5) / 4096.0, 0.5]
                if k == 1:
                    out[r, 1] = [1.5, math.nan, math.inf][(pid + c["variant"]) % 3]
            if len(b) != N:
                # the real code asks for a batch size other than int(1.01 n): serve what it asks for (the
                # correspondence reports the different ndraw)
                pad = np.full((max(0, int(N) - len(b)), 2), 1.5)
                out = np.concatenate([out, pad])[: int(N)]
            return out

    prop.flow = Flow()
    prop._weights = {-1: 0.5, 0: 0.5}
    prop.level_count = 0

    def pid_of(x):
        return [int(round(v * 4096.0 - 0.5)) for v in np.atleast_1d(x)]

    def compute_log_Q(x_prime, log_j=None):
        ids = pid_of(x_prime[:, 0])
        logq = np.zeros(len(ids))
        allq = np.zeros((len(ids), 2))
        for r, pid in enumerate(ids):
            if kinds[pid] == 2 and (pid + c["variant"]) % 3 == 1:
                logq[r] = -math.inf          # logW = +inf
            if kinds[pid] == 2 and (pid + c["variant"]) % 3 == 2:
                allq[r, :] = math.nan        # row of NaN densities
        return logq, allq

    def log_prior(x, unit_hypercube=False):
        ids = pid_of(x["x0"])
        return np.array([-math.inf if (kinds[p] == 2 and (p + c["variant"]) % 3 == 0) else 0.0 for p in ids])

    prop.compute_log_Q = compute_log_Q
    model.batch_evaluate_log_prior = log_prior
    model.batch_evaluate_log_prior_unit_hypercube = lambda x: np.zeros(x.size)
    try:
        with np.errstate(all="ignore"):
            samples, log_q = prop.draw(c["n"])
    except Exhausted:
        nd = script["asked"][-1]
        return f"spin used={script['i']} ndraw={nd}", None
    except Exception as e:  # noqa
        return f"err={type(e).__name__}: {str(e)[:80]}", None
    nd = script["asked"][-1] if script["asked"] else int(1.01 * c["n"])
    if len(samples) != len(log_q):
        return "err=misaligned", None
    return f"done x=[{','.join(str(p) for p in pid_of(samples['x0']))}] used={script['i']} ndraw={nd}", samples


# ------------------------------------------------------------------------------------------------
# FlowModel.check_batch_size
# ------------------------------------------------------------------------------------------------
FRACTIONS = [(1, 10, 0.1), (1, 4, 0.25), (1, 2, 0.5), (0, 1, 0.0), (1, 1, 1.0)]


def run_cbs(n, b, frac):
    from nessai.flowmodel.base import FlowModel
    try:
        if frac is None:
            r = FlowModel.check_batch_size(np.zeros(n), b)
        else:
            r = FlowModel.check_batch_size(np.zeros(n), b, min_fraction=frac)
    except ValueError:
        return "err=value"
    except RuntimeError:
        return "err=runtime"
    except ZeroDivisionError:
        return "err=zerodiv"
    return f"ok {int(r)}"


def oracle_cbs(ctx, n, b, canon, case):
    """documented intent for the default fraction and a positive batch size: the returned batch size
    is a usable one (2..b) — checked on the real function"""
    if canon.startswith("ok") and b >= 2:
        r = int(canon.split()[1])
        if not (2 <= r <= b):
            ctx.oracle_fail("FlowModel.check_batch_size:range", f"returned {r} for batch_size={b}, len={n}", case)
        if n % r == 1:
            # batch normalisation (on by default in the importance sampler's flows) has no variance for one sample: the
            # flow collapses and ImportanceFlowProposal.draw never returns (finding F57, fixed)
            ctx.oracle_fail("FlowModel.check_batch_size:final-batch-of-one", f"batch size {r} accepted for {n} training samples "
                            f"(requested {b}): the final batch holds a single sample", case)


# ------------------------------------------------------------------------------------------------
# draw_final_samples: batch size + redraw loop, on a finished sampler
# ------------------------------------------------------------------------------------------------
class _LogTap(logging.Handler):
    def __init__(self):
        super().__init__(level=logging.WARNING)
        self.msgs = []

    def emit(self, record):
        self.msgs.append(record.getMessage())


class FinalRig:
    """one finished ImportanceNestedSampler (tilt flows, ~1 s) on which draw_final_samples is called with the
    flow draws, the likelihood and the evidence state scripted"""

    def __init__(self):
        from harness.c03 import FakeFlows, make_model as c03_model
        from nessai.samplers.importancesampler import ImportanceNestedSampler
        import torch
        self.tmp = tempfile.mkdtemp(prefix="c20rig_")
        np.random.seed(11)
        torch.manual_seed(11)
        with FakeFlows(2, False, None):
            s = ImportanceNestedSampler(c03_model(2, 0), nlive=40, output=self.tmp, seed=11, plot=False, checkpointing=False,
                                        min_samples=10, max_iteration=2, min_iteration=2, reparameterisation=None)
            s.nested_sampling_loop()
        self.s = s
        self.supplied_attr = False
        if not hasattr(s.proposal, "unnormalised_weights"):
            # the attribute draw_final_samples reads is not defined anywhere (see the attribute table); the loop
            # can only be reached when the environment supplies it
            try:
                s.proposal.unnormalised_weights = dict(s.proposal.weights)
                self.supplied_attr = True
            except AttributeError:
                pass

    def close(self):
        shutil.rmtree(self.tmp, ignore_errors=True)

    def eff(self):
        return self.s.state.effective_n_posterior_samples / self.s.nested_samples_unit.size

    def run(self, c):
        import nessai.samplers.importancesampler as mod
        s = self.s
        script = {"i": 0, "asked": []}
        ks, es = c["ks"], c["es"]

        def draw_from_flows(n, counts=None, weights=None):
            script["asked"].append(int(n))
            if script["i"] >= len(ks):
                raise Exhausted()
            k = ks[script["i"]]
            return np.zeros(k, dtype=s.proposal.dtype), np.zeros((k, s.proposal.n_proposals)), np.zeros(s.proposal.n_proposals)

        class State:
            effective_n_posterior_samples = 0.0
            logZ = log_evidence = log_evidence_error = 0.0

            def update_evidence(self, samples):
                self.effective_n_posterior_samples = es[script["i"]] / 2.0
                script["i"] += 1

        class FakeOS:
            def __init__(self, *a, **k):
                self.state = State()
                self.samples = None
                self.log_q = None

        tap = _LogTap()
        lg = logging.getLogger("nessai")
        old_level, old_disable = lg.level, logging.root.manager.disable
        logging.disable(logging.NOTSET)
        lg.setLevel(logging.WARNING)
        lg.addHandler(tap)
        s._final_samples = None
        kw = dict(n_post=c["n_post"], n_draw=c["n_draw"], max_its=c["max_its"], max_batch_size=c["max_batch"],
                  max_samples_ratio=c["ratio"])
        try:
            with mock.patch.object(mod, "OrderedSamples", FakeOS), \
                    mock.patch.object(s.proposal, "draw_from_flows", draw_from_flows, create=True), \
                    mock.patch.object(s.model, "batch_evaluate_log_likelihood", lambda x, **k: np.zeros(x.size)):
                _, samples = s.draw_final_samples(**kw)
        except Exhausted:
            return "spin", None
        except RuntimeError as e:
            return "halve err=runtime", None
        except Exception as e:  # noqa
            return f"err={type(e).__name__}: {str(e)[:80]}", None
        finally:
            lg.removeHandler(tap)
            lg.setLevel(old_level)
            logging.disable(old_disable)
            s._final_samples = None
        if any("maximum number of iterations" in m for m in tap.msgs):
            why = "max_its"
        elif any("Reached maximum number of samples" in m for m in tap.msgs):
            why = "max_samples"
        else:
            why = "ess" if c["n_post"] else "n_draw"
        bsz = script["asked"][0] if script["asked"] else None
        if len(set(script["asked"])) > 1:
            return "err=batch-size-changed", None
        return f"halve ok {bsz if bsz is not None else '?'} exit={why} it={script['i']} size={samples.size}", samples


def gen_final(rng, rig, boundary):
    size = rig.s.nested_samples_unit.size
    n_post = None
    n_draw = None
    r = rng.random()
    if r < 0.4:
        n_draw = rng.choice([1, 2, 5, 20, 40, 97, 400]) if not boundary else rng.choice([1, 3, 1000, 100000])
    elif r < 0.75:
        n_post = rng.choice([1, 2, 5, 10, 30])
    elif r < 0.85 and boundary:
        n_post = 0
    max_its = rng.choice([1, 2, 3, 5, 8, 1000]) if not boundary else rng.choice([0, -1, 1, 2, 1000])
    max_batch = rng.choice([20000, 50, 7, 2, 1]) if not boundary else rng.choice([1, 0, -1, 3, 20000])
    # max_samples_ratio=None (documented: "no limit") raises TypeError before the loop: replayed separately as a finding
    ratio = rng.choice([1.0, 1.0, 0.0, 0.5]) if not boundary else rng.choice([1.0, 0.0, 0.25, 2.0])
    n_it = rng.randint(0, 10)
    ks = [rng.choice([0, 1, 2, 5, 9, 30, 77]) for _ in range(n_it)]
    es = [2 * rng.randint(0, 40) + 1 for _ in range(n_it)]
    # the values the model starts from: n_draw after the defaulting code, max_samples
    if n_post:
        nd = int(n_post / rig.eff())
    elif n_draw:
        nd = n_draw
    else:
        nd = rig.s.samples_unit.size
    ms = int(ratio * size) if ratio else None
    return dict(n_post=n_post, n_draw=n_draw, max_its=max_its, max_batch=max_batch, ratio=ratio, ks=ks, es=es, nd=nd, ms=ms)


def final_lines(c):
    np_ = "none" if c["n_post"] is None else c["n_post"]
    ms = "none" if c["ms"] is None else c["ms"]
    return (f"term halve {c['nd']} {c['max_batch']}",
            f"term dfin {np_} {c['nd']} {c['max_its']} {ms} [{','.join(map(str, c['ks']))}] [{','.join(map(str, c['es']))}]")


def final_model_canon(h, d):
    """combine the two model lines the way run() reports"""
    if h.startswith("err"):
        return "halve " + h
    if "exit=fuel" in d:
        return "spin"
    if " it=0 " in d:
        h = "ok ?"      # no draw happened: the batch size is not observable
    return f"halve {h} {d}"


# ------------------------------------------------------------------------------------------------
# NestedSampler.populate_live_points
# ------------------------------------------------------------------------------------------------
def gen_nslive(rng, boundary):
    nlive = rng.choice([1, 2, 3, 5, 10, 12])
    n = rng.randint(0, 3 * nlive + 4)
    cands = []
    mode = rng.choice(["mixed", "nanL", "infP", "mixed"]) if boundary else "mixed"
    for i in range(1, n + 1):
        if mode == "nanL":
            p, l0, el = "0", "nan", "1"
        elif mode == "infP":
            p, l0, el = "-inf", "1", "1"
        else:
            bad = 0.5 if boundary else 0.1
            p = rng.choice(["-inf", "nan", "inf"]) if rng.random() < bad else str(-rng.randint(0, 5))
            l0 = rng.choice(["nan", "-inf", "inf", "0", "0"]) if rng.random() < bad + 0.1 else str(-rng.randint(1, 9))
            el = rng.choice(["nan", "-inf", "inf", "0"]) if rng.random() < bad else str(-rng.randint(1, 9))
        cands.append((i, p, l0, el, int(rng.random() < 0.8)))
    return dict(nlive=nlive, cands=cands)


def nslive_line(c):
    return f"term nslive {c['nlive']} [" + ",".join(";".join(str(t) for t in cd) for cd in c["cands"]) + "]"


def ef_plain(t):
    return {"nan": math.nan, "-inf": -math.inf, "inf": math.inf}.get(t, None) if t in EF_TOKENS else float(int(t))


def run_nslive(c, tmp):
    from nessai.samplers.nestedsampler import NestedSampler
    from nessai.livepoint import numpy_array_to_live_points
    model = make_model()
    ns = NestedSampler(model, nlive=c["nlive"], output=tmp, plot=False, checkpointing=False, seed=1)
    script = {"i": 0}
    evalL = {cd[0]: ef_plain(cd[3]) for cd in c["cands"]}

    class P:
        populated = True

        def draw(self, old):
            if script["i"] >= len(c["cands"]):
                raise Exhausted()
            i, p, l0, el, pop = c["cands"][script["i"]]
            script["i"] += 1
            x = numpy_array_to_live_points(np.array([[float(i), 0.0]]), model.names)[0]
            x["logP"] = ef_plain(p)
            x["logL"] = ef_plain(l0)
            self.populated = bool(pop)
            return x

    ns.proposal = P()
    model.evaluate_log_likelihood = lambda x: evalL[int(round(float(x["x0"])))]
    try:
        with np.errstate(all="ignore"):
            ns.populate_live_points()
    except Exhausted:
        return f"spin draws={script['i']}", None
    except Exception as e:  # noqa
        return f"err={type(e).__name__}: {str(e)[:80]}", None
    return f"done ids={ids_str(sorted(ns.live_points['x0']))} draws={script['i']}", ns.live_points


# ------------------------------------------------------------------------------------------------
# ImportanceNestedSampler.populate_live_points
# ------------------------------------------------------------------------------------------------
def gen_inslive(rng, boundary):
    n_initial = rng.choice([2, 3, 4, 6])
    iid = rng.random() < 0.5
    target = 2 * n_initial if iid else n_initial
    nb = rng.randint(0, 6)
    mode = rng.choice(["mixed", "never", "mixed"]) if boundary else "mixed"
    batches, nid = [], 1
    for _ in range(nb):
        b = []
        for _ in range(target):
            f = 0 if mode == "never" else int(rng.random() < (0.3 if boundary else 0.8))
            b.append((nid, f))
            nid += 1
        batches.append(b)
    return dict(n_initial=n_initial, iid=iid, target=target, batches=batches, variant=rng.randint(0, 2))


def inslive_line(c):
    return f"term inslive {c['target']} [" + ",".join("[" + ",".join(f"{i};{f}" for i, f in b) + "]" for b in c["batches"]) + "]"


def run_inslive(c, tmp):
    from nessai.samplers.importancesampler import ImportanceNestedSampler
    from nessai.livepoint import numpy_array_to_live_points
    model = make_model()
    s = ImportanceNestedSampler(model, nlive=c["n_initial"], output=tmp, plot=False, checkpointing=False, seed=1,
                                min_samples=1, draw_iid_live=c["iid"], reparameterisation=None)
    flags = {i: f for b in c["batches"] for i, f in b}
    script = {"i": 0}

    def sample_unit_hypercube(n):
        if script["i"] >= len(c["batches"]):
            raise Exhausted()
        b = c["batches"][script["i"]]
        script["i"] += 1
        assert len(b) == n
        arr = np.array([[(i + 0.5) / 4096.0, 0.5] for i, _ in b])
        return numpy_array_to_live_points(arr, model.names)

    def pid_of(x):
        return [int(round(v * 4096.0 - 0.5)) for v in np.atleast_1d(x)]

    def log_prior(x, unit_hypercube=False):
        bad = [-math.inf, math.nan, math.inf]
        return np.array([0.0 if flags[p] else bad[(p + c["variant"]) % 3] for p in pid_of(x["x0"])])

    model.sample_unit_hypercube = sample_unit_hypercube
    model.batch_evaluate_log_prior = log_prior
    model.batch_evaluate_log_prior_unit_hypercube = lambda x: np.zeros(x.size)
    try:
        with np.errstate(all="ignore"):
            s.populate_live_points()
    except Exhausted:
        return f"spin used={script['i']}", None
    except Exception as e:  # noqa
        return f"err={type(e).__name__}: {str(e)[:80]}", None
    tr = sorted(pid_of(s.training_samples.samples["x0"]))
    ii = sorted(pid_of(s.iid_samples.samples["x0"])) if c["iid"] else []
    return f"done train={tr} iid={ii} used={script['i']}".replace(" ", "").replace("done", "done ").replace("iid=", " iid=").replace("used=", " used="), s


def inslive_model_canon(out, c):
    """split the model's acceptance-ordered ids the way populate_live_points does"""
    if out.startswith("spin"):
        return "spin used=" + out.split("used=")[1]
    ids = [int(t) for t in out.split("ids=[")[1].split("]")[0].split(",") if t]
    used = out.split("used=")[1]
    tr, ii = ids[: c["n_initial"]], ids[c["n_initial"]:]
    return f"done train={sorted(tr)} iid={sorted(ii)} used={used}".replace(" ", "").replace("done", "done ").replace("iid=", " iid=").replace("used=", " used=")
