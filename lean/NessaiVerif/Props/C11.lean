import NessaiVerif.Proofs.CrashFSGen
/-
C11 — a process kill during checkpointing never leaves the run unresumable.
Property theorems only.  `Gen.protocol` (the statement lists of `safe_file_dump` for both
`save_existing` values and of `FlowModel.save_weights`, the `except` tuples of
`FlowSampler._resume_from_file`, the weights-reload shape of `FlowProposal.resume`) is
regenerated from the nessai source on every run; every theorem below is about it.

A history is any list of checkpoints (either `save_existing` mode, any version) and
trainings (each ending in a weights save), each either completed or killed at a crash
point `⟨j, inside, flushed⟩`: `j` file operations completed; if `inside = some k`, the next
one started and `k` bytes written; and a file written through a handle that was not yet
closed keeps only its first `flushed` bytes (any number), under whatever name it has.
After a kill the run is restarted with resume and goes on (so histories contain any number
of kills).

WHAT THE CONCLUSIONS COVER.  `SafeAfter kind P hist` says exactly two things about the
resume after `hist`: (a) it returns — no exception leaves `FlowSampler(resume=True)`; and
(b) the checkpoint VERSION it loads is the last completed checkpoint (a fresh start if there
is none) or a checkpoint attempted after it; with `reachable_wellformed`, the file it was
loaded from is complete, never torn.  `SafeAfter` says NOTHING about which flow weights
come back with that checkpoint; that is the subject of `weights_back_partial` (one killed
save comes back with the right weights), `weights_path_never_drifts`, and
`weights_back_two_kills_witness`, which proves that the code as it is can still come back with
NO weights (an untrained flow) after two consecutive killed saves — a known finding; the two
other `…_witness` theorems record, against the earlier reload shapes, what commits e1ff52c
and d143089 repaired.
NOT covered by any theorem, checked only by the harness oracle on the real code: that the
unpickled object equals the state that was pickled (the model has only complete/torn), and
that sampling can continue from it (the harness goes on checkpointing / training / sampling
with every resumed object, and runs killed real runs to their end).
-/
set_option linter.unusedSimpArgs false
namespace NessaiVerif.C11
open NessaiVerif.CrashFS

/-- After any history whatsoever (both samplers, both `save_existing` modes, any number of
kills anywhere, including inside the pickle write and inside the weights write) the
checkpoint file and its `.old` are never torn: torn bytes only ever live in the temp file.
(This needs the rename to come AFTER the close of the temp file's handle: a file renamed
while its handle is open carries its unflushed tail to the final name.) -/
theorem reachable_wellformed (kind : Kind) (hist : List Ev) :
    ((replay kind Gen.protocol hist).fs cb).isTorn = false ∧
    ((replay kind Gen.protocol hist).fs co).isTorn = false :=
  hist_untorn kind Gen.protocol gen_dumpSpec hist initSys rfl rfl

example : ∃ j, j < 9 ∧ ((replay .std Gen.protocol [.ckpt true 1 0 9 none,
    .ckpt true 2 0 9 (some ⟨j, some 4, 0⟩)]).fs ⟨.ckpt, .temp⟩) = .torn 4 .tornPickle := by decide

-- durability is in the model: killed after the write but before the handle is closed, the
-- temp file keeps only what had been flushed (here 4 of 9 bytes)
example : ∃ j, j < 9 ∧ ((replay .std Gen.protocol [.ckpt true 1 0 9 none,
    .ckpt true 2 0 9 (some ⟨j, none, 4⟩)]).fs ⟨.ckpt, .temp⟩) = .torn 4 .tornPickle := by decide

/-- THE HEADLINE.  Both samplers, both `save_existing` modes, EVERY history — checkpoints and
weight saves killed anywhere (between operations, inside the pickle write, inside
`torch.save`, before a close), any number of times: the resume never raises and loads the
previous or the new checkpoint, or starts afresh when none had completed.  (For the
standard sampler this rests on the weights reload of `FlowProposal.resume` passing
`WeightsHandler.safe`, re-decided here from the generated shape on every run; it did not
before commit 82a3f13, see `weights_crash_safe_of_handler_fails_without`.) -/
theorem crash_safe_state (kind : Kind) (hist : List Ev) : SafeAfter kind Gen.protocol hist := by
  cases kind with
  | ins => exact ins_hist_safe Gen.protocol gen_dumpSpec gen_saveSpec (gen_resumeSpec _) hist
  | std =>
    exact std_hist_safe Gen.protocol gen_dumpSpec (gen_resumeSpec _) (fun _ => True) (fun _ => True)
      (fun fs _ n => safe_handler_ok Gen.weightsHandler (by decide) fs n) (fun _ _ _ _ => trivial)
      (fun _ _ _ _ _ _ _ => trivial) trivial hist (fun _ _ => trivial)

example : SafeAfter .std Gen.protocol [.train 1 20 .osError none, .ckpt true 1 1 9 none,
    .train 2 20 .osError (some ⟨2, some 5, 0⟩), .ckpt true 2 1 9 (some ⟨3, none, 4⟩)] :=
  crash_safe_state .std _

/-- The standard sampler's weights protocol: a kill anywhere in `FlowModel.save_weights`
(in-place `torch.save` included), in any history, never makes the resume raise
(`crash_safe_state` at `Kind.std`, under the name the design gives it). -/
theorem weights_crash_safe (hist : List Ev) : SafeAfter .std Gen.protocol hist :=
  crash_safe_state .std hist

/-- Importance sampler: the per-level weights layout is crash-safe for EVERY history, kills
inside a level's weights write included — a torn `level_k/model.pt` is always beyond the
level count recorded in any checkpoint on disk, so `load_all_weights` never reads it. -/
theorem ins_levels_safe (hist : List Ev) : SafeAfter .ins Gen.protocol hist :=
  crash_safe_state .ins hist

example : ∃ j, j < 9 ∧ ((replay .ins Gen.protocol [.train 1 20 .runtime none, .ckpt false 1 0 9 none,
    .train 2 20 .runtime (some ⟨j, some 7, 0⟩)]).fs ⟨.level 1, .base⟩) = .torn 7 .runtime := by decide

/-- Why `crash_safe_state` holds for the standard sampler, for ANY weights-reload shape `h`
(not only today's): if `h.safe` (the reload is skipped when no weights were saved, a missing
file is tolerated, everything `torch.load` raises on a torn file — `RuntimeError`, `OSError`,
`EOFError`, `UnpicklingError` — is caught, and the handler carries on or falls back to `.old`
tolerating the same failures), the resume never raises, in every history. -/
theorem weights_crash_safe_of_handler (h : WeightsHandler) (hs : h.safe = true) (hist : List Ev) :
    SafeAfter .std (Gen.protocolWith h) hist :=
  std_hist_safe (Gen.protocolWith h) gen_dumpSpec (gen_resumeSpec h) (fun _ => True) (fun _ => True)
    (fun fs _ n => safe_handler_ok h hs fs n) (fun _ _ _ _ => trivial) (fun _ _ _ _ _ _ _ => trivial)
    trivial hist (fun _ _ => trivial)

example : SafeAfter .std (Gen.protocolWith ⟨true, true, [.RuntimeError, .OSError, .EOFError, .UnpicklingError], .skip, false, false⟩)
    [.train 1 20 .osError none, .ckpt true 1 1 9 none, .train 2 20 .osError (some ⟨2, some 5, 0⟩)] :=
  weights_crash_safe_of_handler _ (by decide) _

/-- … and without `h.safe` it fails: with the reload shape the source had before commit
82a3f13 (no `try` around the reload: finding F3, fixed) one completed training and
checkpoint followed by a kill 5 bytes into the write of the next weights save (operation
`j`) makes the resume raise. -/
theorem weights_crash_safe_of_handler_fails_without :
    (∃ j, j < 9 ∧ resume .std (Gen.resumeCfgWith ⟨true, true, [], .reraise, false, false⟩) 0
      (replay .std (Gen.protocolWith ⟨true, true, [], .reraise, false, false⟩)
        [.train 1 20 .runtime none, .ckpt true 1 1 9 none, .train 2 20 .runtime (some ⟨j, some 5, 0⟩)]).fs
      = .raises .fileNotFound) ∧
    (∃ j, j < 9 ∧ resume .std (Gen.resumeCfgWith ⟨true, true, [], .reraise, false, false⟩) 0
      (replay .std (Gen.protocolWith ⟨true, true, [], .reraise, false, false⟩)
        [.train 1 20 .osError none, .ckpt true 1 1 9 none, .ckpt true 2 1 9 none,
         .train 2 20 .osError (some ⟨j, some 5, 0⟩)]).fs = .raises .osError) := by
  constructor <;> decide

/-- The same counter-example in general, for ANY weights-reload shape `h` that does not catch
what `torch.load` raises on the torn file (`e`: `RuntimeError`, `OSError`, `EOFError` or
`UnpicklingError` depending on where the file was cut): whenever the checkpoint refers to
`model.pt`, that file is torn, and `.old` is missing or refers to it too, the resume raises —
whatever the versions and the cut.  (This was finding F3; today's source catches `Exception`.) -/
theorem weights_torn_witness (h : WeightsHandler) (fs : FS) (top v k : Nat) (e : Exc)
    (hc : catches h.excs e = false)
    (hb : fs cb = .complete v 1) (hw : fs wb = .torn k e)
    (ho : fs co = .absent ∨ ∃ v', fs co = .complete v' 1) :
    (resume .std (Gen.resumeCfgWith h) top fs).version = none := by
  have hb' : fs ⟨.ckpt, .base⟩ = .complete v 1 := hb
  have hw' : fs ⟨.weights, .base⟩ = .torn k e := hw
  have hres : stdWeightsResume h fs 1 = some e := by
    simp [stdWeightsResume, loadWeights, loadContent, primary, FS.has, hw', Content.exists?, hc]
  rcases ho with ho | ⟨v', ho⟩
  · have ho' : fs ⟨.ckpt, .old⟩ = .absent := ho
    cases e <;>
      simp [resume, attempt, weightsResume, hres, Gen.resumeCfgWith, FS.has, hb', ho',
        Content.exists?, catches, ExcName.covers, Outcome.version]
  · have ho' : fs ⟨.ckpt, .old⟩ = .complete v' 1 := ho
    cases e <;>
      simp [resume, attempt, weightsResume, hres, Gen.resumeCfgWith, FS.has, hb', ho',
        Content.exists?, catches, ExcName.covers, Outcome.version]

example : (resume .std (Gen.resumeCfgWith ⟨true, true, [.RuntimeError], .skip, false, false⟩) 0
    ((emptyFS.set cb (.complete 1 1)).set wb (.torn 4100 .osError))).version = none :=
  weights_torn_witness _ _ 0 1 4100 .osError (by decide) (by decide) (by decide) (Or.inl (by decide))

/-- What the fallback to `.old` relies on: when a weights save that started from a complete
weights file is killed anywhere, the previous weights are still complete on disk, in the file
itself or in `.old` (or the new ones are complete). -/
theorem weights_old_survives (fs : FS) (w0 w len : Nat) (e : Exc) (cp : CrashPt) (hw : fs wb = .complete w0 0) :
    crashState Gen.protocol.saveWeights .weights ⟨w, 0, len, e⟩ fs cp wb = .complete w0 0 ∨
    crashState Gen.protocol.saveWeights .weights ⟨w, 0, len, e⟩ fs cp wo = .complete w0 0 ∨
    crashState Gen.protocol.saveWeights .weights ⟨w, 0, len, e⟩ fs cp wb = .complete w 0 := by
  have hw' : fs ⟨.weights, .base⟩ = .complete w0 0 := hw
  rcases gen_saveSpec.views .weights ⟨w, 0, len, e⟩ fs cp with ⟨h1, _⟩ | ⟨_, _, h2⟩ | ⟨_, ⟨_, h2⟩ | ⟨h2, _⟩⟩
  · exact Or.inl (h1.trans hw')
  · exact Or.inr (Or.inl (h2.trans hw'))
  · exact Or.inr (Or.inl (h2.trans hw'))
  · rw [hw'] at h2; cases h2

example : crashState Gen.protocol.saveWeights .weights ⟨2, 0, 20, .osError⟩
      (replay .std Gen.protocol [.train 1 20 .runtime none]).fs ⟨2, some 5, 0⟩ wb = .complete 1 0 ∨
    crashState Gen.protocol.saveWeights .weights ⟨2, 0, 20, .osError⟩
      (replay .std Gen.protocol [.train 1 20 .runtime none]).fs ⟨2, some 5, 0⟩ wo = .complete 1 0 ∨
    crashState Gen.protocol.saveWeights .weights ⟨2, 0, 20, .osError⟩
      (replay .std Gen.protocol [.train 1 20 .runtime none]).fs ⟨2, some 5, 0⟩ wb = .complete 2 0 :=
  weights_old_survives _ 1 2 20 .osError ⟨2, some 5, 0⟩ (by decide)

/-- WHICH WEIGHTS COME BACK (standard sampler) — weaker than the property, hence `_partial`.
From a state in which the last weights save completed (`model.pt` holds version `L`) and
the checkpoint a resume will load (`(v, n)`) records no weights (`n = 0`) or `model.pt`
(`n = 1`; by `weights_path_never_drifts` these are the only cases), ONE kill ANYWHERE in the
next weights save (version `w`) — between the move and the save included — is survived with
the right weights: the resume loads checkpoint `v`, the flow holds the last completely
saved weights `L` (read from `model.pt` or, when that file is missing or torn, from
`model.pt.old`) or the new ones `w` if their write had in fact completed, and the path it
records afterwards is `model.pt` again; a checkpoint that recorded no weights gets none.
GAP to the property: hypothesis `hw` (the previous save completed) is needed — after two
consecutive killed saves the code comes back with an UNTRAINED flow
(`weights_back_two_kills_witness`, a known finding). -/
theorem weights_back_partial (fs : FS) (top L w len v n : Nat) (e : Exc) (cp : CrashPt)
    (hg : CkptGood fs (some (v, n))) (hw : fs wb = .complete L 0) :
    ∃ wl m, resume .std Gen.protocol.cfg top
        (crashState Gen.saveWeightsProg .weights ⟨w, 0, len, e⟩ fs cp) = .loaded v n wl m ∧
      (n = 0 → wl = 0) ∧ (n = 1 → (wl = L ∨ wl = w) ∧ m = 1) := by
  have hw' : fs ⟨.weights, .base⟩ = .complete L 0 := hw
  have hg' : CkptGood (crashState Gen.saveWeightsProg .weights ⟨w, 0, len, e⟩ fs cp) (some (v, n)) :=
    hg.congr (crashState_frame _ _ _ _ _ _ (by simp)) (crashState_frame _ _ _ _ _ _ (by simp))
  have hres := gen_resumeSpec Gen.weightsHandler .std top _ _ hg'
    (fun _ _ n' _ _ => safe_handler_ok Gen.weightsHandler (by decide) _ n')
  refine ⟨_, _, hres, ?_, ?_⟩
  · intro h0
    simp [weightsBack, stdWeightsBack, h0]
  · intro h1
    rcases gen_saveSpec.views .weights ⟨w, 0, len, e⟩ fs cp with ⟨e1, _⟩ | ⟨_, e1, e2⟩ | ⟨e1 | ⟨k, _, e1⟩, e2⟩
    · simp [weightsBack, stdWeightsBack, Gen.resumeCfgWith, Gen.weightsHandler, h1, primary, FS.has,
        e1, hw', Content.exists?]
    · simp [weightsBack, stdWeightsBack, fallbackBack, fallbackContent, Gen.resumeCfgWith,
        Gen.weightsHandler, h1, primary, FS.has, e1, e2, hw', Content.exists?]
    · simp [weightsBack, stdWeightsBack, Gen.resumeCfgWith, Gen.weightsHandler, h1, primary, FS.has,
        e1, Content.exists?]
    · rcases e2 with ⟨_, e2⟩ | ⟨e2, _⟩
      · simp [weightsBack, stdWeightsBack, fallbackBack, fallbackContent, Gen.resumeCfgWith,
          Gen.weightsHandler, h1, primary, FS.has, e1, e2, hw', Content.exists?]
      · rw [hw'] at e2; cases e2

-- applied to the kill BETWEEN the move and the save (the point that used to lose the weights)
example : ∃ wl m, resume .std Gen.protocol.cfg 0
      (crashState Gen.saveWeightsProg .weights ⟨2, 0, 20, .osError⟩
        (replay .std Gen.protocol [.train 1 20 .runtime none, .ckpt true 1 1 9 none]).fs ⟨2, none, 0⟩)
      = .loaded 1 1 wl m ∧ ((1 : Nat) = 0 → wl = 0) ∧ ((1 : Nat) = 1 → (wl = 1 ∨ wl = 2) ∧ m = 1) :=
  weights_back_partial _ 0 1 2 20 1 1 .osError ⟨2, none, 0⟩
    ⟨by decide, by decide, Or.inl (by decide)⟩ (by decide)

/-- The recorded weights path NEVER drifts: after every history of the standard sampler
(any kills anywhere, any number), the flow's in-memory `weights_file` and the path pickled
in every checkpoint on disk are none or `model.pt` — never `model.pt.old`.  (Rests on
`self.flow.weights_file = weights_file` after a fallback reload, commit d143089.) -/
theorem weights_path_never_drifts (hist : List Ev) :
    (replay .std Gen.protocol hist).mem ≤ 1 ∧
    ∀ p v n, (p = cb ∨ p = co) → (replay .std Gen.protocol hist).fs p = .complete v n → n ≤ 1 :=
  hist_no_drift hist initSys (by decide) (fun p v n _ h => by simp [initSys, emptyFS] at h)

example : ∃ j, j < 9 ∧ (replay .std Gen.protocol [.train 1 20 .osError none, .ckpt true 1 1 9 none,
    .train 2 20 .osError (some ⟨j, some 5, 0⟩), .ckpt true 2 1 9 none]).fs cb = .complete 2 1 := by decide

/-- RESIDUAL DEFECT, KNOWN FINDING (hypothesis `hw` of `weights_back_partial` is needed): two
consecutive killed weights saves.  The first leaves a torn `model.pt` and the good weights in
`.old`; the restarted run's next save moves the TORN file over `.old` and is killed in its
write: both files are torn, the reload and its fallback both fail and are swallowed, and the
checkpoint comes back with an untrained flow.  (`FlowModel.save_weights` is unchanged.) -/
theorem weights_back_two_kills_witness :
    ∃ j, j < 9 ∧ resume .std Gen.protocol.cfg 0 (replay .std Gen.protocol
      [.train 1 20 .osError none, .ckpt true 1 1 9 none, .train 2 20 .osError (some ⟨j, some 5, 0⟩),
       .train 3 20 .osError (some ⟨j, some 5, 0⟩)]).fs = .loaded 1 1 0 0 := by
  decide

/-- What commit e1ff52c repaired, against the reload shape the source had before it (fallback
only inside the `except` body): a single kill BETWEEN the move of `model.pt` to `.old` and the
`torch.save` left no `model.pt`; the reload was skipped silently although the complete previous
weights sat in `.old`, and the checkpoint came back with an untrained flow. -/
theorem weights_back_missing_file_witness :
    ∃ j, j < 9 ∧
      (replay .std (Gen.protocolWith ⟨true, true, [.Exception], .loadOld true [.Exception], false, false⟩)
        [.train 1 20 .runtime none, .ckpt true 1 1 9 none,
         .train 2 20 .runtime (some ⟨j, none, 0⟩)]).fs wo = .complete 1 0 ∧
      resume .std (Gen.resumeCfgWith ⟨true, true, [.Exception], .loadOld true [.Exception], false, false⟩) 0
        (replay .std (Gen.protocolWith ⟨true, true, [.Exception], .loadOld true [.Exception], false, false⟩)
          [.train 1 20 .runtime none, .ckpt true 1 1 9 none,
           .train 2 20 .runtime (some ⟨j, none, 0⟩)]).fs = .loaded 1 1 0 0 := by
  decide

/-- What commit d143089 repaired, against the shape before it (fallback without
`self.flow.weights_file = weights_file`): after ONE fallback the flow recorded `model.pt.old`
(code 2), the next checkpoint pickled that path, the next completed save rotated the torn file
over `.old`, and a kill before the following checkpoint completed resumed the drifted
checkpoint with an untrained flow although `model.pt` held complete weights. -/
theorem weights_back_path_drift_witness :
    ∃ j, j < 9 ∧ ∃ i, i < 9 ∧
      (replay .std (Gen.protocolWith ⟨true, true, [.Exception], .loadOld true [.Exception], true, false⟩)
        [.train 1 20 .osError none, .ckpt true 1 1 9 none,
         .train 2 20 .osError (some ⟨j, some 5, 0⟩), .ckpt true 2 1 9 none, .train 3 20 .osError none,
         .ckpt true 3 1 9 (some ⟨i, some 4, 0⟩)]).fs wb = .complete 3 0 ∧
      resume .std (Gen.resumeCfgWith ⟨true, true, [.Exception], .loadOld true [.Exception], true, false⟩) 0
        (replay .std (Gen.protocolWith ⟨true, true, [.Exception], .loadOld true [.Exception], true, false⟩)
          [.train 1 20 .osError none, .ckpt true 1 1 9 none, .train 2 20 .osError (some ⟨j, some 5, 0⟩),
           .ckpt true 2 1 9 none, .train 3 20 .osError none,
           .ckpt true 3 1 9 (some ⟨i, some 4, 0⟩)]).fs = .loaded 2 2 0 0 := by
  decide

end NessaiVerif.C11
