import NessaiVerif.Proofs.ResampleCdf
import Mathlib.Analysis.SpecialFunctions.Log.Basic
/-
C16 helper: the log-space programs of the code, over extended log-values, and their
equality with the linear-domain model.

A log-value is `Option ℝ`: `none` is the float `-inf` (log of a zero weight / of a uniform draw 0).
`expE none = 0`.  IEEE rules used by the code are spelled out:
  `-inf - m = -inf` for finite `m`;  `x - (-inf)` with `x = -inf` is NaN and every comparison
  with NaN is False (all weights zero: `np.max(log_w) = -inf`);  `-inf > -inf` is False.
`logsumexp` is by definition `log Σ exp` (SciPy evaluates the same quantity with a max-shift).
These definitions are not executable (real exponentials); they are only the subject of the
bridging theorems in Props/C16.lean.
-/
set_option linter.unusedSectionVars false
set_option linter.unusedVariables false

namespace NessaiVerif.Resample
open NessaiVerif.Np
open Classical

/-- a float log-value, `none` = `-inf` -/
abbrev LogVal := Option ℝ

/-- `np.exp` on log-values -/
noncomputable def expE : LogVal → ℝ
  | none => 0
  | some x => Real.exp x

/-- `np.log` of a draw `u ≥ 0` -/
noncomputable def logE (u : ℝ) : LogVal := if u = 0 then none else some (Real.log u)

/-- IEEE `a > b` on log-values -/
def gtE : LogVal → LogVal → Prop
  | some x, some y => y < x
  | some _, none => True
  | none, _ => False

/-- IEEE `max` of two log-values -/
noncomputable def max2E : LogVal → LogVal → LogVal
  | none, m => m
  | some x, none => some x
  | some x, some y => some (max x y)

/-- `np.max(log_w)` (identity `-inf`) -/
noncomputable def maxE : List LogVal → LogVal
  | [] => none
  | a :: as => max2E a (maxE as)

/-- the test `log_w[i] - np.max(log_w) > log_u[i]`; when the maximum is `-inf` the left side is NaN -/
def keepLog (M a lu : LogVal) : Prop :=
  match M with
  | none => False
  | some m => gtE (a.map (fun x => x - m)) lu

/-- `np.where(log_w - np.max(log_w) > log_u)[0]` with an explicit position counter -/
noncomputable def rejLogGo (M : LogVal) : Nat → List LogVal → List LogVal → List Nat
  | _, [], _ => []
  | _, _ :: _, [] => []
  | k, a :: as, l :: ls =>
    if keepLog M a l then k :: rejLogGo M (k + 1) as ls else rejLogGo M (k + 1) as ls

/-- rejection sampling exactly as written in `draw_posterior_samples`, on log-weights `lw` and draws `us` -/
noncomputable def rejLog (lw : List LogVal) (us : List ℝ) : List Nat :=
  rejLogGo (maxE lw) 0 lw (us.map logE)

/-- `logsumexp(log_w)` -/
noncomputable def lseE (lw : List LogVal) : ℝ := Real.log (lsum (lw.map expE))

/-- `log_w - c` for a finite `c` -/
def subE (lw : List LogVal) (c : ℝ) : List LogVal := lw.map (fun a => a.map (fun x => x - c))

/-- `log_w + c`: all log-weights shifted by a constant -/
def shiftE (c : ℝ) (lw : List LogVal) : List LogVal := lw.map (fun a => a.map (fun x => x + c))

/-- `np.exp(log_w - logsumexp(log_w))`: the `p=` argument of `np.random.choice` -/
noncomputable def probsLog (lw : List LogVal) : List ℝ := (subE lw (lseE lw)).map expE

/-- `effective_sample_size`: `log_w -= logsumexp(log_w); exp(-logsumexp(2 * log_w))` -/
noncomputable def essLog (lw : List LogVal) : ℝ :=
  Real.exp (-(lseE ((subE lw (lseE lw)).map (fun a => a.map (fun x => 2 * x)))))

/-! ### lemmas -/

theorem expE_nonneg (a : LogVal) : 0 ≤ expE a := by
  cases a with
  | none => simp [expE]
  | some x => exact (Real.exp_pos x).le

theorem lmax_map_expE (lw : List LogVal) : lmax (lw.map expE) = expE (maxE lw) := by
  induction lw with
  | nil => simp [maxE, expE]
  | cons a as ih =>
    rw [List.map_cons, lmax_cons, ih]
    show _ = expE (max2E a (maxE as))
    cases a with
    | none =>
      simp only [expE, max2E]
      exact max_eq_right (expE_nonneg _)
    | some x =>
      cases maxE as with
      | none => simp only [expE, max2E]; exact max_eq_left (Real.exp_pos x).le
      | some y => simp only [expE, max2E]; exact (Real.exp_monotone.map_max).symm

theorem keep_iff_keepLog (M a : LogVal) (u : ℝ) (hu : 0 ≤ u) :
    keep (expE M) (expE a) u = true ↔ keepLog M a (logE u) := by
  rw [keep_iff]
  cases M with
  | none =>
    simp only [expE, keepLog, div_zero, iff_false, not_lt]
    exact hu
  | some m =>
    cases a with
    | none =>
      simp only [expE, keepLog, zero_div, Option.map_none, gtE, iff_false, not_lt]
      exact hu
    | some x =>
      simp only [expE, keepLog, Option.map_some]
      rw [← Real.exp_sub]
      by_cases h0 : u = 0
      · subst h0
        simp only [logE, if_true, gtE, iff_true]
        exact Real.exp_pos _
      · have hpos : 0 < u := lt_of_le_of_ne hu (Ne.symm h0)
        simp only [logE, if_neg h0, gtE]
        exact (Real.log_lt_iff_lt_exp hpos).symm

theorem rejLogGo_eq (M : LogVal) (k : Nat) (lw : List LogVal) (us : List ℝ) (hu : ∀ u ∈ us, 0 ≤ u) :
    rejLogGo M k lw (us.map logE) = rejGo (expE M) k (lw.map expE) us := by
  induction lw generalizing k us with
  | nil => simp [rejLogGo, rejGo]
  | cons a as ih =>
    cases us with
    | nil => simp [rejLogGo, rejGo]
    | cons u us =>
      have h0 : 0 ≤ u := hu u (by simp)
      have ih' := ih (k + 1) us (fun v hv => hu v (by simp [hv]))
      simp only [List.map_cons, rejLogGo, rejGo]
      by_cases hk : keepLog M a (logE u)
      · rw [if_pos hk, if_pos ((keep_iff_keepLog M a u h0).mpr hk), ih']
      · have : ¬ keep (expE M) (expE a) u = true := fun h => hk ((keep_iff_keepLog M a u h0).mp h)
        rw [if_neg hk, if_neg this, ih']

theorem expE_sub_log (a : LogVal) {S : ℝ} (hS : 0 < S) :
    expE (a.map (fun x => x - Real.log S)) = expE a / S := by
  cases a with
  | none => simp [expE]
  | some x => simp only [Option.map_some, expE]; rw [Real.exp_sub, Real.exp_log hS]

theorem expE_two_mul (a : LogVal) : expE (a.map (fun x => 2 * x)) = expE a * expE a := by
  cases a with
  | none => simp [expE]
  | some x => simp only [Option.map_some, expE]; rw [← Real.exp_add]; congr 1; ring

theorem expE_add (a : LogVal) (c : ℝ) : expE (a.map (fun x => x + c)) = Real.exp c * expE a := by
  cases a with
  | none => simp [expE]
  | some x => simp only [Option.map_some, expE]; rw [Real.exp_add, mul_comm]

theorem probsLog_eq_probs (lw : List LogVal) (hS : 0 < lsum (lw.map expE)) :
    probsLog lw = probs (lw.map expE) := by
  unfold probsLog subE lseE probs
  rw [List.map_map, List.map_map]
  apply List.map_congr_left
  intro a _
  simp only [Function.comp]
  exact expE_sub_log a hS

theorem map_expE_shiftE (c : ℝ) (lw : List LogVal) :
    (shiftE c lw).map expE = (lw.map expE).map (fun x => Real.exp c * x) := by
  unfold shiftE
  rw [List.map_map, List.map_map]
  apply List.map_congr_left
  intro a _
  simp only [Function.comp]
  exact expE_add a c

theorem lsum_probs (w : List ℝ) (hS : lsum w ≠ 0) : lsum (probs w) = 1 := by
  unfold probs
  rw [lsum_map_div, div_self hS]

theorem essLog_eq_ess (lw : List LogVal) (hS : 0 < lsum (lw.map expE)) :
    essLog lw = ess (lw.map expE) := by
  have hmap : ((subE lw (lseE lw)).map (fun a => a.map (fun x => 2 * x))).map expE =
      (probs (lw.map expE)).map (fun p => p * p) := by
    rw [← probsLog_eq_probs lw hS]
    unfold probsLog
    rw [List.map_map, List.map_map]
    apply List.map_congr_left
    intro a _
    simp only [Function.comp]
    exact expE_two_mul a
  have hQ : 0 < lsum ((probs (lw.map expE)).map (fun p => p * p)) := by
    have := sumSq_pos (probs (lw.map expE)) (by rw [lsum_probs _ hS.ne']; exact one_pos)
    exact this
  unfold essLog
  have e : lseE ((subE lw (lseE lw)).map (fun a => a.map (fun x => 2 * x))) =
      Real.log (lsum ((probs (lw.map expE)).map (fun p => p * p))) := by
    show Real.log (lsum (((subE lw (lseE lw)).map (fun a => a.map (fun x => 2 * x))).map expE)) = _
    rw [hmap]
  rw [e]
  rw [Real.exp_neg, Real.exp_log hQ]
  unfold ess
  rw [one_div]

end NessaiVerif.Resample
