import NessaiVerif.Proofs.Flow
/-
C08 — the masked affine autoregressive layer (MAF / MADE) is lawful in every dimension, for arbitrary conditioner
functions of the strict prefix; triangular affine maps and the LU linear layer follow.
-/
namespace NessaiVerif.Flow
variable {L K : Type}

section AR
variable [Field K] {n : Nat}

theorem iterN_succ {α : Type} (f : α → α) (k : Nat) (a : α) : iterN f (k + 1) a = f (iterN f k a) := rfl

/-- after `k` sweeps of the inverse loop the first `k` features no longer change (for any input) -/
theorem arStep_stable (s t : Fin n → (Fin n → K) → K) (hs : PrefixDep s) (ht : PrefixDep t) (y x0 : Fin n → K) :
    ∀ k (j : Fin n), j.val < k → iterN (arStep s t y) (k + 1) x0 j = iterN (arStep s t y) k x0 j := by
  intro k
  induction k with
  | zero => intro j hj; omega
  | succ k ih =>
    intro j hj
    have hagree : ∀ l : Fin n, l.val < j.val →
        arStep s t y (iterN (arStep s t y) k x0) l = iterN (arStep s t y) k x0 l := fun l hl => ih l (by omega)
    have e1 := hs j _ _ hagree
    have e2 := ht j _ _ hagree
    show (y j - t j (arStep s t y (iterN (arStep s t y) k x0))) / s j (arStep s t y (iterN (arStep s t y) k x0))
      = (y j - t j (iterN (arStep s t y) k x0)) / s j (iterN (arStep s t y) k x0)
    rw [e1, e2]

/-- on `y = forward x`, after `k` sweeps the first `k` features equal those of `x` -/
theorem arStep_agree (s t : Fin n → (Fin n → K) → K) (hs : PrefixDep s) (ht : PrefixDep t)
    (hne : ∀ i x, s i x ≠ 0) (x x0 : Fin n → K) :
    ∀ k (j : Fin n), j.val < k →
      iterN (arStep s t (fun i => x i * s i x + t i x)) k x0 j = x j := by
  intro k
  induction k with
  | zero => intro j hj; omega
  | succ k ih =>
    intro j hj
    have hagree : ∀ l : Fin n, l.val < j.val →
        iterN (arStep s t (fun i => x i * s i x + t i x)) k x0 l = x l := fun l hl => ih l (by omega)
    rw [iterN_succ]
    simp only [arStep]
    rw [hs j _ _ hagree, ht j _ _ hagree]
    have := hne j x
    field_simp
    ring

variable [AddCommGroup L]

theorem autoregressive_lawful' (lg : K → L) (s t : Fin n → (Fin n → K) → K)
    (hs : PrefixDep s) (ht : PrefixDep t) (hne : ∀ i x, s i x ≠ 0) : Lawful (autoregressive lg s t) := by
  constructor
  · intro x
    simp only [autoregressive]
    -- the state before the last sweep already agrees with x on every strict prefix
    have hprev : ∀ (i l : Fin n), l.val < i.val →
        iterN (arStep s t (fun i => x i * s i x + t i x)) (n - 1) (fun _ => 0) l = x l :=
      fun i l hl => arStep_agree s t hs ht hne x _ (n - 1) l (by have := i.isLt; omega)
    have hsE : ∀ i, s i (iterN (arStep s t (fun i => x i * s i x + t i x)) (n - 1) (fun _ => 0)) = s i x :=
      fun i => hs i _ _ (hprev i)
    have htE : ∀ i, t i (iterN (arStep s t (fun i => x i * s i x + t i x)) (n - 1) (fun _ => 0)) = t i x :=
      fun i => ht i _ _ (hprev i)
    refine Prod.ext ?_ ?_
    · funext i
      simp only [arStep]
      rw [hsE i, htE i]
      have := hne i x
      field_simp
      ring
    · simp only []
      congr 2
      funext i
      exact hsE i
  · intro y
    simp only [autoregressive]
    -- the last sweep leaves every strict prefix unchanged
    have hstab : ∀ (i l : Fin n), l.val < i.val →
        arStep s t y (iterN (arStep s t y) (n - 1) (fun _ => 0)) l = iterN (arStep s t y) (n - 1) (fun _ => 0) l :=
      fun i l hl => arStep_stable s t hs ht y _ (n - 1) l (by have := i.isLt; omega)
    have hsE : ∀ i, s i (arStep s t y (iterN (arStep s t y) (n - 1) (fun _ => 0)))
        = s i (iterN (arStep s t y) (n - 1) (fun _ => 0)) := fun i => hs i _ _ (hstab i)
    have htE : ∀ i, t i (arStep s t y (iterN (arStep s t y) (n - 1) (fun _ => 0)))
        = t i (iterN (arStep s t y) (n - 1) (fun _ => 0)) := fun i => ht i _ _ (hstab i)
    refine Prod.ext ?_ ?_
    · funext i
      simp only []
      rw [hsE i, htE i]
      simp only [arStep]
      have := hne i (iterN (arStep s t y) (n - 1) (fun _ => 0))
      field_simp
      ring
    · simp only [neg_neg]
      congr 1
      funext i
      exact hsE i

/-! ### triangular maps and LU -/

theorem lowerRow_prefixDep (A : Fin n → Fin n → K) (b : Fin n → K) :
    PrefixDep (fun i (x : Fin n → K) => lowerRow A x i + b i) := by
  intro i x x' h
  simp only [lowerRow]
  congr 3
  funext j
  by_cases hj : j.val < i.val
  · simp [hj, h j hj]
  · simp [hj]

theorem triLower_lawful' (lg : K → L) (d : Fin n → K) (A : Fin n → Fin n → K) (b : Fin n → K)
    (hd : ∀ i, d i ≠ 0) : Lawful (triLower lg d A b) :=
  autoregressive_lawful' lg _ _ (fun _ _ _ _ => rfl) (lowerRow_prefixDep A b) (fun i _ => hd i)

theorem finRev_finRev (i : Fin n) : finRev (finRev i) = i := by
  apply Fin.ext
  simp only [finRev]
  have := i.isLt
  omega

theorem triUpper_lawful' (lg : K → L) (d : Fin n → K) (A : Fin n → Fin n → K) (b : Fin n → K)
    (hd : ∀ i, d i ≠ 0) : Lawful (triUpper lg d A b) := by
  have hp : Lawful (permutation (K := K) (L := L) (finRev (n := n)) finRev) :=
    permutation_lawful' _ _ finRev_finRev finRev_finRev
  exact comp_lawful _ _ hp (comp_lawful _ _ (triLower_lawful' lg _ _ _ (fun i => hd _)) hp)

/-- replacing the reported log-Jacobian of a lawful transform by a constant and its negative keeps it lawful -/
theorem lawful_constJ {X Z : Type} (t : Transform X Z L) (h : Lawful t) (c : L) :
    Lawful (⟨fun x => ((t.fwd x).1, c), fun z => ((t.inv z).1, -c)⟩ : Transform X Z L) := by
  constructor
  · intro x
    have := congrArg Prod.fst (h.1 x)
    simp only [] at this ⊢
    rw [this]
  · intro z
    have := congrArg Prod.fst (h.2 z)
    simp only [] at this ⊢
    rw [this, neg_neg]

theorem luLinear_lawful' (lg : K → L) (Lo : Fin n → Fin n → K) (ud : Fin n → K) (Up : Fin n → Fin n → K)
    (b : Fin n → K) (hud : ∀ i, ud i ≠ 0) : Lawful (luLinear lg Lo ud Up b) := by
  unfold luLinear
  exact lawful_constJ _ (comp_lawful _ _ (triUpper_lawful' lg ud Up _ hud)
    (triLower_lawful' lg _ Lo b (fun _ => one_ne_zero))) _

end AR
end NessaiVerif.Flow
