import NessaiVerif.Model.Reparam
import NessaiVerif.Driver.Parse
/-
Line protocol of the reparameterisation area (token `rp`), executed at `K := Rat`.

  rp util z2o|iz2o|m2o|im2o <x> <xmin> <xmax>            -> ok <value> <J>
  rp drb <pmin> <pmax> <xmin> <xmax> <invert> <inversion 0/1> <offset> <r0> <r1>
                                                         -> ok <lo> <hi> | err=value
  rp run <reverse 0/1> <groups> <x>                      -> ok xp=[..] jf=<J> xb=[..] ji=<J> info=[..] | err=<enum>
      groups = [[spec,..],..]   one inner list per reparameterisation object (its parameter loop)
      x      = [v0,v1,..]       the point; parameter i reads x[i] and writes x_prime[i]
      spec   = [null,i]
             | [ss,i,scale|none,shift|none,estScale,estShift,data|none,witness|none]
             | [rtb,i,p0,p1,rb|none,inv,objInv,detect,offset,update,pre|none,post|none,postNamedLog,prior,data|none,test,neg]
        rb/pre/post = [a,b]; inv = none|split|duplicate; test = unset|off|lower|upper|both|other;
        data = [..] (points handed to update() before the call); neg = sign bit of this point.
      info: per spec  null | ss:<scale>:<shift> | rtb:<b0>:<b1>:<offset>:<factor>:<shift>:<pb>
            with pb = none | err | <lo>:<hi>  (prime prior bounds after the forward call)
      xb is the result of the inverse applied to a zero-initialised x and the forward x_prime.
-/
namespace NessaiVerif.Driver.Reparam
open NessaiVerif NessaiVerif.Parse NessaiVerif.Reparam

abbrev Vec := Nat → Rat
abbrev R := Reparam.Reparam Vec Vec Rat

def showErr : Err → String
  | .runtime => "err=runtime"
  | .attr => "err=attr"
  | .value => "err=value"

def parseEdge? (s : String) : Option Edge :=
  match s with
  | "unset" => some .unset | "off" => some .off | "lower" => some .lower
  | "upper" => some .upper | "both" => some .both | "other" => some .other
  | _ => none

def parseInv? (s : String) : Option (Option InvType) :=
  match s with
  | "none" => some none | "split" => some (some .split) | "duplicate" => some (some .duplicate)
  | _ => none

def parsePair? (s : String) : Option (Rat × Rat) :=
  match parseList? parseRat? s with
  | some [a, b] => some (a, b)
  | _ => none

def parseHook? (s : String) : Option (Option (Hook Rat)) :=
  if s == "none" then some none else
  match parsePair? s with
  | some (a, b) => some (some (Hook.affine a b))
  | none => none

structure Built where
  rep : R
  info : String

def showOR : Option Rat → String
  | some r => showRat r
  | none => "none"

def buildSpec (toks : List String) : Option (Except Err Built) :=
  match toks with
  | ["null", i] => do
    let i ← parseNat? i
    pure (.ok ⟨nullReparam i, "null"⟩)
  | ["ss", i, scale, shift, es, esh, data, wit] => do
    let i ← parseNat? i
    let scale ← parseOpt? parseRat? scale
    let shift ← parseOpt? parseRat? shift
    let es ← parseBool? es
    let esh ← parseBool? esh
    let data ← parseOpt? (parseList? parseRat?) data
    let wit ← parseOpt? parseRat? wit
    match ssInit scale shift es esh with
    | .error e => pure (.error e)
    | .ok r0 =>
      let r? : Option (SS Rat) := match data with
        | some d => ssUpdate r0 d (wit.getD 0)
        | none => some r0
      match r? with
      | none => pure (.error .value)
      | some r =>
        match ssFwd r 0, ssInv r 0 with
        | .ok _, .ok _ =>
          let f : Rat → Rat × Rat := fun x => match ssFwd r x with | .ok v => v | .error _ => (0, 0)
          let g : Rat → Rat × Rat := fun x => match ssInv r x with | .ok v => v | .error _ => (0, 0)
          pure (.ok ⟨ofScalar i i f g, s!"ss:{showOR r.scale}:{showOR r.shift}"⟩)
        | .error e, _ => pure (.error e)
        | _, .error e => pure (.error e)
  | ["rtb", i, p0, p1, rb, inv, oinv, det, off, upd, pre, post, plog, prior, data, test, neg] => do
    let i ← parseNat? i
    let p0 ← parseRat? p0
    let p1 ← parseRat? p1
    let rb ← parseOpt? parsePair? rb
    let inv ← parseInv? inv
    let oinv ← parseBool? oinv
    let det ← parseBool? det
    let off ← parseBool? off
    let upd ← parseBool? upd
    let pre ← parseHook? pre
    let post ← parseHook? post
    let plog ← parseBool? plog
    let prior ← parseBool? prior
    let data ← parseOpt? (parseList? parseRat?) data
    let test ← parseEdge? test
    let neg ← parseBool? neg
    match rtbInit p0 p1 rb inv oinv det off upd pre post plog prior with
    | .error e => pure (.error e)
    | .ok r0 =>
      let r1 := match data with
        | some d => rtbUpdate r0 d
        | none => r0
      -- update_prime_prior_bounds runs inside update(): a ValueError there aborts the call
      -- (set_bounds at construction does the same)
      match rtbPrimeBounds r0, rtbPrimeBounds r1 with
      | some none, _ => pure (.error .value)
      | _, some none => pure (.error .value)
      | _, _ =>
        let r := rtbDetect r1 test
        let pb := match rtbPrimeBounds r with
          | none => "none"
          | some none => "err"
          | some (some (lo, hi)) => s!"{showRat lo}:{showRat hi}"
        pure (.ok ⟨ofScalar i i (rtbFwd r neg) (rtbInv r),
          s!"rtb:{showRat r.b0}:{showRat r.b1}:{showRat r.offset}:{showRat r.factor}:{showRat r.shift}:{pb}"⟩)
  | _ => none

def buildGroup (s : String) : Option (Except Err (R × List String)) := do
  let specs ← listBody? s
  let built ← specs.mapM fun sp => do
    let toks ← listBody? sp
    buildSpec toks
  let rec collect : List (Except Err Built) → Except Err (List Built)
    | [] => .ok []
    | .error e :: _ => .error e
    | .ok b :: rest => match collect rest with
      | .ok bs => .ok (b :: bs)
      | .error e => .error e
  match collect built with
  | .error e => pure (.error e)
  | .ok bs => pure (.ok (seq (bs.map (·.rep)), bs.map (·.info)))

def vecOf (xs : List Rat) : Vec := fun i => xs.getD i 0

def handle (toks : List String) : String :=
  match toks with
  | ["util", which, x, a, b] =>
    match parseRat? x, parseRat? a, parseRat? b with
    | some x, some a, some b =>
      let r : Option (Rat × Rat) := match which with
        | "z2o" => some (rescaleZeroToOne x a b)
        | "iz2o" => some (inverseRescaleZeroToOne x a b)
        | "m2o" => some (rescaleMinusOneToOne x a b)
        | "im2o" => some (inverseRescaleMinusOneToOne x a b)
        | _ => none
      match r with
      | some (v, j) => s!"ok {showRat v} {showRat j}"
      | none => "bad-op"
    | _, _, _ => "bad-op"
  | ["drb", pmin, pmax, xmin, xmax, invert, inversion, offset, r0, r1] =>
    match parseRat? pmin, parseRat? pmax, parseRat? xmin, parseRat? xmax, parseEdge? invert,
          parseBool? inversion, parseRat? offset, parseRat? r0, parseRat? r1 with
    | some pmin, some pmax, some xmin, some xmax, some invert, some inversion, some offset, some r0, some r1 =>
      match determineRescaledBounds pmin pmax xmin xmax invert inversion offset r0 r1 with
      | some (lo, hi) => s!"ok {showRat lo} {showRat hi}"
      | none => "err=value"
    | _, _, _, _, _, _, _, _, _ => "bad-op"
  | ["run", rev, groups, x] =>
    match parseBool? rev, listBody? groups, parseList? parseRat? x with
    | some rev, some gs, some xs =>
      match gs.mapM buildGroup with
      | none => "bad-op"
      | some built =>
        let rec collect : List (Except Err (R × List String)) → Except Err (List (R × List String))
          | [] => .ok []
          | .error e :: _ => .error e
          | .ok b :: rest => match collect rest with
            | .ok bs => .ok (b :: bs)
            | .error e => .error e
        match collect built with
        | .error e => showErr e
        | .ok bs =>
          let c : R := combined (bs.map (·.1)) rev
          let n := xs.length
          let x := vecOf xs
          let s := c.fwd (x, vecOf [], 1)
          let t := c.inv (vecOf [], s.2.1, 1)
          let idx := List.range n
          let info := (bs.map (·.2)).flatten
          s!"ok xp={showList showRat (idx.map s.2.1)} jf={showRat s.2.2} " ++
          s!"xb={showList showRat (idx.map t.1)} ji={showRat t.2.2} info=[{";".intercalate info}]"
    | _, _, _ => "bad-op"
  | _ => "bad-op"

end NessaiVerif.Driver.Reparam
