import NessaiVerif.Model.LivePoint
/-
Helper lemmas for C18 (live-point conversions): transposition, column extraction,
name lookup and the registry fold.  Core Lean only.
-/
namespace NessaiVerif.LivePoint

variable {V : Type}

/-! ### transpose / getCol -/

theorem transpose_zero (rows : List (List V)) : transpose 0 rows = [] := by
  induction rows with
  | nil => rfl
  | cons row rest ih => simp [transpose, ih]

theorem length_transpose (k : Nat) (rows : List (List V)) (h : ∀ row ∈ rows, row.length = k) :
    (transpose k rows).length = k := by
  induction rows with
  | nil => simp [transpose]
  | cons row rest ih =>
    have h1 : row.length = k := h row (by simp)
    have h2 := ih (fun r hr => h r (by simp [hr]))
    simp [transpose, h1, h2]

theorem transpose_zipWith_cons (n : Nat) (row : List V) (cols : List (List V))
    (h : row.length = cols.length) :
    transpose (n + 1) (List.zipWith (· :: ·) row cols) = row :: transpose n cols := by
  induction row generalizing cols with
  | nil =>
    cases cols with
    | nil => simp [transpose, List.replicate_succ]
    | cons c cs => simp at h
  | cons a row ih =>
    cases cols with
    | nil => simp at h
    | cons c cs =>
      have := ih cs (by simpa using h)
      simp [transpose, this]

/-- transposing twice gives the records back (any number of records, incl. 0) -/
theorem transpose_transpose (k : Nat) (rows : List (List V)) (h : ∀ row ∈ rows, row.length = k) :
    transpose rows.length (transpose k rows) = rows := by
  induction rows with
  | nil => simp [transpose_zero]
  | cons row rest ih =>
    have h1 : row.length = k := h row (by simp)
    have hr : ∀ r ∈ rest, r.length = k := fun r hr => h r (by simp [hr])
    have h2 := length_transpose k rest hr
    show transpose (rest.length + 1) (List.zipWith (· :: ·) row (transpose k rest)) = row :: rest
    rw [transpose_zipWith_cons _ _ _ (by omega), ih hr]

theorem getCol_nil (j : Nat) : getCol j ([] : List (List V)) = [] := rfl

theorem getCol_cons (j : Nat) (row : List V) (rest : List (List V)) (x : V) (h : row[j]? = some x) :
    getCol j (row :: rest) = x :: getCol j rest := by
  simp [getCol, h]

theorem length_getCol (j : Nat) (rows : List (List V)) (h : ∀ row ∈ rows, j < row.length) :
    (getCol j rows).length = rows.length := by
  induction rows with
  | nil => rfl
  | cons row rest ih =>
    have hj : j < row.length := h row (by simp)
    rw [getCol_cons j row rest row[j] (by simp [hj])]
    simp [ih (fun r hr => h r (by simp [hr]))]

/-- the columns of rectangular records are their transpose -/
theorem transpose_eq_cols (k : Nat) (rows : List (List V)) (h : ∀ row ∈ rows, row.length = k) :
    transpose k rows = (List.range k).map (fun j => getCol j rows) := by
  induction rows with
  | nil =>
    apply List.ext_getElem <;> simp [transpose, getCol]
  | cons row rest ih =>
    have h1 : row.length = k := h row (by simp)
    have hr : ∀ r ∈ rest, r.length = k := fun r hr => h r (by simp [hr])
    rw [transpose, ih hr]
    apply List.ext_getElem
    · simp [h1]
    · intro j hj1 hj2
      have hjk : j < k := by simpa using hj2
      have : row[j]? = some row[j] := by simp [h1, hjk]
      simp [getCol_cons j row rest row[j] this]

theorem getCol_map_append (j : Nat) (rows : List (List V)) (t : List V)
    (h : ∀ row ∈ rows, j < row.length) : getCol j (rows.map (· ++ t)) = getCol j rows := by
  induction rows with
  | nil => rfl
  | cons row rest ih =>
    have hj : j < row.length := h row (by simp)
    have ih' := ih (fun r hr => h r (by simp [hr]))
    simp only [List.map_cons]
    rw [getCol_cons j (row ++ t) _ row[j] (by simp [List.getElem?_append_left hj]),
      getCol_cons j row rest row[j] (by simp [hj]), ih']

theorem getCol_map_append_right (j : Nat) (rows : List (List V)) (t : List V) (k : Nat) (x : V)
    (h : ∀ row ∈ rows, row.length = k) (hx : t[j]? = some x) :
    getCol (k + j) (rows.map (· ++ t)) = List.replicate rows.length x := by
  induction rows with
  | nil => rfl
  | cons row rest ih =>
    have hk : row.length = k := h row (by simp)
    have ih' := ih (fun r hr => h r (by simp [hr]))
    simp only [List.map_cons]
    rw [getCol_cons (k + j) (row ++ t) _ x (by rw [List.getElem?_append_right (by omega)]; simpa [hk] using hx), ih']
    simp [List.replicate_succ]

/-- column `j` of the records built from columns is column `j` -/
theorem getCol_transpose_cols (k : Nat) (rows : List (List V)) (h : ∀ row ∈ rows, row.length = k)
    (j : Nat) (hj : j < k) : (transpose k rows)[j]? = some (getCol j rows) := by
  rw [transpose_eq_cols k rows h]; simp [hj]

/-! ### names -/

theorem eraseDups_of_nodup (l : List String) (h : l.Nodup) : l.eraseDups = l := by
  induction l with
  | nil => simp
  | cons a l ih =>
    rw [List.nodup_cons] at h
    rw [List.eraseDups_cons]
    have : l.filter (fun b => !b == a) = l := by
      rw [List.filter_eq_self]
      intro b hb
      have : b ≠ a := fun e => h.1 (e ▸ hb)
      simp [this]
    rw [this, ih h.2]

theorem idxOf_getElem_of_nodup (l : List String) (h : l.Nodup) (j : Nat) (hj : j < l.length) :
    l.idxOf l[j] = j := by
  induction l generalizing j with
  | nil => simp at hj
  | cons a l ih =>
    rw [List.nodup_cons] at h
    cases j with
    | zero => simp
    | succ j =>
      have hj' : j < l.length := by simpa using hj
      have hne : a ≠ l[j] := fun e => h.1 (e ▸ List.getElem_mem hj')
      have hb : (a == l[j]) = false := by simpa using hne
      simp [List.idxOf_cons, hb, ih h.2 j hj']

theorem idxOf_append_right_getElem (l1 l2 : List String) (h : (l1 ++ l2).Nodup) (j : Nat)
    (hj : j < l2.length) : (l1 ++ l2).idxOf l2[j] = l1.length + j := by
  rw [List.nodup_append] at h
  have hnot : l2[j] ∉ l1 := fun hm => h.2.2 _ hm _ (List.getElem_mem hj) rfl
  rw [List.idxOf_append, if_neg hnot, idxOf_getElem_of_nodup l2 h.2.1 j hj]
  omega

theorem length_tail (cfg : Cfg V) (r : Registry V) (nsp : Bool) :
    (tail cfg r nsp).length = (nsNames r nsp).length := by
  cases nsp <;> simp [tail, nsNames, nonSamplingDefaults, nonSamplingNames, coreNames,
    Registry.names, Registry.defaults]

theorem filterMap_congr' {α β : Type} (l : List α) (f g : α → Option β) (h : ∀ x ∈ l, f x = g x) :
    l.filterMap f = l.filterMap g := by
  induction l with
  | nil => rfl
  | cons a l ih =>
    have := ih (fun x hx => h x (by simp [hx]))
    simp [List.filterMap_cons, h a (by simp), this]

/-- selecting the parameter fields by name from a record gives the parameter values -/
theorem filterMap_idxOf_prefix (names rest : List String) (d t : List V)
    (hn : (names ++ rest).Nodup) (hd : d.length = names.length) :
    names.filterMap (fun f => (d ++ t)[(names ++ rest).idxOf f]?) = d := by
  induction names generalizing d with
  | nil => cases d with
    | nil => rfl
    | cons _ _ => simp at hd
  | cons a ns ih =>
    cases d with
    | nil => simp at hd
    | cons x d =>
      have hn' : (a :: (ns ++ rest)).Nodup := by simpa using hn
      rw [List.nodup_cons] at hn'
      have key : ∀ f ∈ ns, ((x :: d) ++ t)[((a :: ns) ++ rest).idxOf f]? = (d ++ t)[(ns ++ rest).idxOf f]? := by
        intro f hf
        have hne : a ≠ f := fun e => hn'.1 (e ▸ List.mem_append_left _ hf)
        have hb : (a == f) = false := by simpa using hne
        simp [List.idxOf_cons, hb]
      rw [List.filterMap_cons]
      have h0 : ((x :: d) ++ t)[((a :: ns) ++ rest).idxOf a]? = some x := by simp
      rw [h0]
      simp only
      rw [filterMap_congr' _ _ _ key, ih d hn'.2 (by simpa using hd)]

theorem scanNames_none (fields : List String) (nm seen : List String)
    (hsub : ∀ f ∈ nm, f ∈ fields) (hnd : nm.Nodup) (hseen : ∀ f ∈ nm, f ∉ seen) :
    scanNames fields seen nm = none := by
  induction nm generalizing seen with
  | nil => rfl
  | cons a nm ih =>
    rw [List.nodup_cons] at hnd
    have h1 : fields.contains a = true := by simpa using hsub a (by simp)
    have h2 : seen.contains a = false := by
      have := hseen a (by simp)
      simpa using this
    simp only [scanNames, h1, h2]
    simp only [Bool.not_true, Bool.false_eq_true, if_false]
    apply ih
    · exact fun f hf => hsub f (by simp [hf])
    · exact hnd.2
    · intro f hf
      have := hseen f (by simp [hf])
      have hne : f ≠ a := fun e => hnd.1 (e ▸ hf)
      simp [this, hne]

/-! ### well-formedness, freshness of names -/

/-- the parameter names are distinct and none of them is a (registered) non-sampling field -/
def Fresh (r : Registry V) (names : List String) (nsp : Bool) : Prop :=
  (names ++ nsNames r nsp).Nodup

/-- every record has one value per field, field names are distinct -/
structure LP.WF (lp : LP V) : Prop where
  nodup : lp.fields.Nodup
  nf_le : lp.nf ≤ lp.fields.length
  rect : ∀ row ∈ lp.rows, row.length = lp.fields.length

theorem Fresh.names_nodup {r : Registry V} {names : List String} {nsp : Bool} (h : Fresh r names nsp) :
    names.Nodup := (List.nodup_append.mp h).1

theorem getDtype_ok (cfg : Cfg V) (r : Registry V) (names : List String) (nsp : Bool)
    (h : Fresh r names nsp) :
    getDtype cfg r names nsp = .ok ⟨names ++ nsNames r nsp, nfOf cfg names nsp⟩ := by
  unfold Fresh at h
  simp [getDtype, h]

theorem getDtype_err (cfg : Cfg V) (r : Registry V) (names : List String) (nsp : Bool)
    (h : ¬ Fresh r names nsp) : getDtype cfg r names nsp = .error .valueErr := by
  unfold Fresh at h
  simp [getDtype, h]

theorem nfOf_le (cfg : Cfg V) (r : Registry V) (names : List String) (nsp : Bool) :
    names.length ≤ nfOf cfg names nsp ∧ nfOf cfg names nsp ≤ (names ++ nsNames r nsp).length := by
  cases nsp <;> simp [nfOf, nsNames, nonSamplingNames, coreNames]
  cases cfg.loglFloat <;> simp <;> omega

theorem canon_wf (cfg : Cfg V) (r : Registry V) (names : List String) (nsp : Bool)
    (data : List (List V)) (h : Fresh r names nsp) (hd : ∀ row ∈ data, row.length = names.length) :
    (canon cfg r names nsp data).WF := by
  refine ⟨h, (nfOf_le cfg r names nsp).2, ?_⟩
  intro row hrow
  simp only [canon, List.mem_map] at hrow
  obtain ⟨d, hd', rfl⟩ := hrow
  simp [canon, hd d hd', length_tail]

theorem emptyStructured_ok (cfg : Cfg V) (r : Registry V) (n : Nat) (names : List String) (nsp : Bool)
    (h : Fresh r names nsp) (hn : n = 0 ∨ names ≠ []) :
    emptyStructured cfg r n names nsp
      = .ok (canon cfg r names nsp (List.replicate n (names.map fun _ => cfg.nan))) := by
  rw [emptyStructured, getDtype_ok cfg r names nsp h]
  by_cases h0 : n = 0
  · simp [h0, canon]
  · have hne : names ≠ [] := by
      cases hn with
      | inl h => exact absurd h h0
      | inr h => exact h
    have : names.isEmpty = false := by
      cases names with
      | nil => exact absurd rfl hne
      | cons _ _ => rfl
    simp [h0, this, canon]

/-! ### reading the canonical array back -/

theorem canon_toArray (cfg : Cfg V) (r : Registry V) (names : List String) (nsp : Bool)
    (data : List (List V)) (h : Fresh r names nsp) (hne : names ≠ [])
    (hd : ∀ row ∈ data, row.length = names.length) :
    livePointsToArray (canon cfg r names nsp data) (some names) = .ok (names.length, data) := by
  have hscan : scanNames (names ++ nsNames r nsp) [] names = none :=
    scanNames_none _ _ _ (fun f hf => List.mem_append_left _ hf) h.names_nodup (by simp)
  have hrows : (data.map (· ++ tail cfg r nsp)).map
      (fun row => names.filterMap fun f => row[(names ++ nsNames r nsp).idxOf f]?) = data := by
    rw [List.map_map]
    conv => rhs; rw [← List.map_id data]
    apply List.map_congr_left
    intro d hd'
    exact filterMap_idxOf_prefix names _ d _ h (hd d hd')
  cases names with
  | nil => exact absurd rfl hne
  | cons a l =>
    simp only [livePointsToArray, canon] at hscan hrows ⊢
    rw [hscan]
    simp only
    rw [hrows]

theorem canon_toDict (cfg : Cfg V) (r : Registry V) (names : List String) (nsp : Bool)
    (data : List (List V)) (h : Fresh r names nsp)
    (hd : ∀ row ∈ data, row.length = names.length) :
    livePointsToDict (canon cfg r names nsp data) (some names)
      = .ok (names.zip (transpose names.length data)) := by
  have hall : names.all (names ++ nsNames r nsp).contains = true := by
    rw [List.all_eq_true]; intro f hf; simp [hf]
  simp only [livePointsToDict, canon, hall, if_true, eraseDups_of_nodup names h.names_nodup]
  congr 1
  have hlen := length_transpose names.length data hd
  apply List.ext_getElem
  · simp [hlen]
  · intro j h1 h2
    have hj : j < names.length := by simpa using h1
    have hidx : (names ++ nsNames r nsp).idxOf names[j] = j := by
      have := idxOf_getElem_of_nodup (names ++ nsNames r nsp) h j (by simp; omega)
      rwa [List.getElem_append_left hj] at this
    have hcol := getCol_transpose_cols names.length data hd j hj
    rw [List.getElem?_eq_some_iff] at hcol
    obtain ⟨_, hcol⟩ := hcol
    simp only [List.getElem_map, List.getElem_zip, hidx, hcol]
    rw [getCol_map_append j data _ (fun row hr => by rw [hd row hr]; exact hj)]

/-- reading the non-sampling fields of the canonical array gives the defaults, one per record -/
theorem canon_defaults (cfg : Cfg V) (r : Registry V) (names : List String)
    (data : List (List V)) (h : Fresh r names true)
    (hd : ∀ row ∈ data, row.length = names.length) :
    livePointsToDict (canon cfg r names true data) (some (nonSamplingNames r))
      = .ok ((nonSamplingNames r).zip ((nonSamplingDefaults cfg r).map (List.replicate data.length ·))) := by
  have hns : nsNames r true = nonSamplingNames r := rfl
  have htl : tail cfg r true = nonSamplingDefaults cfg r := rfl
  have hlt : (nonSamplingDefaults cfg r).length = (nonSamplingNames r).length := by
    have := length_tail cfg r true; rwa [hns, htl] at this
  have hnd : (nonSamplingNames r).Nodup := by
    have := (List.nodup_append.mp h).2.1; rwa [hns] at this
  have hall : (nonSamplingNames r).all (names ++ nonSamplingNames r).contains = true := by
    rw [List.all_eq_true]; intro f hf; simp [hf]
  simp only [livePointsToDict, canon, hns, htl, hall, if_true, eraseDups_of_nodup _ hnd]
  congr 1
  apply List.ext_getElem
  · simp [hlt]
  · intro j h1 h2
    have hj : j < (nonSamplingNames r).length := by simpa using h1
    have hidx : (names ++ nonSamplingNames r).idxOf (nonSamplingNames r)[j] = names.length + j :=
      idxOf_append_right_getElem names (nonSamplingNames r) (by rw [← hns]; exact h) j hj
    have hx : (nonSamplingDefaults cfg r)[j]? = some (nonSamplingDefaults cfg r)[j] := by
      simp [hlt, hj]
    simp only [List.getElem_map, List.getElem_zip, hidx]
    rw [getCol_map_append_right j data _ names.length _ hd hx]

/-! ### the unstructured view -/

theorem viewWidth_prefix (lp : LP V) (hw : lp.WF) (k : Nat) (hk : k ≤ lp.nf) :
    viewWidth lp (lp.fields.take k) = .ok k := by
  have hklen : k ≤ lp.fields.length := Nat.le_trans hk hw.nf_le
  have hall : (lp.fields.take k).all lp.fields.contains = true := by
    rw [List.all_eq_true]; intro f hf; simpa using List.mem_of_mem_take hf
  have hnd : (lp.fields.take k).Nodup := List.Nodup.sublist (List.take_sublist k _) hw.nodup
  have hlen : (lp.fields.take k).length = k := by simp [hklen]
  have hall2 : (lp.fields.take k).all (lp.fields.take k).contains = true := by
    rw [List.all_eq_true]; intro f hf; simpa using hf
  simp only [viewWidth, hall, eraseDups_of_nodup _ hnd, hlen, hall2]
  simp [hk]

theorem map_modify {α β : Type} (f : α → β) (g : α → α) (g' : β → β) (h : ∀ a, f (g a) = g' (f a))
    (l : List α) (i : Nat) : (l.modify i g).map f = (l.map f).modify i g' := by
  apply List.ext_getElem?
  intro j
  simp only [List.getElem?_map, List.getElem?_modify]
  cases l[j]? with
  | none => rfl
  | some a => by_cases hij : i = j <;> simp [hij, h]

theorem idxOf_inj_of_mem (l : List String) (a b : String) (ha : a ∈ l) (hb : b ∈ l)
    (h : l.idxOf a = l.idxOf b) : a = b := by
  have h1 : l.idxOf a < l.length := List.idxOf_lt_length_iff.mpr ha
  have h2 : l.idxOf b < l.length := List.idxOf_lt_length_iff.mpr hb
  have e1 := List.getElem_idxOf h1
  have e2 := List.getElem_idxOf h2
  rw [← e1, ← e2]
  simp [h]

/-! ### the registry fold -/

/-- first registration wins: keep the first pair of every name -/
def firstOcc : List (String × V) → List (String × V)
  | [] => []
  | p :: rest => p :: (firstOcc rest).filter (fun q => q.1 != p.1)

def RegOp.isReset : RegOp V → Bool
  | .reset => true
  | .add _ _ => false

/-- the (name, default) pairs an operation offers to the registry (zip truncates) -/
def RegOp.pairs (cfg : Cfg V) : RegOp V → List (String × V)
  | .reset => []
  | .add ps none => ps.zip (List.replicate ps.length cfg.nan)
  | .add ps (some d) => ps.zip d

theorem foldl_addOne (r : Registry V) (l : List (String × V)) :
    (l.foldl addOne r).extras = r.extras ++ (firstOcc l).filter (fun q => !r.names.contains q.1) := by
  induction l generalizing r with
  | nil => simp [firstOcc]
  | cons p rest ih =>
    rw [List.foldl_cons, ih]
    by_cases hp : r.names.contains p.1 = true
    · simp only [addOne, hp, if_true, firstOcc, List.filter_cons, Bool.not_true]
      simp only [Bool.false_eq_true, if_false, List.filter_filter]
      congr 1
      apply List.filter_congr
      intro q _
      have hpm : p.1 ∈ r.names := by simpa using hp
      by_cases hq : q.1 ∈ r.names
      · simp [hq]
      · have hne : q.1 ≠ p.1 := fun e => hq (e ▸ hpm)
        simp [hq, hne]
    · have hp' : r.names.contains p.1 = false := by simpa using hp
      simp only [addOne, hp', Bool.false_eq_true, if_false, firstOcc, List.filter_cons, Bool.not_false,
        if_true, List.filter_filter, List.append_assoc, List.singleton_append]
      congr 2
      apply List.filter_congr
      intro q _
      by_cases h1 : q.1 = p.1 <;> by_cases h2 : q.1 ∈ List.map Prod.fst r.extras <;>
        simp [Registry.names, h1, h2]

theorem applyOp_eq_foldl (cfg : Cfg V) (r : Registry V) (op : RegOp V) (h : op.isReset = false) :
    applyOp cfg r op = (op.pairs cfg).foldl addOne r := by
  cases op with
  | reset => simp [RegOp.isReset] at h
  | add ps dvs => cases dvs <;> rfl

theorem applyOps_noreset (cfg : Cfg V) (r : Registry V) (ops : List (RegOp V))
    (h : ∀ op ∈ ops, op.isReset = false) :
    applyOps cfg r ops = (ops.flatMap (RegOp.pairs cfg)).foldl addOne r := by
  induction ops generalizing r with
  | nil => rfl
  | cons op rest ih =>
    simp only [applyOps, List.foldl_cons, List.flatMap_cons, List.foldl_append]
    rw [applyOp_eq_foldl cfg r op (h op (by simp))]
    exact ih _ (fun o ho => h o (by simp [ho]))

theorem firstOcc_keys_nodup (l : List (String × V)) : ((firstOcc l).map Prod.fst).Nodup := by
  induction l with
  | nil => simp [firstOcc]
  | cons p rest ih =>
    simp only [firstOcc, List.map_cons, List.nodup_cons]
    constructor
    · intro hmem
      rw [List.mem_map] at hmem
      obtain ⟨q, hq, hqe⟩ := hmem
      rw [List.mem_filter] at hq
      simp [hqe] at hq
    · exact List.Nodup.sublist (List.Sublist.map _ List.filter_sublist) ih

theorem getElem?_filterMap_all_some {α β : Type} (l : List α) (g : α → Option β)
    (h : ∀ a ∈ l, (g a).isSome = true) (j : Nat) : (l.filterMap g)[j]? = l[j]?.bind g := by
  induction l generalizing j with
  | nil => simp
  | cons a l ih =>
    have ha := h a (by simp)
    obtain ⟨b, hb⟩ := Option.isSome_iff_exists.mp ha
    have ih' := ih (fun x hx => h x (by simp [hx]))
    rw [List.filterMap_cons, hb]
    cases j with
    | zero => simp [hb]
    | succ j => simp [ih']

/-! ### dictionaries -/

theorem allSome_scalars (names : List String) (vals : List V) (h : vals.length = names.length) :
    allSome ((names.zip (vals.map DVal.scalar)).map fun kv => kv.2.scalar?) = some vals := by
  induction names generalizing vals with
  | nil => cases vals with
    | nil => rfl
    | cons _ _ => simp at h
  | cons a ns ih =>
    cases vals with
    | nil => simp at h
    | cons v vs =>
      have := ih vs (by simpa using h)
      show allSome (some v :: (ns.zip (vs.map DVal.scalar)).map (fun kv => kv.2.scalar?)) = some (v :: vs)
      simp only [allSome, this, Option.map_some]

theorem allSome_columns (names : List String) (cols : List (List V)) (n : Nat)
    (h : cols.length = names.length) (hc : ∀ c ∈ cols, c.length = n) :
    allSome ((names.zip (cols.map DVal.arr)).map fun kv => kv.2.column n) = some cols := by
  induction names generalizing cols with
  | nil => cases cols with
    | nil => rfl
    | cons _ _ => simp at h
  | cons a ns ih =>
    cases cols with
    | nil => simp at h
    | cons c cs =>
      have := ih cs (by simpa using h) (fun c' hc' => hc c' (by simp [hc']))
      have hcn : c.length = n := hc c (by simp)
      have hcol : (DVal.arr c).column n = some c := by simp [DVal.column, hcn]
      show allSome ((DVal.arr c).column n :: (ns.zip (cs.map DVal.arr)).map (fun kv => kv.2.column n))
        = some (c :: cs)
      rw [hcol]
      simp only [allSome, this, Option.map_some]

theorem keys_zip {β : Type} (names : List String) (vs : List β) (h : vs.length = names.length) :
    (names.zip vs).map Prod.fst = names := by
  induction names generalizing vs with
  | nil => simp
  | cons a ns ih =>
    cases vs with
    | nil => simp at h
    | cons v vs => simp [ih vs (by simpa using h)]

theorem rows_of_transpose (n : Nat) (cols : List (List V)) (hn : ∀ c ∈ cols, c.length = n) :
    ∀ row ∈ transpose n cols, row.length = cols.length := by
  intro row hrow
  rw [transpose_eq_cols n cols hn, List.mem_map] at hrow
  obtain ⟨i, hi, rfl⟩ := hrow
  have hi' : i < n := by simpa using hi
  exact length_getCol i cols (fun c hc => by rw [hn c hc]; exact hi')

end NessaiVerif.LivePoint
