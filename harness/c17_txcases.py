"""Fixed input of the py2lean translator self-test of check C17 (not nessai code).

`tx_self_test` exercises, in one function, every construct the translator claims to support that the
two nessai slices of C17 do not use: `elif` chains, nested `if` with variables first assigned inside
both branches, chained comparisons, `is None` / `is not None`, `not`, `or`, `//` and `%` by literals
(also negative), `max`/`min` with three arguments, conditional expressions, annotated and augmented
assignments, boolean-valued `and`, `==` between booleans, several early returns.  The check translates
it to `Gen/ThresholdTx.lean`, compiles it into the model driver and compares it with this very Python
function on generated inputs: that validates the translator itself.
"""


def tx_self_test(a, b, c, flag):
    """a, b: int; c: Optional[int]; flag: bool"""
    r = a
    if c is None:
        r = r - 1
    elif c and a < c <= b:
        r = r + c
    else:
        r += 2
    if not flag and (a % 3 == 1 or b // -4 > 2):
        return a * b - 7
    s = max(a, b, 3) - min(r, 0)
    if flag:
        if a != b:
            s = s * 2
            t = 1
        else:
            t = -1
    elif b >= 0:
        t = 0
    else:
        return -b
    k: int = (s if t > 0 else r) % 5
    ok = flag and a > 0
    if ok == (b > 0):
        k -= 10
    if c is not None:
        k = k + c // 2
    if c:
        pass
    else:
        k = k * 3
    return ("end", k)
