import NessaiVerif.Model.Results
import Mathlib.Order.Basic
import Mathlib.Order.Defs.LinearOrder
/-
C05 — lemmas about the standard sampler's bookkeeping model (Model/Results.lean, part 1).
-/
namespace NessaiVerif.Results
open NessaiVerif.Np

variable {K : Type} [LinearOrder K]

deriving instance DecidableEq for Except

/-- ascending by log-likelihood -/
def SortedL (l : List (Pt K)) : Prop := l.Pairwise (fun a b => a.logL ≤ b.logL)

/-- the birth likelihood `logLs[p.it]` exists and lies strictly below the point's likelihood -/
def BirthLt (logLs : List (Option K)) (p : Pt K) : Prop :=
  ∃ b, logLs[p.it]? = some b ∧ ltExt b p.logL

/-! #### sorting -/

theorem mem_insSorted (x : K) (l : List K) (y : K) : y ∈ insSorted x l ↔ y = x ∨ y ∈ l := by
  induction l with
  | nil => simp [insSorted]
  | cons a as ih =>
    simp only [insSorted]
    split
    · simp only [List.mem_cons, ih]; exact or_left_comm
    · exact List.mem_cons

theorem length_insSorted (x : K) (l : List K) : (insSorted x l).length = l.length + 1 := by
  induction l with
  | nil => rfl
  | cons a as ih =>
    simp only [insSorted]
    split <;> simp [ih]

theorem sorted_insSorted (x : K) (l : List K) (h : l.Pairwise (· ≤ ·)) : (insSorted x l).Pairwise (· ≤ ·) := by
  induction l with
  | nil => simp [insSorted]
  | cons a as ih =>
    simp only [insSorted]
    rw [List.pairwise_cons] at h
    split
    · rename_i hlt
      rw [List.pairwise_cons]
      refine ⟨?_, ih h.2⟩
      intro y hy
      rcases (mem_insSorted x as y).mp hy with rfl | hy
      · exact le_of_lt hlt
      · exact h.1 y hy
    · rename_i hnlt
      have hxa : x ≤ a := not_lt.mp hnlt
      rw [List.pairwise_cons]
      refine ⟨?_, List.pairwise_cons.mpr h⟩
      intro y hy
      rcases List.mem_cons.mp hy with rfl | hy
      · exact hxa
      · exact le_trans hxa (h.1 y hy)

theorem sorted_sortK (l : List K) : (sortK l).Pairwise (· ≤ ·) := by
  induction l with
  | nil => simp [sortK]
  | cons a as ih => exact sorted_insSorted a _ ih

theorem length_sortK (l : List K) : (sortK l).length = l.length := by
  induction l with
  | nil => rfl
  | cons a as ih =>
    show (insSorted a (sortK as)).length = _
    rw [length_insSorted, ih]; rfl

/-! #### `insert_live_point` -/

/-- inserting at the `searchsorted` position of a sorted list keeps it sorted -/
theorem sorted_insert_at_ssl (rest : List (Pt K)) (hs : SortedL rest) (p : Pt K) :
    SortedL (rest.take (ssl (rest.map (·.logL)) p.logL) ++ [p] ++ rest.drop (ssl (rest.map (·.logL)) p.logL)) ∧
    ∀ x ∈ rest.take (ssl (rest.map (·.logL)) p.logL) ++ [p] ++ rest.drop (ssl (rest.map (·.logL)) p.logL),
      x = p ∨ x ∈ rest := by
  induction rest with
  | nil => simp [SortedL, ssl]
  | cons y ys ih =>
    unfold SortedL at hs
    rw [List.pairwise_cons] at hs
    obtain ⟨ihs, ihm⟩ := ih hs.2
    by_cases hlt : y.logL < p.logL
    · have e : ssl ((y :: ys).map (·.logL)) p.logL = ssl (ys.map (·.logL)) p.logL + 1 := by
        simp [ssl, hlt]
      rw [e]
      simp only [List.take_succ_cons, List.drop_succ_cons, List.cons_append]
      constructor
      · unfold SortedL
        rw [List.pairwise_cons]
        refine ⟨?_, ihs⟩
        intro x hx
        rcases ihm x hx with rfl | hx
        · exact le_of_lt hlt
        · exact hs.1 x hx
      · intro x hx
        rcases List.mem_cons.mp hx with rfl | hx
        · right; simp
        · rcases ihm x hx with rfl | hx
          · left; rfl
          · right; exact List.mem_cons_of_mem _ hx
    · have e : ssl ((y :: ys).map (·.logL)) p.logL = 0 := by
        simp [ssl, hlt]
      rw [e]
      simp only [List.take_zero, List.drop_zero, List.nil_append, List.singleton_append]
      have hpy : p.logL ≤ y.logL := not_lt.mp hlt
      constructor
      · unfold SortedL
        rw [List.pairwise_cons]
        refine ⟨?_, List.pairwise_cons.mpr hs⟩
        intro x hx
        rcases List.mem_cons.mp hx with rfl | hx
        · exact hpy
        · exact le_trans hpy (hs.1 x hx)
      · intro x hx
        rcases List.mem_cons.mp hx with rfl | hx
        · left; rfl
        · right; exact hx

omit [LinearOrder K] in
theorem length_insert_at (rest : List (Pt K)) (p : Pt K) (j : Nat) :
    (rest.take j ++ [p] ++ rest.drop j).length = rest.length + 1 := by
  simp only [List.length_append, List.length_take, List.length_drop, List.length_singleton]
  omega

/-- `insert_live_point` of a point strictly above the worst one: the worst point is dropped, the new one
is placed at its sorted position, nothing else moves -/
theorem insertLive_spec (worst : Pt K) (rest : List (Pt K)) (p : Pt K) (h : worst.logL < p.logL) :
    insertLive (worst :: rest) p =
      .ok (rest.take (ssl (rest.map (·.logL)) p.logL) ++ [p] ++ rest.drop (ssl (rest.map (·.logL)) p.logL)) := by
  have e : ssl ((worst :: rest).map (·.logL)) p.logL = ssl (rest.map (·.logL)) p.logL + 1 := by
    simp [ssl, h]
  unfold insertLive
  simp only [e]
  simp

/-- when the new point is NOT above the worst one NumPy's slice assignment fails -/
theorem insertLive_fails (worst : Pt K) (rest : List (Pt K)) (p : Pt K) (h : ¬ worst.logL < p.logL) :
    insertLive (worst :: rest) p = .error .shapeErr := by
  have e : ssl ((worst :: rest).map (·.logL)) p.logL = 0 := by
    simp [ssl, h]
  unfold insertLive
  simp only [e, ↓reduceIte]

theorem firstAbove_spec (lmin : K) (stream : List K) (c : K) (h : firstAbove lmin stream = some c) :
    lmin < c ∧ c ∈ stream := by
  induction stream with
  | nil => simp [firstAbove] at h
  | cons a as ih =>
    simp only [firstAbove] at h
    split at h
    · cases h; exact ⟨‹_›, by simp⟩
    · obtain ⟨h1, h2⟩ := ih h
      exact ⟨h1, List.mem_cons_of_mem _ h2⟩

/-! #### the invariant of an un-finalised sampler -/

structure Inv (s : NS K) (l : List (Pt K)) : Prop where
  notFin : s.finalised = false
  hlive : s.live = some l
  liveLen : l.length = s.nlive
  liveSorted : SortedL l
  count : s.nested.length = s.iteration
  calls : s.calls = s.nested.map (fun p => (p.logL, none))
  nestedSorted : SortedL s.nested
  nestedLeLive : ∀ a ∈ s.nested, ∀ b ∈ l, a.logL ≤ b.logL
  birth : ∀ p ∈ s.nested ++ l, BirthLt s.logLs p

theorem inv_populate (pts : List K) : Inv (populate pts) ((sortK pts).map fun x => ⟨x, 0⟩) := by
  refine ⟨rfl, rfl, by simp [populate, length_sortK], ?_, rfl, rfl, by simp [SortedL, populate],
    by simp [populate], ?_⟩
  · unfold SortedL
    rw [List.pairwise_map]
    exact sorted_sortK pts
  · intro p hp
    simp only [populate, List.nil_append, List.mem_map] at hp
    obtain ⟨x, _, rfl⟩ := hp
    exact ⟨none, by simp [NS.logLs, populate], trivial⟩

omit [LinearOrder K] in
theorem logLs_length (s : NS K) : s.logLs.length = s.calls.length + 1 := by simp [NS.logLs]

theorem birthLt_mono (l1 l2 : List (Option K)) (p : Pt K) (h : BirthLt l1 p) : BirthLt (l1 ++ l2) p := by
  obtain ⟨b, hb, hlt⟩ := h
  refine ⟨b, ?_, hlt⟩
  have hi : p.it < l1.length := by
    rcases Nat.lt_or_ge p.it l1.length with h | h
    · exact h
    · rw [List.getElem?_eq_none h] at hb; cases hb
  rw [List.getElem?_append_left hi]; exact hb

/-- one `consume_sample` keeps the invariant, records exactly the worst live point, and the point it
inserts carries `it = iteration` with birth likelihood `logLmin` strictly below its own -/
theorem inv_consume (s : NS K) (l : List (Pt K)) (h : Inv s l) (stream : List K) (s' : NS K)
    (hok : consume s stream = .ok s') :
    ∃ l', Inv s' l' ∧ s'.nlive = s.nlive ∧ s'.iteration = s.iteration + 1 ∧
      ∃ worst rest c, l = worst :: rest ∧ s'.nested = s.nested ++ [worst] ∧ worst.logL < c ∧ c ∈ stream ∧
        (⟨c, s'.iteration⟩ : Pt K) ∈ l' := by
  unfold consume at hok
  rw [h.hlive] at hok
  cases l with
  | nil => simp at hok
  | cons worst rest =>
    simp only at hok
    cases hfa : firstAbove worst.logL stream with
    | none => rw [hfa] at hok; simp at hok
    | some c =>
      rw [hfa] at hok
      obtain ⟨hlt, hmem⟩ := firstAbove_spec _ _ _ hfa
      simp only at hok
      rw [insertLive_spec worst rest ⟨c, s.iteration + 1⟩ hlt] at hok
      simp only [Except.ok.injEq] at hok
      subst hok
      have hsorted := h.liveSorted
      unfold SortedL at hsorted
      rw [List.pairwise_cons] at hsorted
      obtain ⟨hs', hm'⟩ := sorted_insert_at_ssl rest hsorted.2 ⟨c, s.iteration + 1⟩
      refine ⟨_, ⟨h.notFin, rfl, ?_, hs', ?_, ?_, ?_, ?_, ?_⟩, rfl, rfl, worst, rest, c, rfl, rfl, hlt, hmem, ?_⟩
      · rw [length_insert_at]
        have := h.liveLen
        simp only [List.length_cons] at this
        exact this
      · simp [h.count]
      · simp [h.calls]
      · unfold SortedL
        rw [List.pairwise_append]
        refine ⟨h.nestedSorted, by simp, ?_⟩
        intro a ha b hb
        simp only [List.mem_singleton] at hb
        subst hb
        exact h.nestedLeLive a ha _ (by simp)
      · intro a ha b hb
        have hwb : worst.logL ≤ b.logL := by
          rcases hm' b hb with rfl | hb
          · exact le_of_lt hlt
          · exact hsorted.1 b hb
        rcases List.mem_append.mp ha with ha | ha
        · exact le_trans (h.nestedLeLive a ha worst (by simp)) hwb
        · simp only [List.mem_singleton] at ha
          subst ha
          exact hwb
      · intro p hp
        have hlogLs : ∀ t : NS K, t.calls = s.calls ++ [(worst.logL, none)] →
            t.logLs = s.logLs ++ [some worst.logL] := by
          intro t ht; simp [NS.logLs, ht]
        rw [hlogLs _ rfl]
        have hold : ∀ q ∈ s.nested ++ worst :: rest, BirthLt (s.logLs ++ [some worst.logL]) q :=
          fun q hq => birthLt_mono _ _ q (h.birth q hq)
        simp only [List.mem_append, List.mem_singleton] at hp
        rcases hp with (hp | rfl) | hp
        · exact hold p (by simp [hp])
        · exact hold _ (by simp)
        · rcases hm' p (by simp only [List.mem_append, List.mem_singleton]; exact hp) with rfl | hp
          · refine ⟨some worst.logL, ?_, hlt⟩
            have hlen : s.logLs.length = s.iteration + 1 := by
              rw [logLs_length, h.calls, List.length_map, h.count]
            show (s.logLs ++ [some worst.logL])[s.iteration + 1]? = _
            rw [List.getElem?_append_right (by omega), hlen]
            simp
          · exact hold p (by simp [hp])
      · simp

/-! #### states reachable by populating and consuming (any number of checkpoint/resume cycles in between:
pickling is the identity on this state) -/

inductive Reachable (n : Nat) : NS K → Prop
  | pop (pts : List K) (h : pts.length = n) : Reachable n (populate pts)
  | step (s : NS K) (hs : Reachable n s) (stream : List K) (s' : NS K) (h : consume s stream = .ok s') :
      Reachable n s'

theorem reachable_inv (n : Nat) (s : NS K) (h : Reachable n s) : ∃ l, Inv s l ∧ s.nlive = n := by
  induction h with
  | pop pts hp => exact ⟨_, inv_populate pts, hp⟩
  | step s _ stream s' hok ih =>
    obtain ⟨l, hinv, hnl⟩ := ih
    obtain ⟨l', hinv', hnl', _⟩ := inv_consume s l hinv stream s' hok
    exact ⟨l', hinv', by rw [hnl', hnl]⟩

/-- the `while` loop only consumes: it ends in a reachable state; if it stopped with the test still false, the
cap was reached -/
theorem whileLoop_reachable (n : Nat) (maxIt : Option Nat) (steps : List (List K × Bool)) :
    ∀ (s : NS K) (below : Bool), Reachable n s → ∀ s' b, whileLoop maxIt s below steps = .ok (s', b) →
      Reachable n s' ∧ (b = false → capReached maxIt s'.iteration = true) := by
  induction steps with
  | nil =>
    intro s below hs s' b hok
    cases below with
    | true => simp only [whileLoop, Except.ok.injEq, Prod.mk.injEq] at hok; obtain ⟨rfl, rfl⟩ := hok; exact ⟨hs, by simp⟩
    | false => simp [whileLoop] at hok
  | cons st rest ih =>
    intro s below hs s' b hok
    cases below with
    | true => simp only [whileLoop, Except.ok.injEq, Prod.mk.injEq] at hok; obtain ⟨rfl, rfl⟩ := hok; exact ⟨hs, by simp⟩
    | false =>
      obtain ⟨stream, b1⟩ := st
      simp only [whileLoop] at hok
      cases hc : consume s stream with
      | error e => rw [hc] at hok; simp at hok
      | ok s1 =>
        rw [hc] at hok
        simp only at hok
        have hr1 : Reachable n s1 := .step s hs stream s1 hc
        split at hok
        · simp only [Except.ok.injEq, Prod.mk.injEq] at hok
          obtain ⟨rfl, rfl⟩ := hok
          exact ⟨hr1, fun _ => ‹_›⟩
        · exact ih s1 b1 hr1 s' b hok

omit [LinearOrder K] in
theorem handOver_fst (n i : Nat) (l : List (Pt K)) : (handOver n i l).map (·.1) = l.map (·.logL) := by
  induction l generalizing i with
  | nil => rfl
  | cons p ps ih => simp [handOver, ih]

omit [LinearOrder K] in
theorem handOver_resolved (n i base : Nat) (l : List (Pt K)) (h : i + l.length = n) :
    (handOver n i l).map (fun c => c.2.getD base) = Quad.countdown l.length := by
  induction l generalizing i with
  | nil => rfl
  | cons p ps ih =>
    simp only [handOver, List.map_cons, List.length_cons, Quad.countdown, Option.getD_some]
    simp only [List.length_cons] at h
    rw [ih (i + 1) (by omega)]
    congr 1
    omega

/-! #### what a completed `nested_sampling_loop` leaves behind -/

structure FinalSpec (n : Nat) (maxIt : Option Nat) (r : NS K) : Prop where
  nlive : r.nlive = n
  count : r.nested.length = r.iteration + (if r.finalised then n else 0)
  cut : r.finalised = false → capReached maxIt r.iteration = true
  sorted : SortedL r.nested
  birth : ∀ p ∈ r.nested, BirthLt r.logLs p
  callsL : r.calls.map (·.1) = r.nested.map (·.logL)
  callsN : r.nliveSeen = if r.finalised then Quad.scheduleIncr r.iteration n else List.replicate r.iteration n

omit [LinearOrder K] in
theorem nliveSeen_of_none (s : NS K) (h : s.calls = s.nested.map (fun p => (p.logL, none))) :
    s.nliveSeen = List.replicate s.nested.length s.nlive := by
  unfold NS.nliveSeen
  rw [h, List.map_map]
  have : ((fun c : K × Option Nat => c.2.getD s.nlive) ∘ fun p : Pt K => (p.logL, none)) = fun _ => s.nlive := by
    funext p; rfl
  rw [this]
  exact List.map_const' ..

theorem run_spec (n : Nat) (s : NS K) (hs : Reachable n s) (maxIt : Option Nat) (below : Bool)
    (steps : List (List K × Bool)) (r : NS K) (h : nestedSamplingLoop maxIt s below steps = .ok r) :
    FinalSpec n maxIt r := by
  obtain ⟨l0, hinv0, _⟩ := reachable_inv n s hs
  unfold nestedSamplingLoop at h
  rw [hinv0.notFin] at h
  simp only [Bool.false_eq_true, ↓reduceIte] at h
  cases hw : whileLoop maxIt s below steps with
  | error e => rw [hw] at h; simp at h
  | ok res =>
    obtain ⟨s', b⟩ := res
    rw [hw] at h
    simp only at h
    obtain ⟨hr', hcap⟩ := whileLoop_reachable n maxIt steps s below hs s' b hw
    obtain ⟨l, hinv, hnl⟩ := reachable_inv n s' hr'
    rw [hinv.notFin] at h
    cases b with
    | false =>
      simp only [Bool.not_false, Bool.and_false, Bool.false_eq_true, ↓reduceIte, Except.ok.injEq] at h
      subst h
      refine ⟨hnl, by simp [hinv.notFin, hinv.count], fun _ => hcap rfl, hinv.nestedSorted,
        fun p hp => hinv.birth p (by simp [hp]), by simp [hinv.calls], ?_⟩
      rw [nliveSeen_of_none s' hinv.calls, hinv.notFin, hinv.count, hnl]
      simp
    | true =>
      simp only [Bool.not_false, Bool.and_self, ↓reduceIte] at h
      unfold finalise at h
      rw [hinv.hlive] at h
      simp only [Except.ok.injEq] at h
      subst h
      have hlen : l.length = n := by rw [hinv.liveLen, hnl]
      refine ⟨hnl, ?_, by simp, ?_, ?_, ?_, ?_⟩
      · simp [hinv.count, hlen]
      · unfold SortedL
        rw [List.pairwise_append]
        exact ⟨hinv.nestedSorted, hinv.liveSorted, hinv.nestedLeLive⟩
      · intro p hp
        have hlogLs : ∀ t : NS K, t.calls = s'.calls ++ handOver s'.nlive 0 l →
            t.logLs = s'.logLs ++ (handOver s'.nlive 0 l).map (fun c => some c.1) := by
          intro t ht; simp [NS.logLs, ht]
        rw [hlogLs _ rfl]
        exact birthLt_mono _ _ p (hinv.birth p hp)
      · simp [hinv.calls, handOver_fst]
      · show List.map _ (s'.calls ++ handOver s'.nlive 0 l) = _
        rw [List.map_append]
        have h1 := nliveSeen_of_none s' hinv.calls
        unfold NS.nliveSeen at h1
        rw [h1, handOver_resolved s'.nlive 0 s'.nlive l (by omega), hinv.count, hnl, hlen]
        simp [Quad.scheduleIncr]

/-! #### chains of loop segments: finished or capped runs that are resumed and run again -/

/-- what every state handed back to the caller satisfies, finalised or not -/
structure ResultSpec (n : Nat) (r : NS K) : Prop where
  nlive : r.nlive = n
  count : r.nested.length = r.iteration + (if r.finalised then n else 0)
  sorted : SortedL r.nested
  birth : ∀ p ∈ r.nested, BirthLt r.logLs p
  callsL : r.calls.map (·.1) = r.nested.map (·.logL)
  callsN : r.nliveSeen = if r.finalised then Quad.scheduleIncr r.iteration n else List.replicate r.iteration n

theorem FinalSpec.toResult {n : Nat} {maxIt : Option Nat} {r : NS K} (h : FinalSpec n maxIt r) : ResultSpec n r :=
  ⟨h.nlive, h.count, h.sorted, h.birth, h.callsL, h.callsN⟩

theorem spec_of_reachable (n : Nat) (s : NS K) (hs : Reachable n s) : ResultSpec n s := by
  obtain ⟨l, hinv, hnl⟩ := reachable_inv n s hs
  refine ⟨hnl, by simp [hinv.notFin, hinv.count], hinv.nestedSorted, fun p hp => hinv.birth p (by simp [hp]),
    by simp [hinv.calls], ?_⟩
  rw [nliveSeen_of_none s hinv.calls, hinv.notFin, hinv.count, hnl]
  simp

/-- one loop segment from a reachable state ends either un-finalised in a reachable state (cut short by the cap:
it can be resumed and continued) or finalised -/
theorem loop_result_reachable_or_final (n : Nat) (s : NS K) (hs : Reachable n s) (maxIt : Option Nat) (below : Bool)
    (steps : List (List K × Bool)) (r : NS K) (h : nestedSamplingLoop maxIt s below steps = .ok r) :
    (r.finalised = false ∧ Reachable n r) ∨ r.finalised = true := by
  obtain ⟨l0, hinv0, _⟩ := reachable_inv n s hs
  unfold nestedSamplingLoop at h
  rw [hinv0.notFin] at h
  simp only [Bool.false_eq_true, ↓reduceIte] at h
  cases hw : whileLoop maxIt s below steps with
  | error e => rw [hw] at h; simp at h
  | ok res =>
    obtain ⟨s', b⟩ := res
    rw [hw] at h
    simp only at h
    obtain ⟨hr', _⟩ := whileLoop_reachable n maxIt steps s below hs s' b hw
    obtain ⟨l, hinv, _⟩ := reachable_inv n s' hr'
    rw [hinv.notFin] at h
    cases b with
    | false =>
      simp only [Bool.not_false, Bool.and_false, Bool.false_eq_true, ↓reduceIte, Except.ok.injEq] at h
      subst h
      exact Or.inl ⟨hinv.notFin, hr'⟩
    | true =>
      simp only [Bool.not_false, Bool.and_self, ↓reduceIte] at h
      unfold finalise at h
      rw [hinv.hlive] at h
      simp only [Except.ok.injEq] at h
      subst h
      exact Or.inr rfl

/-- a finalised sampler is returned unchanged by every further call ("Run has already finished!") -/
theorem runSegments_finalised (segs : List (Option Nat × Bool × List (List K × Bool))) (s : NS K)
    (h : s.finalised = true) : runSegments s segs = .ok s := by
  induction segs with
  | nil => rfl
  | cons seg rest ih =>
    obtain ⟨m, b, st⟩ := seg
    simp only [runSegments, nestedSamplingLoop, h, ↓reduceIte]
    exact ih

/-- any chain of loop segments from a reachable state — the run resumed and run again any number of times,
finished, capped or not — hands back a state with the counts, order, births and integral-state record of the
single-segment theorems -/
theorem chain_spec (n : Nat) (segs : List (Option Nat × Bool × List (List K × Bool))) :
    ∀ (s : NS K), Reachable n s → ∀ r, runSegments s segs = .ok r → ResultSpec n r := by
  induction segs with
  | nil =>
    intro s hs r h
    simp only [runSegments, Except.ok.injEq] at h
    subst h
    exact spec_of_reachable n s hs
  | cons seg rest ih =>
    intro s hs r h
    obtain ⟨m, b, st⟩ := seg
    simp only [runSegments] at h
    cases h1 : nestedSamplingLoop m s b st with
    | error e => rw [h1] at h; simp at h
    | ok s1 =>
      rw [h1] at h
      simp only at h
      rcases loop_result_reachable_or_final n s hs m b st s1 h1 with ⟨_, hr⟩ | hfin
      · exact ih s1 hr r h
      · rw [runSegments_finalised rest s1 hfin] at h
        simp only [Except.ok.injEq] at h
        subst h
        exact (run_spec n s hs m b st s1 h1).toResult

/-! #### where the stored likelihood values come from -/

/-- every point the sampler holds: recorded ones and live ones -/
def NS.points (s : NS K) : List (Pt K) := s.nested ++ s.live.getD []

theorem mem_sortK (l : List K) (y : K) : y ∈ sortK l ↔ y ∈ l := by
  induction l with
  | nil => simp [sortK]
  | cons a as ih =>
    show y ∈ insSorted a (sortK as) ↔ _
    rw [mem_insSorted, ih]; simp

theorem insertLive_mem (live : List (Pt K)) (p : Pt K) (l' : List (Pt K)) (h : insertLive live p = .ok l') :
    ∀ x ∈ l', x = p ∨ x ∈ live := by
  unfold insertLive at h
  simp only at h
  split at h
  · cases h
  · simp only [Except.ok.injEq] at h
    subst h
    intro x hx
    simp only [List.mem_append, List.mem_singleton] at hx
    rcases hx with (hx | rfl) | hx
    · right; exact List.mem_of_mem_drop (List.mem_of_mem_take hx)
    · left; rfl
    · right; exact List.mem_of_mem_drop hx

/-- `consume_sample` never alters a stored likelihood: afterwards every point is an old point or carries a
candidate value of this iteration's stream -/
theorem consume_origin (s : NS K) (stream : List K) (s' : NS K) (hok : consume s stream = .ok s') :
    ∀ p ∈ s'.points, (∃ q ∈ s.points, q.logL = p.logL) ∨ p.logL ∈ stream := by
  unfold consume at hok
  cases hl : s.live with
  | none => rw [hl] at hok; simp at hok
  | some l =>
    rw [hl] at hok
    cases l with
    | nil => simp at hok
    | cons worst rest =>
      simp only at hok
      cases hfa : firstAbove worst.logL stream with
      | none => rw [hfa] at hok; simp at hok
      | some c =>
        rw [hfa] at hok
        simp only at hok
        obtain ⟨_, hmem⟩ := firstAbove_spec _ _ _ hfa
        cases hil : insertLive (worst :: rest) ⟨c, s.iteration + 1⟩ with
        | error e => rw [hil] at hok; simp at hok
        | ok l' =>
          rw [hil] at hok
          simp only [Except.ok.injEq] at hok
          subst hok
          intro p hp
          simp only [NS.points, Option.getD_some, List.mem_append, List.mem_singleton] at hp
          rcases hp with (hp | rfl) | hp
          · left; exact ⟨p, by simp [NS.points, hp], rfl⟩
          · left; exact ⟨p, by simp [NS.points, hl], rfl⟩
          · rcases insertLive_mem _ _ _ hil p hp with rfl | hp
            · right; exact hmem
            · left; exact ⟨p, by simp only [NS.points, hl, Option.getD_some, List.mem_append]; exact Or.inr hp, rfl⟩

theorem whileLoop_origin (maxIt : Option Nat) (steps : List (List K × Bool)) :
    ∀ (s : NS K) (below : Bool) s' b, whileLoop maxIt s below steps = .ok (s', b) →
      ∀ p ∈ s'.points, (∃ q ∈ s.points, q.logL = p.logL) ∨ ∃ st ∈ steps, p.logL ∈ st.1 := by
  induction steps with
  | nil =>
    intro s below s' b hok
    cases below with
    | true =>
      simp only [whileLoop, Except.ok.injEq, Prod.mk.injEq] at hok; obtain ⟨rfl, rfl⟩ := hok
      intro p hp; exact Or.inl ⟨p, hp, rfl⟩
    | false => simp [whileLoop] at hok
  | cons st rest ih =>
    intro s below s' b hok
    cases below with
    | true =>
      simp only [whileLoop, Except.ok.injEq, Prod.mk.injEq] at hok; obtain ⟨rfl, rfl⟩ := hok
      intro p hp; exact Or.inl ⟨p, hp, rfl⟩
    | false =>
      obtain ⟨stream, b1⟩ := st
      simp only [whileLoop] at hok
      cases hc : consume s stream with
      | error e => rw [hc] at hok; simp at hok
      | ok s1 =>
        rw [hc] at hok
        simp only at hok
        have h1 := consume_origin s stream s1 hc
        have lift : ∀ p : Pt K, ((∃ q ∈ s1.points, q.logL = p.logL) ∨ ∃ st ∈ rest, p.logL ∈ st.1) →
            (∃ q ∈ s.points, q.logL = p.logL) ∨ ∃ st ∈ (stream, b1) :: rest, p.logL ∈ st.1 := by
          intro p hp
          rcases hp with ⟨q, hq, hqp⟩ | ⟨st, hst, hp⟩
          · rcases h1 q hq with ⟨q0, hq0, e⟩ | hin
            · exact Or.inl ⟨q0, hq0, e.trans hqp⟩
            · exact Or.inr ⟨(stream, b1), by simp, by rw [← hqp]; exact hin⟩
          · exact Or.inr ⟨st, List.mem_cons_of_mem _ hst, hp⟩
        split at hok
        · simp only [Except.ok.injEq, Prod.mk.injEq] at hok
          obtain ⟨rfl, rfl⟩ := hok
          intro p hp
          exact lift p (Or.inl ⟨p, hp, rfl⟩)
        · intro p hp
          exact lift p (ih s1 b1 s' b hok p hp)

omit [LinearOrder K] in
theorem finalise_points (s s' : NS K) (h : finalise s = .ok s') : s'.points = s.points := by
  unfold finalise at h
  cases hl : s.live with
  | none => rw [hl] at h; simp at h
  | some l =>
    rw [hl] at h
    simp only [Except.ok.injEq] at h
    subst h
    simp [NS.points, hl]

end NessaiVerif.Results
