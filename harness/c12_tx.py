"""C12 translator: pickling / resume tables of the nessai sampler chain  ->  lean/NessaiVerif/Gen/Accounts.lean

Reads the sources under core.REPO with `ast` only (nothing is imported or executed) and extracts, for every class of
the pickling chain, the `__getstate__` exclusion sets / explicit overrides / tuple parts, `__setstate__`, the attribute
universe, and for the resume path the attribute (re-)assignment sites, method calls, augmented assignments and locals that
may be unbound.  A construct outside the recognised shapes raises `Unknown` (reported as `translator: ...`).
"""
import ast
import hashlib

# (class, file) — the classes whose instances are reachable from a checkpoint pickle, or take part in the resume
CHAIN = [
    ("Model", "nessai/model.py"),
    ("BaseNestedSampler", "nessai/samplers/base.py"),
    ("NestedSampler", "nessai/samplers/nestedsampler.py"),
    ("OrderedSamples", "nessai/samplers/importancesampler.py"),
    ("ImportanceNestedSampler", "nessai/samplers/importancesampler.py"),
    ("Proposal", "nessai/proposal/base.py"),
    ("AnalyticProposal", "nessai/proposal/analytic.py"),
    ("RejectionProposal", "nessai/proposal/rejection.py"),
    ("FlowProposal", "nessai/proposal/flowproposal.py"),
    ("ImportanceFlowProposal", "nessai/proposal/importance.py"),
    ("FlowModel", "nessai/flowmodel/base.py"),
    ("ImportanceFlowModel", "nessai/flowmodel/importance.py"),
    ("_BaseNSIntegralState", "nessai/evidence.py"),
    ("_NSIntegralState", "nessai/evidence.py"),
    ("_INSIntegralState", "nessai/evidence.py"),
]

# the resume path: (class, method, kind).  "resume" = executed by FlowSampler(resume=True).run() before the loop
# continues; "lazy" = executed on first use afterwards.
RESUME_PATH = [
    ("BaseNestedSampler", "resume", "resume"),
    ("BaseNestedSampler", "resume_from_pickled_sampler", "resume"),
    ("NestedSampler", "resume_from_pickled_sampler", "resume"),
    ("NestedSampler", "initialise", "resume"),
    ("NestedSampler", "nested_sampling_loop", "resume"),
    ("NestedSampler", "check_resume", "resume"),
    ("NestedSampler", "update_state", "resume"),      # called once before the first new iteration when iteration > 0
    ("ImportanceNestedSampler", "__setstate__", "resume"),
    ("ImportanceNestedSampler", "resume_from_pickled_sampler", "resume"),
    ("ImportanceNestedSampler", "nested_sampling_loop", "resume"),
    ("Proposal", "resume", "resume"),
    ("FlowProposal", "resume", "resume"),
    ("FlowProposal", "initialise", "resume"),
    ("FlowProposal", "prep_latent_prior", "lazy"),
    ("ImportanceFlowProposal", "__setstate__", "resume"),
    ("ImportanceFlowProposal", "resume", "resume"),
    ("ImportanceFlowModel", "resume", "resume"),
    ("ImportanceFlowModel", "update_weights_path", "resume"),
    ("ImportanceFlowModel", "load_all_weights", "resume"),
    ("ImportanceFlowModel", "initialise", "resume"),
    ("ImportanceFlowModel", "reset_optimiser", "lazy"),
    ("FlowModel", "setup_from_input_dict", "resume"),
    ("FlowModel", "initialise", "resume"),
    ("FlowModel", "reload_weights", "resume"),
]
# resume-path functions outside the chain classes: (file, class, method); only their calls are recorded
EXTRA_CALLERS = [
    ("nessai/flowsampler.py", "FlowSampler", "_resume_from_file"),
    ("nessai/flowsampler.py", "FlowSampler", "_resume_from_data"),
    ("nessai/flowsampler.py", "FlowSampler", "run_standard_sampler"),
    ("nessai/flowsampler.py", "FlowSampler", "run_importance_nested_sampler"),
]

# attributes whose class cannot be read off a constructor call (the class is chosen at run time)
DECLARED_ATTR_CLASS = {
    ("NestedSampler", "_flow_proposal"): "FlowProposal",
    ("NestedSampler", "_uninformed_proposal"): "Proposal",
    ("NestedSampler", "proposal"): "Proposal",
    ("ImportanceNestedSampler", "proposal"): "ImportanceFlowProposal",
    ("FlowProposal", "flow"): "FlowModel",
}
SELF_NAMES = {"self", "obj", "sampler"}
BUILTINS = set(dir(__builtins__)) if not isinstance(__builtins__, dict) else set(__builtins__)


class Unknown(Exception):
    pass


def _src(node):
    return ast.unparse(node).replace("\n", " ")


class ClassInfo:
    def __init__(self, name, path, node, text):
        self.name, self.path, self.node = name, path, node
        seg = ast.get_source_segment(text, node) or ""
        self.sha = hashlib.sha256(seg.encode()).hexdigest()
        self.span = (node.lineno, node.end_lineno)
        self.base_names = [b.id if isinstance(b, ast.Name) else _src(b) for b in node.bases]
        self.methods = {}
        self.setters = {}
        self.class_attrs = []
        for st in node.body:
            if isinstance(st, (ast.FunctionDef,)):
                is_setter = any(isinstance(d, ast.Attribute) and d.attr == "setter" for d in st.decorator_list)
                if is_setter:
                    self.setters[st.name] = st
                else:
                    # a property getter and a plain method share the namespace; keep the first non-setter definition
                    self.methods.setdefault(st.name, st)
            elif isinstance(st, ast.Assign):
                for t in st.targets:
                    if isinstance(t, ast.Name):
                        self.class_attrs.append(t.id)
            elif isinstance(st, ast.AnnAssign) and isinstance(st.target, ast.Name):
                self.class_attrs.append(st.target.id)


def _targets(node):
    """flat list of assignment target expressions of an Assign / AugAssign / AnnAssign"""
    if isinstance(node, ast.Assign):
        ts = node.targets
    elif isinstance(node, (ast.AugAssign, ast.AnnAssign)):
        ts = [node.target]
    else:
        return []
    out = []

    def flat(t):
        if isinstance(t, (ast.Tuple, ast.List)):
            for e in t.elts:
                flat(e)
        elif isinstance(t, ast.Starred):
            flat(t.value)
        else:
            out.append(t)
    for t in ts:
        flat(t)
    return out


def _attr_chain(t):
    """self.a.b -> ('self', ['a', 'b']); None when not a pure attribute chain on a name"""
    names = []
    while isinstance(t, ast.Attribute):
        names.append(t.attr)
        t = t.value
    if isinstance(t, ast.Name):
        return t.id, names[::-1]
    return None


def self_fields(fn):
    out = []
    for n in ast.walk(fn):
        for t in _targets(n):
            ch = _attr_chain(t)
            if ch and ch[0] == "self" and len(ch[1]) == 1 and ch[1][0] not in out:
                out.append(ch[1][0])
    return out


def parse_getstate(ci):
    fn = ci.methods.get("__getstate__")
    if fn is None:
        return None
    excluded, overrides, parts = [], [], []
    state_names, dict_names, excl_names = set(), set(), set()

    def is_self_dict(v):
        return isinstance(v, ast.Attribute) and v.attr == "__dict__" and isinstance(v.value, ast.Name) and v.value.id == "self"

    def walk(stmts, guard):
        for st in stmts:
            if isinstance(st, ast.Expr) and isinstance(st.value, ast.Constant):
                continue
            if isinstance(st, ast.Assign) and len(st.targets) == 1:
                t, v = st.targets[0], st.value
                if isinstance(t, ast.Name):
                    if is_self_dict(v):
                        dict_names.add(t.id)
                        continue
                    if isinstance(v, ast.Call) and isinstance(v.func, ast.Attribute) and v.func.attr == "copy" and is_self_dict(v.func.value):
                        state_names.add(t.id)
                        continue
                    if isinstance(v, ast.Set) and all(isinstance(e, ast.Constant) and isinstance(e.value, str) for e in v.elts):
                        excl_names.add(t.id)
                        excluded.extend(e.value for e in v.elts if e.value not in excluded)
                        continue
                    if isinstance(v, ast.DictComp):
                        # {k: d[k] for k in d.keys() - exclude}
                        gen = v.generators[0]
                        it = gen.iter
                        ok = (isinstance(it, ast.BinOp) and isinstance(it.op, ast.Sub) and isinstance(it.right, ast.Name)
                              and it.right.id in excl_names and _src(it.left).endswith(".keys()")
                              and not gen.ifs and len(v.generators) == 1)
                        if not ok:
                            raise Unknown(f"{ci.name}.__getstate__: unrecognised state comprehension `{_src(v)}`")
                        state_names.add(t.id)
                        continue
                    raise Unknown(f"{ci.name}.__getstate__: unrecognised assignment `{_src(st)}`")
                if (isinstance(t, ast.Subscript) and isinstance(t.value, ast.Name) and t.value.id in state_names
                        and isinstance(t.slice, ast.Constant) and isinstance(t.slice.value, str)):
                    overrides.append((t.slice.value, guard, _src(v)))
                    continue
                raise Unknown(f"{ci.name}.__getstate__: unrecognised assignment `{_src(st)}`")
            if isinstance(st, ast.Delete):
                for t in st.targets:
                    if (isinstance(t, ast.Subscript) and isinstance(t.value, ast.Name) and t.value.id in state_names
                            and isinstance(t.slice, ast.Constant)):
                        if t.slice.value not in excluded:
                            excluded.append(t.slice.value)
                    else:
                        raise Unknown(f"{ci.name}.__getstate__: unrecognised del `{_src(st)}`")
                continue
            if isinstance(st, ast.If):
                g = _src(st.test)
                walk(st.body, (guard + " and " if guard else "") + g)
                walk(st.orelse, (guard + " and " if guard else "") + f"not ({g})")
                continue
            if isinstance(st, ast.Return):
                v = st.value
                if isinstance(v, ast.Name) and v.id in state_names:
                    continue
                if isinstance(v, ast.Tuple) and isinstance(v.elts[0], ast.Name) and v.elts[0].id in state_names:
                    for e in v.elts[1:]:
                        ch = _attr_chain(e)
                        if not (ch and ch[0] == "self" and len(ch[1]) == 1):
                            raise Unknown(f"{ci.name}.__getstate__: unrecognised tuple part `{_src(e)}`")
                        parts.append(ch[1][0])
                    continue
                raise Unknown(f"{ci.name}.__getstate__: unrecognised return `{_src(st)}`")
            raise Unknown(f"{ci.name}.__getstate__: unrecognised statement `{_src(st)[:80]}`")

    for n in ast.walk(fn):
        if isinstance(n, ast.Call) and isinstance(n.func, ast.Attribute) and n.func.attr == "__getstate__":
            raise Unknown(f"{ci.name}.__getstate__ delegates to another __getstate__ (not modelled)")
    walk(fn.body, "")
    return dict(excluded=excluded, overrides=overrides, parts=parts)


def parse_setstate(ci):
    fn = ci.methods.get("__setstate__")
    if fn is None:
        return []
    arg = fn.args.args[1].arg
    got = {}
    for st in fn.body:
        if isinstance(st, ast.Expr) and isinstance(st.value, ast.Constant):
            continue
        if isinstance(st, ast.Expr) and _src(st.value) == f"self.__dict__.update({arg}[0])":
            continue
        if isinstance(st, ast.Assign) and len(st.targets) == 1:
            ch = _attr_chain(st.targets[0])
            v = st.value
            if (ch and ch[0] == "self" and len(ch[1]) == 1 and isinstance(v, ast.Subscript) and isinstance(v.value, ast.Name)
                    and v.value.id == arg and isinstance(v.slice, ast.Constant) and isinstance(v.slice.value, int)):
                got[v.slice.value] = ch[1][0]
                continue
        raise Unknown(f"{ci.name}.__setstate__: unrecognised statement `{_src(st)[:80]}`")
    if sorted(got) != list(range(1, len(got) + 1)):
        raise Unknown(f"{ci.name}.__setstate__: positions {sorted(got)} are not 1..n")
    return [got[i] for i in sorted(got)]


def maybe_unbound(fn):
    """local names read where they are not definitely assigned (conservative: if/else joins intersect, loops and
    try bodies contribute nothing)"""
    params = {a.arg for a in fn.args.args + fn.args.kwonlyargs}
    if fn.args.vararg:
        params.add(fn.args.vararg.arg)
    if fn.args.kwarg:
        params.add(fn.args.kwarg.arg)
    assigned_anywhere = set()
    comp_scoped = set()
    for n in ast.walk(fn):
        if isinstance(n, (ast.ListComp, ast.SetComp, ast.DictComp, ast.GeneratorExp)):
            for g in n.generators:
                for m in ast.walk(g.target):
                    if isinstance(m, ast.Name):
                        comp_scoped.add(id(m))
        if isinstance(n, ast.Lambda):
            pass
    for n in ast.walk(fn):
        if isinstance(n, ast.Name) and isinstance(n.ctx, ast.Store) and id(n) not in comp_scoped:
            assigned_anywhere.add(n.id)
        if isinstance(n, (ast.Import, ast.ImportFrom)):
            for a in n.names:
                assigned_anywhere.add((a.asname or a.name).split(".")[0])
    local = assigned_anywhere - params
    found = []

    def reads(node, defined):
        for n in ast.walk(node):
            if isinstance(n, ast.Name) and isinstance(n.ctx, ast.Load) and n.id in local and n.id not in defined:
                if n.id not in found:
                    found.append(n.id)

    def stores(node):
        return {n.id for n in ast.walk(node) if isinstance(n, ast.Name) and isinstance(n.ctx, ast.Store)}

    def block(stmts, defined):
        defined = set(defined)
        for st in stmts:
            if isinstance(st, ast.If):
                reads(st.test, defined)
                a = block(st.body, defined)
                b = block(st.orelse, defined)
                defined = a & b
            elif isinstance(st, (ast.For, ast.While)):
                reads(st.iter if isinstance(st, ast.For) else st.test, defined)
                inner = set(defined)
                if isinstance(st, ast.For):
                    inner |= stores(st.target)
                block(st.body, inner)
                block(st.orelse, defined)
            elif isinstance(st, ast.Try):
                a = block(st.body, defined)
                for h in st.handlers:
                    block(h.body, defined | ({h.name} if h.name else set()))
                block(st.orelse, a)
                defined = block(st.finalbody, defined)
            elif isinstance(st, ast.With):
                for it in st.items:
                    reads(it.context_expr, defined)
                    if it.optional_vars is not None:
                        defined |= stores(it.optional_vars)
                defined = block(st.body, defined)
            elif isinstance(st, (ast.Assign, ast.AnnAssign, ast.AugAssign)):
                if getattr(st, "value", None) is not None:
                    reads(st.value, defined)
                if isinstance(st, ast.AugAssign):
                    reads(st.target, defined)
                for t in _targets(st):
                    for n in ast.walk(t):
                        if isinstance(n, ast.Name) and isinstance(n.ctx, ast.Load):
                            reads(n, defined)
                    defined |= stores(t)
            elif isinstance(st, (ast.Import, ast.ImportFrom)):
                for a in st.names:
                    defined.add((a.asname or a.name).split(".")[0])
            elif isinstance(st, (ast.FunctionDef, ast.ClassDef)):
                defined.add(st.name)
            else:
                reads(st, defined)
        return defined

    block(fn.body, set())
    return found


def extract(repo):
    """-> dict with everything the Lean file and the harness need"""
    texts, trees = {}, {}

    def load(path):
        if path not in texts:
            p = repo / path
            if not p.exists():
                raise Unknown(f"source file {path} not found")
            texts[path] = p.read_text()
            trees[path] = ast.parse(texts[path])
        return trees[path], texts[path]

    infos = {}
    for name, path in CHAIN:
        tree, text = load(path)
        node = next((n for n in tree.body if isinstance(n, ast.ClassDef) and n.name == name), None)
        if node is None:
            raise Unknown(f"class {name} not found in {path}")
        infos[name] = ClassInfo(name, path, node, text)

    def lineage(name):
        out, todo = [], [name]
        while todo:
            n = todo.pop(0)
            if n in infos and n not in out:
                out.append(n)
                todo.extend(infos[n].base_names)
        return out

    tables = []
    attr_class = dict(DECLARED_ATTR_CLASS)
    for name, path in CHAIN:
        ci = infos[name]
        fields = list(ci.class_attrs)
        for fn in list(ci.methods.values()) + list(ci.setters.values()):
            for f in self_fields(fn):
                if f not in fields:
                    fields.append(f)
            for n in ast.walk(fn):
                if isinstance(n, ast.Assign) and isinstance(n.value, ast.Call) and isinstance(n.value.func, ast.Name) \
                        and n.value.func.id in infos:
                    for t in _targets(n):
                        ch = _attr_chain(t)
                        if ch and ch[0] == "self" and len(ch[1]) == 1:
                            attr_class.setdefault((name, ch[1][0]), n.value.func.id)
        init = self_fields(ci.methods["__init__"]) if "__init__" in ci.methods else []
        gs = parse_getstate(ci)
        tables.append(dict(name=name, path=path, span=ci.span, sha=ci.sha, bases=lineage(name)[1:], fields=fields, init=init,
                           own=gs is not None, excluded=gs["excluded"] if gs else [], overrides=gs["overrides"] if gs else [],
                           parts=gs["parts"] if gs else [], setstate=parse_setstate(ci)))

    def owner_of(cls, chain, where):
        """class owning the last attribute of `base.a.b.c` when `base` is an instance of cls"""
        cur = cls
        for a in chain[:-1]:
            nxt = None
            for c in lineage(cur):
                if (c, a) in attr_class:
                    nxt = attr_class[(c, a)]
                    break
            if nxt is None:
                # an object outside the chain (e.g. the torch module): opaque owner
                return f"{cur}.{a}"
            cur = nxt
        return cur

    def find_setter(cls, prop):
        for c in lineage(cls):
            if prop in infos[c].setters:
                return c, infos[c].setters[prop]
        return None

    sites, calls, augs, unbound = [], [], [], []
    for cls, meth, kind in RESUME_PATH:
        ci = infos.get(cls)
        fn = ci.methods.get(meth) if ci else None
        if fn is None:
            raise Unknown(f"resume-path method {cls}.{meth} not found")
        where = f"{cls}.{meth}"
        scope = [fn]
        if meth == "nested_sampling_loop":
            # only what runs before the loop starts iterating belongs to the resume path
            pre = []
            for st in fn.body:
                if isinstance(st, (ast.While, ast.For)):
                    break
                pre.append(st)
            scope = pre
        for n in (m for root in scope for m in ast.walk(root)):
            for t in _targets(n):
                ch = _attr_chain(t)
                if not ch or not ch[1]:
                    continue
                base, chain = ch
                val = _src(n.value) if getattr(n, "value", None) is not None else ""
                if isinstance(n, ast.Assign) and isinstance(n.targets[0], (ast.Tuple, ast.List)):
                    val = "(unpacked) " + val
                if base in SELF_NAMES:
                    own = owner_of(cls, chain, where)
                elif base == "model":
                    own = owner_of("Model", chain, where)
                else:
                    continue
                sites.append(dict(owner=own, attr=chain[-1], site=where, kind=kind, value=val[:120]))
                if isinstance(n, ast.AugAssign):
                    augs.append((where, _src(n.target), type(n.op).__name__, _src(n.value)))
                elif isinstance(n, ast.Assign) and base in ("model",):
                    augs.append((where, _src(t), "Assign", val[:120]))
                if base in SELF_NAMES and len(chain) == 1:
                    st = find_setter(cls, chain[0])
                    if st:
                        for f in self_fields(st[1]):
                            sites.append(dict(owner=st[0], attr=f, site=f"{where} -> {st[0]}.{chain[0]}.setter", kind=kind,
                                              value="(property setter)"))
            if isinstance(n, ast.Call) and isinstance(n.func, ast.Attribute):
                c = (where, _src(n.func))
                if c not in calls and not c[1].startswith("logger.") and not c[1].startswith("os.") and not c[1].startswith("np."):
                    calls.append(c)
        for nm in maybe_unbound(fn):
            unbound.append((where, nm))
    for path, cls, meth in EXTRA_CALLERS:
        tree, _ = load(path)
        node = next((n for n in tree.body if isinstance(n, ast.ClassDef) and n.name == cls), None)
        fn = next((f for f in (node.body if node else []) if isinstance(f, ast.FunctionDef) and f.name == meth), None)
        if fn is None:
            raise Unknown(f"resume-path method {cls}.{meth} not found in {path}")
        for n in ast.walk(fn):
            if isinstance(n, ast.Call) and isinstance(n.func, ast.Attribute):
                c = (f"{cls}.{meth}", _src(n.func))
                if c not in calls and not c[1].startswith("logger.") and not c[1].startswith("os."):
                    calls.append(c)

    # does the sampling loop re-arm sampling_start_time before it starts iterating?
    resets = []
    for cls in ("NestedSampler", "ImportanceNestedSampler"):
        fn = infos[cls].methods.get("nested_sampling_loop")
        if fn is None:
            raise Unknown(f"{cls}.nested_sampling_loop not found")
        hit = False
        for st in fn.body:
            if isinstance(st, (ast.While, ast.For)):
                break
            for t in _targets(st):
                ch = _attr_chain(t)
                if ch and ch[0] == "self" and ch[1] == ["sampling_start_time"]:
                    hit = True
        resets.append((cls, hit))

    # does resume_from_pickled_sampler itself re-arm the sampling start time?
    fn = infos["BaseNestedSampler"].methods.get("resume_from_pickled_sampler")
    rearm = False
    for n in ast.walk(fn):
        for t in _targets(n):
            ch = _attr_chain(t)
            if ch and ch[0] in SELF_NAMES and ch[1] == ["sampling_start_time"]:
                rearm = True

    # every class of the package that customises pickling
    custom = []
    for p in sorted((repo / "nessai").rglob("*.py")):
        try:
            tree = ast.parse(p.read_text())
        except SyntaxError as e:
            raise Unknown(f"cannot parse {p}: {e}")
        for n in ast.walk(tree):
            if isinstance(n, ast.ClassDef):
                for st in n.body:
                    if isinstance(st, ast.FunctionDef) and st.name in ("__getstate__", "__setstate__", "__reduce__", "__reduce_ex__",
                                                                         "__getnewargs__", "__getnewargs_ex__"):
                        if n.name not in custom:
                            custom.append(n.name)
    return dict(tables=tables, sites=sites, calls=calls, augs=augs, unbound=unbound, resets=resets, rearm=rearm, custom=custom,
                attr_class=sorted((f"{k[0]}.{k[1]}", v) for k, v in attr_class.items()))


def _s(x):
    return '"' + x.replace("\\", "\\\\").replace('"', '\\"') + '"'


def _l(xs, f=_s, per_line=8):
    xs = list(xs)
    if not xs:
        return "[]"
    rows = [", ".join(f(x) for x in xs[i:i + per_line]) for i in range(0, len(xs), per_line)]
    return "[" + ",\n      ".join(rows) + "]"


def render(ex):
    out = ["/-", "GENERATED by harness/c12_tx.py from the nessai sources (python `ast`, nothing executed) — do not edit.",
           "Pickling (`__getstate__` / `__setstate__`) and resume tables of the sampler chain.", "", "Sources (class: file lines sha256 of the class text):"]
    for t in ex["tables"]:
        out.append(f"  {t['name']}: {t['path']} {t['span'][0]}-{t['span'][1]} {t['sha']}")
    out += ["-/", "import NessaiVerif.Model.AccountsTables", "namespace NessaiVerif.Gen.Accounts", "open NessaiVerif.AccountsTables", ""]
    out.append("def tables : List ClassTable := [")
    rows = []
    for t in ex["tables"]:
        ov = _l(t["overrides"], lambda o: f"({_s(o[0])}, {_s(o[1])}, {_s(o[2])})", per_line=1)
        rows.append(
            "  { name := " + _s(t["name"]) + ",\n"
            "    bases := " + _l(t["bases"]) + ",\n"
            "    fields := " + _l(t["fields"]) + ",\n"
            "    initFields := " + _l(t["init"]) + ",\n"
            "    ownGetstate := " + ("true" if t["own"] else "false") + ",\n"
            "    excluded := " + _l(t["excluded"]) + ",\n"
            "    overrides := " + ov + ",\n"
            "    tupleParts := " + _l(t["parts"]) + ",\n"
            "    setstate := " + _l(t["setstate"]) + " }")
    out.append(",\n".join(rows) + "]")
    out.append("")
    out.append("/-- attribute (re-)assignments on the resume path: owner class, attribute, site, kind -/")
    out.append("def sites : List Site := " + _l(
        ex["sites"], lambda s: "{ owner := %s, attr := %s, site := %s, kind := %s }" % (_s(s["owner"]), _s(s["attr"]), _s(s["site"]), _s(s["kind"])),
        per_line=1))
    out.append("")
    out.append("/-- value source of each site, aligned with `sites` -/")
    out.append("def siteValues : List String := " + _l([s["value"] for s in ex["sites"]], per_line=1))
    out.append("")
    out.append("/-- method calls made on the resume path: (site, callee source) -/")
    out.append("def calls : List (String × String) := " + _l(ex["calls"], lambda c: f"({_s(c[0])}, {_s(c[1])})", per_line=1))
    out.append("")
    out.append("/-- assignments to the fresh `model` on the resume path: (site, target, operator, value) -/")
    out.append("def modelUpdates : List (String × String × String × String) := "
               + _l(ex["augs"], lambda a: "(" + ", ".join(_s(v) for v in a) + ")", per_line=1))
    out.append("")
    out.append("/-- locals of resume-path functions that are read where they are not definitely assigned -/")
    out.append("def maybeUnbound : List (String × String) := " + _l(ex["unbound"], lambda c: f"({_s(c[0])}, {_s(c[1])})", per_line=1))
    out.append("")
    out.append("/-- does `nested_sampling_loop` re-arm `sampling_start_time` before iterating? -/")
    out.append("def loopResetsStart : List (String × Bool) := "
               + _l(ex["resets"], lambda c: f"({_s(c[0])}, {'true' if c[1] else 'false'})", per_line=1))
    out.append("")
    out.append("/-- does `BaseNestedSampler.resume_from_pickled_sampler` assign `sampling_start_time`? -/")
    out.append("def resumeRearmsStart : Bool := " + ("true" if ex["rearm"] else "false"))
    out.append("")
    out.append("/-- every class under nessai/ that defines `__getstate__`/`__setstate__`/`__reduce__`… -/")
    out.append("def customPicklers : List String := " + _l(ex["custom"]))
    out.append("")
    out.append("/-- class of the object held by an attribute (constructor calls in the source + declared run-time choices) -/")
    out.append("def attrClass : List (String × String) := " + _l(ex["attr_class"], lambda c: f"({_s(c[0])}, {_s(c[1])})", per_line=1))
    out += ["", "end NessaiVerif.Gen.Accounts", ""]
    return "\n".join(out)
