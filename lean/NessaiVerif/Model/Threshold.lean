import NessaiVerif.Model.Np
/-
C17 — hand-written part of the model of the INS level-threshold choice (core Lean only).

The *decision logic* (the clamp section of `determine_log_likelihood_threshold` and the `n_train`
expression of `add_new_proposal`) is NOT here: it is regenerated from the nessai source on every run
into `Gen/Threshold.lean`.  This file holds what the generated definitions are plugged into:
the result type of the clamp, Python indexing / slicing, the count of samples a threshold removes
(`OrderedSamples.remove_samples`: `count_nonzero(logL < threshold)`), the two raw-index methods and
the abstract weighted quantile.
-/
namespace NessaiVerif.Threshold
open NessaiVerif.Np

/-- outcome of the clamp section: an early `return v` (the code returns the *integer* `0` when
`n == 0` and `min_remove < 1`), or the index `n` that is then used in `samples[n]["logL"]`. -/
inductive Clamp where
  | early (v : Int)
  | index (n : Int)
  deriving DecidableEq, Repr

/-- Python truthiness of an `Optional[int]` (`None` and `0` are falsy). -/
def truthyOpt : Option Int → Bool
  | some v => v != 0
  | none => false

/-- the number inside an `Optional[int]` the translator has shown to be not `None` at the point of use -/
def optGet (o : Option Int) : Int := o.getD 0

/-- Python / NumPy `x[n]` on an array of length `size`: the position read, `none` = IndexError.
Negative indices wrap once. -/
def pyIndex (size : Nat) (n : Int) : Option Nat :=
  if 0 ≤ n ∧ n < (size : Int) then some n.toNat
  else if n < 0 ∧ -n ≤ (size : Int) then some ((size : Int) + n).toNat
  else none

/-- first position of the Python slice `x[n:]` on an array of length `size` (never fails) -/
def pySliceStart (size : Nat) (n : Int) : Nat :=
  if 0 ≤ n then min n.toNat size else ((size : Int) + n).toNat

/-- `len(x[n:])` -/
def pySliceLen (size : Nat) (n : Int) : Nat := size - pySliceStart size n

/-- what the caller of `determine_log_likelihood_threshold` receives -/
inductive Outcome (α : Type) where
  | early (v : Int)        -- the integer returned before any indexing
  | threshold (pos : Nat) (x : α)   -- `samples[n]["logL"]`: position read and its value
  | indexError
  deriving DecidableEq, Repr

/-- `threshold = samples[n]["logL"]` applied to the outcome of the clamp -/
def finish {α : Type} (logL : List α) : Clamp → Outcome α
  | .early v => .early v
  | .index n =>
    match pyIndex logL.length n with
    | none => .indexError
    | some p => match logL[p]? with
      | some x => .threshold p x
      | none => .indexError

/-- `OrderedSamples.remove_samples`: `np.count_nonzero(live_points["logL"] < threshold)` -/
def countBelow {α : Type} [LT α] [DecidableLT α] (thr : α) (xs : List α) : Nat :=
  (xs.filter (fun x => decide (x < thr))).length

/-- number of live samples that survive the threshold (`logL ≥ threshold`) -/
def countKept {α : Type} [LT α] [DecidableLT α] (thr : α) (xs : List α) : Nat :=
  xs.length - countBelow thr xs

/-- `determine_threshold_quantile` after the cutoff is known: `np.argmax(a >= cutoff)` -/
def quantileIndex {α : Type} [LE α] [DecidableLE α] (a : List α) (cutoff : α) : Nat :=
  argmaxBool (a.map (fun x => decide (cutoff ≤ x)))

/-- `cdf[i] / last >= q` in IEEE arithmetic for finite `c`, `last`, `q`, without dividing:
`last = 0` gives `+inf` (true) for `c > 0` and `-inf` / `nan` (false) otherwise. -/
def ratioGe (c last q : Rat) : Bool :=
  if 0 < last then decide (q * last ≤ c)
  else if last < 0 then decide (c ≤ q * last)
  else decide (0 < c)

/-- `determine_threshold_entropy` on the vector `p` the CDF is built from (the log-weights by
default, the weights with `use_log_weights=False`):
`cdf = cumsum(p); if cdf.sum() == 0: cdf = arange(len(p)); cdf /= cdf[-1]; argmax(cdf >= q)`. -/
def entropyIndex (p : List Rat) (q : Rat) : Nat :=
  let c0 := cumsum p 0
  let c := if c0.foldl (· + ·) 0 == 0 then (List.range p.length).map (fun (i : Nat) => ((Int.ofNat i : Int) : Rat)) else c0
  let last := c.getLastD 0
  argmaxBool (c.map (fun ci => ratioGe ci last q))

/-- abstract weighted quantile (`nessai.utils.stats.weighted_quantile`, Harrell–Davis):
`tbl` holds the regularised incomplete beta function at the cumulative end points
`0 = e₀ ≤ e₁ ≤ … ≤ eₙ = 1`; the result is `Σ (tbl[i+1] - tbl[i]) * vals[i]`. -/
def wq {K : Type} [Add K] [Sub K] [Mul K] [OfNat K 0] : List K → List K → K
  | t0 :: t1 :: ts, v :: vs => (t1 - t0) * v + wq (t1 :: ts) vs
  | _, _ => 0

/-- the Harrell–Davis weights `w*_i = tbl[i+1] - tbl[i]` -/
def wqWeights {K : Type} [Sub K] : List K → List K
  | t0 :: t1 :: ts => (t1 - t0) :: wqWeights (t1 :: ts)
  | _ => []

/-- end points of `weighted_quantile`: `[0] ++ cumsum(w) / sum(w)` -/
def endPoints (w : List Rat) : List Rat :=
  let c := cumsum w 0
  let tot := c.getLastD 0
  0 :: c.map (· / tot)

end NessaiVerif.Threshold
