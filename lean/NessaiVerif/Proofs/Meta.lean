import NessaiVerif.Model.MetaProposal
import Mathlib.Algebra.Order.Field.Basic
import Mathlib.Algebra.CharZero.Defs
import Mathlib.Tactic.FieldSimp
import Mathlib.Tactic.Ring
/- Lemmas for C03 (meta-proposal bookkeeping) over any field of characteristic zero. -/
namespace NessaiVerif.Meta

variable {K : Type} [Field K]

theorem sumK_map_div (cs : List Nat) (n : K) :
    sumK (cs.map (fun (c : Nat) => ((c : K) / n : K))) = ((cs.sum : Nat) : K) / n := by
  induction cs with
  | nil => simp [sumK]
  | cons c cs ih => simp [sumK, ih, add_div]

/-- mixture weights are the fractions `count_k / total` and sum to one -/
theorem weights_sum_one [CharZero K] (cs : List Nat) (h : cs.sum ≠ 0) :
    sumK (cs.map (fun (c : Nat) => ((c : K) / ((cs.sum : Nat) : K) : K))) = 1 := by
  rw [sumK_map_div]
  exact div_self (Nat.cast_ne_zero.mpr h)

theorem sumK_map_div_eq_one_iff [CharZero K] (cs : List Nat) (n : Nat) (hn : n ≠ 0) :
    sumK (cs.map (fun (c : Nat) => ((c : K) / (n : K) : K))) = 1 ↔ cs.sum = n := by
  rw [sumK_map_div]
  have hn' : (n : K) ≠ 0 := Nat.cast_ne_zero.mpr hn
  rw [div_eq_one_iff_eq hn']
  exact Nat.cast_inj

theorem mix_append_singleton (w row : List K) (wl ql : K) (h : w.length = row.length) :
    mix (w ++ [wl]) (row ++ [ql]) = mix w row + wl * ql := by
  induction w generalizing row with
  | nil =>
    cases row with
    | nil => simp [mix]
    | cons _ _ => simp at h
  | cons a w ih =>
    cases row with
    | nil => simp at h
    | cons b row =>
      simp at h
      simp [mix, ih row h, add_assoc]

/-- the mixture is non-negative, and at least `w₀·q₀`, when weights and densities are non-negative -/
theorem mix_ge_head [LinearOrder K] [IsStrictOrderedRing K] (w row : List K)
    (hw : ∀ x ∈ w, 0 ≤ x) (hq : ∀ x ∈ row, 0 ≤ x) : 0 ≤ mix w row := by
  induction w generalizing row with
  | nil => simp [mix]
  | cons a w ih =>
    cases row with
    | nil => simp [mix]
    | cons b row =>
      simp only [mix]
      have h1 : 0 ≤ a * b := mul_nonneg (hw a (by simp)) (hq b (by simp))
      have h2 := ih row (fun x hx => hw x (by simp [hx])) (fun x hx => hq x (by simp [hx]))
      exact add_nonneg h1 h2

end NessaiVerif.Meta

namespace NessaiVerif.Meta
variable {K : Type} [Field K]
set_option linter.unusedSectionVars false

/-- density row of sample `id` for `np` proposals under the density table `D id k = q_{k-1}(x_id)` -/
def rowOf (D : Nat → Nat → K) (np : Nat) (id : Nat) : List K := (List.range np).map (D id)

theorem rowOf_length (D : Nat → Nat → K) (np id : Nat) : (rowOf D np id).length = np := by simp [rowOf]

theorem rowOf_succ (D : Nat → Nat → K) (np id : Nat) : rowOf D (np + 1) id = rowOf D np id ++ [D id np] := by
  simp [rowOf, List.range_succ]

/-- what "exact meta-proposal density and weight" means for one stored sample -/
structure SampleOk (D : Nat → Nat → K) (w : List K) (m : MS K) : Prop where
  row : m.row = rowOf D w.length m.id
  Q : m.Q = mix w m.row
  W : m.W = m.U / m.Q

def mkNew (w : List K) (it : Int) (x : Nat × K × List K) : MS K :=
  { id := x.1, it := it, U := x.2.1, row := x.2.2, Q := mix w x.2.2, W := x.2.1 / mix w x.2.2 }

def upd (w : List K) (f : Nat → K) (m : MS K) : MS K :=
  { m with row := m.row ++ [f m.id], Q := mix w (m.row ++ [f m.id]), W := m.U / mix w (m.row ++ [f m.id]) }

theorem newSamples_eq (w : List K) (it : Int) (new : List (Nat × K × List K))
    (h : ∀ x ∈ new, x.2.2.length = w.length) : newSamples w it new = .ok (new.map (mkNew w it)) := by
  induction new with
  | nil => simp [newSamples]
  | cons x xs ih =>
    obtain ⟨id, U, row⟩ := x
    have hx : row.length = w.length := h (id, U, row) (by simp)
    simp [newSamples, newSample, hx, ih (fun y hy => h y (by simp [hy])), mkNew]

theorem updateStore_eq (w : List K) (col : List (Nat × K)) (f : Nat → K) (store : List (MS K))
    (h : ∀ m ∈ store, lookup col m.id = some (f m.id) ∧ m.row.length + 1 = w.length) :
    updateStore w col store = .ok (store.map (upd w f)) := by
  induction store with
  | nil => simp [updateStore]
  | cons m ms ih =>
    have hm := h m (by simp)
    simp [updateStore, hm.1, updateSample, hm.2, ih (fun y hy => h y (by simp [hy])), upd]

theorem sampleOk_mkNew (D : Nat → Nat → K) (w : List K) (it : Int) (x : Nat × K × List K)
    (hx : x.2.2 = rowOf D w.length x.1) : SampleOk D w (mkNew w it x) :=
  ⟨hx, rfl, rfl⟩

theorem sampleOk_upd (D : Nat → Nat → K) (w w' : List K) (m : MS K) (hm : SampleOk D w m)
    (hw : w'.length = w.length + 1) : SampleOk D w' (upd w' (fun id => D id w.length) m) := by
  refine ⟨?_, rfl, rfl⟩
  simp only [upd]
  rw [hw, rowOf_succ, hm.row]

end NessaiVerif.Meta

namespace NessaiVerif.Meta
variable {K : Type} [Field K] [CharZero K] [DecidableEq K]

/-- The bookkeeping invariant at an iteration boundary. -/
structure MetaInv (D : Nat → Nat → K) (s : St K) : Prop where
  wlen : s.weights.length = s.counts.length
  total : s.counts.sum = refSize s
  nonempty : s.counts.sum ≠ 0
  weights : s.weights = s.counts.map (fun (c : Nat) => ((c : K) / ((s.counts.sum : Nat) : K) : K))
  train : ∀ m ∈ s.train, SampleOk D s.weights m
  iid : ∀ m ∈ s.iid, SampleOk D s.weights m
  sizes : s.useIid = true → s.train.length = s.iid.length
  noIid : s.useIid = false → s.iid = []

/-- inputs of one iteration that are consistent with the density table -/
structure IterOk (D : Nat → Nat → K) (s : St K) (nAdd : Nat)
    (newT : List (Nat × K × List K)) (colT : List (Nat × K))
    (newI : List (Nat × K × List K)) (colI : List (Nat × K)) : Prop where
  newT_row : ∀ x ∈ newT, x.2.2 = rowOf D (s.counts.length + 1) x.1
  newT_len : newT.length = nAdd
  colT : ∀ m ∈ s.train, lookup colT m.id = some (D m.id s.counts.length)
  newI_row : s.useIid = true → ∀ x ∈ newI, x.2.2 = rowOf D (s.counts.length + 1) x.1
  newI_len : s.useIid = true → newI.length = nAdd
  colI : s.useIid = true → ∀ m ∈ s.iid, lookup colI m.id = some (D m.id s.counts.length)

theorem addProposalWeight_ok (D : Nat → Nat → K) (s : St K) (h : MetaInv D s) (nAdd : Nat) :
    addProposalWeight s (s.counts.length - 1) nAdd =
      .ok { s with counts := s.counts ++ [nAdd],
                   weights := (s.counts ++ [nAdd]).map
                     (fun (c : Nat) => ((c : K) / (((s.counts ++ [nAdd]).sum : Nat) : K) : K)) } := by
  have hlen : s.counts.length ≠ 0 := by
    intro h0
    have : s.counts = [] := List.length_eq_zero_iff.mp h0
    exact h.nonempty (by simp [this])
  have hj : s.counts.length - 1 + 1 = s.counts.length := by omega
  unfold addProposalWeight
  simp only [hj, Nat.lt_irrefl, false_and, if_false, gt_iff_lt]
  have hsum : (s.counts ++ [nAdd]).sum = refSize s + nAdd := by simp [h.total]
  have hne : refSize s + nAdd ≠ 0 := by have := h.nonempty; rw [h.total] at this; omega
  have hchk := (sumK_map_div_eq_one_iff (K := K) (s.counts ++ [nAdd]) (refSize s + nAdd) hne).mpr hsum
  rw [if_pos hchk, hsum]

/-- **One iteration preserves the invariant.** -/
theorem iteration_ok (D : Nat → Nat → K) (s : St K) (h : MetaInv D s) (nAdd : Nat)
    (newT : List (Nat × K × List K)) (colT : List (Nat × K))
    (newI : List (Nat × K × List K)) (colI : List (Nat × K))
    (hin : IterOk D s nAdd newT colT newI colI) :
    ∃ s', iteration s (s.counts.length - 1) nAdd newT colT newI colI = .ok s' ∧ MetaInv D s' ∧
      s'.counts = s.counts ++ [nAdd] ∧ s'.train.length = s.train.length + nAdd ∧
      (s.useIid = true → s'.iid.length = s.iid.length + nAdd) ∧ s'.useIid = s.useIid ∧
      s'.train.map (·.it) = s.train.map (·.it) ++ List.replicate nAdd ((s.counts.length - 1 : Nat) : Int) ∧
      (s.useIid = true →
        s'.iid.map (·.it) = s.iid.map (·.it) ++ List.replicate nAdd ((s.counts.length - 1 : Nat) : Int)) := by
  set_option maxRecDepth 2000 in
  generalize hw' : (s.counts ++ [nAdd]).map
      (fun (c : Nat) => ((c : K) / (((s.counts ++ [nAdd]).sum : Nat) : K) : K)) = w'
  have hw'len : w'.length = s.counts.length + 1 := by rw [← hw']; simp
  have hwlen : s.weights.length = s.counts.length := h.wlen
  have hitT : (s.train.map (upd w' (fun id => D id s.counts.length)) ++
      newT.map (mkNew w' ((s.counts.length - 1 : Nat) : Int))).map (·.it)
      = s.train.map (·.it) ++ List.replicate nAdd ((s.counts.length - 1 : Nat) : Int) := by
    rw [List.map_append, List.map_map, List.map_map, ← hin.newT_len]
    congr 1
    rw [List.eq_replicate_iff]
    exact ⟨by simp, fun b hb => by obtain ⟨x, _, rfl⟩ := List.mem_map.mp hb; rfl⟩
  unfold iteration
  rw [addProposalWeight_ok D s h nAdd, hw']
  simp only
  -- training half
  have hnT : newSamples w' ((s.counts.length - 1 : Nat) : Int) newT = .ok (newT.map (mkNew w' _)) :=
    newSamples_eq w' _ newT (fun x hx => by rw [hin.newT_row x hx, rowOf_length, hw'len])
  have huT : updateStore w' colT s.train = .ok (s.train.map (upd w' (fun id => D id s.counts.length))) :=
    updateStore_eq w' colT _ s.train (fun m hm => ⟨hin.colT m hm, by
      rw [(h.train m hm).row, rowOf_length, hwlen, hw'len]⟩)
  have hokT : ∀ m ∈ s.train.map (upd w' (fun id => D id s.counts.length)) ++ newT.map (mkNew w' ((s.counts.length - 1 : Nat) : Int)),
      SampleOk D w' m := by
    intro m hm
    rcases List.mem_append.mp hm with hm | hm
    · obtain ⟨m0, hm0, rfl⟩ := List.mem_map.mp hm
      have := sampleOk_upd D s.weights w' m0 (h.train m0 hm0) (by rw [hw'len, hwlen])
      rwa [hwlen] at this
    · obtain ⟨x, hx, rfl⟩ := List.mem_map.mp hm
      exact sampleOk_mkNew D w' _ x (by rw [hin.newT_row x hx, hw'len])
  unfold addAndUpdateTrain
  simp only [hnT, huT]
  have hsum : (s.counts ++ [nAdd]).sum = s.counts.sum + nAdd := by simp
  cases hiid : s.useIid with
  | false =>
    simp only [Bool.false_eq_true, if_false]
    refine ⟨_, rfl, ?_, rfl, by simp [hin.newT_len], by simp, rfl, hitT, by simp⟩
    refine ⟨by simp [hw'len], ?_, ?_, by simp only; rw [← hw'], hokT, ?_, by simp [hiid], fun _ => h.noIid hiid⟩
    · simp [refSize, hiid, hsum, h.total, hin.newT_len]
    · rw [hsum]; have := h.nonempty; omega
    · intro m hm
      have := h.noIid hiid
      simp [this] at hm
  | true =>
    simp only [if_true]
    have hnI : newSamples w' ((s.counts.length - 1 : Nat) : Int) newI = .ok (newI.map (mkNew w' _)) :=
      newSamples_eq w' _ newI (fun x hx => by rw [hin.newI_row hiid x hx, rowOf_length, hw'len])
    have huI : updateStore w' colI s.iid = .ok (s.iid.map (upd w' (fun id => D id s.counts.length))) :=
      updateStore_eq w' colI _ s.iid (fun m hm => ⟨hin.colI hiid m hm, by
        rw [(h.iid m hm).row, rowOf_length, hwlen, hw'len]⟩)
    have hokI : ∀ m ∈ s.iid.map (upd w' (fun id => D id s.counts.length)) ++ newI.map (mkNew w' ((s.counts.length - 1 : Nat) : Int)),
        SampleOk D w' m := by
      intro m hm
      rcases List.mem_append.mp hm with hm | hm
      · obtain ⟨m0, hm0, rfl⟩ := List.mem_map.mp hm
        have := sampleOk_upd D s.weights w' m0 (h.iid m0 hm0) (by rw [hw'len, hwlen])
        rwa [hwlen] at this
      · obtain ⟨x, hx, rfl⟩ := List.mem_map.mp hm
        exact sampleOk_mkNew D w' _ x (by rw [hin.newI_row hiid x hx, hw'len])
    have hitI : (s.iid.map (upd w' (fun id => D id s.counts.length)) ++
        newI.map (mkNew w' ((s.counts.length - 1 : Nat) : Int))).map (·.it)
        = s.iid.map (·.it) ++ List.replicate nAdd ((s.counts.length - 1 : Nat) : Int) := by
      rw [List.map_append, List.map_map, List.map_map, ← hin.newI_len hiid]
      congr 1
      rw [List.eq_replicate_iff]
      exact ⟨by simp, fun b hb => by obtain ⟨x, _, rfl⟩ := List.mem_map.mp hb; rfl⟩
    unfold addAndUpdateIid
    simp only [hnI, huI]
    refine ⟨_, rfl, ?_, rfl, by simp [hin.newT_len], fun _ => by simp [hin.newI_len hiid], rfl, hitT, fun _ => hitI⟩
    refine ⟨by simp [hw'len], ?_, ?_, by simp only; rw [← hw'], hokT, hokI, ?_, fun hf => by simp [hiid] at hf⟩
    · simp [refSize, hiid, hsum, h.total, hin.newI_len hiid]
    · rw [hsum]; have := h.nonempty; omega
    · intro _
      simp [h.sizes hiid, hin.newT_len, hin.newI_len hiid]

end NessaiVerif.Meta
