"""C07 — reparameterisations are exact bijections with consistent Jacobians and priors."""
import json
import math
from fractions import Fraction
from unittest import mock

import numpy as np

from . import c07_cases as G

PROPS_MODULE = "NessaiVerif.Props.C07"
N_THEOREMS = 42
MANIFEST = dict(
    text="PARTIAL: machine-checked for the affine family and the polar classes, oracle-only for the GW converters. Prime priors of the "
         "polar classes over R: log_2d_cartesian_prior and log_3d_cartesian_prior are GENERATED from nessai/priors.py and proved equal "
         "to original prior minus log|Jacobian| exactly (uniform / sine angle + chi(2) radius; isotropic angles + chi(3) radius: "
         "cartesian2d_prime_prior, cartesian2d_sine_prime_prior, cartesian3d_prime_prior). SOURCE TIE for the primitives: "
         "rescale_zero_to_one, rescale_minus_one_to_one and their inverses are translated from the current source on every run "
         "(harness/pylog2lean.py -> Gen/RescaleTx.lean) and rescale_primitives_source_eq_model re-proves them equal to the "
         "model's primitives for every field and argument; determine_rescaled_bounds (prime-prior bounds: every branch on inversion and edge, offset, rescale bounds, both ValueErrors) is translated in continuation style and determine_rescaled_bounds_source_eq_model re-proves it equal to determineRescaledBounds. "
         "Lean theorems (%d, any linearly ordered field, hence Q and R) about an executable model of ScaleAndShift/Rescale, "
         "RescaleToBounds (rescale_bounds, offset, update_bounds, pre/post hooks as parameters, boundary inversion "
         "lower/upper/both/none x split/duplicate with sign bit and edge decision as inputs), rescale_zero_to_one / "
         "minus_one_to_one, determine_rescaled_bounds, Null, CombinedReparameterisation and FlowProposal.rescale/inverse_rescale: "
         "round trip, J_fwd*J_inv = 1 AND both factors > 0 (so the two log-Jacobians are finite negatives) under the exact guard "
         "b0 < b1 etc., on the whole prior box (bounds included) for the constructor's state and on the data range of the "
         "reflecting side after update(); J constant = absolute slope; non-sampling fields untouched; one `Lawful` notion closed "
         "under composition of any list in either order; stored prime-prior bounds = image of the prior interval (plain, "
         "inversion off/lower/upper) and prime prior = prior/J up to a constant for a uniform prior; machine-checked "
         "counter-examples where the code breaks the property (edge 'both', points outside the data range after update, "
         "reversed rescale bounds, decreasing pre-rescaling => negative factor / NaN log_j). Over R (Mathlib, statements about "
         "the model functions): logit/sigmoid, log/exp (round trip, log-Jacobians negatives, HasDerivAt = exp(log_j)); the "
         "registered logit / log-rescale objects end to end on the open interval / (p0, p1]; chain rule for RescaleToBounds with "
         "differentiable hooks; Angle / ToCartesian / AnglePair round trip (Complex.arg incl. the %% 2pi branch) and "
         "log|det J| = log_j + const (const = log|scale|, log pi, 0). Tie, every run: the real classes from "
         "get_reparameterisation / get_gw_reparameterisation for every registered name of the affine family x option values, "
         "single and combined (both orders), before/after update(), on dyadic points (bounds, one ulp inside, interior, just "
         "outside) compared row by row with the exact Rat result of the Lean driver (values within 16 ulp of the conditioned "
         "magnitude, log-Jacobian vs log of the exact factor 1e-12, internal bounds/offset/prime-prior bounds); plus "
         "determine_rescaled_bounds and the four rescaling utilities directly. ORACLE ONLY (numeric, no tie to a Lean model): "
         "logit, log-rescale, pre_rescaling log/exp/logit, Angle (angle, angle-pi, angle-2pi, periodic), ToCartesian, AnglePair "
         "(angle-pair, sky-ra-dec, sky-az-zen), distance with power-law prior, delta_phase, and the FlowProposal layer." % N_THEOREMS,
    note="Oracle = round trip 1e-9, non-sampling fields bitwise, log_j_fwd = -log_j_inv, log_j minus 5-point finite-difference "
         "log|det| constant 1e-5, prime prior = prior/J up to a constant with the same support. NOT SHOWN in Lean: prime priors of "
         "the polar classes and of the GW converters, the GW converters themselves (co-moving-volume lookup table not covered at "
         "all), DeltaPhase, detect_edge's histogram decision (an input), float rounding. np.random.choice and chi.rvs are scripted.",
    technique="Lean 4 proof over ordered fields / R + source-to-Lean translation of the affine rescaling primitives re-proved "
              "equal to the model on every run + exact-rational differential correspondence + numeric oracle",
    ref="5/C07")

EPS = 2.0 ** -52
NS_VALUES = {"logP": -2.25, "logL": 1.5, "it": 7}
BOUND_ROUNDING_KEY = "RescaleToBounds.update_prime_prior_bounds:prime-prior-support:bound-rounding"


# ----------------------------------------------------------------------------------------------- helpers
def gen(ctx):
    """regenerate Gen/RescaleTx.lean: the four affine rescaling primitives of nessai/utils/rescaling.py translated from the
    current source (harness/pylog2lean.py: the returned log-Jacobian is a log-domain number, i.e. the Jacobian FACTOR of
    the model); C07.rescale_primitives_source_eq_model is re-proved on every run."""
    from . import core, py2lean, pylog2lean as P
    parts, infos = [], {}
    try:
        for f in ("rescale_zero_to_one", "inverse_rescale_zero_to_one", "rescale_minus_one_to_one",
                  "inverse_rescale_minus_one_to_one"):
            sp = P.FnSpec(source="nessai/utils/rescaling.py", func=f, name=f,
                          params=[("x", "x", P.LIN), ("xmin", "xmin", P.LIN), ("xmax", "xmax", P.LIN)], returns=[P.LIN, P.LOG],
                          doc="returns (value, Jacobian factor = exp of the returned log-Jacobian)")
            lean, info = P.translate_fn(core.REPO, sp)
            parts.append(lean)
            infos[f] = info
        for f, ps, df in (("log_2d_cartesian_prior", ["x", "y", "k"], ["np.pi"]), ("log_3d_cartesian_prior", ["x", "y", "z"], [])):
            sp = P.FnSpec(source="nessai/priors.py", func=f, name=f, params=[(q, q, P.LIN) for q in ps], returns=[P.LIN],
                          defaults=df, atoms={"np.pi": "pi"},
                          doc="prime-space prior of the polar reparameterisations; `lg` the logarithm, `pi` the constant np.pi")
            lean, info = P.translate_fn(core.REPO, sp)
            parts.append(lean)
            infos[f] = info
        sp = P.CpsSpec(
            source="nessai/utils/rescaling.py", func="determine_rescaled_bounds", name="determine_rescaled_bounds",
            params=[("prior_min", "(prior_min : K)", P.LIN), ("prior_max", "(prior_max : K)", P.LIN), ("x_min", "(x_min : K)", P.LIN),
                    ("x_max", "(x_max : K)", P.LIN), ("invert", "(invert : Edge)", "OTHER"), ("inversion", "(inversion : Bool)", "BOOL"),
                    ("offset", "(offset : K)", P.LIN), ("rescale_bounds", "(r0 r1 : K)", "OTHER")],
            conds={"x_min == x_max": "x_min = x_max", "not inversion": "inversion = false",
                   "invert": "(invert ≠ Edge.unset ∧ invert ≠ Edge.off)",
                   "not invert or invert is None": "(invert = Edge.unset ∨ invert = Edge.off)",
                   "invert == 'upper'": "invert = Edge.upper", "invert == 'lower'": "invert = Edge.lower",
                   "invert == 'both'": "invert = Edge.both"},
            atoms={"rescale_bounds[0]": "r0", "rescale_bounds[1]": "r1"},
            doc="`invert`: None / False / 'lower' / 'upper' / 'both' / any other string (`Edge`); `none` = ValueError")
        lean, info = P.translate_cps(core.REPO, sp)
        parts.append(lean)
        infos["determine_rescaled_bounds"] = info
    except py2lean.TranslationError as e:
        ctx.broken(f"translator: {e}", "Gen/RescaleTx.lean was left as it was (the theorem is about the last translatable source)")
        return
    except (OSError, SyntaxError) as e:
        ctx.broken(f"translator: cannot read/parse the source: {e}")
        return
    text = ("import NessaiVerif.Model.Reparam\n"
            "/-\nGENERATED by harness/pylog2lean.py (harness/c07.py gen) from the CURRENT nessai source — do not edit.\n"
            "C07: affine rescaling primitives of nessai/utils/rescaling.py.\n-/\n"
            "namespace NessaiVerif.Gen.RescaleTx\nopen NessaiVerif.Reparam\n\n"
            "variable {K : Type} [Add K] [Sub K] [Mul K] [Div K] [Neg K] [OfNat K 0] [OfNat K 1] [NatCast K] [DecidableEq K]\n\n"
            + "\n".join(parts) + "\nend NessaiVerif.Gen.RescaleTx\n")
    rewritten = py2lean.write_if_changed(core.LEAN / "NessaiVerif" / "Gen" / "RescaleTx.lean", text)
    ctx.extra["generated"] = dict(infos, rewritten=rewritten)


def F(v):
    return Fraction(float(v))


def rat(v):
    if v is None:
        return "none"
    f = v if isinstance(v, Fraction) else Fraction(float(v))
    return str(f.numerator) if f.denominator == 1 else f"{f.numerator}/{f.denominator}"


def parse_rat(s):
    if "/" in s:
        p, q = s.split("/")
        return Fraction(int(p), int(q))
    return Fraction(int(s))


def parse_list(s):
    s = s.strip()
    assert s[0] == "[" and s[-1] == "]", s
    body = s[1:-1]
    return [parse_rat(t) for t in body.split(",")] if body else []


def parse_run(out):
    """ok xp=[..] jf=.. xb=[..] ji=.. info=[a;b] -> dict"""
    if not out.startswith("ok "):
        return {"err": out}
    d = {}
    for tok in out[3:].split(" "):
        k, v = tok.split("=", 1)
        d[k] = v
    infos = d["info"][1:-1].split(";") if d["info"] != "[]" else []
    return {"xp": parse_list(d["xp"]), "jf": parse_rat(d["jf"]), "xb": parse_list(d["xb"]),
            "ji": parse_rat(d["ji"]), "info": infos}


def live_points(names, rows):
    from nessai.livepoint import numpy_array_to_live_points
    arr = np.array(rows, dtype=float).reshape(len(rows), len(names))
    x = numpy_array_to_live_points(arr, list(names))
    for k, v in NS_VALUES.items():
        x[k] = v
    return x


def ns_bytes(x):
    from nessai import config
    return b"".join(np.ascontiguousarray(x[p]).tobytes() for p in config.livepoints.non_sampling_parameters)


def exc_name(e):
    if isinstance(e, AttributeError):
        return "err=attr"
    if isinstance(e, ValueError):
        return "err=value"
    if isinstance(e, RuntimeError):
        return "err=runtime"
    return "err=" + type(e).__name__


class Scripted:
    """stand-in for np.random.choice(n, k, replace=False): index sets drawn from the harness PRNG and recorded"""

    def __init__(self, rng, force=None):
        self.rng, self.calls, self.force = rng, [], force

    def __call__(self, n, k=None, replace=True, p=None):
        if self.force is not None:
            idx = list(range(n)) if self.force else []
        else:
            idx = sorted(self.rng.sample(range(n), k))
        self.calls.append((n, idx))
        return np.array(idx, dtype=int)


class FakeChi:
    """scripted radial draws; logpdf of the real distribution"""

    def __init__(self, real, values):
        self.real, self.values = real, np.asarray(values, dtype=float)

    def rvs(self, size=1):
        assert size % self.values.size == 0, (size, self.values.size)   # duplicated rows draw again: same script
        return np.tile(self.values, size // self.values.size)

    def logpdf(self, x):
        return self.real.logpdf(x)


# ----------------------------------------------------------------------------------------------- building
def decode_kwargs(kw):
    out = {}
    for k, v in kw.items():
        if isinstance(v, list) and v and v[0] == "affine":
            a, b = float(v[1]), float(v[2])
            out[k] = ((lambda x, a=a, b=b: (a * x + b, np.zeros_like(x) + math.log(abs(a)))),
                      (lambda y, a=a, b=b: ((y - b) / a, np.zeros_like(y) - math.log(abs(a)))))
        else:
            out[k] = v
    return out


def build_real(spec, bounds):
    from nessai.reparameterisations import get_reparameterisation
    if spec.get("gw"):
        from nessai.gw.reparameterisations import get_gw_reparameterisation as getter
    else:
        getter = get_reparameterisation
    rc, kw = getter(spec["name"])
    kw = dict(kw)
    kw.update(decode_kwargs(spec.get("kwargs", {})))
    params = spec["parameters"]
    pb = {p: np.array(bounds[p], dtype=float) for p in params}
    return rc(parameters=(list(params) if not spec.get("str_param") else params[0]), prior_bounds=pb, **kw), rc, kw


def merged_kwargs(spec):
    from nessai.reparameterisations import get_reparameterisation
    if spec.get("gw"):
        from nessai.gw.reparameterisations import get_gw_reparameterisation as getter
    else:
        getter = get_reparameterisation
    rc, kw = getter(spec["name"])
    kw = dict(kw)
    kw.update(spec.get("kwargs", {}))
    return rc, kw


def per_param(value, params, p):
    if isinstance(value, dict):
        return value.get(p)
    if isinstance(value, (list, tuple)):
        return value[params.index(p)]
    return value


def hook_tok(v):
    if v is None:
        return "none"
    assert v[0] == "affine"
    return f"[{rat(v[1])},{rat(v[2])}]"


def exact_sqrt(fr):
    if fr < 0:
        return None
    p, q = fr.numerator, fr.denominator
    a, b = math.isqrt(p), math.isqrt(q)
    return Fraction(a, b) if a * a == p and b * b == q else None


def model_group(spec, bounds, names, data, test, neg):
    """one inner list of `rp run` for one reparameterisation object; neg: {param: bit} for this row"""
    rc, kw = merged_kwargs(spec)
    cls = rc.__name__
    params = spec["parameters"]
    toks = []
    for p in params:
        i = names.index(p)
        col = None if data is None else [row[i] for row in data]
        if cls == "NullReparameterisation":
            toks.append(f"[null,{i}]")
        elif cls in ("ScaleAndShift", "Rescale"):
            es, esh = bool(kw.get("estimate_scale", False)), bool(kw.get("estimate_shift", False))
            scale, shift = kw.get("scale"), kw.get("shift")
            sc = None if scale is None else per_param(scale, params, p)
            sh = None if not shift else per_param(shift, params, p)
            wit = "none"
            dtok = "none"
            if col is not None and (es or esh):
                fr = [F(v) for v in col]
                m = sum(fr) / len(fr)
                var = sum((v - m) ** 2 for v in fr) / len(fr)
                w = exact_sqrt(var)
                assert w is not None or not es, "generator must give data with a rational std"
                wit = rat(w if w is not None else 0)
                dtok = "[" + ",".join(rat(v) for v in fr) + "]"
            toks.append(f"[ss,{i},{rat(sc)},{rat(sh)},{int(es)},{int(esh)},{dtok},{wit}]")
        elif cls in ("RescaleToBounds", "DistanceReparameterisation"):
            rb = kw.get("rescale_bounds")
            rbp = None if rb is None else (rb[p] if isinstance(rb, dict) else rb)
            bi = kw.get("boundary_inversion")
            itype = kw.get("inversion_type", "split")
            if isinstance(bi, list):
                inv = itype if p in bi else None
            elif isinstance(bi, dict):
                inv = bi.get(p)
            elif bi:
                inv = itype
            else:
                inv = None
            det = bool(kw.get("detect_edges", False))
            pre, post = kw.get("pre_rescaling"), kw.get("post_rescaling")
            if cls == "DistanceReparameterisation":
                pre = ["affine", 1.0, 0.0]   # NullDistanceConverter: identity callables, log-Jacobian 0
            b = bounds[p]
            toks.append(
                f"[rtb,{i},{rat(b[0])},{rat(b[1])},"
                + ("none" if rbp is None else f"[{rat(rbp[0])},{rat(rbp[1])}]")
                + f",{inv or 'none'},{int(bool(bi))},{int(det)},{int(bool(kw.get('offset', False)))},"
                  f"{int(bool(kw.get('update_bounds', True)))},{hook_tok(pre)},{hook_tok(post)},0,"
                  f"{int(kw.get('prior') == 'uniform')},"
                + ("none" if col is None else "[" + ",".join(rat(v) for v in col) + "]")
                + f",{G.EDGE_TOK[effective_test(cls, test)]},{int(bool(neg.get(p, 0)))}]")
        else:
            raise AssertionError(cls)
    return "[" + ",".join(toks) + "]"


def effective_test(cls, test):
    """DistanceReparameterisation restricts detect_edge to allowed_bounds=['upper']: a 'lower' request returns False"""
    if cls == "DistanceReparameterisation" and test == "lower":
        return False
    return test


def inverting_params(spec, test):
    """parameters of this object whose forward call reflects (draws indices / duplicates rows)"""
    rc, kw = merged_kwargs(spec)
    test = effective_test(rc.__name__, test)
    if rc.__name__ not in ("RescaleToBounds", "DistanceReparameterisation") or not test:
        return []
    bi = kw.get("boundary_inversion")
    itype = kw.get("inversion_type", "split")
    out = []
    for p in spec["parameters"]:
        if isinstance(bi, list):
            t = itype if p in bi else None
        elif isinstance(bi, dict):
            t = bi.get(p)
        elif bi:
            t = itype
        else:
            t = None
        if t:
            out.append((p, t))
    return out


# ----------------------------------------------------------------------------------------------- exact family
def run_exact(ctx, case, rng):
    """Run the real objects of one exact-family case; returns per-row records or an error string."""
    from nessai.reparameterisations import CombinedReparameterisation
    from nessai.livepoint import empty_structured_array
    names, bounds = case["names"], case["bounds"]
    objs = []
    try:
        for spec in case["reparams"]:
            objs.append(build_real(spec, bounds)[0])
    except Exception as e:  # noqa
        return exc_name(e), None
    single = len(objs) == 1 and not case.get("combined")
    if single:
        top = objs[0]
        order = [0]
    else:
        top = CombinedReparameterisation(reverse_order=case["reverse"])
        for o in objs:
            top.add_reparameterisations(o)
        keys = list(top.keys())
        order = [next(i for i, o in enumerate(objs) if o.name == k) for k in keys]
        if case["reverse"]:
            order = order[::-1]
    data = case.get("update")
    x = live_points(names, case["points"])
    x_before = x.copy()
    test = case["test"]
    compute_radius = case.get("compute_radius", False)
    script = Scripted(rng)
    try:
        if data is not None:
            top.update(live_points(names, data))
        prime = []
        for i in order:
            prime += [pp for pp in objs[i].prime_parameters if pp not in prime]
        xp = empty_structured_array(x.size, names=prime)
        kwargs = dict(test=test) if case.get("pass_test", True) else {}
        if compute_radius:
            kwargs["compute_radius"] = True
        with mock.patch("numpy.random.choice", script):
            x1, xp1, lj1 = top.reparameterise(x, xp, np.zeros(x.size), **kwargs)
        xin = empty_structured_array(xp1.size, names=list(names))
        for k, v in NS_VALUES.items():
            xin[k] = v
        xin_ns = ns_bytes(xin)
        xp_keep = xp1.copy()
        x2, xp2, lj2 = top.inverse_reparameterise(xin, xp1, np.zeros(xp1.size))
    except Exception as e:  # noqa
        return exc_name(e), None
    # ---- which source point / sign bits does each output row carry
    n = len(case["points"])
    src = list(range(n))
    bits = [dict() for _ in range(n)]
    calls = iter(script.calls)
    for i in order:
        for p, t in inverting_params(case["reparams"][i], test):
            if t == "duplicate" or compute_radius:
                src = src + src
                bits = [dict(b, **{p: 0}) for b in bits] + [dict(b, **{p: 1}) for b in bits]
            else:
                size, idx = next(calls)
                assert size == len(src)
                for r in range(len(src)):
                    bits[r][p] = int(r in idx)
    if len(src) != xp1.size:
        return "err=rows", None
    rec = dict(objs=objs, order=order, x_in=x_before, x1=x1, xp1=xp1, xp_keep=xp_keep, xp2=xp2, lj1=np.asarray(lj1),
               x2=x2, lj2=np.asarray(lj2), src=src, bits=bits, xin_ns=xin_ns, top=top)
    return "ok", rec


def prime_name(obj, p):
    return obj.prime_parameters[obj.parameters.index(p)]


def exact_case(ctx, case, rng, lines, pend):
    """real run + oracle; queues the model lines for the tie"""
    names, bounds = case["names"], case["bounds"]
    status, rec = run_exact(ctx, case, rng)
    kind = case["kind"]
    if rec is None:
        # the model must reject / fail in the same way
        groups = "[" + ",".join(model_group(s, bounds, names, case.get("update"), case["test"], {})
                                for s in case["reparams"]) + "]"
        lines.append(f"rp run {int(case['reverse'])} {groups} [{','.join(rat(v) for v in case['points'][0])}]")
        pend.append(("err", status, case, None))
        ctx.case(("exact-err", json.dumps(case, sort_keys=True, default=str)), False, None, kind=kind + ":" + status)
        return
    objs, order = rec["objs"], rec["order"]
    owner = {}
    for i in order:
        for p in case["reparams"][i]["parameters"]:
            owner[p] = i
    # -------- oracle on the real outputs
    regular = case.get("regular", True)
    key = case["site"]
    x_in, x1, x2 = rec["x_in"], rec["x1"], rec["x2"]
    src = rec["src"]
    if regular:
        rows = np.array(src)
        if ns_bytes(x1) != ns_bytes(x_in[rows]) or rec["xin_ns"] != ns_bytes(x2):
            ctx.oracle_fail(key + ":non-sampling", "non-sampling fields (logP, logL, it) changed by the reparameterisation", case)
        for p in names:
            if not np.array_equal(x1[p], x_in[p][rows]):
                ctx.oracle_fail(key + ":forward-mutates-x", f"reparameterise changed the input parameter {p}", case)
        if not all(np.array_equal(rec["xp_keep"][f], rec["xp2"][f], equal_nan=True) for f in rec["xp_keep"].dtype.names):
            ctx.oracle_fail(key + ":inverse-mutates-x-prime", "inverse_reparameterise changed x_prime", case)
        for p in owner:
            b = bounds[p]
            tol = 64 * EPS * max(1.0, abs(b[0]), abs(b[1]))
            bad = np.abs(x2[p] - x_in[p][rows]) > tol
            if np.any(bad) or not np.all(np.isfinite(x2[p])):
                r = int(np.argmax(bad)) if np.any(bad) else int(np.argmin(np.isfinite(x2[p])))
                ctx.oracle_fail(key + ":roundtrip",
                                f"{p}: x={float(x_in[p][rows][r])!r} -> x'={float(rec['xp1'][prime_name(objs[owner[p]], p)][r])!r} "
                                f"-> x={float(x2[p][r])!r} (bits {rec['bits'][r]})", dict(case, row=r))
        ljt = 1e-12 * np.maximum(1.0, np.abs(rec["lj1"]))
        if np.any(~(np.abs(rec["lj1"] + rec["lj2"]) <= ljt)):
            r = int(np.argmax(~(np.abs(rec["lj1"] + rec["lj2"]) <= ljt)))
            ctx.oracle_fail(key + ":jacobian-inverse",
                            f"log_j forward {float(rec['lj1'][r])!r} is not minus log_j inverse {float(rec['lj2'][r])!r}",
                            dict(case, row=r))
        prime_prior_oracle(ctx, case, rec, owner)
    # -------- model lines, one per output row
    for r, s in enumerate(src):
        groups = "[" + ",".join(model_group(sp, bounds, names, case.get("update"), case["test"], rec["bits"][r])
                                for sp in (case["reparams"][i] for i in (order if not case["reverse"] else order[::-1]))) + "]"
        lines.append(f"rp run {int(case['reverse'])} {groups} [{','.join(rat(v) for v in case['points'][s])}]")
        pend.append(("row", r, case, rec))
    nontrivial = regular and len(case["points"]) > 0
    ctx.case(("exact", json.dumps(case, sort_keys=True, default=str)), nontrivial,
             dict(site=case["site"], kind=kind, reparams=case["reparams"], bounds=bounds, test=str(case["test"]),
                  update=case.get("update") is not None, n_points=len(case["points"])), kind=kind)


def prime_prior_oracle(ctx, case, rec, owner):
    """where a prime prior is offered: finite on the image of the prior box, -inf off it, and
    log p'(x') + log_j(x) constant across points (uniform original prior)"""
    top = rec["top"]
    if not getattr(top, "has_prime_prior", False):
        return
    key = case["site"]
    try:
        lp = np.asarray(top.x_prime_log_prior(rec["xp_keep"].copy()), dtype=float)
    except Exception as e:  # noqa
        ctx.oracle_fail(key + ":prime-prior-raises", f"x_prime_log_prior raised {type(e).__name__}: {e}", case)
        return
    inside = np.ones(len(rec["src"]), dtype=bool)
    strictly_out = np.zeros(len(rec["src"]), dtype=bool)
    for p in owner:
        b = case["bounds"][p]
        v = rec["x_in"][p][np.array(rec["src"])]
        inside &= (v >= b[0]) & (v <= b[1])
        strictly_out |= (v < b[0]) | (v > b[1])
    bad_rows = np.flatnonzero(inside & ~np.isfinite(lp))
    if bad_rows.size:
        # a point AT a prior bound whose image misses the reported prime bound by a few ulp is the float-rounding
        # finding (two different operation orders); everything else is a plain support violation
        def rounding_only(r):
            missed = 0
            for p in owner:
                obj = rec["objs"][owner[p]]
                ppb = getattr(obj, "prime_prior_bounds", None)
                if not ppb:
                    continue
                pp = prime_name(obj, p)
                v = float(rec["xp_keep"][pp][r])
                lo, hi = float(ppb[pp][0]), float(ppb[pp][1])
                if lo <= v <= hi:
                    continue
                b = case["bounds"][p]
                xs = float(rec["x_in"][p][rec["src"][r]])
                at_bound = min(abs(xs - b[0]), abs(xs - b[1])) <= 2 * EPS * max(abs(b[0]), abs(b[1]), 1e-300)
                miss = (lo - v) if v < lo else (v - hi)
                if not (at_bound and miss <= 8 * EPS * max(abs(lo), abs(hi), 1.0)):
                    return False
                missed += 1
            return missed > 0     # inside every reported closed interval and still -inf: not a rounding matter
        hard = [int(r) for r in bad_rows if not rounding_only(int(r))]
        r = hard[0] if hard else int(bad_rows[0])
        ctx.oracle_fail((key + ":prime-prior-support") if hard else BOUND_ROUNDING_KEY,
                        f"a point of the prior box has prime-space log-prior {lp[r]!r}: x={case['points'][rec['src'][r]]} "
                        f"x'={[float(rec['xp_keep'][f][r]) for f in rec['xp_keep'].dtype.names if f not in NS_VALUES]} "
                        f"bits={rec['bits'][r]} prime_prior_bounds="
                        f"{[{k: [float(v[0]), float(v[1])] for k, v in (getattr(o, 'prime_prior_bounds', None) or {}).items()} for o in rec['objs']]}",
                        dict(case, row=r))
    if case.get("check_outside", True) and np.any(strictly_out & np.isfinite(lp)):
        r = int(np.argmax(strictly_out & np.isfinite(lp)))
        ctx.oracle_fail(key + ":prime-prior-support-outside",
                        f"a point outside the prior box has a finite prime-space log-prior: x={case['points'][rec['src'][r]]}",
                        dict(case, row=r))
    ok = inside & np.isfinite(lp)
    if np.any(ok):
        c = (lp + rec["lj1"])[ok]
        if np.max(c) - np.min(c) > 1e-9 * max(1.0, np.max(np.abs(c))):
            ctx.oracle_fail(key + ":prime-prior-density",
                            "log p'(x') + log_j(x) is not constant across the prior box although the original prior is uniform "
                            f"(spread {float(np.max(c) - np.min(c))!r})", case)


def close_ulps(v, exact, ref, k=16):
    if not math.isfinite(v):
        return False
    return abs(Fraction(v) - exact) <= Fraction(k * EPS) * Fraction(max(abs(float(exact)), ref, 1e-300))


def compare_exact(ctx, out, tag, payload, case, rec):
    m = parse_run(out)
    names, bounds = case["names"], case["bounds"]
    if tag == "err":
        if m.get("err") != payload:
            ctx.disagree("exact family: error behaviour differs", {"model": out, "impl": payload, "case": case})
        return
    r = payload
    if "err" in m:
        ctx.disagree("exact family: model rejects what the implementation runs", {"model": out, "case": case, "row": r})
        return
    s = rec["src"][r]
    objs = rec["objs"]
    infos = iter(m["info"])
    order = rec["order"] if not case["reverse"] else rec["order"][::-1]
    # info tokens come in the order of the groups as written = creation order of `order`
    for i in order:
        obj = objs[i]
        for p in case["reparams"][i]["parameters"]:
            info = next(infos).split(":")
            idx = names.index(p)
            pp = prime_name(obj, p)
            b = bounds[p]
            x = case["points"][s][idx]
            xp_i = float(rec["xp1"][pp][r])
            xb_i = float(rec["x2"][p][r])
            big = max(abs(b[0]), abs(b[1]), abs(x), 1.0)
            if info[0] == "rtb":
                b0, b1, off, fac, sh = (parse_rat(t) for t in info[1:6])
                st = [(float(obj.bounds[p][0]), b0), (float(obj.bounds[p][1]), b1), (float(obj.offsets[p]), off),
                      (float(obj._rescale_factor[p]), fac), (float(obj._rescale_shift[p]), sh)]
                for v, e in st:
                    if not close_ulps(v, e, big, 8):
                        ctx.disagree("RescaleToBounds state (bounds/offset/factor/shift) differs from the model",
                                     {"model": out, "impl": [a for a, _ in st], "case": case, "param": p})
                        return
                width = abs(float(b1 - b0)) or 1.0
                cond = (abs(float(b0)) + abs(float(b1)) + abs(float(off)) + big) / width
                hk = 1.0
                for hname in ("pre_rescaling", "post_rescaling"):
                    h = merged_kwargs(case["reparams"][i])[1].get(hname)
                    if h:
                        hk *= max(abs(h[1]), 1 / abs(h[1]), 1.0) * (1 + abs(h[2]))
                ref_f = (abs(float(fac)) * cond + abs(float(sh)) + 2.0) * hk
                ref_b = (big * 4 + abs(float(off)) + width) * hk * max(1.0, cond)
                pbtok = info[6:]
                if getattr(obj, "has_prime_prior", False) != (pbtok != ["none"]):
                    ctx.disagree("has_prime_prior differs", {"model": out, "case": case, "param": p})
                elif pbtok not in (["none"], ["err"]):
                    lo, hi = parse_rat(pbtok[0]), parse_rat(pbtok[1])
                    got = obj.prime_prior_bounds[pp]
                    if not (close_ulps(float(got[0]), lo, ref_f) and close_ulps(float(got[1]), hi, ref_f)):
                        ctx.disagree("prime_prior_bounds differ from the model",
                                     {"model": out, "impl": [float(got[0]), float(got[1])], "case": case, "param": p})
            elif info[0] == "ss":
                sc = parse_rat(info[1]) if info[1] != "none" else None
                shf = parse_rat(info[2]) if info[2] != "none" else Fraction(0)
                isc = float(obj.scale[p])
                ish = float(obj.shift[p]) if obj.shift else 0.0
                if sc is None or not close_ulps(isc, sc, 0.0, 8) or not close_ulps(ish, shf, abs(float(shf)), 8):
                    ctx.disagree("ScaleAndShift scale/shift differ from the model",
                                 {"model": out, "impl": [isc, ish], "case": case, "param": p})
                    return
                ref_f = (abs(x) + abs(float(shf))) / abs(float(sc)) if sc else 1.0
                ref_b = big + abs(float(shf))
            else:
                ref_f = ref_b = big
            if not close_ulps(xp_i, m["xp"][idx], ref_f):
                ctx.disagree("forward value differs from the exact model value by more than 16 ulp",
                             {"model": out, "impl_x_prime": xp_i, "param": p, "row": r, "case": case})
            if not close_ulps(xb_i, m["xb"][idx], ref_b):
                ctx.disagree("inverse value differs from the exact model value by more than 16 ulp",
                             {"model": out, "impl_x_back": xb_i, "param": p, "row": r, "case": case})
    for nm, impl, ex in (("forward", float(rec["lj1"][r]), m["jf"]), ("inverse", float(rec["lj2"][r]), m["ji"])):
        if ex > 0:
            want = math.log(ex.numerator) - math.log(ex.denominator)
            if not (abs(impl - want) <= 1e-12 * max(1.0, abs(want))):
                ctx.disagree(f"{nm} log-Jacobian differs from log of the exact model factor",
                             {"model": out, "impl_log_j": impl, "want": want, "row": r, "case": case})
        elif math.isfinite(impl):
            ctx.disagree(f"{nm} log-Jacobian is finite although the model factor is not positive",
                         {"model": out, "impl_log_j": impl, "row": r, "case": case})


# ----------------------------------------------------------------------------------------------- utils tie
def utils_tie(ctx, rng):
    from nessai.utils import rescaling as R
    fns = {"z2o": R.rescale_zero_to_one, "iz2o": R.inverse_rescale_zero_to_one,
           "m2o": R.rescale_minus_one_to_one, "im2o": R.inverse_rescale_minus_one_to_one}
    lines, chk = [], []
    n = ctx.scale(600, 6000)
    for _ in range(n):
        a, b = G.dyadic(rng, 8), G.dyadic(rng, 8)
        if a == b:
            continue
        x = rng.choice([a, b, G.dyadic(rng, 8), np.nextafter(a, b), np.nextafter(b, a)])
        which = rng.choice(sorted(fns))
        with np.errstate(all="ignore"):
            v, lj = fns[which](np.array([x]), a, b)
        lines.append(f"rp util {which} {rat(x)} {rat(a)} {rat(b)}")
        chk.append(("util", which, float(v[0]), float(lj), (x, a, b)))
        ctx.case(("util", which, x, a, b), True, None, kind="util:" + which)
    edges = [None, False, "lower", "upper", "both", "sideways"]
    for _ in range(n):
        pmin, w = G.dyadic(rng, 8), abs(G.dyadic(rng, 6)) + 0.25
        pmax = pmin + w
        xmin = rng.choice([pmin, pmin + w / 4, pmin])
        xmax = rng.choice([pmax, pmax - w / 4, pmax, xmin])
        inv = rng.choice(edges)
        inversion = rng.random() < 0.6
        off = rng.choice([0.0, 0.0, G.dyadic(rng, 4)])
        r0 = rng.choice([-1.0, 0.0, G.dyadic(rng, 4)])
        r1 = r0 + rng.choice([1.0, 2.0, 2.5, 10.0])
        try:
            lo, hi = R.determine_rescaled_bounds(pmin, pmax, xmin, xmax, invert=inv, inversion=inversion,
                                                 offset=off, rescale_bounds=[r0, r1])
            impl = ("ok", float(lo), float(hi))
        except ValueError:
            impl = ("err=value",)
        tok = G.EDGE_TOK.get(inv, "other")
        lines.append(f"rp drb {rat(pmin)} {rat(pmax)} {rat(xmin)} {rat(xmax)} {tok} {int(inversion)} {rat(off)} {rat(r0)} {rat(r1)}")
        chk.append(("drb", impl, (pmin, pmax, xmin, xmax, str(inv), inversion, off, r0, r1)))
        ctx.case(("drb", pmin, pmax, xmin, xmax, str(inv), inversion, off, r0, r1), impl[0] == "ok", None,
                 kind="drb:" + ("err" if impl[0] != "ok" else tok))
    outs = ctx.model(lines)
    for line, out, c in zip(lines, outs, chk):
        if c[0] == "util":
            _, which, v, lj, (x, a, b) = c
            t = out.split(" ")
            ok = t[0] == "ok"
            if ok:
                ev, ej = parse_rat(t[1]), parse_rat(t[2])
                ref = (abs(x) + abs(a) + abs(b)) * max(1.0, 1.0 / abs(b - a), abs(b - a)) + 2.0
                ok = close_ulps(v, ev, ref, 16)
                if ej > 0:
                    ok = ok and abs(lj - (math.log(ej.numerator) - math.log(ej.denominator))) <= 1e-12 * max(1, abs(lj))
                else:
                    ok = ok and not math.isfinite(lj)
            if not ok:
                ctx.disagree("rescaling utility differs from the model", {"line": line, "model": out, "impl": [v, lj]})
        else:
            _, impl, args = c
            t = out.split(" ")
            if impl[0] != "ok" or t[0] != "ok":
                if impl[0] != t[0]:
                    ctx.disagree("determine_rescaled_bounds: error behaviour differs", {"line": line, "model": out, "impl": impl})
                continue
            ref = (abs(args[0]) + abs(args[1]) + abs(args[6]) + 1) * (abs(args[8] - args[7]) + 1) / abs(args[3] - args[2]) + abs(args[7]) + 2
            if not (close_ulps(impl[1], parse_rat(t[1]), ref, 16) and close_ulps(impl[2], parse_rat(t[2]), ref, 16)):
                ctx.disagree("determine_rescaled_bounds differs from the model", {"line": line, "model": out, "impl": impl})


# ----------------------------------------------------------------------------------------------- correspond
def correspond(ctx):
    from . import c07_oracle as O
    ctx.rule = ("exact family: real classes from get_reparameterisation(name) / get_gw_reparameterisation(name) for every "
                "registered name of the affine family x option values (rescale_bounds None/list/dict, offset, update_bounds, "
                "boundary_inversion bool/list/dict x split/duplicate, detect_edges, prior, affine pre/post hooks, scale/shift "
                "number/list/dict, z-score estimation), single objects and CombinedReparameterisation (both orders), before and "
                "after update(data), edge decision test in {lower, upper, both, False}, sign indices scripted from ctx.rng, on "
                "dyadic points (both bounds, one ulp inside, interior, and outside the data range after update); every output "
                "row is compared with the exact Rat result of the Lean driver (values within 16 ulp of the conditioned "
                "magnitude, log-Jacobian vs log of the exact factor 1e-12, state bounds/offset/prime-prior bounds); "
                "non-trivial = distinct regular case with >= 1 point. Transcendental family (logit, log, exp, Angle, "
                "ToCartesian, AnglePair, power-law distance, delta phase): numeric oracle only.")
    ctx.assume("np.random.choice / chi.rvs are scripted: the sign bit and the radial draw are inputs of the model",
               "detect_edge's histogram decision is an input (`test=`), not modelled",
               "float rounding is outside the theorems: the tie allows 16 ulp of the conditioned magnitude",
               "original prior taken as uniform on the box wherever RescaleToBounds(prior='uniform') offers a prime prior")
    ctx.trust("hand-written model Model/Reparam.lean; tie = this correspondence (exact Rat vs float within ulps)",
              "NumPy elementwise float64 arithmetic; mpmath/math.log for the log of the exact factor",
              "finite-difference Jacobians (5-point stencil) in the transcendental oracle")
    rng = ctx.rng
    utils_tie(ctx, rng)
    lines, pend = [], []
    for case in G.corpus_cases():
        exact_case(ctx, case, rng, lines, pend)
    for case in G.exact_cases(ctx, rng):
        exact_case(ctx, case, rng, lines, pend)
    outs = ctx.model(lines)
    for out, (tag, payload, case, rec) in zip(outs, pend):
        compare_exact(ctx, out, tag, payload, case, rec)
    ctx.traces += len(lines)
    O.transcendental(ctx, rng)
    O.proposal_level(ctx, rng)
    O.findings(ctx, rng)


def search(ctx):
    """enlarged failing-input search: more seeds of the same generators, oracle only"""
    import random
    from . import c07_oracle as O
    import time
    t0 = time.time()
    budget = 60 if ctx.quick else 600
    k = 0
    while time.time() - t0 < budget and not ctx.fails:
        k += 1
        rng = random.Random(f"search-{ctx.seed}-{k}")
        lines, pend = [], []
        for case in G.exact_cases(ctx, rng):
            exact_case(ctx, case, rng, lines, pend)
        O.transcendental(ctx, rng)
        if k >= 20:
            break


def replay(ctx, obj):
    import random
    from . import c07_oracle as O
    case = obj["case"]
    rng = random.Random(f"replay-{obj.get('seed', 0)}")
    layer = case.get("layer")
    if layer == "exact":
        case = {k: v for k, v in case.items() if k != "row"}
        lines, pend = [], []
        exact_case(ctx, case, rng, lines, pend)
        outs = ctx.model(lines)
        for out, (tag, payload, c, rec) in zip(outs, pend):
            compare_exact(ctx, out, tag, payload, c, rec)
    elif layer in ("transcendental", "proposal", "finding"):
        O.replay_case(ctx, case, rng)
    else:
        correspond(ctx)
